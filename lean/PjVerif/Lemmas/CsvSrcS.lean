/-
  Lemmas/CsvSrcS.lean — CSV I/O, READ side, `raws_to_wbs` (io/raw.py), top file of the chain CsvSrcS1 … CsvSrcS4.
  Proven (general, every library `L`, any store):
  * first loop (CsvSrcS1, S2): `attr_body` / `attr_loop` (the `if k not in dir(t): setattr` copy = `attrStep`),
    `eval_msE`, `eval_taskCall` (`Task(...)` = `taskEnvOf`), `mk_body`, `mk_loop` (one task `mkTask (E o)` per raw
    object, allocated in order; `tasks_by_id` = `byId`).  Hypothesis `RawOK`: the standard cells are scalars and
    estimate / spent are not negative (the program raises RuntimeError there, `expectRead` does not look).
  * second loop (CsvSrcS3, S4): `link_body` (one round = `linkStep`: child of `tasks_by_id.get(parent_id)` through
    `setParent` twice, a root when the parent id is None or names no task), `link_loop` (the fold of `linkStep` over the
    rows; raw objects below `n`, tasks from `n` on: `setParent_low`, `setParent_inv`).
  NOT done: the `roots` loop into `WBS()`, the third loop (`wbs[id]`, predecessors), the pure reading of the folds as
  `rebuildForest`, the statement of CsvSrcCheckC.
-/
import PjVerif.Lemmas.CsvSrcS4
namespace Pj.CsvSrc

#print axioms mk_loop
#print axioms link_body
#print axioms link_loop

end Pj.CsvSrc
