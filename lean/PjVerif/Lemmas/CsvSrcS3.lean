/-
  Lemmas/CsvSrcS3.lean — CSV I/O, READ side, `raws_to_wbs`: the SECOND loop (hierarchy), one round.
-/
import PjVerif.Lemmas.CsvSrcS2
namespace Pj.CsvSrc
open Pj.PyLite Pj.Extracted.Csv Pj.Csv

section more
variable {H : PHandlers} {self : PyLite.Env}
theorem eval_dictGet {d k : Expr} {env : PyLite.Env} {st st1 st2 : PState} {kvs : List (Atom × Atom)} {kk : Atom}
    (hd : d.evalP H self env st = .ok (.dict kvs, st1)) (hk : k.evalP H self env st1 = .ok (.atom kk, st2)) :
    (Expr.dictGet d k).evalP H self env st = .ok (.atom ((Dict.get? kvs kk).getD .none), st2) := by
  simp only [Expr.evalP, hd, hk, bind, Except.bind, pure, Except.pure]
  cases Dict.get? kvs kk <;> rfl
end more

theorem ioFn_append_child (L : IOLib) (st : PState) (p t : Nat) :
    ioFn L 104 [.atom (.ref p), .atom (.ref t)] st = .ok (.atom .none, setParent st t p) := by
  unfold ioFn
  rw [if_neg (by decide), if_neg (by decide), if_neg (by decide), if_neg (by decide), if_pos rfl]
  rfl

theorem ioFn_set_parent (L : IOLib) (st : PState) (p t : Nat) :
    ioFn L 105 [.atom (.ref t), .atom (.ref p)] st = .ok (.atom .none, setParent st t p) := by
  unfold ioFn
  rw [if_neg (by decide), if_neg (by decide), if_neg (by decide), if_neg (by decide), if_neg (by decide), if_pos rfl]
  rfl

def addRootS : Stmt := .assign "roots" (.bin .add (.var "roots") (.listCons (.var "task") .listNil))

def linkBody : List Stmt :=
  [.assign "task" (.dictIndex (.var "tasks_by_id") (.attr (.var "raw") "id")),
   .ifElse (.isNotNone (.attr (.var "raw") "parent_id"))
     [.assign "parent_task" (.dictGet (.var "tasks_by_id") (.attr (.var "raw") "parent_id")),
      .ifElse (.isNotNone (.var "parent_task"))
        [.expr (.callFn 104 (.listCons (.var "parent_task") (.listCons (.var "task") .listNil))),
         .expr (.callFn 105 (.listCons (.var "task") (.listCons (.var "parent_task") .listNil)))]
        [addRootS]]
     [addRootS]]

/-- one round of the second loop on the store and the list `roots`: the task `t` of the row becomes a child of the task
    `tasks_by_id.get(parent_id)`, a root when the parent id is None or names no task -/
def linkStep (D : List (Atom × Atom)) (t : Nat) (p : Atom) (s : PState × List Atom) : PState × List Atom :=
  if p = .none then (s.1, s.2 ++ [.ref t]) else
    match Dict.get? D p with
    | some (.ref q) => (setParent (setParent s.1 t q) t q, s.2)
    | _ => (s.1, s.2 ++ [.ref t])

theorem exec_addRoot (H : PHandlers) (rec) (env : PyLite.Env) (st : PState) (rs : List Atom) (t : Nat)
    (hr : env.get? "roots" = some (.list rs)) (ht : env.get? "task" = some (.atom (.ref t))) :
    execBlockP H [] rec [addRootS] env st = .normal (env.set "roots" (.list (rs ++ [.ref t]))) st := by
  rw [addRootS, block_cons_normal (exec_assign (eval_bin (op := .add) (eval_var hr)
    (eval_cons (eval_var ht) eval_nil) rfl))]
  rfl

theorem link_body (L : IOLib) (F : Nat) (rec) (env : PyLite.Env) (st : PState) (o t : Nat) (a p : Atom)
    (D : List (Atom × Atom)) (rs : List Atom)
    (hraw : env.get? "raw" = some (.atom (.ref o))) (hD : env.get? "tasks_by_id" = some (.dict D))
    (hr : env.get? "roots" = some (.list rs))
    (hid : (st.heap o).get? "id" = some (.atom a)) (hpid : (st.heap o).get? "parent_id" = some (.atom p))
    (hget : Dict.get? D a = some (.ref t)) (hrefs : ∀ v, Dict.get? D p = some v → ∃ q, v = .ref q) :
    ∃ env', execBlockP (HH L (F + 1)) [] rec linkBody env st = .normal env' (linkStep D t p (st, rs)).1 ∧
      env'.get? "roots" = some (.list (linkStep D t p (st, rs)).2) ∧
      Frame ["task", "parent_task", "roots"] env env' := by
  let env1 := env.set "task" (.atom (.ref t))
  have h1 : (Stmt.assign "task" (.dictIndex (.var "tasks_by_id") (.attr (.var "raw") "id"))).execP (HH L (F + 1)) [] rec
      env st = .normal env1 st :=
    exec_assign (eval_dictIndex (eval_var hD) (eval_attr (eval_var hraw) hid) hget)
  have hraw1 : env1.get? "raw" = some (.atom (.ref o)) := by rw [envGet_set, if_neg (by decide)]; exact hraw
  have hD1 : env1.get? "tasks_by_id" = some (.dict D) := by rw [envGet_set, if_neg (by decide)]; exact hD
  have hr1 : env1.get? "roots" = some (.list rs) := by rw [envGet_set, if_neg (by decide)]; exact hr
  have ht1 : env1.get? "task" = some (.atom (.ref t)) := by rw [envGet_set, if_pos rfl]
  have hfr1 : Frame ["task", "parent_task", "roots"] env env1 := Frame.set env "task" _ (by simp)
  have hc1 := eval_isNotNone (H := HH L (F + 1)) (self := []) (eval_attr (eval_var hraw1) hpid)
  unfold linkBody
  rw [block_cons_normal h1, execBlockP, exec_ifElse hc1 rfl]
  by_cases hp : p = .none
  · subst hp
    simp only [decide_true, Bool.not_true, Bool.false_eq_true, if_false]
    rw [exec_addRoot _ rec env1 st rs t hr1 ht1]
    refine ⟨env1.set "roots" (.list (rs ++ [.ref t])), rfl, by rw [envGet_set, if_pos rfl]; simp [linkStep], hfr1.trans (Frame.set env1 "roots" _ (by simp))⟩
  · have hne : (Val.atom p = Val.atom Atom.none) = False := by simp [hp]
    simp only [hne, decide_false, Bool.not_false, if_true]
    let pt : Atom := (Dict.get? D p).getD .none
    let env2 := env1.set "parent_task" (.atom pt)
    have h2 : (Stmt.assign "parent_task" (.dictGet (.var "tasks_by_id") (.attr (.var "raw") "parent_id"))).execP
        (HH L (F + 1)) [] rec env1 st = .normal env2 st :=
      exec_assign (eval_dictGet (eval_var hD1) (eval_attr (eval_var hraw1) hpid))
    have hr2 : env2.get? "roots" = some (.list rs) := by rw [envGet_set, if_neg (by decide)]; exact hr1
    have ht2 : env2.get? "task" = some (.atom (.ref t)) := by rw [envGet_set, if_neg (by decide)]; exact ht1
    have hpt2 : env2.get? "parent_task" = some (.atom pt) := by rw [envGet_set, if_pos rfl]
    have hfr2 : Frame ["task", "parent_task", "roots"] env env2 :=
      hfr1.trans (Frame.set env1 "parent_task" _ (by simp))
    have hc2 := eval_isNotNone (H := HH L (F + 1)) (self := []) (st := st) (eval_var hpt2)
    rw [block_cons_normal h2, execBlockP, exec_ifElse hc2 rfl]
    cases hg : Dict.get? D p with
    | none =>
      have hpt : pt = .none := by simp [pt, hg]
      simp only [hpt, decide_true, Bool.not_true, Bool.false_eq_true, if_false]
      rw [exec_addRoot _ rec env2 st rs t hr2 ht2]
      refine ⟨env2.set "roots" (.list (rs ++ [.ref t])), by simp [linkStep, hp, hg, execBlockP],
        by rw [envGet_set, if_pos rfl]; simp [linkStep, hp, hg],
        hfr2.trans (Frame.set env2 "roots" _ (by simp))⟩
    | some v =>
      obtain ⟨q, rfl⟩ := hrefs v hg
      have hpt : pt = .ref q := by simp [pt, hg]
      have hne2 : (Val.atom pt = Val.atom Atom.none) = False := by simp [hpt]
      simp only [hne2, decide_false, Bool.not_false, if_true]
      rw [hpt] at hpt2
      rw [block_cons_normal (exec_expr (v := .atom .none) ((eval_callFn (evalArgs_cons (eval_var hpt2)
          (evalArgs_cons (eval_var ht2) evalArgs_nil))).trans ((HH_fnV_lib L F 104 _ _ rfl).trans
          (ioFn_append_child L st q t)))),
        block_cons_normal (exec_expr (v := .atom .none) ((eval_callFn (evalArgs_cons (eval_var ht2)
          (evalArgs_cons (eval_var hpt2) evalArgs_nil))).trans ((HH_fnV_lib L F 105 _ _ rfl).trans
          (ioFn_set_parent L (setParent st t q) q t))))]
      refine ⟨env2, by simp [linkStep, hp, hg, execBlockP], by rw [hr2]; simp [linkStep, hp, hg], hfr2⟩

end Pj.CsvSrc
