/- Lemmas/Calendar.lean — helper lemmas for Props/C17.lean -/
import PjVerif.Spec.Calendar
namespace Pj


/-- `den` result rendered as an evaluation result -/
def liftDen : Option (Option Rat) → Res (Option Rat)
  | some v => .ok v
  | none => .error (.crash .zeroDivision)

theorem mkFixed_ok {u : Rat} {s e : Option Time} {c : Cal} (h : mkFixed u s e = .ok c) :
    c = .fixed u s e := by
  unfold mkFixed at h
  split at h
  · cases h
  · split at h
    · cases h
    · cases h; rfl

theorem mkWeeklyList_ok {s e : Option Time} {days : List Int} {u : Rat} {c : Cal}
    (h : mkWeeklyList s e days u = .ok c) :
    c = .weekly s e ((List.range 7).map
          (fun (i : Nat) => if days.contains (Int.ofNat i) then u else 0)) := by
  unfold mkWeeklyList at h
  repeat' split at h
  all_goals cases h
  rfl

theorem mkWeeklyDict_ok {s e : Option Time} {d : List (Int × Rat)} {c : Cal}
    (h : mkWeeklyDict s e d = .ok c) :
    c = .weekly s e ((List.range 7).map (fun (i : Nat) => dictGet d (Int.ofNat i))) := by
  unfold mkWeeklyDict at h
  repeat' split at h
  all_goals cases h
  rfl

theorem mkDirect_ok {items : List (Time × Rat)} {c : Cal} (h : mkDirect items = .ok c) :
    c = .direct (items.map (fun p => (dayOf p.1, p.2))) := by
  unfold mkDirect at h
  split at h
  · cases h
  · cases h; rfl

theorem weekday_lt (t : Time) : weekday t < 7 := by
  unfold weekday
  omega

theorem getD_range_map (f : Nat → Rat) (n i : Nat) (h : i < n) :
    ((List.range n).map f).getD i 0 = f i := by
  simp [List.getD, h]

theorem eval_weekly (s e : Option Time) (h : List Rat) (t : Time) :
    (Cal.weekly s e h).eval t =
      .ok (if before? t s || after? t e then none else some (h.getD (weekday t) 0)) := by
  cases s <;> cases e <;> simp [Cal.eval, before?, after?, pure, Except.pure] <;>
    (repeat' split) <;> simp_all

theorem eval_fixed (u : Rat) (s e : Option Time) (t : Time) :
    (Cal.fixed u s e).eval t =
      .ok (if before? t s || after? t e then some 0 else some u) := by
  cases s <;> cases e <;> simp [Cal.eval, before?, after?, pure, Except.pure] <;>
    (repeat' split) <;> simp_all

theorem eval_direct (items : List (Time × Rat)) (t : Time) :
    (Cal.direct (items.map (fun p => (dayOf p.1, p.2)))).eval t =
      .ok ((items.reverse.find? (fun p => dayOf p.1 == dayOf t)).map (·.2)) := by
  simp [Cal.eval, directLookup, pure, Except.pure, ← List.map_reverse, List.find?_map,
    Function.comp_def]

/-- the spec's combination of the operands' meanings (body of `CExpr.den` for `.op`) -/
def denComb (k : OpKind) (dx dy : Option (Option Rat)) : Option (Option Rat) :=
  match dx with
  | none => none
  | some x =>
    if k == .or && posOpt x then some x
    else match dy with
      | none => none
      | some y => denOp k x y

theorem eval_mkOp (k : OpKind) (ca cb : Cal) (t : Time) (dx dy : Option (Option Rat))
    (ha : ca.eval t = liftDen dx) (hb : cb.eval t = liftDen dy) :
    (mkOp k ca cb).eval t = liftDen (denComb k dx dy) := by
  cases k <;> rcases dx with _ | _ | x <;> rcases dy with _ | _ | y <;>
    simp [mkOp, Cal.eval, ha, hb, liftDen, denComb, denOp, accum, divOp, posOpt, bind, Except.bind,
      pure, Except.pure, throw, throwThe, MonadExceptOf.throw] <;>
    (repeat' split) <;> simp_all


theorem build_op_num (k : OpKind) (a : CExpr) (u : Rat) :
    (CExpr.op k a (.num u)).build =
      (a.build >>= fun ca =>
        if k = .div ∧ u = 0 then throw .runtime
        else mkFixed u none none >>= fun cb => pure (mkOp k ca cb)) := by
  simp [CExpr.build]

theorem build_op_other (k : OpKind) (a b : CExpr) (h : ∀ u, b ≠ .num u) :
    (CExpr.op k a b).build =
      (a.build >>= fun ca => b.build >>= fun cb => pure (mkOp k ca cb)) := by
  cases b <;> first | (exact absurd rfl (h _)) | simp [CExpr.build]

theorem den_op (k : OpKind) (a b : CExpr) (t : Time) :
    (CExpr.op k a b).den t = denComb k (a.den t) (b.den t) := by
  rw [CExpr.den]; rfl

/-- `C17_eval_den` with the result rendered through `liftDen` -/
theorem eval_den_lift (e : CExpr) (t : Time) :
    ∀ (c : Cal), e.wellShaped = true → e.build = .ok c → c.eval t = liftDen (e.den t) := by
  induction e with
  | weeklyList s e days u =>
    intro c _ hb
    rw [mkWeeklyList_ok hb, eval_weekly, getD_range_map _ _ _ (weekday_lt t)]
    simp only [CExpr.den]
    split <;> rfl
  | weeklyDict s e d =>
    intro c _ hb
    rw [mkWeeklyDict_ok hb, eval_weekly, getD_range_map _ _ _ (weekday_lt t)]
    simp only [CExpr.den]
    split <;> rfl
  | direct items =>
    intro c _ hb
    rw [mkDirect_ok hb, eval_direct]
    rfl
  | fixed u s e =>
    intro c _ hb
    rw [mkFixed_ok hb, eval_fixed]
    simp only [CExpr.den]
    split <;> rfl
  | num u =>
    intro c hs _
    simp [CExpr.wellShaped] at hs
  | op k a b iha ihb =>
    intro c hs hb
    rw [den_op]
    by_cases hnum : ∃ u, b = .num u
    · obtain ⟨u, rfl⟩ := hnum
      simp only [CExpr.wellShaped, Bool.and_true] at hs
      rw [build_op_num] at hb
      cases hca : a.build with
      | error err => rw [hca] at hb; cases hb
      | ok ca =>
        rw [hca] at hb
        simp only [bind, Except.bind] at hb
        split at hb
        · cases hb
        · cases hcb : mkFixed u none none with
          | error err => rw [hcb] at hb; cases hb
          | ok cb =>
            rw [hcb] at hb
            cases hb
            refine eval_mkOp k ca cb t _ _ (iha ca hs hca) ?_
            rw [mkFixed_ok hcb, eval_fixed]
            rfl
    · have hnum' : ∀ u, b ≠ .num u := fun u h => hnum ⟨u, h⟩
      rw [build_op_other k a b hnum'] at hb
      have hs' : a.wellShaped = true ∧ b.wellShaped = true := by
        cases b <;> first | (exact absurd rfl (hnum' _)) | simpa [CExpr.wellShaped] using hs
      cases hca : a.build with
      | error err => rw [hca] at hb; cases hb
      | ok ca =>
        rw [hca] at hb
        cases hcb : b.build with
        | error err => rw [hcb] at hb; cases hb
        | ok cb =>
          rw [hcb] at hb
          cases hb
          exact eval_mkOp k ca cb t _ _ (iha ca hs'.1 hca) (ihb cb hs'.2 hcb)


/-! ### availability search -/


theorem shift_eq (t : Time) (dir : Int) (k : Nat) :
    t + (dir : Rat) + (k : Rat) * (dir : Rat) = t + ((k + 1 : Nat) : Rat) * (dir : Rat) := by
  grind

theorem zero_eq (t : Time) (dir : Int) : t + ((0 : Nat) : Rat) * (dir : Rat) = t := by
  grind

theorem SearchSpec_shift (cap : Time → Rat) (dir : Int) (H : Nat) (t : Time) (r : Res Time)
    (h0 : ¬ hit cap dir t) (h : SearchSpec cap dir H (t + (dir : Rat)) r) :
    SearchSpec cap dir (H + 1) t r := by
  have hmin : ∀ k : Nat, (∀ j : Nat, j < k → ¬ hit cap dir (t + (dir : Rat) + (j : Rat) * (dir : Rat))) →
      ∀ j : Nat, j < k + 1 → ¬ hit cap dir (t + (j : Rat) * (dir : Rat)) := by
    intro k hk j hj
    cases j with
    | zero => rw [zero_eq]; exact h0
    | succ j => rw [← shift_eq]; exact hk j (by omega)
  match r, h with
  | .ok d, h =>
    obtain ⟨k, hk, hd, hhit, hm⟩ := h
    exact ⟨k + 1, by omega, by rw [hd, shift_eq], hhit, hmin k hm⟩
  | .error .runtime, h => exact hmin H h
  | .error (.crash _), h => exact h.elim

theorem search_spec (c : Cal) (cap : Time → Rat) (hcap : ∀ x, capR c x = .ok (cap x))
    (dir : Int) : ∀ (H : Nat) (t : Time), SearchSpec cap dir H t (search c dir H t) := by
  intro H
  induction H with
  | zero =>
    intro t k hk
    omega
  | succ H ih =>
    intro t
    have hstep : search c dir (H + 1) t =
        if 0 < (if dir < 0 then cap (t - 1) else cap t) then .ok t
        else search c dir H (t + (dir : Rat)) := by
      conv => lhs; unfold search
      split <;> simp only [bind, Except.bind, *] <;> rfl
    rw [hstep]
    by_cases hpos : 0 < (if dir < 0 then cap (t - 1) else cap t)
    · rw [if_pos hpos]
      refine ⟨0, by omega, (zero_eq t dir).symm, ?_, fun j hj => by omega⟩
      unfold hit
      split <;> simp_all
    · rw [if_neg hpos]
      refine SearchSpec_shift cap dir H t _ ?_ (ih _)
      unfold hit
      split <;> simp_all

theorem SearchSpec_unique (cap : Time → Rat) (dir : Int) (H : Nat)
    (t : Time) (r r' : Res Time)
    (h : SearchSpec cap dir H t r) (h' : SearchSpec cap dir H t r') : r = r' := by
  match r, r', h, h' with
  | .error (.crash _), _, h, _ => exact h.elim
  | _, .error (.crash _), _, h' => exact h'.elim
  | .error .runtime, .error .runtime, _, _ => rfl
  | .ok d, .error .runtime, h, h' =>
    obtain ⟨k, hk, hd, hhit, _⟩ := h
    exact absurd (hd ▸ hhit) (h' k hk)
  | .error .runtime, .ok d, h, h' =>
    obtain ⟨k, hk, hd, hhit, _⟩ := h'
    exact absurd (hd ▸ hhit) (h k hk)
  | .ok d, .ok d', h, h' =>
    obtain ⟨k, hk, hd, hhit, hm⟩ := h
    obtain ⟨k', hk', hd', hhit', hm'⟩ := h'
    have : k = k' := by
      rcases Nat.lt_trichotomy k k' with hlt | heq | hgt
      · exact absurd (hd ▸ hhit) (hm' k hlt)
      · exact heq
      · exact absurd (hd' ▸ hhit') (hm k' hgt)
    subst this
    rw [hd, hd']

theorem searchSpecB_sound (cap : Time → Rat) (dir : Int) (H : Nat) (t : Time) (r : Res Time)
    (h : searchSpecB cap dir H t r = true) : SearchSpec cap dir H t r := by
  match r, h with
  | .ok d, h =>
    simp only [searchSpecB, List.any_eq_true, List.mem_range, Bool.and_eq_true, beq_iff_eq,
      List.all_eq_true, Bool.not_eq_true'] at h
    obtain ⟨k, hk, ⟨hd, hhit⟩, hm⟩ := h
    refine ⟨k, hk, hd, ?_, ?_⟩
    · unfold hit; split <;> simp_all
    · intro j hj
      have := hm j hj
      unfold hit; split <;> simp_all
  | .error .runtime, h =>
    simp only [searchSpecB, List.all_eq_true, List.mem_range, Bool.not_eq_true'] at h
    intro k hk
    have := h k hk
    unfold hit; split <;> simp_all
  | .error (.crash _), h => simp [searchSpecB] at h


/-! ### `C17_ctor_rejects`: counterexample to the statement as written, and the corrected form -/

/-- `C17_ctor_rejects` is false as stated: a `weeklyDict` whose key list repeats a key with a
    negative value in a shadowed position is `invalid` (the spec looks at every pair) but builds
    (the model's `dictGet` only sees the first pair per key). -/
theorem ctor_rejects_counterexample :
    let e : CExpr := .weeklyDict none none [(0, 1), (0, -1)]
    e.wellShaped = true ∧ e.invalid = true ∧ (e.build).isOk = true := by
  decide +kernel

/-- Python dicts have unique keys; the `List (Int × Rat)` encoding of `weeklyDict` does not enforce it -/
theorem find?_key_of_nodup (d : List (Int × Rat)) (hn : (d.map (·.1)).Nodup) (p : Int × Rat)
    (hp : p ∈ d) : d.find? (fun q => q.1 == p.1) = some p := by
  induction d with
  | nil => cases hp
  | cons q d ih =>
    simp only [List.map_cons, List.nodup_cons] at hn
    rcases List.mem_cons.1 hp with rfl | hp
    · simp
    · have : q.1 ≠ p.1 := fun h => hn.1 (h ▸ List.mem_map_of_mem hp)
      simp [this, ih hn.2 hp]

theorem dictGet_neg_mem (d : List (Int × Rat)) (i : Int) (h : dictGet d i < 0) :
    ∃ p ∈ d, p.2 < 0 := by
  unfold dictGet at h
  split at h
  · next p hp => exact ⟨p, List.mem_of_find?_eq_some hp, h⟩
  · exact absurd h (by decide)

theorem mkFixed_eq (u : Rat) (s e : Option Time) :
    mkFixed u s e =
      if (decide (u < 0) || startAfterEnd s e) = true then .error .runtime else .ok (.fixed u s e) := by
  unfold mkFixed
  by_cases h1 : u < 0 <;> by_cases h2 : startAfterEnd s e = true <;> simp [h1, h2] <;> rfl

theorem mkWeeklyList_rejects (s e : Option Time) (days : List Int) (u : Rat) :
    ((CExpr.weeklyList s e days u).invalid = true → mkWeeklyList s e days u = .error .runtime) ∧
    ((CExpr.weeklyList s e days u).invalid = false → ∃ c, mkWeeklyList s e days u = .ok c) := by
  unfold mkWeeklyList CExpr.invalid
  by_cases h1 : (days.any fun v => decide (v < 0) || decide (v > 6)) = true <;>
  by_cases h2 : startAfterEnd s e = true <;> by_cases h3 : u < 0 <;>
    simp [h1, h2, h3, throw, throwThe, MonadExceptOf.throw, pure, Except.pure]

theorem mkDirect_rejects (items : List (Time × Rat)) :
    ((CExpr.direct items).invalid = true → mkDirect items = .error .runtime) ∧
    ((CExpr.direct items).invalid = false → ∃ c, mkDirect items = .ok c) := by
  unfold mkDirect CExpr.invalid
  by_cases h1 : (items.any fun p => decide (p.2 < 0)) = true <;>
    simp [h1, throw, throwThe, MonadExceptOf.throw, pure, Except.pure]

theorem mkFixed_rejects (u : Rat) (s e : Option Time) :
    ((CExpr.fixed u s e).invalid = true → mkFixed u s e = .error .runtime) ∧
    ((CExpr.fixed u s e).invalid = false → ∃ c, mkFixed u s e = .ok c) := by
  rw [mkFixed_eq]; unfold CExpr.invalid
  by_cases h : (decide (u < 0) || startAfterEnd s e) = true <;> simp [h]

theorem mkWeeklyDict_rejects (s e : Option Time) (d : List (Int × Rat))
    (hn : (d.map (·.1)).Nodup) :
    ((CExpr.weeklyDict s e d).invalid = true → mkWeeklyDict s e d = .error .runtime) ∧
    ((CExpr.weeklyDict s e d).invalid = false → ∃ c, mkWeeklyDict s e d = .ok c) := by
  unfold mkWeeklyDict CExpr.invalid
  by_cases h2 : startAfterEnd s e = true
  · simp [h2, throw, throwThe, MonadExceptOf.throw]
  by_cases h1 : (d.any fun p => decide (p.1 < 0) || decide (p.1 > 6)) = true
  · have : (d.any fun p => decide (p.1 < 0) || decide (p.1 > 6) || decide (p.2 < 0)) = true := by
      simp only [List.any_eq_true] at h1 ⊢
      obtain ⟨p, hp, h⟩ := h1
      exact ⟨p, hp, by simp [h]⟩
    simp [h2, h1, this, throw, throwThe, MonadExceptOf.throw]
  by_cases h3 : ((List.range 7).any fun (i : Nat) => decide (dictGet d (Int.ofNat i) < 0)) = true
  · have : (d.any fun p => decide (p.1 < 0) || decide (p.1 > 6) || decide (p.2 < 0)) = true := by
      simp only [List.any_eq_true, decide_eq_true_eq] at h3 ⊢
      obtain ⟨i, _, hi⟩ := h3
      obtain ⟨p, hp, hneg⟩ := dictGet_neg_mem d _ hi
      exact ⟨p, hp, by simp [hneg]⟩
    rw [if_neg h2, if_neg h1, if_pos h3]
    simp [this, throw, throwThe, MonadExceptOf.throw]
  · have : (d.any fun p => decide (p.1 < 0) || decide (p.1 > 6) || decide (p.2 < 0)) = false := by
      rw [Bool.eq_false_iff]
      intro hany
      simp only [List.any_eq_true] at hany
      obtain ⟨p, hp, h⟩ := hany
      have hr : ¬ (p.1 < 0) ∧ ¬ (p.1 > 6) := by
        have := fun hh => h1 (List.any_eq_true.2 ⟨p, hp, hh⟩)
        simpa using this
      have hneg : p.2 < 0 := by simpa [hr.1, hr.2] using h
      apply h3
      simp only [List.any_eq_true, List.mem_range, decide_eq_true_eq]
      refine ⟨p.1.toNat, by omega, ?_⟩
      have hcast : Int.ofNat p.1.toNat = p.1 := by simp; omega
      rw [hcast]
      unfold dictGet
      rw [find?_key_of_nodup d hn p hp]
      exact hneg
    rw [if_neg h2, if_neg h1, if_neg h3]
    simp [h2, this, pure, Except.pure]

/-- corrected form of `C17_ctor_rejects`: holds when `weeklyDict` key lists are duplicate-free -/
theorem ctor_rejects_of_nodup (e : CExpr) :
    e.wellShaped = true → e.dictKeysNodup = true →
    (e.invalid = true → e.build = .error .runtime) ∧
    (e.invalid = false → ∃ c, e.build = .ok c) := by
  induction e with
  | weeklyList s e days u => intro _ _; exact mkWeeklyList_rejects s e days u
  | weeklyDict s e d =>
    intro _ hn
    exact mkWeeklyDict_rejects s e d (by simpa [CExpr.dictKeysNodup] using hn)
  | direct items => intro _ _; exact mkDirect_rejects items
  | fixed u s e => intro _ _; exact mkFixed_rejects u s e
  | num u => intro hs; simp [CExpr.wellShaped] at hs
  | op k a b iha ihb =>
    intro hs hn
    simp only [CExpr.dictKeysNodup, Bool.and_eq_true] at hn
    by_cases hnum : ∃ u, b = .num u
    · obtain ⟨u, rfl⟩ := hnum
      simp only [CExpr.wellShaped, Bool.and_true] at hs
      obtain ⟨ia, ib⟩ := iha hs hn.1
      rw [build_op_num]
      cases hinv : a.invalid with
      | true => simp [CExpr.invalid, hinv, ia hinv, bind, Except.bind]
      | false =>
        obtain ⟨ca, hca⟩ := ib hinv
        rw [hca, mkFixed_eq]
        by_cases h0 : u = 0 <;> by_cases hk : k = .div <;> by_cases hu : u < 0 <;>
          simp_all [CExpr.invalid, startAfterEnd, bind, Except.bind, throw, throwThe,
            MonadExceptOf.throw, pure, Except.pure]
    · have hnum' : ∀ u, b ≠ .num u := fun u h => hnum ⟨u, h⟩
      have hs' : a.wellShaped = true ∧ b.wellShaped = true := by
        cases b <;> first | (exact absurd rfl (hnum' _)) | simpa [CExpr.wellShaped] using hs
      have hinvEq : (CExpr.op k a b).invalid = (a.invalid || b.invalid) := by
        cases b <;> first | (exact absurd rfl (hnum' _)) | simp [CExpr.invalid]
      obtain ⟨ia, ib⟩ := iha hs'.1 hn.1
      obtain ⟨ja, jb⟩ := ihb hs'.2 hn.2
      rw [build_op_other k a b hnum', hinvEq]
      cases hinv : a.invalid with
      | true => simp [ia hinv, bind, Except.bind]
      | false =>
        obtain ⟨ca, hca⟩ := ib hinv
        cases hinvb : b.invalid with
        | true => simp [hca, ja hinvb, bind, Except.bind]
        | false =>
          obtain ⟨cb, hcb⟩ := jb hinvb
          simp [hca, hcb, bind, Except.bind, pure, Except.pure]

end Pj
