/-
  Lemmas/WbsSrc.lean — wbs.py, class `WBS`: the hand-written models (Model/GraphOps.lean `wbsTasks`, `wbsGet`,
  `setChildren` on the hidden root, `floordiv`, `removeRec` / `wbsRemove`, `forEach wbsRemove` (the `wbsRemoveAll` of
  `step`); Model/Clone.lean `cloneSel` / `cloneWbs`) equal the interpretation of the CURRENT SOURCE of

    WBS.tasks   WBS.__getitem__   the `roots` property (getter / setter)   WBS.__floordiv__ (with Task.__floordiv__)
    WBS.remove with WBS.__remove and _ChildrenList.remove                  WBS.remove_all
    WBS.clone / WBS.subtree with WBS.__clone, WBS.__clone_tasks and its closure `link_target`

  (Extracted/WbsSrc.lean, regenerated from src/pjplan/wbs.py and task.py by tools/extract_wbs.py on every check), run
  as a program LAYERED over the translated program of task.py (Model/PyLiteW.lean `progW`): the callees - the four
  relation setters of `Task`, `_to_list`, `all_children`, `_check_not_none`, the `parent` getter - are the translated
  functions of Extracted/TaskSrc.lean, a call of them is the run `runProg taskPrim taskFuns`, and the theorems of
  Lemmas/TaskSrc*.lean are used for them as they stand.

  Files.  This file: encoding, primitives, entry points, `removeRecS`.  WbsSrcA.lean: stage 1.  WbsSrcB.lean: stage 2.
  WbsSrcC1.lean / WbsSrcM.lean / WbsSrcC.lean: stage 3 (dicts and constructors / the model-level commutation / the
  theorem).  WbsSrcCheck.lean, WbsSrcCheckC.lean: the kernel-checked concrete runs.  The negative check: end of
  WbsSrcC.lean.

  Setting (in addition to Lemmas/TaskSrc.lean: `encHeap`, `setterResult`, `ValueOf`, the fuel of nested calls).
  * A WBS object is its hidden root `ref w`; `self.__root` / `_root()` is the identity primitive.
  * `interpW filt F k args st`: the k-th function (of either table) with at most `F` nested calls.
  * Primitives.  `wbsPrim filt`: `_root`; `tasks_call` - the filter evaluation `self.tasks(key, **kwargs)`: the list
    `filt args st` (ANY function of the arguments and the state: the theorems hold for every `filt`); `copy_attrs` -
    copying the public attributes of a WBS object, which the encoding does not have: `None`.
    `wbsFn`: the constructors.  `Task.clone()` (`pf_Task_clone`) allocates the object `ref st.reads` - `reads` is the
    allocation pointer of this layer - with the id of the receiver, no parent, no children, no links, no WBS;
    `WBS()` (`pf_WBS_new`) allocates `ref st.reads` as a hidden root: id EMPTY_TASK_ID, attached to itself.
    (The translator pins the texts of `Task.clone`, `Task.__init__`, `WBS.__init__` these primitives stand for.)
  * New objects: as in Model/Clone.lean's `extend` the fresh uids are `s.n, s.n + 1, …`; the state of a run of
    `clone` / `subtree` is `st` with the store `encHeap s` and the allocation pointer `s.n` (`hr : st.reads = s.n`), the
    result is compared with `cloneResult st r` = the new WBS object `ref nw`, the store `encHeap s'`, the pointer `s'.n`.

  Results (all proofs complete; axioms: propext, Classical.choice, Quot.sound).
    Concrete runs (WbsSrcCheck.lean, WbsSrcCheckC.lean; `decide +kernel`; graphs g1, g2, g3 (cyclic) of TaskSrcCheck and
      g5 (a WBS with links inside, into another WBS whose task shares an id, from / to detached tasks)): `tasks` and
      `roots` on every object; `wbs[i]` for every object and ids present / absent / shared / EMPTY_TASK_ID; `roots = v`,
      `// v` for every task, lists; `remove(t)` for EVERY pair (object, task) of the three graphs, `None`, a list;
      `remove_all` with several choices (found, gone with its parent, of another WBS, none, the cycle);
      `clone()` of four WBS, `subtree` with a summary task, leaves, nested / repeated / reordered roots, `[]`, a single
      task, `None`s, the hidden root, foreign roots with ids of their own, the cyclic state - returned object, allocation
      pointer and ALL objects of the final store.
    Stage 1 (WbsSrcA.lean), for every `s`, every `st` with store `encHeap s`:
      `interpTasks_eq`      wbsTasks s w = some r → s.n + 3 ≤ F → interpTasks F w st = ok (refs r, st)
      `interpGetitem_eq`    s.n + 3 ≤ F → wbsGet s w i ≠ error RecursionError →
                            interpGetitem F w (idA i) st = getResult st (wbsGet s w i)
      `interpRootsGet_eq`   1 ≤ F → interpRootsGet F w st = ok (refs (s.children w), st)
      `interpRootsSet_eq`   ValueOf v l → s.n + 7 ≤ F → (setChildren s w l).2 ≠ RecursionError →
                            interpRootsSet F w v st = setterResult st (setChildren s w l)
      `interpFloordiv_eq`   ValueOf v l → s.n + 8 ≤ F → (floordiv s w l).2 ≠ RecursionError →
                            interpFloordiv F w v st = resultV st v (floordiv s w l)        (the value is `v`)
    Stage 2 (WbsSrcB.lean), no well-formedness hypothesis:
      `children_remove_spec`  `h.children.remove(t)` = `chRemove s h t`, the value = `t ∈ s.children h`
      `remove_rec_spec`     removeRec t f s cur = some r → r's error ≠ RecursionError → f + s.n + 9 ≤ F →
                            self.__remove(t, cur) = removeResult st r     (flag, new state / error)
      `interpRemove_eq`     2 * s.n + 12 ≤ F → (wbsRemove s w t).2 ≠ RecursionError →
                            interpRemove F w (ref t) st = wbsRemoveResult st s w t   (`wbsRemoveResult_state`: its state
                            / error are those of `wbsRemove`, its value the flag of `removeRec`);
                            `interpRemove_none` / `_list`: RuntimeError for an argument that is not a task
      `interpRemoveAll_eq`  ts := filt [self, key, kwargs] st; 2 * s.n + 12 ≤ F →
                            (forEach wbsRemove s ts).2 ≠ RecursionError →
                            interpRemoveAll filt F w key kw st = resultV st (refs ts) (forEach (wbsRemove · w ·) s ts)
      The loop of `__remove` runs over the LIVE list `current.children` (`forLive`): `rm_loop` shows that the run is never
      stuck - a recursive call that returns False leaves the store alone (`removeRecS_false`), one that returns True
      or raises ends the loop.
    Stage 3 (WbsSrcC.lean), for every REACHABLE state (`Inv s`, Spec/Graph.lean), `s.hidden w = true`, `st` with store
      `encHeap s` and allocation pointer `s.n`:
      `interpClone_eq`      (cloneWbs s w).1.n + 12 ≤ F → interpClone F w st = cloneResult st (cloneWbs s w)
      `interpSubtree_eq`    ValueOf v roots → (∀ r ∈ roots, s.owner r = some w ∧ s.hidden r = false) →
                            (cloneSel s w roots).1.n + 12 ≤ F → interpSubtree F w v st = cloneResult st (cloneSel s w roots)
      (`clone_rec_spec`: `__clone`; `clone_tasks_spec`: `__clone_tasks`; `link_target_spec`.)  No recursion proviso: on
      such inputs the model always succeeds (`cloneSel_accepted`, Lemmas/CloneLemmas.lean), hence so does the source.
      Where the control flow differs: (a) the source selects / looks up by ID (dicts `all_tasks`, `cloned_tasks`), the
      model by identity (`dedupFirst`, `cloneOf`) - equal because members of one WBS have ids of their own (C05,
      `idInj_of_member`, `ofList_allDict`, `cloneDict_get`); (b) the source reads the relations of the source tasks
      WHILE the setters run on the clones, the model reads the initial state - equal by the frame lemmas of
      CloneLemmas.lean (`Sound`); (c) the source constructs the new WBS object AFTER the per-task setters, the model
      allocates it first (`extend`) - the setters commute with that construction (`unroot`, WbsSrcM.lean:
      `setParent_unroot`, `setChildren_unroot`, `setPreds_unroot`, `setSuccs_unroot`; `rootHeap`).

  Disagreements.  For reachable states and the inputs of the theorems: none.  Outside them (kernel-checked in
    WbsSrcCheckC.lean, section "outside the hypotheses"): `wbs.subtree(roots)` with a root that is NOT a member of `wbs`
    and shares its id with a selected task, or with a member of `wbs` linked to the selection: the model (identity) and
    the source (dict by id) give different results - e.g. on g5 `wbs0.subtree([t7])`: model ok, source RuntimeError;
    `wbs0.subtree([t1, t9])`: model RuntimeError, source ok with another copy.  Foreign roots with ids of their own agree.

  Limitations.  (1)-(5) of Lemmas/TaskSrc.lean.  (6) A facade / `_ImmutableTaskList` that is returned or passed on
    (`WBS.roots`, `WBS.tasks`, `self.__clone(self.roots)`, the value of `remove_all`) is the list it wraps at that time;
    in `clone()` that is faithful because nothing changes the children of the source root while `__clone` runs (the frame
    property of the theorem), for the returned values it means that the theorems speak about the CONTENT of the list.
    (7) `self.tasks(key, **kwargs)` (`_ImmutableTaskList.__call__`), `Task.clone()` / `Task.__init__`, `WBS()`, the copy
    of public attributes are primitives; `task_id` of `wbs[…]` is an `int`.  (8) Errors carry no state.
    (9) `start`, `end`, `critical_path`, `print`, `__repr__`, `__enter__` / `__exit__` are not translated.
    (10) The allocation pointer is the component `reads` of `PState` (see PYLITE_CHANGES.md).
-/
import PjVerif.Extracted.WbsSrc
import PjVerif.Lemmas.TaskSrc
import PjVerif.Model.Clone
namespace Pj.WbsSrc
open Pj.PyLite Pj.Extracted Pj.TaskSrc

/-- a newly constructed task object: the given id, no relations -/
def newTask (idv : Val) (wbs : Atom) : PyLite.Env :=
  [("id", idv), ("parent", .atom .none), ("children", .list []), ("predecessors", .list []), ("successors", .list []),
   ("wbs", .atom wbs)]

/-- allocate the next object -/
def alloc (st : PState) (obj : PyLite.Env) : PState :=
  { st with heap := fun j => if j = st.reads then obj else st.heap j, reads := st.reads + 1 }

/-- the constructors: `Task.clone()` and `WBS()` -/
def wbsFn : Nat → List Atom → PState → Res (Val × PState) := fun k args st =>
  if k = pf_Task_clone then
    match args with
    | [.ref t] =>
      match (st.heap t).get? "id" with
      | some idv => pure (.atom (.ref st.reads), alloc st (newTask idv .none))
      | none => throw (.crash .attribute)
    | _ => throw stuck
  else if k = pf_WBS_new then
    match args with
    | [] => pure (.atom (.ref st.reads), alloc st (newTask (.atom (idA emptyId)) (.ref st.reads)))
    | _ => throw stuck
  else throw stuck

/-- the read-only primitives of wbs.py; `filt` = the filter evaluation of `self.tasks(key, **kwargs)` -/
def wbsPrim (filt : List Atom → PState → List Uid) : String → List Atom → PState → Res Val := fun name args st =>
  if name = "_root" then
    match args with
    | [.ref w] => pure (.atom (.ref w))
    | _ => throw stuck
  else if name = "tasks_call" then
    match args with
    | [.ref _, _, _] => pure (refs (filt args st))
    | _ => throw stuck
  else if name = "copy_attrs" then
    match args with
    | [.ref _, .ref _] => pure (.atom .none)
    | _ => throw stuck
  else throw stuck

/-- no filter evaluation is involved -/
def noFilt : List Atom → PState → List Uid := fun _ _ => []

/-- the handlers of the layered program with `F` units of fuel -/
abbrev Hw (filt : List Atom → PState → List Uid) (F : Nat) : PHandlers :=
  progW taskPrim taskFuns (wbsPrim filt) wbsFn wbsFuns F

/-- call the k-th function of wbs.py / task.py with at most `fuel` nested calls -/
def interpW (filt : List Atom → PState → List Uid) (fuel : Nat) (k : Nat) (args : List Val) (st : PState) :
    Res (Val × PState) :=
  runProgW taskPrim taskFuns (wbsPrim filt) wbsFn wbsFuns fuel k args st

/-- a Python state with the store `encHeap s` and the allocation pointer `s.n` -/
def withGN (st : PState) (s : G) : PState := { st with heap := encHeap s, reads := s.n }

def encStN (s : G) : PState := { L := [], heap := encHeap s, done := [], res := [], reads := s.n, boxes := [] }

/-! ### entry points -/

/-- `wbs.tasks` -/
def interpTasks (F : Nat) (w : Uid) (st : PState) := interpW noFilt F fn_WBS_tasks [.atom (.ref w)] st
/-- `wbs[i]` -/
def interpGetitem (F : Nat) (w : Uid) (i : Val) (st : PState) := interpW noFilt F fn_WBS_getitem [.atom (.ref w), i] st
/-- `wbs.roots` -/
def interpRootsGet (F : Nat) (w : Uid) (st : PState) := interpW noFilt F fn_WBS_roots_get [.atom (.ref w)] st
/-- `wbs.roots = v` -/
def interpRootsSet (F : Nat) (w : Uid) (v : Val) (st : PState) :=
  interpW noFilt F fn_WBS_roots_set [.atom (.ref w), v] st
/-- `wbs // v` -/
def interpFloordiv (F : Nat) (w : Uid) (v : Val) (st : PState) := interpW noFilt F fn_WBS_floordiv [.atom (.ref w), v] st
/-- `wbs.remove(t)` -/
def interpRemove (F : Nat) (w : Uid) (t : Val) (st : PState) := interpW noFilt F fn_WBS_remove [.atom (.ref w), t] st
/-- `wbs.remove_all(key, **kwargs)`, the filter evaluation being `filt` -/
def interpRemoveAll (filt : List Atom → PState → List Uid) (F : Nat) (w : Uid) (key kw : Atom) (st : PState) :=
  interpW filt F fn_WBS_remove_all [.atom (.ref w), .atom key, .atom kw] st
/-- `wbs.clone()` -/
def interpClone (F : Nat) (w : Uid) (st : PState) := interpW noFilt F fn_WBS_clone [.atom (.ref w)] st
/-- `wbs.subtree(v)` -/
def interpSubtree (F : Nat) (w : Uid) (v : Val) (st : PState) := interpW noFilt F fn_WBS_subtree [.atom (.ref w), v] st

/-! ### `removeRec` by structural recursion

  The model's `removeRec` (Model/GraphOps.lean) is compiled by well-founded recursion (its inner `go` is a nested
  `let rec`), so the kernel cannot evaluate it.  `removeRecS` is the same function by structural recursion on the fuel
  (`removeRecS_eq`); the concrete checks run it, the general theorems use it as the induction scheme. -/

def removeGo (rec : G → Uid → Option (G × Option Err × Bool)) (s : G) : List Uid → Option (G × Option Err × Bool)
  | [] => some (s, none, false)
  | c :: cs =>
    match rec s c with
    | none => none
    | some (s', some e, b) => some (s', some e, b)
    | some (s', none, true) => some (s', none, true)
    | some (_, none, false) => removeGo rec s cs

def removeRecS (t : Uid) : Nat → G → Uid → Option (G × Option Err × Bool)
  | 0, _, _ => none
  | f + 1, s, cur =>
    if (s.children cur).contains t then
      let r := chRemove s cur t
      some (r.1, r.2, true)
    else removeGo (removeRecS t f) s (s.children cur)

theorem removeRec_go_eq (t : Uid) (f : Nat) (s : G) (l : List Uid) :
    removeRec.go t f s l = removeGo (removeRec t f) s l := by
  induction l with
  | nil => rw [removeRec.go]; rfl
  | cons c cs ih =>
    rw [removeRec.go, removeGo]
    rw [ih]
    generalize removeRec t f s c = r
    rcases r with _ | ⟨s', _ | e, _ | _⟩ <;> rfl

theorem removeRecS_eq (t : Uid) : ∀ (f : Nat) (s : G) (cur : Uid), removeRecS t f s cur = removeRec t f s cur := by
  intro f
  induction f with
  | zero => intro s cur; rw [removeRec, removeRecS]
  | succ f ih =>
    intro s cur
    rw [removeRec, removeRecS, removeRec_go_eq]
    have : removeRecS t f = removeRec t f := by funext s c; exact ih s c
    rw [this]

def wbsRemoveS (s : G) (w t : Uid) : G × Option Err :=
  match removeRecS t s.fuel s w with
  | none => (s, some (.crash .recursion))
  | some (s', e, _) => (s', e)

theorem wbsRemoveS_eq (s : G) (w t : Uid) : wbsRemoveS s w t = wbsRemove s w t := by
  unfold wbsRemoveS wbsRemove
  rw [removeRecS_eq]
  generalize removeRec t s.fuel s w = r
  rcases r with _ | ⟨s', e, b⟩ <;> rfl

end Pj.WbsSrc
