/-
  Lemmas/DhtmlxSrc.lean — THE DHTMLX RENDERER'S DATA (viz/dhtmlx/gantt.py, `DhtmlxGantt.__data`): the hand-written model
  (Model/Render.lean: `progressOf`, `postList`, `dhtmlxOrder`, `dhtmlxData`, `dhtmlxLinks`) against the interpretation of
  the CURRENT SOURCE of `__data` (Extracted/DhtmlxSrc.lean, regenerated from src/pjplan/viz/dhtmlx/gantt.py by
  tools/extract_dhtmlx.py on every check), up to but excluding `json.dumps`.  `__columns`, `__task_classes`, `to_html`, the
  templates and the scales are out of scope.  Model/PyLite.lean is NOT changed.

  Files.  This file: the encoding, the primitives, the entry point, the reading of the result, the expected dicts.
  DhtmlxSrcCheck.lean, DhtmlxSrcCheckB.lean: stage 1, kernel-checked concrete runs and families of runs; the summary and the
  NEGATIVE CHECK are the comment block at the end of DhtmlxSrcCheckB.lean.  Stage 2 (general theorems) is NOT done.

  Setting (as Lemmas/RenderSrc.lean).
  * STRINGS are atoms `.str k`, `S : Lib` (Lemmas/PrintSrc.lean) relates keys and texts; `S.text a` is Python's `str(a)`;
    `V.fmt t` is `t.strftime('%d-%m-%Y %H:%M')`; `s.startswith('_Task')` is `isPrefixOf` on the text.
  * A TASK object is `ref t`, described by `pts : Nat → RTask`: `id` an int, `estimate` a number (not None), `spent` a number
    or None, `start` / `end_` datetimes (the task is scheduled), `resource` None or a str, `parent` = `t.parent` (None for a
    child of the hidden root), `children` (the raw list), `preds`, `dict` = the entries of `__dict__` (name ↦ value; it
    may contain the private `_Task__…` entries).  `t.all_children` is the primitive `postList` over `children` (task.py:
    every child followed by its descendants), with the fuel `V.n + 1`.
  * The RENDERER (`self`) is `ref 0`; `V : View`: `self.wbs.roots`, `self.wbs.tasks`, the clock `V.now` (`datetime.now()`; the
    clock is a parameter and reads the same on every call), `V.alloc` the number of the first new object.
  * Lists hold atoms only: a dict that becomes an item of a list (and a list that becomes a value of the final dict) is held
    by a new OBJECT (`construct fn_cell_init`, attribute `v`).  `readOut` reads the two lists of dicts back from the
    result (the argument of `json.dumps`) and the final store.
-/
import PjVerif.Extracted.DhtmlxSrc
import PjVerif.Model.Render
import PjVerif.Lemmas.PrintSrc
namespace Pj.DhtmlxSrc
open Pj.PyLite Pj.Render Pj.Extracted.Dhtmlx
open Pj.PrintSrc (Lib lookupA refsA optRefA one oneTask)

structure RTask where
  id : Int
  name : Str
  milestone : Bool
  start : Time
  end_ : Time
  resource : Option Str
  estimate : Rat
  spent : Option Rat
  parent : Option Nat
  children : List Nat
  preds : List Nat
  dict : List (Str × Atom)
  deriving Inhabited

structure View where
  roots : List Nat
  tasks : List Nat
  n : Nat
  now : Time
  fmt : Time → Str
  alloc : Nat

def toDTask (V : View) (p : RTask) : DTask :=
  { id := p.id, name := p.name, milestone := p.milestone, start := V.fmt p.start, end_ := V.fmt p.end_,
    endPast := decide (p.end_ < V.now), estimate := p.estimate, spent := p.spent,
    parent := (match p.parent with | some q => if V.tasks.contains q then some q else none | none => none),
    children := p.children, preds := p.preds }

/-- the model's input -/
def dAll (V : View) (pts : Nat → RTask) : Nat → DTask := fun i => toDTask V (pts i)

def numA (q : Rat) : Atom := .num q
def optNumA : Option Rat → Atom
  | none => .none
  | some q => .num q

def kTask : Str := "_Task".toList
def kOpen : Str := "gantt_open".toList

/-! ### the primitives -/

def dhtmlxPrim (S : Lib) (V : View) (pts : Nat → RTask) : String → List Atom → PState → Res Val := fun name args _ =>
  if name.startsWith "lit:" then
    (match args with
     | [] => pure (S.s (name.drop 4).toString.toList)
     | _ => throw stuck)
  else if name = "self.wbs" then one args (fun _ => pure (Atom.ref 0))
  else if name = "roots" then one args (fun _ => pure (refsA V.roots))
  else if name = "tasks" then one args (fun _ => pure (refsA V.tasks))
  else if name = "datetime.now" then (match args with | [] => pure (Atom.time V.now) | _ => throw stuck)
  else if name = "name" then oneTask args (fun t => S.s (pts t).name)
  else if name = "id" then oneTask args (fun t => Atom.num ((pts t).id : Rat))
  else if name = "milestone" then oneTask args (fun t => Atom.bool (pts t).milestone)
  else if name = "start" then oneTask args (fun t => Atom.time (pts t).start)
  else if name = "end" then oneTask args (fun t => Atom.time (pts t).end_)
  else if name = "resource" then oneTask args (fun t => S.os (pts t).resource)
  else if name = "estimate" then oneTask args (fun t => Atom.num (pts t).estimate)
  else if name = "spent" then oneTask args (fun t => optNumA (pts t).spent)
  else if name = "parent" then oneTask args (fun t => optRefA (pts t).parent)
  else if name = "predecessors" then oneTask args (fun t => refsA (pts t).preds)
  else if name = "all_children" then oneTask args (fun t => refsA (postList (dAll V pts) (V.n + 1) t))
  else if name = "__dict__" then oneTask args (fun t => .list ((pts t).dict.map (fun p => S.s p.1)))
  else if name = "__getattribute__" then
    (match args with
     | [.ref t, .str k] =>
       match lookupA (pts t).dict (S.D k) with
       | some v => pure v
       | none => throw (.crash .attribute)
     | _ => throw stuck)
  else if name = "str" then one args (fun a => pure (S.s (S.text a)))
  else if name = "startswith:_Task" then
    (match args with
     | [.str k] => pure (Atom.bool (kTask.isPrefixOf (S.D k)))
     | _ => throw stuck)
  else if name = "strftime:%d-%m-%Y %H:%M" then
    (match args with
     | [.time t] => pure (S.s (V.fmt t))
     | _ => throw stuck)
  else throw stuck

/-! ### the entry point and the reading of the result -/

def st0 (V : View) : PState := { Pj.PrintSrc.st0 with reads := V.alloc }

abbrev Hd (S : Lib) (V : View) (pts : Nat → RTask) (F : Nat) : PHandlers := progH (dhtmlxPrim S V pts) dhtmlxFuns F

abbrev PDict := List (Atom × Atom)

/-- `DhtmlxGantt(wbs, …).__data(task_classes)` up to `json.dumps`: the argument of `json.dumps` and the final state -/
def interpData (S : Lib) (V : View) (pts : Nat → RTask) (F : Nat) (tc : PDict) : Res (Val × PState) :=
  runProg (dhtmlxPrim S V pts) dhtmlxFuns F fn_data [.atom (.ref 0), .dict tc] (st0 V)

def cellOf (st : PState) : Atom → Option Val
  | .ref i => (st.heap i).get? "v"
  | _ => none

def dictsOf (st : PState) (a : Atom) : Option (List PDict) :=
  match cellOf st a with
  | some (.list cs) => cs.mapM (fun c => match cellOf st c with | some (.dict d) => some d | _ => none)
  | _ => none

/-- the lists `data` and `links` (each a list of dicts) of the result `{"data": data, "links": links}` -/
def readOut (S : Lib) (r : Val × PState) : Option (List PDict × List PDict) :=
  match r.1 with
  | .dict [(k1, a), (k2, b)] =>
    if k1 = S.s "data".toList ∧ k2 = S.s "links".toList then
      match dictsOf r.2 a, dictsOf r.2 b with
      | some x, some y => some (x, y)
      | _, _ => none
    else none
  | _ => none

def interpOut (S : Lib) (V : View) (pts : Nat → RTask) (F : Nat) (tc : PDict) : Res (Option (List PDict × List PDict)) :=
  (interpData S V pts F tc).map (readOut S)

/-! ### the expected dicts: the model's entry / link with the fields the model does not speak about -/

def k (S : Lib) (x : String) : Atom := S.s x.toList

def computedKeys : List Str :=
  ["id", "text", "type", "start_date", "end_date", "resource", "estimate", "spent", "open", "parent", "progress",
   "css_class"].map String.toList

/-- the user attributes carried as text: the entries of `__dict__` whose name is not a computed key and does not start
    with `_Task` (the names of `__dict__` are distinct) -/
def userAttrs (S : Lib) (p : RTask) : PDict :=
  (p.dict.filter (fun kv => !computedKeys.contains kv.1 && !kTask.isPrefixOf kv.1)).map
    (fun kv => (S.s kv.1, S.s (S.text kv.2)))

/-- the dict of one entry: `id, text, type, start_date, end_date, parent, progress` from the MODEL's entry `e`;
    `resource, estimate, spent, open, css_class` and the user attributes from the task -/
def entryDict (S : Lib) (tc : PDict) (p : RTask) (e : DEntry) : PDict :=
  [(k S "id", .num (e.id : Rat)), (k S "text", S.s e.text),
   (k S "type", if e.milestone then k S "milestone" else k S "task"),
   (k S "start_date", S.s e.start), (k S "end_date", S.s e.end_),
   (k S "resource", S.os p.resource), (k S "estimate", .num p.estimate), (k S "spent", optNumA p.spent),
   (k S "open", (lookupA p.dict kOpen).getD (k S "true")),
   (k S "parent", .num (e.parent : Rat)), (k S "progress", .num e.progress),
   (k S "css_class", (Dict.get? tc (.num (p.id : Rat))).getD .none)] ++ userAttrs S p

def linkDict (S : Lib) (l : DLink) : PDict :=
  [(k S "id", .num ((l.id : Nat) : Rat)), (k S "source", .num (l.source : Rat)), (k S "target", .num (l.target : Rat)),
   (k S "type", k S "0")]

/-- the expected `data`: the model's entries, in the model's order -/
def expData (S : Lib) (V : View) (pts : Nat → RTask) (tc : PDict) : List PDict :=
  ((dhtmlxOrder (dAll V pts) V.n V.roots).zip (dhtmlxData (dAll V pts) V.n V.roots)).map
    (fun te => entryDict S tc (pts te.1) te.2)

def expLinks (S : Lib) (V : View) (pts : Nat → RTask) : List PDict :=
  (dhtmlxLinks (dAll V pts) V.n V.roots).map (linkDict S)

end Pj.DhtmlxSrc
