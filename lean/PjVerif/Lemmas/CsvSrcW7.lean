/-
  Lemmas/CsvSrcW7.lean — CSV I/O, the WRITE side, part 7: the custom columns = the model's `customColumns`, the rows loop.
-/
import PjVerif.Lemmas.CsvSrcW6
namespace Pj.CsvSrc
open Pj.PyLite Pj.Extracted.Csv Pj.Csv

/-! ### the raw objects are good -/

theorem env_get_of_mem : ∀ (e : PyLite.Env) (k : String), k ∈ e.map (·.1) → ∃ v, e.get? k = some v
  | [], _, h => by cases h
  | p :: e, k, h => by
    rw [envGet_cons]
    by_cases hp : p.1 = k
    · exact ⟨p.2, by simp [hp]⟩
    · rw [if_neg hp]
      rcases List.mem_cons.1 h with h | h
      · exact absurd h.symm hp
      · exact env_get_of_mem e k h

theorem notDefault_of_ne {k : String} (h : ∀ s ∈ tenNames, s ≠ k) : defaultFields.contains k.toList = false := by
  cases hc : defaultFields.contains k.toList with
  | false => rfl
  | true =>
    have : k.toList ∈ defaultFields := by simpa using hc
    rw [defaultFields_eq] at this
    obtain ⟨s, hs, e⟩ := List.mem_map.1 this
    exact absurd (String.toList_inj.1 e) (h s hs)

theorem extras_notDefault (d : TaskD) (hc : CustomOK d.custom) :
    ∀ p ∈ extras d, defaultFields.contains p.1.toList = false := by
  intro p hp
  rcases List.mem_cons.1 hp with rfl | hp
  · show defaultFields.contains "min_start".toList = false
    decide
  · obtain ⟨a, b, -, h1, h2, h3, h4, h5, h6, h7, h8, -⟩ := notReserved (hc.fresh p hp).1
    apply notDefault_of_ne
    intro s hs
    simp only [tenNames, List.mem_cons, List.not_mem_nil, or_false] at hs
    rcases hs with rfl | rfl | rfl | rfl | rfl | rfl | rfl | rfl | rfl | rfl
    · exact Ne.symm h1
    · exact Ne.symm h2
    · exact Ne.symm h3
    · exact Ne.symm h4
    · exact Ne.symm h5
    · exact Ne.symm h7
    · exact Ne.symm h8
    · exact Ne.symm h6
    · exact Ne.symm a
    · exact Ne.symm b

theorem rawEnv_good (W : WbsD) (d : TaskD) (hc : CustomOK d.custom) : GoodEnv (rawEnv W d) := by
  refine ⟨(rawEnv_isTask W d).2 (fun p hp => (notReserved (hc.fresh p hp).1).2.2.1), fun k hk => ?_⟩
  obtain ⟨v, hv⟩ := env_get_of_mem _ k hk
  refine ⟨v, hv, fun hnd => ?_⟩
  obtain ⟨g1, g2⟩ := rawBase_none (rawArgs W d) hnd
  have hh : hasKey (encX (extras d)) k = true := by
    rw [rawEnv_eq, List.map_append, List.mem_append] at hk
    rcases hk with hk | hk
    · obtain ⟨p, hp, rfl⟩ := List.mem_map.1 hk
      have : hasKey (rawBase (rawArgs W d)) p.1 = true := by
        simp only [hasKey, List.any_eq_true]; exact ⟨p, hp, by simp⟩
      rw [g2] at this; cases this
    · obtain ⟨p, hp, rfl⟩ := List.mem_map.1 hk
      simp only [hasKey, List.any_eq_true]; exact ⟨p, hp, by simp⟩
  obtain ⟨p, -, -, h2⟩ := encX_get _ _ hh
  rw [rawEnv_eq, envGet_append, g1] at hv
  exact ⟨p.2, by rw [h2] at hv; exact (Option.some.inj hv).symm⟩

/-! ### the custom columns -/

theorem colStep_default {c : List Str} {k : String} (h : defaultFields.contains k.toList = true) : colStep c k = c := by
  rw [colStep, if_pos h]

theorem extras_fold : ∀ (ps : List (String × Atom)) (c : List Str),
    (∀ p ∈ ps, defaultFields.contains p.1.toList = false) →
    (ps.map (·.1)).foldl colStep c = (ps.map (fun p => p.1.toList)).foldl addKey c
  | [], _, _ => rfl
  | p :: ps, c, h => by
    have hp := h p (List.mem_cons_self ..)
    rw [List.map_cons, List.foldl_cons, List.map_cons, List.foldl_cons,
      show colStep c p.1 = addKey c p.1.toList by rw [colStep, hp, if_neg (by simp)]]
    exact extras_fold ps _ (fun q hq => h q (List.mem_cons_of_mem _ hq))

theorem rawEnv_fold (L : IOLib) (W : WbsD) (d : TaskD) (hc : CustomOK d.custom) (c : List Str) :
    ((rawEnv W d).map (·.1)).foldl colStep c = ((recOf L W d).custom.map (·.1)).foldl addKey c := by
  rw [rawEnv_eq, List.map_append, List.foldl_append]
  have h10 : ((rawBase (rawArgs W d)).map (·.1)).foldl colStep c = c := by
    simp only [rawBase, List.map_cons, List.map_nil, List.foldl_cons, List.foldl_nil]
    rw [colStep_default (by decide), colStep_default (by decide), colStep_default (by decide),
      colStep_default (by decide), colStep_default (by decide), colStep_default (by decide),
      colStep_default (by decide), colStep_default (by decide), colStep_default (by decide),
      colStep_default (by decide)]
  rw [h10, recOf_custom, List.map_map]
  have : (encX (extras d)).map (·.1) = (extras d).map (·.1) := by simp [encX, List.map_map]
  rw [this, extras_fold _ _ (extras_notDefault d hc)]
  rfl

theorem foldl_flatMap {α β γ} (f : α → List β) (g : γ → β → γ) : ∀ (l : List α) (c : γ),
    l.foldl (fun c x => (f x).foldl g c) c = (l.flatMap f).foldl g c
  | [], _ => rfl
  | a :: l, c => by rw [List.foldl_cons, foldl_flatMap f g l, List.flatMap_cons, List.foldl_append]

theorem cols_eq (L : IOLib) (W : WbsD) (st : PState) : ∀ (ps : List (Nat × TaskD)) (c : List Str),
    (∀ p ∈ ps, st.heap p.1 = rawEnv W p.2 ∧ CustomOK p.2.custom) →
    (ps.map (·.1)).foldl (fun c r => ((st.heap r).map (·.1)).foldl colStep c) c =
      (ps.map (·.2)).foldl (fun c d => ((recOf L W d).custom.map (·.1)).foldl addKey c) c
  | [], _, _ => rfl
  | p :: ps, c, h => by
    obtain ⟨h1, h2⟩ := h p (List.mem_cons_self ..)
    rw [List.map_cons, List.foldl_cons, List.map_cons, List.foldl_cons, h1, rawEnv_fold L W p.2 h2]
    exact cols_eq L W st ps _ (fun q hq => h q (List.mem_cons_of_mem _ hq))

theorem customColumns_eq (L : IOLib) (W : WbsD) (ds : List TaskD) :
    ds.foldl (fun c d => ((recOf L W d).custom.map (·.1)).foldl addKey c) [] =
      customColumns (ds.map (recOf L W)) := by
  rw [foldl_flatMap (fun d => (recOf L W d).custom.map (·.1)) addKey, addKey_fold_nil, customColumns]
  congr 1
  induction ds with
  | nil => rfl
  | cons d ds ih => simp [List.flatMap_cons, ih]

theorem customColumns_notDefault (L : IOLib) (W : WbsD) (ds : List TaskD) (hc : ∀ d ∈ ds, CustomOK d.custom) :
    ∀ col ∈ customColumns (ds.map (recOf L W)), defaultFields.contains col = false := by
  intro col hcol
  rw [customColumns, List.mem_eraseDups, List.mem_flatMap] at hcol
  obtain ⟨r, hr, hcol⟩ := hcol
  obtain ⟨d, hd, rfl⟩ := List.mem_map.1 hr
  rw [recOf_custom, List.map_map] at hcol
  obtain ⟨p, hp, rfl⟩ := List.mem_map.1 hcol
  exact extras_notDefault d (hc d hd) p hp

end Pj.CsvSrc
