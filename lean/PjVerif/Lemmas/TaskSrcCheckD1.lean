/-
  Lemmas/TaskSrcCheckD1.lean — stage 1 of the translated tie for task.py, stage D: the exhaustive check of the
  `children` setter on the graph `g1` (the longest one; see Lemmas/TaskSrcCheckD.lean).
-/
import PjVerif.Lemmas.TaskSrcCheckD
namespace Pj.TaskSrc
open Pj.PyLite Pj.Extracted
namespace Check

example : childrenAgree g1 = true := by decide +kernel
end Check
end Pj.TaskSrc
