/-
  Lemmas/CsvSrcW4.lean — CSV I/O, the WRITE side, part 4: the atoms of a task row and their texts = the model's
  `rowCells` of the record of the task.
-/
import PjVerif.Lemmas.CsvSrcW3
namespace Pj.CsvSrc
open Pj.PyLite Pj.Extracted.Csv Pj.Csv

def tenNames : List String :=
  ["id", "name", "resource", "start", "end", "estimate", "spent", "milestone", "parent_id", "predecessor_ids"]

theorem defaultFields_eq : defaultFields = tenNames.map String.toList := rfl

theorem ne_of_notDefault {k : String} (h : defaultFields.contains k.toList = false) : ∀ s ∈ tenNames, s ≠ k := by
  intro s hs e
  have : k.toList ∈ defaultFields := by rw [defaultFields_eq]; exact List.mem_map.2 ⟨s, hs, by rw [e]⟩
  simp [this] at h

theorem rawBase_none (a : List Val) {k : String} (h : defaultFields.contains k.toList = false) :
    (rawBase a).get? k = none ∧ hasKey (rawBase a) k = false := by
  have hn := ne_of_notDefault h
  have h0 := hn "id" (by simp [tenNames])
  have h1 := hn "name" (by simp [tenNames])
  have h2 := hn "resource" (by simp [tenNames])
  have h3 := hn "start" (by simp [tenNames])
  have h4 := hn "end" (by simp [tenNames])
  have h5 := hn "estimate" (by simp [tenNames])
  have h6 := hn "spent" (by simp [tenNames])
  have h7 := hn "milestone" (by simp [tenNames])
  have h8 := hn "parent_id" (by simp [tenNames])
  have h9 := hn "predecessor_ids" (by simp [tenNames])
  constructor
  · simp only [rawBase, envGet_cons, h0, h1, h2, h3, h4, h5, h6, h7, h8, h9, if_false]; rfl
  · simp [hasKey, rawBase, h0, h1, h2, h3, h4, h5, h6, h7, h8, h9]

/-- the attributes of a task that travel as custom columns -/
def extras (d : TaskD) : List (String × Atom) := ("min_start", optTime d.minStart) :: d.custom

def encX (ps : List (String × Atom)) : PyLite.Env := ps.map (fun p => (p.1, Val.atom p.2))

theorem rawEnv_eq (W : WbsD) (d : TaskD) : rawEnv W d = rawBase (rawArgs W d) ++ encX (extras d) := rfl

theorem recOf_custom (L : IOLib) (W : WbsD) (d : TaskD) :
    (recOf L W d).custom = (extras d).map (fun p => (p.1.toList, cellOpt L p.2)) := by
  simp only [recOf, extras, List.map_cons]
  congr 2
  cases d.minStart <;> rfl

theorem extras_ok (d : TaskD) (hc : CustomOK d.custom) :
    ∀ p ∈ extras d, cellOK p.2 ∧ ['_'].isPrefixOf p.1.toList = false := by
  intro p hp
  rcases List.mem_cons.1 hp with rfl | hp
  · exact ⟨by cases d.minStart <;> trivial, by show ['_'].isPrefixOf "min_start".toList = false; decide⟩
  · exact ⟨(hc.fresh p hp).2.2, (hc.fresh p hp).2.1⟩

theorem encX_get : ∀ (ps : List (String × Atom)) (k : String), hasKey (encX ps) k = true →
    ∃ p ∈ ps, p.1 = k ∧ (encX ps).get? k = some (.atom p.2)
  | [], _, h => by simp [hasKey, encX] at h
  | q :: ps, k, h => by
    by_cases hq : q.1 = k
    · exact ⟨q, List.mem_cons_self .., hq, by simp [encX, envGet_cons, hq]⟩
    · have : hasKey (encX ps) k = true := by simpa [hasKey, encX, hq] using h
      obtain ⟨p, hp, h1, h2⟩ := encX_get ps k this
      exact ⟨p, List.mem_cons_of_mem _ hp, h1, by
        rw [show encX (q :: ps) = (q.1, Val.atom q.2) :: encX ps from rfl, envGet_cons, if_neg hq]; exact h2⟩

/-- what the custom cells of a raw object need (`eval_customE`) -/
theorem rawEnv_custom_ok (W : WbsD) (d : TaskD) (hc : CustomOK d.custom) (col : Str)
    (hcol : defaultFields.contains col = false) :
    hasKey (rawEnv W d) (String.ofList col) = true → ['_'].isPrefixOf col = false →
      ∃ a, (rawEnv W d).get? (String.ofList col) = some (.atom a) ∧ cellOK a := by
  intro hh _
  have hcol' : defaultFields.contains (String.ofList col).toList = false := by rw [String.toList_ofList]; exact hcol
  obtain ⟨g1, g2⟩ := rawBase_none (rawArgs W d) hcol'
  rw [rawEnv_eq, hasKey_append, g2, Bool.false_or] at hh
  obtain ⟨p, hp, -, h2⟩ := encX_get _ _ hh
  exact ⟨p.2, by rw [rawEnv_eq, envGet_append, g1]; exact h2, (extras_ok d hc p hp).1⟩

/-! ### the texts of the cells -/

theorem cell_strA (L : IOLib) (s : Str) : L.cell (strA s) = .ok s := by
  simp [IOLib.cell, strA, strDecode_code, pure, Except.pure]

theorem cell_timeA (L : IOLib) (x : Option Time) : L.cell (timeA L x) = .ok (orEmpty (x.map L.strftime)) := by
  cases x with
  | none => rfl
  | some t => exact cell_strA L _

theorem cell_optNum (L : IOLib) (x : Option Rat) : L.cell (optNum x) = .ok (orEmpty (x.map L.strNum)) := by
  cases x <;> rfl

theorem cell_parentId (L : IOLib) (W : WbsD) (d : TaskD) :
    L.cell (parentIdA W d) = .ok (orEmpty (d.parent.map (idStr L W))) := by
  unfold parentIdA
  cases d.parent with
  | none => rfl
  | some p =>
    simp only [idA, idStr, Option.map_some, orEmpty]
    cases taskAt W p <;> rfl

theorem cell_fmtA (L : IOLib) (a : Atom) (ha : cellOK a) : L.cell (fmtA L a) = .ok (orEmpty (cellOpt L a)) := by
  cases a with
  | none => rfl
  | num q => rfl
  | bool b => rfl
  | time t => exact cell_strA L _
  | str k => rfl
  | delta _ => exact False.elim ha
  | ref _ => exact False.elim ha
  | row _ _ _ _ => exact False.elim ha
  | fn _ => exact False.elim ha
  | box _ => exact False.elim ha

def recX (L : IOLib) (ps : List (String × Atom)) : Rec :=
  { (default : Rec) with custom := ps.map (fun p => (p.1.toList, cellOpt L p.2)) }

theorem cell_custom_ind (L : IOLib) (col : Str) : ∀ (ps : List (String × Atom)), (∀ p ∈ ps, cellOK p.2) →
    L.cell (if hasKey (encX ps) (String.ofList col) then pickA L (encX ps) (String.ofList col) else strA []) =
    .ok (customCell (recX L ps) col)
  | [], _ => by simp [hasKey, encX, customCell, recX]; exact cell_strA L []
  | q :: ps, hok => by
    by_cases hq : q.1 = String.ofList col
    · have h1 : hasKey (encX (q :: ps)) (String.ofList col) = true := by simp [hasKey, encX, hq]
      have h2 : (encX (q :: ps)).get? (String.ofList col) = some (.atom q.2) := by simp [encX, envGet_cons, hq]
      have h3 : (q.1.toList == col) = true := by rw [hq, String.toList_ofList]; simp
      rw [h1, pickA, h2]
      simp only [if_true, customCell, recX, List.map_cons, List.find?_cons, h3]
      exact cell_fmtA L q.2 (hok q (List.mem_cons_self ..))
    · have h1 : hasKey (encX (q :: ps)) (String.ofList col) = hasKey (encX ps) (String.ofList col) := by
        simp [hasKey, encX, hq]
      have h2 : (encX (q :: ps)).get? (String.ofList col) = (encX ps).get? (String.ofList col) := by
        rw [show encX (q :: ps) = (q.1, Val.atom q.2) :: encX ps from rfl, envGet_cons, if_neg hq]
      have h3 : (q.1.toList == col) = false := by
        have : ¬ q.1.toList = col := fun e => hq (by rw [← e, String.ofList_toList])
        simpa using this
      have ih := cell_custom_ind L col ps (fun p hp => hok p (List.mem_cons_of_mem _ hp))
      rw [h1, pickA, h2]
      simp only [customCell, recX, List.map_cons, List.find?_cons, h3]
      simpa only [customCell, recX, pickA] using ih

theorem cell_custom (L : IOLib) (W : WbsD) (d : TaskD) (hc : CustomOK d.custom) (col : Str)
    (hcol : defaultFields.contains col = false) :
    L.cell (customAtom L (rawEnv W d) (String.ofList col)) = .ok (customCell (recOf L W d) col) := by
  have hcol' : defaultFields.contains (String.ofList col).toList = false := by rw [String.toList_ofList]; exact hcol
  obtain ⟨g1, g2⟩ := rawBase_none (rawArgs W d) hcol'
  have hk : hasKey (rawEnv W d) (String.ofList col) = hasKey (encX (extras d)) (String.ofList col) := by
    rw [rawEnv_eq, hasKey_append, g2, Bool.false_or]
  have hg : (rawEnv W d).get? (String.ofList col) = (encX (extras d)).get? (String.ofList col) := by
    rw [rawEnv_eq, envGet_append, g1]
  have := cell_custom_ind L col (extras d) (fun p hp => (extras_ok d hc p hp).1)
  have e2 : customCell (recOf L W d) col = customCell (recX L (extras d)) col := by
    simp only [customCell, recX, recOf_custom]
  rw [e2, ← this, customAtom, hk, pickA, hg]
  cases hh : hasKey (encX (extras d)) (String.ofList col) with
  | false => simp
  | true =>
    obtain ⟨p, hp, h1, -⟩ := encX_get _ _ hh
    have := (extras_ok d hc p hp).2
    rw [h1, String.toList_ofList] at this
    simp [this, pickA]

end Pj.CsvSrc
