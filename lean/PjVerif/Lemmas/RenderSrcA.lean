/-
  Lemmas/RenderSrcA.lean — stage 2 of the translated tie for the Mermaid renderers (general theorems): the network source.
  `MermaidNetwork.__label` = `escLabel ∘ filter (≠ '"')`, `MermaidNetwork.__src` = `networkSrc`, for every WBS, task
  description and string library.  See Lemmas/RenderSrc.lean for the setting.
-/
import PjVerif.Lemmas.RenderSrc
import PjVerif.Lemmas.PrintSrcA
namespace Pj.RenderSrc
open Pj.PyLite Pj.Render Pj.Extracted.Render
open Pj.PrintSrc (Lib lookupA refsA one D_s text_s pyEq_s)
open Pj.TaskSrc (callPV_eq execBlockP_cons execBlockP_nil execP_forIn noRec)
set_option linter.unusedSimpArgs false
set_option linter.unusedVariables false

variable (S : Lib) (V : View) (pts : Nat → RTask)

theorem rfnV_succ (F k : Nat) (params : List String) (body : List Stmt) (h : renderFuns k = some (params, body))
    (args : List Val) (st : PState) :
    (Hr S V pts (F + 1)).fnV k args st = callPV (Hr S V pts F) params body args st := by
  simp only [Hr, progH, h]

theorem Hr_prim (F : Nat) : (Hr S V pts F).prim = renderPrim S V pts := by cases F <;> rfl

/-! ### `str.replace` of one character -/

theorem replF_single (a : Char) (new : Str) :
    ∀ (f : Nat) (s : Str), s.length ≤ f → replF [a] new f s = s.flatMap (fun c => if c == a then new else [c]) := by
  intro f
  induction f with
  | zero => intro s h; cases s with
    | nil => rfl
    | cons c cs => simp at h
  | succ f ih =>
    intro s h
    cases s with
    | nil => rfl
    | cons c cs =>
      have hl : cs.length ≤ f := by simpa using h
      by_cases hc : c = a
      · subst hc; simp [replF, List.isPrefixOf, ih cs hl]
      · have hc' : (a == c) = false := by simpa using fun e : a = c => hc e.symm
        simp [replF, List.isPrefixOf, ih cs hl, hc, hc']

theorem pyReplace_single (s : Str) (a : Char) (new : Str) :
    pyReplace s [a] new = s.flatMap (fun c => if c == a then new else [c]) := replF_single a new _ s (Nat.le_refl _)

theorem flatMap_del (s : Str) (a : Char) :
    s.flatMap (fun c => if c == a then [] else [c]) = s.filter (fun c => c != a) := by
  induction s with
  | nil => rfl
  | cons c cs ih =>
    rw [List.flatMap_cons, ih]
    by_cases hc : c = a
    · simp [hc]
    · simp [hc]

theorem flatMap_esc (s : Str) :
    (s.flatMap (fun c => if c == '{' then lit "#123;" else [c])).flatMap (fun c => if c == '}' then lit "#125;" else [c]) =
      escLabel s := by
  induction s with
  | nil => rfl
  | cons c cs ih =>
    simp only [List.flatMap_cons, List.flatMap_append, ih, escLabel]
    congr 1
    by_cases h1 : c = '{'
    · subst h1; decide
    · by_cases h2 : c = '}'
      · subst h2; decide
      · simp [h1, h2]

/-- the text of `__label(name)` -/
def lbl (name : Str) : Str := escLabel (name.filter (fun c => c != '"'))

theorem replace_label (name : Str) :
    pyReplace (pyReplace (pyReplace name ['"'] []) ['{'] (lit "#123;")) ['}'] (lit "#125;") = lbl name := by
  rw [pyReplace_single, pyReplace_single, pyReplace_single, flatMap_del, flatMap_esc, lbl]

/-! ### the primitives -/

theorem prim_lit (name : String) (x : Str) (st : PState) (h1 : name.startsWith "lit:" = true)
    (h2 : (name.drop 4).toString.toList = x) : renderPrim S V pts name [] st = .ok (.atom (S.s x)) := by
  simp only [renderPrim, h1, if_true, h2]; rfl

macro "litr" : tactic => `(tactic| exact prim_lit _ _ _ _ _ _ (by decide +kernel) (by decide +kernel))

theorem lit_empty (st : PState) : renderPrim S V pts "lit:" [] st = .ok (.atom (S.s [])) := by litr
theorem lit_quote (st : PState) : renderPrim S V pts "lit:\"" [] st = .ok (.atom (S.s ['"'])) := by litr
theorem lit_lbrace (st : PState) : renderPrim S V pts "lit:{" [] st = .ok (.atom (S.s ['{'])) := by litr
theorem lit_rbrace (st : PState) : renderPrim S V pts "lit:}" [] st = .ok (.atom (S.s ['}'])) := by litr
theorem lit_c123 (st : PState) : renderPrim S V pts "lit:#123;" [] st = .ok (.atom (S.s (lit "#123;"))) := by litr
theorem lit_c125 (st : PState) : renderPrim S V pts "lit:#125;" [] st = .ok (.atom (S.s (lit "#125;"))) := by litr
theorem lit_flow (st : PState) : renderPrim S V pts "lit:flowchart LR\n" [] st = .ok (.atom (S.s (lit "flowchart LR\n"))) := by litr
theorem lit_start (st : PState) :
    renderPrim S V pts "lit:  0((Start)) --> " [] st = .ok (.atom (S.s (lit "  0((Start)) --> "))) := by litr
theorem lit_ll (st : PState) : renderPrim S V pts "lit:{{" [] st = .ok (.atom (S.s (lit "{{"))) := by litr
theorem lit_rrn (st : PState) : renderPrim S V pts "lit:}}\n" [] st = .ok (.atom (S.s (lit "}}" ++ ['\n']))) := by litr
theorem lit_two (st : PState) : renderPrim S V pts "lit:  " [] st = .ok (.atom (S.s (lit "  "))) := by litr
theorem lit_arrow (st : PState) : renderPrim S V pts "lit:}} --> " [] st = .ok (.atom (S.s (lit "}}" ++ lit " --> "))) := by litr
theorem lit_style (st : PState) : renderPrim S V pts "lit:style " [] st = .ok (.atom (S.s (lit "style "))) := by litr
theorem lit_blank (st : PState) : renderPrim S V pts "lit: " [] st = .ok (.atom (S.s [' '])) := by litr
theorem lit_nl (st : PState) : renderPrim S V pts "lit:\n" [] st = .ok (.atom (S.s ['\n'])) := by litr
theorem lit_kstyle (st : PState) : renderPrim S V pts "lit:network_bar_style" [] st = .ok (.atom (S.s kStyle)) := by litr

/-- a primitive whose name is not a literal: the dispatch on the name -/
macro "primr" : tactic => `(tactic|
  (unfold renderPrim
   rw [if_neg (by decide +kernel)]
   simp [oneTask, one, pure, Except.pure]))

theorem prim_wbs (a : Atom) (st : PState) : renderPrim S V pts "self.wbs" [a] st = .ok (.atom (.ref 0)) := by primr
theorem prim_tasks (a : Atom) (st : PState) : renderPrim S V pts "tasks" [a] st = .ok (refsA V.tasks) := by primr
theorem prim_name (t : Nat) (st : PState) : renderPrim S V pts "name" [.ref t] st = .ok (.atom (S.s (pts t).name)) := by primr
theorem prim_id (t : Nat) (st : PState) : renderPrim S V pts "id" [.ref t] st = .ok (.atom (pts t).id) := by primr
theorem prim_preds (t : Nat) (st : PState) : renderPrim S V pts "predecessors" [.ref t] st = .ok (refsA (pts t).preds) := by primr
theorem prim_dict (t : Nat) (st : PState) :
    renderPrim S V pts "__dict__" [.ref t] st = .ok (.list ((pts t).dict.map (fun p => S.s p.1))) := by primr
theorem prim_getattr (t k : Nat) (st : PState) :
    renderPrim S V pts "__getattribute__" [.ref t, .str k] st =
      (match lookupA (pts t).dict (S.D k) with
       | some v => .ok (.atom v)
       | none => .error (.crash .attribute)) := by
  primr
  cases lookupA (pts t).dict (S.D k) <;> rfl
theorem prim_dstyle (a : Atom) (st : PState) : renderPrim S V pts "dict_to_style" [a] st = .ok (.atom (S.s (V.style a))) := by primr
theorem prim_str (a : Atom) (st : PState) : renderPrim S V pts "str" [a] st = .ok (.atom (S.s (S.text a))) := by primr
theorem prim_concat (a b : Nat) (st : PState) :
    renderPrim S V pts "concat" [.str a, .str b] st = .ok (.atom (S.s (S.D a ++ S.D b))) := by primr
theorem prim_replace (s a b : Nat) (st : PState) :
    renderPrim S V pts "replace" [.str s, .str a, .str b] st =
      if (S.D a).isEmpty then .error stuck else .ok (.atom (S.s (pyReplace (S.D s) (S.D a) (S.D b)))) := by
  primr
  by_cases h : (S.D a) = [] <;> simp [h] <;> rfl

variable {S}

theorem prim_concat' (hS : S.OK) (x y : Str) (st : PState) :
    renderPrim S V pts "concat" [S.s x, S.s y] st = .ok (.atom (S.s (x ++ y))) := by
  simp only [Lib.s, prim_concat, hS x, hS y]

theorem prim_replace' (hS : S.OK) (x a b : Str) (ha : a.isEmpty = false) (st : PState) :
    renderPrim S V pts "replace" [S.s x, S.s a, S.s b] st = .ok (.atom (S.s (pyReplace x a b))) := by
  simp only [Lib.s, prim_replace, hS x, hS a, hS b, ha]; rfl

theorem prim_getattr' (hS : S.OK) (t : Nat) (x : Str) (st : PState) :
    renderPrim S V pts "__getattribute__" [.ref t, S.s x] st =
      (match lookupA (pts t).dict x with
       | some v => .ok (.atom v)
       | none => .error (.crash .attribute)) := by
  simp only [Lib.s, prim_getattr, hS x]

theorem str_s (hS : S.OK) (x : Str) (st : PState) : renderPrim S V pts "str" [S.s x] st = .ok (.atom (S.s x)) := by
  rw [prim_str, text_s hS]

/-- symbolic execution of a translated body -/
syntax "rpl" (" [" Lean.Parser.Tactic.simpLemma,* "]")? : tactic
macro_rules
  | `(tactic| rpl) => `(tactic| rpl [])
  | `(tactic| rpl [$ls,*]) => `(tactic|
      simp [callPV_eq, bindParamsV, execBlockP, Stmt.execP, Expr.evalP, Expr.evalArgsP, iterOf, truthP, arithP, arith,
        PyLite.compare, cmpRat, Atom.asNum?, pure, Except.pure, bind, Except.bind,
        throw, throwThe, MonadExceptOf.throw, Pj.TaskSrc.Env.get?_set, Pj.TaskSrc.Env.get?_cons, Pj.TaskSrc.Env.get?_nil,
        Hr_prim, lit_empty, lit_quote, lit_lbrace, lit_rbrace, lit_c123, lit_c125, lit_flow, lit_start, lit_ll, lit_rrn,
        lit_two, lit_arrow, lit_style, lit_blank, lit_nl, lit_kstyle, prim_wbs, prim_tasks, prim_name, prim_id, prim_preds,
        prim_dict, prim_dstyle, prim_str, $ls,*])

/-! ### `__label` -/

theorem pf_label : renderFuns fn_label = some (src_label_params, src_label) := rfl

theorem label_spec (hS : S.OK) (F : Nat) (name : Str) (st : PState) :
    (Hr S V pts (F + 1)).fnV fn_label [.atom (S.s name)] st = .ok (.atom (S.s (lbl name)), st) := by
  rw [rfnV_succ _ _ _ _ _ _ _ pf_label]
  have h1 := prim_replace' V pts hS name ['"'] [] rfl st
  have h2 := prim_replace' V pts hS (pyReplace name ['"'] []) ['{'] (lit "#123;") rfl st
  have h3 := prim_replace' V pts hS (pyReplace (pyReplace name ['"'] []) ['{'] (lit "#123;")) ['}'] (lit "#125;") rfl st
  rw [replace_label] at h3
  rpl [src_label_params, src_label, h1, h2, h3]

/-! ### loops that append to a text -/

/-- a loop that appends `g v` to the text held by the local `acc` and leaves the state alone -/
theorem forLoopP_str (S : Lib) (x acc : String) (body : PyLite.Env → PState → OutcomeP) (P : PyLite.Env → Prop)
    (g : Atom → Str) (st : PState) :
    ∀ (vs : List Atom),
      (∀ ρ a v, v ∈ vs → P ρ → ρ.get? acc = some (.atom (S.s a)) →
        ∃ ρ', P ρ' ∧ ρ'.get? acc = some (.atom (S.s (a ++ g v))) ∧ body (ρ.set x v) st = .normal ρ' st) →
      ∀ ρ a, P ρ → ρ.get? acc = some (.atom (S.s a)) →
        ∃ ρ', P ρ' ∧ ρ'.get? acc = some (.atom (S.s (a ++ vs.flatMap g))) ∧ forLoopP x body vs ρ st = .normal ρ' st := by
  intro vs
  induction vs with
  | nil => intro _ ρ a hP ha; exact ⟨ρ, hP, by simpa using ha, rfl⟩
  | cons v vs ih =>
    intro hb ρ a hP ha
    obtain ⟨ρ', hP', ha', hbody⟩ := hb ρ a v List.mem_cons_self hP ha
    obtain ⟨ρ2, hP2, ha2, hl⟩ := ih (fun ρ a v hv => hb ρ a v (List.mem_cons_of_mem _ hv)) ρ' _ hP' ha'
    refine ⟨ρ2, hP2, ?_, ?_⟩
    · rw [ha2]; simp [List.append_assoc]
    · simp only [forLoopP, hbody]; exact hl

theorem any_dict (hS : S.OK) (d : List (Str × Atom)) (x : Str) :
    (d.map (fun p => S.s p.1)).any (fun v => v.pyEq (S.s x)) = (lookupA d x).isSome := by
  induction d with
  | nil => rfl
  | cons p d ih =>
    simp only [List.map_cons, List.any_cons, ih, pyEq_s hS, lookupA, List.find?_cons]
    by_cases h : p.1 = x
    · simp [h]
    · have h' : (p.1 == x) = false := by simpa using h
      simp [h, h']

theorem natCast_eq_zero (n : Nat) : ((n : Nat) : Rat) = 0 ↔ n = 0 :=
  ⟨fun h => Rat.natCast_inj.1 (h.trans (by rfl)), fun h => by subst h; rfl⟩

theorem pyEq_len {α : Type} (l : List α) : (Atom.num ((l.length : Nat) : Rat)).pyEq (.num 0) = l.isEmpty := by
  cases l with
  | nil => rfl
  | cons a l =>
    have h : ¬ ((((a :: l).length : Nat) : Rat) = 0) := fun e => by have := (natCast_eq_zero _).1 e; simp at this
    have : (Atom.num (((a :: l).length : Nat) : Rat)).pyEq (.num 0) = false := by
      simp only [Atom.pyEq, Atom.norm]
      exact decide_eq_false (fun e => h (Atom.num.inj e))
    rw [this]; rfl

/-! ### `MermaidNetwork.__src`: the texts -/

variable (S)

/-- `<id>{{<label>}}` of a task -/
def nodeOf (t : Nat) : Str := nodeLabel (S.text (pts t).id) (pts t).name

def edgeLine (t p : Nat) : Str := lit "  " ++ nodeOf S pts p ++ lit " --> " ++ nodeOf S pts t ++ ['\n']

def edgeG (t : Nat) : Atom → Str
  | .ref p => edgeLine S pts t p
  | _ => []

def taskEdges (t : Nat) : Str :=
  if (pts t).preds.isEmpty then lit "  0((Start)) --> " ++ nodeOf S pts t ++ ['\n']
  else ((pts t).preds.map (edgeLine S pts t)).flatten

def taskG : Atom → Str
  | .ref t => taskEdges S pts t
  | _ => []

def styleLine (t : Nat) : Str :=
  match lookupA (pts t).dict kStyle with
  | some a => lit "style " ++ S.text (pts t).id ++ [' '] ++ V.style a ++ ['\n']
  | none => []

def styleG : Atom → Str
  | .ref t => styleLine S V pts t
  | _ => []

theorem flatMap_refs' (l : List Nat) (g : Atom → Str) : (l.map Atom.ref).flatMap g = (l.map (fun t => g (.ref t))).flatten := by
  induction l with
  | nil => rfl
  | cons a l ih => simp [ih]

theorem networkSrc_eq :
    lit "flowchart LR\n" ++ (V.tasks.map Atom.ref).flatMap (taskG S pts) ++ (V.tasks.map Atom.ref).flatMap (styleG S V pts) =
      networkSrc (nAll S V pts) V.tasks := by
  rw [flatMap_refs', flatMap_refs']
  simp only [networkSrc, nAll, toNTask, taskG, styleG]
  have e1 : (fun t => taskEdges S pts t) = (fun i =>
      if (pts i).preds.isEmpty = true then lit "  0((Start)) --> " ++ nodeLabel (S.text (pts i).id) (pts i).name ++ ['\n']
      else (List.map (fun p => lit "  " ++ nodeLabel (S.text (pts p).id) (pts p).name ++ lit " --> " ++
        nodeLabel (S.text (pts i).id) (pts i).name ++ ['\n']) (pts i).preds).flatten) := by
    funext t; simp only [taskEdges, nodeOf]; rfl
  have e2 : (fun t => styleLine S V pts t) = (fun i =>
      match Option.map V.style (lookupA (pts i).dict kStyle) with
      | some st => lit "style " ++ S.text (pts i).id ++ [' '] ++ st ++ ['\n']
      | none => []) := by
    funext t; simp only [styleLine]; cases lookupA (pts t).dict kStyle <;> rfl
  rw [e1, e2]; rfl

/-! ### `MermaidNetwork.__src`: the shape of the translated term -/

def tasksE : Expr := .prim "tasks" (.listCons (.prim "self.wbs" (.listCons (.var "self") .listNil)) .listNil)
def nsLoop1 : Stmt := match src_network_src with | [_, l, _, _] => l | _ => .pass
def nsLoop2 : Stmt := match src_network_src with | [_, _, l, _] => l | _ => .pass
def nsBody1 : List Stmt := match nsLoop1 with | .forIn _ _ b => b | _ => []
def nsBody2 : List Stmt := match nsLoop2 with | .forIn _ _ b => b | _ => []
def nsName : Stmt := match nsBody1 with | [a, _] => a | _ => .pass
def nsIf : Stmt := match nsBody1 with | [_, a] => a | _ => .pass
def nsCond : Expr := match nsIf with | .ifElse c _ _ => c | _ => .none
def nsThen : List Stmt := match nsIf with | .ifElse _ a _ => a | _ => []
def nsInner : Stmt := match nsIf with | .ifElse _ _ [l] => l | _ => .pass
def nsInnerBody : List Stmt := match nsInner with | .forIn _ _ b => b | _ => []

theorem ns_shape : src_network_src =
    [.assign "res" (.prim "lit:flowchart LR\n" .listNil), nsLoop1, nsLoop2, .ret (.var "res")] := rfl
theorem nsLoop1_eq : nsLoop1 = .forIn "t" tasksE nsBody1 := rfl
theorem nsLoop2_eq : nsLoop2 = .forIn "t" tasksE nsBody2 := rfl
theorem nsBody1_eq : nsBody1 = [nsName, nsIf] := rfl
theorem nsIf_eq : nsIf = .ifElse nsCond nsThen [nsInner] := rfl
theorem nsInner_eq : nsInner = .forIn "p" (.prim "predecessors" (.listCons (.var "t") .listNil)) nsInnerBody := rfl

variable {S}

/-- the inner loop: one edge per predecessor -/
theorem inner_loop (hS : S.OK) (F t : Nat) (st : PState) (ρ : PyLite.Env) (a : Str)
    (ht : ρ.get? "t" = some (.atom (.ref t))) (hn : ρ.get? "t_name" = some (.atom (S.s (lbl (pts t).name))))
    (hs : ρ.get? "self" = some (.atom (.ref 0))) (ha : ρ.get? "res" = some (.atom (S.s a))) :
    ∃ ρ', ρ'.get? "self" = some (.atom (.ref 0)) ∧
      ρ'.get? "res" = some (.atom (S.s (a ++ ((pts t).preds.map (edgeLine S pts t)).flatten))) ∧
      (nsInner).execP (Hr S V pts (F + 1)) [] noRec ρ st = .normal ρ' st := by
  rw [nsInner_eq, execP_forIn (vs := (pts t).preds.map Atom.ref) (st' := st) (hit := by rpl [refsA, ht])]
  obtain ⟨ρ', hP, hacc, hl⟩ := forLoopP_str S "p" "res"
    (fun ρ st => execBlockP (Hr S V pts (F + 1)) [] noRec nsInnerBody ρ st)
    (fun ρ => ρ.get? "t" = some (.atom (.ref t)) ∧ ρ.get? "t_name" = some (.atom (S.s (lbl (pts t).name))) ∧
      ρ.get? "self" = some (.atom (.ref 0))) (edgeG S pts t) st ((pts t).preds.map Atom.ref)
    (by
      intro ρ a v hv hP ha
      obtain ⟨c, hc, rfl⟩ := List.mem_map.1 hv
      obtain ⟨h1, h2, h3⟩ := hP
      have hcall := label_spec V pts hS F (pts c).name st
      refine ⟨Env.set (Env.set (Env.set ρ "p" (.atom (.ref c))) "p_name" (.atom (S.s (lbl (pts c).name)))) "res"
        (.atom (S.s (a ++ edgeG S pts t (.ref c)))), ?_, ?_, ?_⟩
      · simp [Pj.TaskSrc.Env.get?_set, h1, h2, h3]
      · simp [Pj.TaskSrc.Env.get?_set]
      · rpl [nsInnerBody, nsInner, nsIf, nsBody1, nsLoop1, src_network_src, ha, h1, h2, h3, hcall, prim_concat' V pts hS,
          text_s hS, edgeG, edgeLine, nodeOf, nodeLabel, lbl, List.append_assoc])
    ρ a ⟨ht, hn, hs⟩ ha
  refine ⟨ρ', hP.2.2, ?_, hl⟩
  rw [hacc, flatMap_refs']
  rfl

/-- one round of the first loop: the edges of one task -/
theorem loop1_step (hS : S.OK) (F t : Nat) (st : PState) (ρ : PyLite.Env) (a : Str)
    (hs : ρ.get? "self" = some (.atom (.ref 0))) (ha : ρ.get? "res" = some (.atom (S.s a))) :
    ∃ ρ', ρ'.get? "self" = some (.atom (.ref 0)) ∧ ρ'.get? "res" = some (.atom (S.s (a ++ taskEdges S pts t))) ∧
      execBlockP (Hr S V pts (F + 1)) [] noRec nsBody1 (ρ.set "t" (.atom (.ref t))) st = .normal ρ' st := by
  have hcall := label_spec V pts hS F (pts t).name st
  have h1 : nsName.execP (Hr S V pts (F + 1)) [] noRec (ρ.set "t" (.atom (.ref t))) st =
      .normal ((ρ.set "t" (.atom (.ref t))).set "t_name" (.atom (S.s (lbl (pts t).name)))) st := by
    rpl [nsName, nsBody1, nsLoop1, src_network_src, hcall]
  have hcond : nsCond.evalP (Hr S V pts (F + 1)) [] ((ρ.set "t" (.atom (.ref t))).set "t_name" (.atom (S.s (lbl (pts t).name)))) st =
      .ok (.atom (.bool (pts t).preds.isEmpty), st) := by
    rpl [nsCond, nsIf, nsBody1, nsLoop1, src_network_src, refsA, pyEq_len]
  rw [nsBody1_eq, execBlockP_cons, h1]
  simp only [execBlockP_cons, execBlockP_nil, nsIf_eq]
  simp only [Stmt.execP, hcond, bind, Except.bind, pure, Except.pure, truthP]
  by_cases hp : (pts t).preds.isEmpty = true
  · simp only [hp, if_true, taskEdges]
    refine ⟨(((ρ.set "t" (.atom (.ref t))).set "t_name" (.atom (S.s (lbl (pts t).name)))).set "res"
      (.atom (S.s (a ++ (lit "  0((Start)) --> " ++ nodeOf S pts t ++ ['\n']))))), ?_, ?_, ?_⟩
    · simp [Pj.TaskSrc.Env.get?_set, hs]
    · simp [Pj.TaskSrc.Env.get?_set]
    · rpl [nsThen, nsIf, nsBody1, nsLoop1, src_network_src, ha, prim_concat' V pts hS, text_s hS, nodeOf, nodeLabel, lbl,
        List.append_assoc]
  · simp only [hp, if_false, taskEdges, Bool.false_eq_true]
    obtain ⟨ρ', h1', h2', h3'⟩ := inner_loop V pts hS F t st
      ((ρ.set "t" (.atom (.ref t))).set "t_name" (.atom (S.s (lbl (pts t).name)))) a
      (by simp [Pj.TaskSrc.Env.get?_set]) (by simp [Pj.TaskSrc.Env.get?_set]) (by simp [Pj.TaskSrc.Env.get?_set, hs])
      (by simp [Pj.TaskSrc.Env.get?_set, ha])
    refine ⟨ρ', h1', h2', ?_⟩
    rw [execBlockP_cons, h3']
    simp only [execBlockP_nil]

/-- one round of the second loop: the style line of one task -/
theorem loop2_step (hS : S.OK) (F t : Nat) (st : PState) (ρ : PyLite.Env) (a : Str)
    (hs : ρ.get? "self" = some (.atom (.ref 0))) (ha : ρ.get? "res" = some (.atom (S.s a))) :
    ∃ ρ', ρ'.get? "self" = some (.atom (.ref 0)) ∧ ρ'.get? "res" = some (.atom (S.s (a ++ styleLine S V pts t))) ∧
      execBlockP (Hr S V pts (F + 1)) [] noRec nsBody2 (ρ.set "t" (.atom (.ref t))) st = .normal ρ' st := by
  have hd := any_dict hS (pts t).dict kStyle
  have hg := prim_getattr' V pts hS t kStyle st
  cases hv : lookupA (pts t).dict kStyle with
  | none =>
    rw [hv] at hd
    refine ⟨ρ.set "t" (.atom (.ref t)), ?_, ?_, ?_⟩
    · simp [Pj.TaskSrc.Env.get?_set, hs]
    · simp [Pj.TaskSrc.Env.get?_set, ha, styleLine, hv]
    · rpl [nsBody2, nsLoop2, src_network_src, hd]
  | some x =>
    rw [hv] at hd hg
    refine ⟨(ρ.set "t" (.atom (.ref t))).set "res"
      (.atom (S.s (a ++ (lit "style " ++ S.text (pts t).id ++ [' '] ++ V.style x ++ ['\n'])))), ?_, ?_, ?_⟩
    · simp [Pj.TaskSrc.Env.get?_set, hs]
    · simp [Pj.TaskSrc.Env.get?_set, styleLine, hv]
    · rpl [nsBody2, nsLoop2, src_network_src, hd, hg, ha, prim_concat' V pts hS, text_s hS, List.append_assoc]

theorem pf_network : renderFuns fn_network_src = some (src_network_src_params, src_network_src) := rfl

/-- STAGE 2: `MermaidNetwork.__src()` returns the model's text -/
theorem network_src_spec (hS : S.OK) (F : Nat) (st : PState) :
    (Hr S V pts (F + 2)).fnV fn_network_src [.atom (.ref 0)] st =
      .ok (.atom (S.s (networkSrc (nAll S V pts) V.tasks)), st) := by
  rw [rfnV_succ _ _ _ _ _ _ _ pf_network]
  have hit : ∀ ρ : PyLite.Env, ρ.get? "self" = some (.atom (.ref 0)) →
      tasksE.evalP (Hr S V pts (F + 1)) [] ρ st = .ok (.list (V.tasks.map Atom.ref), st) := by
    intro ρ h; rpl [tasksE, h, refsA]
  let ρ0 : PyLite.Env := Env.set [("self", .atom (.ref 0))] "res" (.atom (S.s (lit "flowchart LR\n")))
  have hs0 : ρ0.get? "self" = some (.atom (.ref 0)) := by simp [ρ0, Pj.TaskSrc.Env.get?_set, Pj.TaskSrc.Env.get?_cons]
  have ha0 : ρ0.get? "res" = some (.atom (S.s (lit "flowchart LR\n"))) := by simp [ρ0, Pj.TaskSrc.Env.get?_set]
  obtain ⟨ρ1, hs1, ha1, hl1⟩ : ∃ ρ1, ρ1.get? "self" = some (.atom (.ref 0)) ∧
      ρ1.get? "res" = some (.atom (S.s (lit "flowchart LR\n" ++ (V.tasks.map Atom.ref).flatMap (taskG S pts)))) ∧
      nsLoop1.execP (Hr S V pts (F + 1)) [] noRec ρ0 st = .normal ρ1 st := by
    rw [nsLoop1_eq, execP_forIn (vs := V.tasks.map Atom.ref) (st' := st) (hit := hit ρ0 hs0)]
    exact forLoopP_str S "t" "res" (fun ρ st => execBlockP (Hr S V pts (F + 1)) [] noRec nsBody1 ρ st)
      (fun ρ => ρ.get? "self" = some (.atom (.ref 0))) (taskG S pts) st (V.tasks.map Atom.ref)
      (by
        intro ρ a v hv hP ha
        obtain ⟨c, hc, rfl⟩ := List.mem_map.1 hv
        exact loop1_step V pts hS F c st ρ a hP ha)
      ρ0 _ hs0 ha0
  obtain ⟨ρ2, hs2, ha2, hl2⟩ : ∃ ρ2, ρ2.get? "self" = some (.atom (.ref 0)) ∧
      ρ2.get? "res" = some (.atom (S.s (lit "flowchart LR\n" ++ (V.tasks.map Atom.ref).flatMap (taskG S pts) ++
        (V.tasks.map Atom.ref).flatMap (styleG S V pts)))) ∧
      nsLoop2.execP (Hr S V pts (F + 1)) [] noRec ρ1 st = .normal ρ2 st := by
    rw [nsLoop2_eq, execP_forIn (vs := V.tasks.map Atom.ref) (st' := st) (hit := hit ρ1 hs1)]
    exact forLoopP_str S "t" "res" (fun ρ st => execBlockP (Hr S V pts (F + 1)) [] noRec nsBody2 ρ st)
      (fun ρ => ρ.get? "self" = some (.atom (.ref 0))) (styleG S V pts) st (V.tasks.map Atom.ref)
      (by
        intro ρ a v hv hP ha
        obtain ⟨c, hc, rfl⟩ := List.mem_map.1 hv
        exact loop2_step V pts hS F c st ρ a hP ha)
      ρ1 _ hs1 ha1
  rw [networkSrc_eq] at ha2
  rpl [src_network_src_params, ns_shape, hl1, hl2, ha2, ρ0]

/-- the entry point -/
theorem interpNetworkSrc_eq (hS : S.OK) (F : Nat) (hF : 2 ≤ F) :
    interpNetworkSrc S V pts F = .ok (.atom (S.s (networkSrc (nAll S V pts) V.tasks))) := by
  obtain ⟨F, rfl⟩ : ∃ F', F = F' + 2 := ⟨F - 2, by omega⟩
  have := network_src_spec V pts hS F st0
  simp only [interpNetworkSrc, interp, runProg]
  rw [this]; rfl

theorem interpLabel_eq (hS : S.OK) (F : Nat) (name : Str) (hF : 1 ≤ F) :
    interpLabel S V pts F name = .ok (.atom (S.s (escLabel (name.filter (fun c => c != '"'))))) := by
  obtain ⟨F, rfl⟩ : ∃ F', F = F' + 1 := ⟨F - 1, by omega⟩
  have := label_spec V pts hS F name st0
  simp only [interpLabel, interp, runProg]
  rw [this]; rfl

end Pj.RenderSrc
