/-
  Lemmas/CsvSrcS4.lean — CSV I/O, READ side, `raws_to_wbs`: the SECOND loop (hierarchy) over all raw objects.
  The raw objects live below `n`, the tasks (the values of `tasks_by_id`) from `n` on; `setParent` only touches tasks.
-/
import PjVerif.Lemmas.CsvSrcS3
namespace Pj.CsvSrc
open Pj.PyLite Pj.Extracted.Csv Pj.Csv

/-- every `parent` slot that holds an object holds one from `n` on -/
def ParInv (n : Nat) (st : PState) : Prop :=
  ∀ j x, (st.heap j).get? "parent" = some (.atom (.ref x)) → n ≤ x

theorem heapSet_other (h : Nat → PyLite.Env) (i j : Nat) (f : String) (v : Val) (hne : j ≠ i) :
    heapSet h i f v j = h j := by simp [heapSet, hne]

theorem heapSet_get_ne (h : Nat → PyLite.Env) (i j : Nat) (f g : String) (v : Val) (hne : f ≠ g) :
    (heapSet h i f v j).get? g = (h j).get? g := by
  unfold heapSet
  by_cases hj : j = i
  · subst hj; simp only [if_true]; rw [envGet_set, if_neg hne]
  · simp only [if_neg hj]

/-- `setParent` leaves the objects below `n` alone -/
theorem setParent_low (st : PState) (t q n : Nat) (ht : n ≤ t) (hq : n ≤ q) (hinv : ParInv n st) (j : Nat) (hj : j < n) :
    (setParent st t q).heap j = st.heap j := by
  unfold setParent
  simp only
  rw [heapSet_other _ t j _ _ (by omega), heapSet_other _ q j _ _ (by omega)]
  have hw : ∀ o, (st.heap t).get? "parent" = some (.atom (.ref o)) → n ≤ o := fun o ho => hinv t o ho
  generalize (st.heap t).get? "parent" = w at hw
  cases w with
  | none => rfl
  | some v =>
    cases v with
    | atom a =>
      cases a with
      | ref o =>
        have := hw o rfl
        exact heapSet_other _ o j _ _ (by omega)
      | _ => rfl
    | _ => rfl

theorem setParent_parent (st : PState) (t q j : Nat) :
    ((setParent st t q).heap j).get? "parent" =
      if j = t then some (.atom (.ref q)) else (st.heap j).get? "parent" := by
  unfold setParent
  simp only
  by_cases hj : j = t
  · subst hj
    simp only [heapSet, if_true]
    rw [envGet_set, if_pos rfl]
  · rw [if_neg hj, heapSet_other _ t j _ _ hj, heapSet_get_ne _ _ _ _ _ _ (by decide)]
    generalize (st.heap t).get? "parent" = w
    cases w with
    | none => rfl
    | some v =>
      cases v with
      | atom a =>
        cases a with
        | ref o => exact heapSet_get_ne _ _ _ _ _ _ (by decide)
        | _ => rfl
      | _ => rfl

theorem setParent_inv (st : PState) (t q n : Nat) (hq : n ≤ q) (hinv : ParInv n st) : ParInv n (setParent st t q) := by
  intro j x hx
  rw [setParent_parent] at hx
  by_cases hj : j = t
  · rw [if_pos hj] at hx
    injection hx with hx; injection hx with hx; injection hx with hx
    omega
  · rw [if_neg hj] at hx
    exact hinv j x hx

structure LinkInv (n : Nat) (E : Nat → PyLite.Env) (st : PState) : Prop where
  low : ∀ j < n, st.heap j = E j
  par : ParInv n st

theorem linkStep_inv (n : Nat) (E : Nat → PyLite.Env) (D : List (Atom × Atom))
    (hD : ∀ k v, Dict.get? D k = some v → ∃ q, v = .ref q ∧ n ≤ q) (t : Nat) (ht : n ≤ t) (p : Atom)
    (s : PState × List Atom) (h : LinkInv n E s.1) : LinkInv n E (linkStep D t p s).1 := by
  unfold linkStep
  by_cases hp : p = .none
  · rw [if_pos hp]; exact h
  · rw [if_neg hp]
    cases hg : Dict.get? D p with
    | none => exact h
    | some v =>
      obtain ⟨q, rfl, hq⟩ := hD p v hg
      have i1 := setParent_inv s.1 t q n hq h.par
      exact ⟨fun j hj => by
        show (setParent (setParent s.1 t q) t q).heap j = E j
        rw [setParent_low _ t q n ht hq i1 j hj, setParent_low _ t q n ht hq h.par j hj]; exact h.low j hj,
        setParent_inv _ t q n hq i1⟩

/-- a row of the second loop: the raw object, its task, its id and its parent id -/
structure LinkRow where
  o : Nat
  t : Nat
  a : Atom
  p : Atom

/-- the second loop: `linkStep` for every row, in order -/
theorem link_loop (L : IOLib) (F : Nat) (rec) (n : Nat) (E : Nat → PyLite.Env) (D : List (Atom × Atom))
    (hD : ∀ k v, Dict.get? D k = some v → ∃ q, v = .ref q ∧ n ≤ q) :
    ∀ (rows : List LinkRow) (env : PyLite.Env) (st : PState) (rs : List Atom),
      env.get? "tasks_by_id" = some (.dict D) → env.get? "roots" = some (.list rs) → LinkInv n E st →
      (∀ r ∈ rows, r.o < n ∧ (E r.o).get? "id" = some (.atom r.a) ∧ (E r.o).get? "parent_id" = some (.atom r.p) ∧
        Dict.get? D r.a = some (.ref r.t)) →
      ∃ env', forLoopP "raw" (fun e s => execBlockP (HH L (F + 1)) [] rec linkBody e s)
          (rows.map (fun r => Atom.ref r.o)) env st =
          .normal env' (rows.foldl (fun s r => linkStep D r.t r.p s) (st, rs)).1 ∧
        env'.get? "roots" = some (.list (rows.foldl (fun s r => linkStep D r.t r.p s) (st, rs)).2) ∧
        Frame ["raw", "task", "parent_task", "roots"] env env'
  | [], env, st, rs, _, hr, _, _ => ⟨env, rfl, hr, Frame.refl _ _⟩
  | r :: rows, env, st, rs, hDe, hr, hinv, hrows => by
    obtain ⟨ho, hid, hpid, hget⟩ := hrows r (List.mem_cons_self ..)
    have ht : n ≤ r.t := by
      obtain ⟨q, hq1, hq2⟩ := hD _ _ hget
      injection hq1 with hq1; omega
    obtain ⟨env1, g1, g2, g3⟩ := link_body L F rec (env.set "raw" (.atom (.ref r.o))) st r.o r.t r.a r.p D rs
      (by rw [envGet_set, if_pos rfl]) (by rw [envGet_set, if_neg (by decide)]; exact hDe)
      (by rw [envGet_set, if_neg (by decide)]; exact hr) (by rw [hinv.low _ ho]; exact hid)
      (by rw [hinv.low _ ho]; exact hpid) hget (fun v hv => by obtain ⟨q, hq, _⟩ := hD _ _ hv; exact ⟨q, hq⟩)
    obtain ⟨env2, g4, g5, g6⟩ := link_loop L F rec n E D hD rows env1 (linkStep D r.t r.p (st, rs)).1
      (linkStep D r.t r.p (st, rs)).2
      (by rw [g3 "tasks_by_id" (by decide), envGet_set, if_neg (by decide)]; exact hDe) g2
      (linkStep_inv n E D hD r.t ht r.p (st, rs) hinv) (fun r' hr' => hrows r' (List.mem_cons_of_mem _ hr'))
    refine ⟨env2, ?_, g5, ?_⟩
    · rw [List.map_cons, forLoopP, g1]
      dsimp only
      rw [g4]; rfl
    · intro x hx
      rw [g6 x hx, g3 x (fun hh => hx (by simp at hh ⊢; rcases hh with h | h | h <;> simp [h])),
        envGet_set, if_neg (fun hh => hx (by simp [← hh]))]

end Pj.CsvSrc
