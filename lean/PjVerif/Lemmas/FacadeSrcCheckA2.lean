/-
  Lemmas/FacadeSrcCheckA2.lean — stage 1 of the translated tie for the list facades of task.py, continued: kernel-checked
  concrete runs of the operators `Task.__floordiv__ / __lshift__ / __rshift__` (Extracted/FacadeSrc.lean) against
  `floordiv` / `lshift` / `rshift` (Model/GraphOps.lean).  See Lemmas/FacadeSrcCheck.lean / Lemmas/FacadeSrc.lean.
-/
import PjVerif.Lemmas.FacadeSrcCheck
namespace Pj.FacadeSrc
open Pj.PyLite Pj.Extracted Pj.Extracted.Facade Pj.TaskSrc Pj.TaskSrc.Check
namespace Check

/-! #### `h // v`, `t << v`, `t >> v`: the value `v` is a list of tasks, a task, `None`, a list with `None`s; the
    operators return `v` -/

def agreeOps (s : G) (t : Uid) (v : Val) (l : List Uid) : Bool :=
  decide (runE s (interpFloordiv FF t v) = expectR s.n v (floordiv s t l)) &&
  decide (runE s (interpLshift FF t v) = expectR s.n v (lshift s t l)) &&
  decide (runE s (interpRshift FF t v) = expectR s.n v (rshift s t l))

example : allU g1 (fun t => [1, 3, 6, 9, 10, 12].all (fun a => agreeOps g1 t (refV a) [a])) = true := by decide +kernel
example : allU g2 (fun t => allU g2 (fun a => agreeOps g2 t (refs [a, 6]) [a, 6])) = true := by decide +kernel
example : allU g3 (fun t => allU g3 (fun a => agreeOps g3 t (refs [a]) [a])) = true := by decide +kernel
example : allU g1 (fun t => agreeOps g1 t noneV [] && agreeOps g1 t (.list [.ref 10, .none, .ref 11]) [10, 11]) = true := by
  decide +kernel
example : (floordiv g1 1 [10, 11]).2 = none ∧ (floordiv g1 1 [10, 11]).1.children 1 = [2, 10, 11] ∧
    (floordiv g1 1 [10, 11]).1.owner 11 = some 0 := by decide +kernel          -- appended, not replaced
example : (floordiv g1 1 [3]).2 = none ∧ (floordiv g1 1 [3]).1.children 1 = [2, 3] ∧
    (floordiv g1 1 [3]).1.children 0 = [1] := by decide +kernel
example : (lshift g1 10 [11, 6]).2 = none ∧ (lshift g1 10 [11, 6]).1.preds 10 = [11, 6] ∧
    (lshift g1 10 [11, 6]).1.succs 6 = [7, 10] := by decide +kernel
example : (rshift g2 6 [4]).2 = some .runtime := by decide +kernel              -- a cycle
/-- a value that is neither a task, a list nor `None` (an `int`): outside the encoding, the run is stuck -/
example : runE g1 (interpFloordiv FF 1 (intV 5)) = .error stuck := by decide +kernel

end Check
end Pj.FacadeSrc
