/-
  Lemmas/FacadeSrcCheckA.lean — stage 1 of the translated tie for the list facades of task.py, continued: kernel-checked
  concrete runs of `_PredecessorsList.append / remove`, `_SuccessorsList.append / remove` (Extracted/FacadeSrc.lean)
  against Model/GraphOps.lean.
  See Lemmas/FacadeSrcCheck.lean / Lemmas/FacadeSrc.lean.
-/
import PjVerif.Lemmas.FacadeSrcCheck
namespace Pj.FacadeSrc
open Pj.PyLite Pj.Extracted Pj.Extracted.Facade Pj.TaskSrc Pj.TaskSrc.Check
namespace Check

/-! #### `t.predecessors.append(x)` / `.remove(x)`, `t.successors.append(x)` / `.remove(x)`: every pair of tasks -/

def agreeLinks (s : G) (t x : Uid) : Bool :=
  decide (runE s (interpPrAppend FF t x) = expectR s.n noneV (prAppend s t x)) &&
  decide (runE s (interpPrRemove FF t x) = expectR s.n (boolV ((s.preds t).contains x)) (prRemove s t x)) &&
  decide (runE s (interpSuAppend FF t x) = expectR s.n noneV (suAppend s t x)) &&
  decide (runE s (interpSuRemove FF t x) = expectR s.n (boolV ((s.succs t).contains x)) (suRemove s t x))

example : allU g1 (fun t => allU g1 (fun x => agreeLinks g1 t x)) = true := by decide +kernel
example : allU g2 (fun t => allU g2 (fun x => agreeLinks g2 t x)) = true := by decide +kernel
example : allU g3 (fun t => allU g3 (fun x => agreeLinks g3 t x)) = true := by decide +kernel
example : (prAppend g1 10 11).2 = none ∧ (prAppend g1 10 11).1.succs 11 = [10] := by decide +kernel
example : (prAppend g1 2 1).2 = some .runtime := by decide +kernel             -- the parent as a predecessor
example : (prAppend g2 4 6).2 = some .runtime := by decide +kernel             -- a cycle
example : (prRemove g1 2 3).2 = none ∧ (prRemove g1 2 3).1.succs 3 = [] ∧ (prRemove g1 2 3).1.preds 2 = [] := by
  decide +kernel
example : (suRemove g2 4 5).2 = none ∧ (suRemove g2 4 5).1.succs 4 = [3] ∧ (suRemove g2 4 5).1.preds 5 = [] := by
  decide +kernel

/-- `None` as the task: RuntimeError (`_check_not_none`) -/
example : runE g1 (interpF noLib FF fn_PredecessorsList_append [refV 10, noneV]) = .error .runtime := by decide +kernel
example : runE g1 (interpF noLib FF fn_PredecessorsList_remove [refV 10, noneV]) = .error .runtime := by decide +kernel
example : runE g1 (interpF noLib FF fn_SuccessorsList_append [refV 10, noneV]) = .error .runtime := by decide +kernel
example : runE g1 (interpF noLib FF fn_SuccessorsList_remove [refV 10, noneV]) = .error .runtime := by decide +kernel

end Check
end Pj.FacadeSrc
