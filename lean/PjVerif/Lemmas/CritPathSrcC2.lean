/-
  Lemmas/CritPathSrcC2.lean — stage 2 of the translated tie for alg/critical_path.py: the network `__init__` builds on an
  acyclic WBS (`Built`): one arc per member leaf, in the order of a depth-first walk along the model's `prereqs`, and a
  zero-length arrow from the end node of every prerequisite to the start node.  See Lemmas/CritPathSrc.lean.
-/
import PjVerif.Lemmas.CritPathSrcC1
import PjVerif.Lemmas.TaskSrcA
namespace Pj.CritPathSrc
open Pj.PyLite Pj.CPEnv
set_option linter.unusedSimpArgs false
set_option linter.unusedVariables false

/-! ### dicts keyed by task ids, the set of members -/

theorem pyEq_idA (i j : Int) : (idA i).pyEq (idA j) = decide (i = j) := Pj.TaskSrc.pyEq_idA i j

theorem pyEq_true_iff (a b : Atom) : a.pyEq b = true ↔ a.norm = b.norm := by simp [Atom.pyEq]

theorem Dict.get?_nil (k : Atom) : Dict.get? [] k = none := rfl

theorem Dict.get?_cons (p : Atom × Atom) (d : List (Atom × Atom)) (k : Atom) :
    Dict.get? (p :: d) k = if p.1.pyEq k then some p.2 else Dict.get? d k := by
  unfold Dict.get?
  by_cases h : p.1.pyEq k = true <;> simp [List.find?, h]

theorem Dict.get?_append_absent (d : List (Atom × Atom)) (k' v k : Atom) :
    Dict.get? (d ++ [(k', v)]) k = match Dict.get? d k with
      | some x => some x
      | none => if k'.pyEq k then some v else none := by
  induction d with
  | nil => simp [Dict.get?_cons, Dict.get?_nil]
  | cons p d ih =>
    simp only [List.cons_append, Dict.get?_cons]
    by_cases h : p.1.pyEq k = true
    · simp [h]
    · simp [h, ih]

/-- inserting a key that is absent appends the entry -/
theorem Dict.insert_absent (d : List (Atom × Atom)) (k v : Atom) (h : Dict.get? d k = none) :
    Dict.insert d k v = d ++ [(k, v)] := by
  induction d with
  | nil => rfl
  | cons p d ih =>
    rw [Dict.get?_cons] at h
    by_cases hp : p.1.pyEq k = true
    · simp [hp] at h
    · simp only [hp, if_false, Bool.false_eq_true] at h
      simp only [Dict.insert, hp, Bool.false_eq_true, if_false, List.cons_append, ih h]

/-- the dict `{t.id: g(t) for t in l}` when the ids of `l` are pairwise different -/
theorem get?_map_idA (tid : Uid → Int) (g : Uid → Atom) (l : List Uid) (p : Uid) (hp : p ∈ l)
    (hinj : ∀ x ∈ l, tid x = tid p → x = p) :
    Dict.get? (l.map (fun t => (idA (tid t), g t))) (idA (tid p)) = some (g p) := by
  induction l with
  | nil => cases hp
  | cons x l ih =>
    simp only [List.map_cons, Dict.get?_cons, pyEq_idA]
    by_cases hx : tid x = tid p
    · have := hinj x List.mem_cons_self hx
      subst this
      simp
    · simp only [hx, decide_false, Bool.false_eq_true, if_false]
      rcases List.mem_cons.mp hp with rfl | hp'
      · exact absurd rfl hx
      · exact ih hp' (fun y hy => hinj y (List.mem_cons_of_mem _ hy))

theorem get?_map_idA_none (tid : Uid → Int) (g : Uid → Atom) (l : List Uid) (i : Int)
    (hno : ∀ x ∈ l, tid x ≠ i) : Dict.get? (l.map (fun t => (idA (tid t), g t))) (idA i) = none := by
  induction l with
  | nil => rfl
  | cons x l ih =>
    simp only [List.map_cons, Dict.get?_cons, pyEq_idA]
    have := hno x List.mem_cons_self
    simp only [this, decide_false, Bool.false_eq_true, if_false]
    exact ih (fun y hy => hno y (List.mem_cons_of_mem _ hy))

/-- `id(p) in self.__members` -/
theorem memOf_any (members : List Uid) (p : Uid) :
    (memOf members).any (fun v => v.pyEq (.num ((p : Nat) : Rat))) = members.contains p := by
  have h1 : memOf members = members.eraseDups.map Pj.TaskSrc.oidA := Pj.TaskSrc.pyDedup_oidA members
  rw [h1]
  have h2 := Pj.TaskSrc.any_oidA members.eraseDups p
  unfold Pj.TaskSrc.oidA at h2
  unfold Pj.TaskSrc.oidA
  rw [h2, Pj.TaskSrc.contains_eraseDups]

/-- `p.id in p_ids` -/
theorem pids_any (tid : Uid → Int) (seen : List Uid) (p : Uid) (hinj : ∀ x ∈ seen, tid x = tid p → x = p) :
    (seen.map (fun x => idA (tid x))).any (fun v => v.pyEq (idA (tid p))) = seen.contains p := by
  induction seen with
  | nil => rfl
  | cons x l ih =>
    simp only [List.map_cons, List.any_cons, pyEq_idA, List.contains_cons]
    rw [ih (fun y hy => hinj y (List.mem_cons_of_mem _ hy))]
    congr 1
    by_cases hx : tid x = tid p
    · have := hinj x List.mem_cons_self hx
      subst this; simp
    · have : p ≠ x := fun h => hx (h ▸ rfl)
      simp [hx, this]

/-! ### folds -/

theorem foldlM_flatMap {α β γ : Type} (g : α → List β) (f : γ → β → Option γ) (l : List α) (acc : γ) :
    (l.flatMap g).foldlM f acc = l.foldlM (fun acc x => (g x).foldlM f acc) acc := by
  induction l generalizing acc with
  | nil => rfl
  | cons x l ih =>
    simp only [List.flatMap_cons, List.foldlM_append, List.foldlM_cons]
    cases (g x).foldlM f acc with
    | none => rfl
    | some acc' => exact ih acc'

theorem flatMap_congr' {α β : Type} {f g : α → List β} (l : List α) (h : ∀ x ∈ l, f x = g x) :
    l.flatMap f = l.flatMap g := by
  induction l with
  | nil => rfl
  | cons x l ih =>
    simp only [List.flatMap_cons, h x List.mem_cons_self, ih (fun y hy => h y (List.mem_cons_of_mem _ hy))]

/-- de-duplication on the fly: the items of `l` that are not in `seen` (which grows) -/
def dd : List Uid → List Uid → List Uid
  | _, [] => []
  | seen, x :: l => if seen.contains x then dd seen l else x :: dd (seen ++ [x]) l

theorem dd_eq (l : List Uid) : ∀ seen, dd seen l = (l.filter (fun x => !seen.contains x)).eraseDups := by
  induction l with
  | nil => intro seen; simp [dd]
  | cons x l ih =>
    intro seen
    unfold dd
    by_cases hx : seen.contains x = true
    · simp only [hx, if_true, List.filter_cons, Bool.not_true, Bool.false_eq_true, if_false]
      exact ih seen
    · have hx' : seen.contains x = false := by simpa using hx
      simp only [hx', Bool.false_eq_true, if_false, List.filter_cons, Bool.not_false, if_true]
      rw [List.eraseDups_cons, ih (seen ++ [x]), List.filter_filter]
      congr 2
      apply List.filter_congr
      intro y _
      simp only [List.contains_append, List.contains_cons, List.contains_nil, Bool.or_false, Bool.not_or, Bool.and_comm]

theorem dd_nil (l : List Uid) : dd [] l = l.eraseDups := by
  rw [dd_eq]
  congr 1
  simp

theorem nodup_eraseDups_aux : ∀ (n : Nat) (l : List Uid), l.length ≤ n → l.eraseDups.Nodup := by
  intro n
  induction n with
  | zero =>
    intro l hl
    have : l = [] := List.length_eq_zero_iff.mp (by omega)
    subst this; simp
  | succ n ih =>
    intro l hl
    cases l with
    | nil => simp
    | cons x l =>
      rw [List.eraseDups_cons]
      refine List.nodup_cons.mpr ⟨?_, ?_⟩
      · rw [List.mem_eraseDups]
        simp
      · refine ih _ ?_
        have := List.length_filter_le (fun b => !b == x) l
        simp only [List.length_cons] at hl
        omega

theorem nodup_eraseDups (l : List Uid) : l.eraseDups.Nodup := nodup_eraseDups_aux l.length l (Nat.le_refl _)

/-! ### replacing the calculator object -/

section setcalc
variable (B : Nat)

theorem setCalc_other {σ : Store} {o o' : Obj} (hc : getO B σ B = some o) {b : Nat} (hb : b ≠ B) :
    getO B (setO B σ B o') b = getO B σ b := getO_setO_ne B _ (Nat.le_refl B) (Ne.symm hb)

theorem setCalc_stable {σ : Store} {n : List Nat} {l t : List (Atom × Atom)} {ed : Atom} {m : List Atom} (o' : Obj)
    (hc : getO B σ B = some (.calc n l t ed m)) : LinkStable B σ (setO B σ B o') := by
  intro a s e u ha
  have : a ≠ B := by intro hx; subst hx; rw [hc] at ha; cases ha
  rw [setCalc_other B hc this, ha]

theorem setCalc_inArcs {σ : Store} {n : List Nat} {l t : List (Atom × Atom)} {ed : Atom} {m : List Atom} (o' : Obj)
    (hc : getO B σ B = some (.calc n l t ed m)) {b : Nat} {L : List (Nat × Rat)} (hL : inArcs B σ b = some L) :
    inArcs B (setO B σ B o') b = some L := by
  obtain ⟨_, _, _, _, hg, _⟩ := inArcs_some B hL
  have : b ≠ B := by intro hx; subst hx; rw [hc] at hg; cases hg
  exact inArcs_stable B (setCalc_stable B o' hc) (setCalc_other B hc this) hL

theorem setCalc_outArcs {σ : Store} {n : List Nat} {l t : List (Atom × Atom)} {ed : Atom} {m : List Atom} (o' : Obj)
    (hc : getO B σ B = some (.calc n l t ed m)) {b : Nat} {L : List (Nat × Rat)} (hL : outArcs B σ b = some L) :
    outArcs B (setO B σ B o') b = some L := by
  obtain ⟨_, _, _, _, hg, _⟩ := outArcs_some B hL
  have : b ≠ B := by intro hx; subst hx; rw [hc] at hg; cases hg
  exact outArcs_stable B (setCalc_stable B o' hc) (setCalc_other B hc this) hL

theorem setCalc_suOf {σ : Store} {n n' : List Nat} {l t l' t' : List (Atom × Atom)} {ed ed' : Atom} {m m' : List Atom}
    (hc : getO B σ B = some (.calc n l t ed m)) (b : Nat) :
    suOf B (setO B σ B (.calc n' l' t' ed' m')) b = suOf B σ b := by
  by_cases hb : b = B
  · rw [hb]; simp only [suOf, getO_setO_same B _ hc, hc]
  · simp only [suOf, setCalc_other B hc hb]

theorem setCalc_euOf {σ : Store} {n n' : List Nat} {l t l' t' : List (Atom × Atom)} {ed ed' : Atom} {m m' : List Atom}
    (hc : getO B σ B = some (.calc n l t ed m)) (b : Nat) :
    euOf B (setO B σ B (.calc n' l' t' ed' m')) b = euOf B σ b := by
  by_cases hb : b = B
  · rw [hb]; simp only [euOf, getO_setO_same B _ hc, hc]
  · simp only [euOf, setCalc_other B hc hb]

theorem Net.setCalc (e : CPEnv) {σ : Store} {ts : List Uid} {arrows : List (Uid × Uid)} {S E L : Uid → Nat}
    (h : Net e B σ ts arrows S E L) {n n' : List Nat} {l t l' t' : List (Atom × Atom)} {ed ed' : Atom} {m m' : List Atom}
    (hc : getO B σ B = some (.calc n l t ed m)) :
    Net e B (setO B σ B (.calc n' l' t' ed' m')) ts arrows S E L := by
  refine ⟨?_, ?_, ?_, ?_, ?_, h.inj, h.arr, ?_⟩
  · intro x hx; exact setCalc_stable B _ hc _ _ _ _ (h.link x hx)
  · intro x hx; exact setCalc_inArcs B _ hc (h.inS x hx)
  · intro x hx; exact setCalc_outArcs B _ hc (h.outS x hx)
  · intro x hx; exact setCalc_inArcs B _ hc (h.inE x hx)
  · intro x hx; exact setCalc_outArcs B _ hc (h.outE x hx)
  · intro a; rw [setCalc_suOf B hc, setCalc_euOf B hc]; exact h.fresh a

end setcalc

/-! ### the network of `__init__` -/

section built
variable (e : CPEnv) (tid : Uid → Int) (B : Nat)

/-- the candidates of `__insert_task` in the order of its three loops -/
def cands (t : Uid) : List Uid :=
  ((t :: e.ancestors (e.n + 1) t).flatMap e.preds).flatMap (fun p => p :: (descF e.children (e.n + 1) p).getD [])

/-- a leaf of the calculated set -/
def okB (x : Uid) : Bool := e.isLeaf x && e.members.contains x

theorem prereqs_eq (t : Uid) : prereqs e t = ((cands e t).filter (okB e)).eraseDups := rfl

theorem mem_leaves (x : Uid) : x ∈ leaves e ↔ okB e x = true := by
  unfold leaves okB
  simp [List.mem_filter, and_comm]

theorem prereqs_leaf {t p : Uid} (hp : p ∈ prereqs e t) : p ∈ leaves e := by
  rw [prereqs_eq, List.mem_eraseDups] at hp
  exact (mem_leaves e p).mpr (List.mem_filter.mp hp).2

/-- the arrows of the tasks `done`, in the order of their creation -/
def arrowsOf (done : List Uid) : List (Uid × Uid) := done.flatMap (fun s => (prereqs e s).map (fun p => (p, s)))

/-- ids of their own among the leaves of the calculated set -/
def IdInj : Prop := ∀ a ∈ leaves e, ∀ b ∈ leaves e, tid a = tid b → a = b

/-- `all_children` of the predecessors met by `__insert_task` is defined (no cycle among the children lists) -/
def DescOK : Prop :=
  ∀ t ∈ leaves e, ∀ p ∈ (t :: e.ancestors (e.n + 1) t).flatMap e.preds, descF e.children (e.n + 1) p ≠ none

/-- the state of `__init__`: the tasks `done` are inserted (in this order), the tasks `pend` are being inserted -/
structure Built (σ : Store) (done pend : List Uid) (S E L : Uid → Nat) : Prop where
  net : Net e B σ done (arrowsOf e done) S E L
  hcalc : ∃ tasks, getO B σ B = some (.calc (done.flatMap (fun t => [S t, E t]))
        (done.map (fun t => (idA (tid t), Atom.ref (L t)))) tasks .none (memOf e.members)) ∧
      (∀ t ∈ leaves e, (Dict.get? tasks (idA (tid t))).isSome = true ↔ (t ∈ done ∨ t ∈ pend)) ∧
      (∀ t, t ∈ done ∨ t ∈ pend → Dict.get? tasks (idA (tid t)) = some (.ref t))
  doneLeaf : ∀ t ∈ done, t ∈ leaves e
  pendLeaf : ∀ t ∈ pend, t ∈ leaves e
  disj : ∀ t ∈ done, t ∉ pend
  nodup : done.Nodup
  preDone : ∀ t ∈ done, ∀ p ∈ prereqs e t, p ∈ done

end built

/-! ### the forward recursion of the model -/

theorem efF_none_of_le (e : CPEnv) {f g : Nat} (hg : g ≤ f) {s : Uid} (h : efF e f s = none) : efF e g s = none := by
  cases hs : efF e g s with
  | none => rfl
  | some v => rw [efF_mono_le e g f hg s v hs] at h; cases h

/-- the least fuel with which the forward recursion of a task succeeds -/
theorem efF_min (e : CPEnv) : ∀ (f : Nat) (p : Uid) (v : Rat), efF e f p = some v →
    ∃ g, g < f ∧ efF e (g + 1) p = some v ∧ efF e g p = none := by
  intro f
  induction f with
  | zero => intro p v h; simp [efF] at h
  | succ f ih =>
    intro p v h
    cases hf : efF e f p with
    | none => exact ⟨f, Nat.lt_succ_self f, h, hf⟩
    | some w =>
      have := efF_mono e f p w hf
      rw [h] at this
      cases this
      obtain ⟨g, hg, h1, h2⟩ := ih p v hf
      exact ⟨g, Nat.lt_succ_of_lt hg, h1, h2⟩

theorem efF_prereq (e : CPEnv) {f : Nat} {t p : Uid} {v : Rat} (h : efF e (f + 1) t = some v) (hp : p ∈ prereqs e t) :
    ∃ w, efF e f p = some w := by
  rw [efF] at h
  simp only [Option.map_eq_some_iff] at h
  obtain ⟨ll, hll, _⟩ := h
  obtain ⟨w, _, hw⟩ := mapM_some_mem _ _ _ hll p hp
  exact ⟨w, hw⟩

section insert
variable (e : CPEnv) (tid : Uid → Int) (B : Nat)

theorem fold_insertPred (rec : Store → Uid → Option Store) (ps : List Uid)
    (hps : ∀ p ∈ ps, descF e.children (e.n + 1) p ≠ none) (acc : Store × List Atom) :
    ps.foldlM (insertPred e tid B rec) acc =
      (ps.flatMap (fun p => p :: (descF e.children (e.n + 1) p).getD [])).foldlM (insertStep e tid B rec) acc := by
  induction ps generalizing acc with
  | nil => rfl
  | cons p ps ih =>
    have hp := hps p List.mem_cons_self
    cases hd : descF e.children (e.n + 1) p with
    | none => exact absurd hd hp
    | some d =>
      have h1 : insertPred e tid B rec acc p = (p :: d).foldlM (insertStep e tid B rec) acc := by
        simp only [insertPred, hd]
      rw [List.foldlM_cons, h1, List.flatMap_cons, List.foldlM_append, hd, Option.getD_some]
      cases (p :: d).foldlM (insertStep e tid B rec) acc with
      | none => rfl
      | some acc' => exact ih (fun q hq => hps q (List.mem_cons_of_mem _ hq)) acc'

theorem fold_insertOwner (rec : Store → Uid → Option Store) (t : Uid)
    (hps : ∀ p ∈ (t :: e.ancestors (e.n + 1) t).flatMap e.preds, descF e.children (e.n + 1) p ≠ none)
    (acc : Store × List Atom) :
    (t :: e.ancestors (e.n + 1) t).foldlM (insertOwner e tid B rec) acc =
      (cands e t).foldlM (insertStep e tid B rec) acc := by
  unfold cands
  rw [← fold_insertPred e tid B rec _ hps, foldlM_flatMap]
  rfl

/-- what a nested call of `__insert_task` achieves while `t` is being inserted -/
def RecOK (rec : Store → Uid → Option Store) (pend : List Uid) (P : Uid → Prop) : Prop :=
  ∀ (p : Uid) (σ : Store) (done : List Uid) (S E L : Uid → Nat),
    Built e tid B σ done pend S E L → p ∈ leaves e → P p →
    ∃ σ' done' S' E' L', rec σ p = some σ' ∧ Built e tid B σ' done' pend S' E' L' ∧ p ∈ done' ∧
      ∀ x ∈ done, x ∈ done'

/-- the three loops of `__insert_task`: the prerequisites are inserted, their ids collected -/
theorem insert_loop (hid : IdInj e tid) (rec : Store → Uid → Option Store) (pend : List Uid) (P : Uid → Prop)
    (hrec : RecOK e tid B rec pend P) :
    ∀ (cs seen : List Uid) (σ : Store) (done : List Uid) (S E L : Uid → Nat),
      Built e tid B σ done pend S E L → (∀ x ∈ seen, x ∈ done) →
      (∀ p ∈ cs, okB e p = true → P p) →
      ∃ σ' done' S' E' L',
        cs.foldlM (insertStep e tid B rec) (σ, seen.map (fun x => idA (tid x))) =
          some (σ', (seen ++ dd seen (cs.filter (okB e))).map (fun x => idA (tid x))) ∧
        Built e tid B σ' done' pend S' E' L' ∧ (∀ x ∈ seen ++ dd seen (cs.filter (okB e)), x ∈ done') ∧
        ∀ x ∈ done, x ∈ done' := by
  intro cs
  induction cs with
  | nil =>
    intro seen σ done S E L hb hseen _
    refine ⟨σ, done, S, E, L, ?_, hb, ?_, fun x hx => hx⟩
    · simp [dd]
    · intro x hx
      simp only [List.filter_nil, dd, List.append_nil] at hx
      exact hseen x hx
  | cons p cs ih =>
    intro seen σ done S E L hb hseen hef
    obtain ⟨tasks, hcalc, _, _⟩ := hb.hcalc
    have hinj : ∀ x ∈ seen, tid x = tid p → okB e p = true → x = p := fun x hx hxp hok =>
      hid x (hb.doneLeaf x (hseen x hx)) p ((mem_leaves e p).mpr hok) hxp
    by_cases hok : okB e p = true
    · have hpl : p ∈ leaves e := (mem_leaves e p).mpr hok
      have hleaf : (e.children p).length = 0 := by
        have : e.isLeaf p = true := by
          unfold okB at hok; simp only [Bool.and_eq_true] at hok; exact hok.1
        unfold isLeaf at this
        simpa using this
      have hmem : (memOf e.members).any (fun v => v.pyEq (.num ((p : Nat) : Rat))) = true := by
        rw [memOf_any]
        unfold okB at hok; simp only [Bool.and_eq_true] at hok; exact hok.2
      have hpids : (seen.map (fun x => idA (tid x))).any (fun v => v.pyEq (idA (tid p))) = seen.contains p :=
        pids_any tid seen p (fun x hx hxp => hinj x hx hxp hok)
      by_cases hsn : seen.contains p = true
      · -- already collected
        have hstep : insertStep e tid B rec (σ, seen.map (fun x => idA (tid x))) p =
            some (σ, seen.map (fun x => idA (tid x))) := by
          simp only [insertStep, hcalc, hpids, hsn]
          simp
        obtain ⟨σ', done', S', E', L', hfold, hb', hin', hsub'⟩ :=
          ih seen σ done S E L hb hseen (fun q hq => hef q (List.mem_cons_of_mem _ hq))
        refine ⟨σ', done', S', E', L', ?_, hb', ?_, hsub'⟩
        · simp only [List.foldlM_cons, hstep, bind, Option.bind, List.filter_cons, hok, if_true, dd, hsn]
          exact hfold
        · simp only [List.filter_cons, hok, if_true, dd, hsn]
          exact hin'
      · have hsn' : seen.contains p = false := by simpa using hsn
        obtain ⟨σ1, done1, S1, E1, L1, hrun, hb1, hp1, hsub1⟩ :=
          hrec p σ done S E L hb hpl (hef p List.mem_cons_self hok)
        have hstep : insertStep e tid B rec (σ, seen.map (fun x => idA (tid x))) p =
            some (σ1, (seen ++ [p]).map (fun x => idA (tid x))) := by
          simp only [insertStep, hcalc, hpids, hsn', hleaf, hmem, hrun]
          simp
        obtain ⟨σ', done', S', E', L', hfold, hb', hin', hsub'⟩ :=
          ih (seen ++ [p]) σ1 done1 S1 E1 L1 hb1
            (fun x hx => by
              rcases List.mem_append.mp hx with hx | hx
              · exact hsub1 x (hseen x hx)
              · simp only [List.mem_singleton] at hx; subst hx; exact hp1)
            (fun q hq => hef q (List.mem_cons_of_mem _ hq))
        refine ⟨σ', done', S', E', L', ?_, hb', ?_, fun x hx => hsub' x (hsub1 x hx)⟩
        · simp only [List.foldlM_cons, hstep, bind, Option.bind, List.filter_cons, hok, if_true, dd, hsn',
            Bool.false_eq_true, if_false]
          rw [hfold]
          simp
        · simp only [List.filter_cons, hok, if_true, dd, hsn', Bool.false_eq_true, if_false]
          intro x hx
          apply hin'
          simpa using hx
    · have hok' : okB e p = false := by simpa using hok
      have hstep : insertStep e tid B rec (σ, seen.map (fun x => idA (tid x))) p =
          some (σ, seen.map (fun x => idA (tid x))) := by
        simp only [insertStep, hcalc]
        have : ¬ ((e.children p).length = 0 ∧
            (memOf e.members).any (fun v => v.pyEq (.num ((p : Nat) : Rat))) = true ∧
            (seen.map (fun x => idA (tid x))).any (fun v => v.pyEq (idA (tid p))) = false) := by
          rintro ⟨h1, h2, _⟩
          rw [memOf_any] at h2
          have : e.isLeaf p = true := by unfold isLeaf; simpa using h1
          exact hok (by unfold okB; rw [this, h2]; rfl)
        rw [if_neg this]
      obtain ⟨σ', done', S', E', L', hfold, hb', hin', hsub'⟩ :=
        ih seen σ done S E L hb hseen (fun q hq => hef q (List.mem_cons_of_mem _ hq))
      refine ⟨σ', done', S', E', L', ?_, hb', ?_, hsub'⟩
      · simp only [List.foldlM_cons, hstep, bind, Option.bind, List.filter_cons, hok', Bool.false_eq_true, if_false]
        exact hfold
      · simp only [List.filter_cons, hok', Bool.false_eq_true, if_false]
        exact hin'

end insert

section addwork
variable (e : CPEnv) (tid : Uid → Int) (B : Nat)

/-- the loop of `__add_work`: an arrow from the end of every prerequisite -/
theorem arrow_loop {ts : List Uid} {A : List (Uid × Uid)} {S E L : Uid → Nat} {t : Uid}
    {nodes : List Nat} {links tasks : List (Atom × Atom)} {mem : List Atom}
    (hlinks : ∀ p ∈ ts, Dict.get? links (idA (tid p)) = some (.ref (L p))) (ht : t ∈ ts) :
    ∀ (rs qs : List Uid) (σ : Store), Net e B σ ts (A ++ qs.map (fun p => (p, t))) S E L →
      getO B σ B = some (.calc nodes links tasks .none mem) → (∀ p ∈ rs, p ∈ ts) →
      ∃ σ', (rs.map (fun x => idA (tid x))).foldlM (addWorkStep B (S t)) σ = some σ' ∧
        Net e B σ' ts (A ++ (qs ++ rs).map (fun p => (p, t))) S E L ∧
        getO B σ' B = some (.calc nodes links tasks .none mem) := by
  intro rs
  induction rs with
  | nil => intro qs σ hn hc _; exact ⟨σ, rfl, by simpa using hn, hc⟩
  | cons p rs ih =>
    intro qs σ hn hc hrs
    have hp : p ∈ ts := hrs p List.mem_cons_self
    obtain ⟨σ1, hrun, hn1, hoth, _⟩ := hn.arrow e B hp ht
    have hc1 : getO B σ1 B = some (.calc nodes links tasks .none mem) :=
      hoth B _ hc (by intro _ _ _ _ hx; cases hx)
    have hstep : addWorkStep B (S t) σ (idA (tid p)) = some σ1 := by
      simp only [addWorkStep, hc, hlinks p hp, hn.link p hp, hrun, Option.map_some]
    have hn1' : Net e B σ1 ts (A ++ (qs ++ [p]).map (fun p => (p, t))) S E L := by
      simpa [List.append_assoc] using hn1
    obtain ⟨σ', hfold, hn', hc'⟩ := ih (qs ++ [p]) σ1 hn1' hc1 (fun q hq => hrs q (List.mem_cons_of_mem _ hq))
    refine ⟨σ', ?_, by simpa [List.append_assoc] using hn', hc'⟩
    simp only [List.map_cons, List.foldlM_cons, hstep, bind, Option.bind]
    exact hfold

theorem arrowsOf_append (done : List Uid) (t : Uid) :
    arrowsOf e (done ++ [t]) = arrowsOf e done ++ (prereqs e t).map (fun p => (p, t)) := by
  simp [arrowsOf, List.flatMap_append]

/-- `__add_work` for the task `t` whose prerequisites are all inserted -/
theorem addWork_ok (hid : IdInj e tid) {σ : Store} {done pend : List Uid} {S E L : Uid → Nat} {t : Uid}
    (hb : Built e tid B σ done (t :: pend) S E L) (htl : t ∈ leaves e) (htp : t ∉ pend)
    (hpre : ∀ p ∈ prereqs e t, p ∈ done) :
    ∃ σ' S' E' L', addWorkA B σ (idA (tid t)) (e.dur t) ((prereqs e t).map (fun x => idA (tid x))) = some σ' ∧
      Built e tid B σ' (done ++ [t]) pend S' E' L' := by
  obtain ⟨tasks, hcalc, htk1, htk2⟩ := hb.hcalc
  have htd : t ∉ done := fun h => hb.disj t h List.mem_cons_self
  obtain ⟨σ1, σ2, σ3, hr1, hr2, hr3, hn3, hc3, hlen3, _⟩ := hb.net.newTask e B htd hcalc
  -- the new entry of `__links`
  have hnone : Dict.get? (done.map (fun x => (idA (tid x), Atom.ref (L x)))) (idA (tid t)) = none :=
    get?_map_idA_none tid _ done (tid t) (fun x hx hxt => htd (hid x (hb.doneLeaf x hx) t htl hxt ▸ hx))
  have hlinks' : Dict.insert (done.map (fun x => (idA (tid x), Atom.ref (L x)))) (idA (tid t))
        (.ref (B + σ.length + 2)) =
      (done ++ [t]).map (fun x => (idA (tid x), Atom.ref (upd L t (B + σ.length + 2) x))) := by
    rw [Dict.insert_absent _ _ _ hnone, List.map_append]
    congr 1
    · apply List.map_congr_left
      intro x hx
      rw [upd_ne]
      intro hxt; exact htd (hxt ▸ hx)
    · simp [upd_same]
  have hn4 := hn3.setCalc B e (n' := done.flatMap (fun x => [S x, E x]) ++ [B + σ.length] ++ [B + σ.length + 1])
    (l' := (done ++ [t]).map (fun x => (idA (tid x), Atom.ref (upd L t (B + σ.length + 2) x)))) (t' := tasks)
    (ed' := .none) (m' := memOf e.members) hc3
  have hc4 := getO_setO_same B (.calc (done.flatMap (fun x => [S x, E x]) ++ [B + σ.length] ++ [B + σ.length + 1])
    ((done ++ [t]).map (fun x => (idA (tid x), Atom.ref (upd L t (B + σ.length + 2) x)))) tasks .none
    (memOf e.members)) hc3
  have hleaf' : ∀ x ∈ done ++ [t], x ∈ leaves e := by
    intro x hx
    rcases List.mem_append.mp hx with hx | hx
    · exact hb.doneLeaf x hx
    · simp only [List.mem_singleton] at hx; subst hx; exact htl
  have hlk : ∀ p ∈ done ++ [t], Dict.get? ((done ++ [t]).map
      (fun x => (idA (tid x), Atom.ref (upd L t (B + σ.length + 2) x)))) (idA (tid p)) =
      some (.ref (upd L t (B + σ.length + 2) p)) := by
    intro p hp
    exact get?_map_idA tid (fun x => Atom.ref (upd L t (B + σ.length + 2) x)) _ p hp
      (fun x hx hxp => hid x (hleaf' x hx) p (hleaf' p hp) hxp)
  obtain ⟨σ', hfold, hn', hc'⟩ := arrow_loop e tid B hlk (List.mem_append_right _ List.mem_cons_self)
    (prereqs e t) [] _ (by simpa using hn4) hc4 (fun p hp => List.mem_append_left _ (hpre p hp))
  refine ⟨σ', upd S t (B + σ.length), upd E t (B + σ.length + 1), upd L t (B + σ.length + 2), ?_,
    ⟨?_, ⟨tasks, ?_, ?_, ?_⟩, hleaf', ?_, ?_, ?_, ?_⟩⟩
  · simp only [addWorkA, hr1, hr2, hr3, hc3, hlinks']
    rw [upd_same] at hfold
    exact hfold
  · rw [arrowsOf_append]
    simpa using hn'
  · rw [hc']
    congr 2
    rw [List.flatMap_append]
    simp only [List.flatMap_cons, List.flatMap_nil, List.append_nil, upd_same, List.append_assoc, List.cons_append,
      List.nil_append]
    congr 1
    apply flatMap_congr'
    intro x hx
    have hxt : x ≠ t := fun hxt => htd (hxt ▸ hx)
    rw [upd_ne _ _ hxt, upd_ne _ _ hxt]
  · intro x hx
    rw [htk1 x hx]
    simp only [List.mem_append, List.mem_cons, List.not_mem_nil, or_false]
    rw [or_assoc]
  · intro x hx
    apply htk2
    simp only [List.mem_append, List.mem_cons, List.not_mem_nil, or_false] at hx ⊢
    rw [or_assoc] at hx
    exact hx
  · intro x hx; exact hb.pendLeaf x (List.mem_cons_of_mem _ hx)
  · intro x hx
    rcases List.mem_append.mp hx with hx | hx
    · intro hxp; exact hb.disj x hx (List.mem_cons_of_mem _ hxp)
    · simp only [List.mem_singleton] at hx; subst hx; exact htp
  · exact List.nodup_append.mpr ⟨hb.nodup, (by simp), by
      intro a ha b hb'
      simp only [List.mem_singleton] at hb'
      subst hb'
      intro hab; exact htd (hab ▸ ha)⟩
  · intro x hx p hp
    rcases List.mem_append.mp hx with hx | hx
    · exact List.mem_append_left _ (hb.preDone x hx p hp)
    · simp only [List.mem_singleton] at hx; subst hx
      exact List.mem_append_left _ (hpre p hp)

end addwork

section insok
variable (e : CPEnv) (tid : Uid → Int) (B : Nat)

/-- recording the task in `__tasks` moves it to the tasks being inserted -/
theorem Built.start (hid : IdInj e tid) {σ : Store} {done pend : List Uid} {S E L : Uid → Nat} {t : Uid}
    (hb : Built e tid B σ done pend S E L) (htl : t ∈ leaves e) (htd : t ∉ done) (htp : t ∉ pend)
    {nodes : List Nat} {links tasks : List (Atom × Atom)} {ed : Atom} {mem : List Atom}
    (hc : getO B σ B = some (.calc nodes links tasks ed mem)) :
    Built e tid B (setO B σ B (.calc nodes links (Dict.insert tasks (idA (tid t)) (.ref t)) ed mem)) done (t :: pend)
      S E L := by
  obtain ⟨tasks', hcalc, htk1, htk2⟩ := hb.hcalc
  rw [hc] at hcalc
  cases hcalc
  have hnone : Dict.get? tasks (idA (tid t)) = none := by
    cases h : Dict.get? tasks (idA (tid t)) with
    | none => rfl
    | some v =>
      have := (htk1 t htl).mp (by rw [h]; rfl)
      rcases this with h' | h'
      · exact absurd h' htd
      · exact absurd h' htp
  refine ⟨hb.net.setCalc B e hc, ⟨_, getO_setO_same B _ hc, ?_, ?_⟩, hb.doneLeaf, ?_, ?_, hb.nodup, hb.preDone⟩
  · intro x hx
    rw [Dict.insert_absent _ _ _ hnone, Dict.get?_append_absent]
    cases hx' : Dict.get? tasks (idA (tid x)) with
    | some v =>
      have := (htk1 x hx).mp (by rw [hx']; rfl)
      simp only [Option.isSome_some, true_iff, List.mem_cons]
      rcases this with h | h
      · exact Or.inl h
      · exact Or.inr (Or.inr h)
    | none =>
      have hno : ¬ (x ∈ done ∨ x ∈ pend) := fun h => by
        have := (htk1 x hx).mpr h
        rw [hx'] at this; cases this
      simp only [pyEq_idA, List.mem_cons]
      by_cases hxt : tid t = tid x
      · have : t = x := hid t htl x hx hxt
        subst this
        simp
      · have hne : x ≠ t := fun h => hxt (h ▸ rfl)
        simp only [hxt, decide_false, Bool.false_eq_true, if_false]
        constructor
        · intro h; cases h
        · rintro (h | h | h)
          · exact absurd h (fun h' => hno (Or.inl h'))
          · exact absurd h hne
          · exact absurd h (fun h' => hno (Or.inr h'))
  · intro x hx
    rw [Dict.insert_absent _ _ _ hnone, Dict.get?_append_absent]
    by_cases hxt : x = t
    · subst hxt
      rw [hnone]
      simp [pyEq_idA]
    · have : x ∈ done ∨ x ∈ pend := by
        rcases hx with h | h
        · exact Or.inl h
        · rcases List.mem_cons.mp h with h | h
          · exact absurd h hxt
          · exact Or.inr h
      rw [htk2 x this]
  · intro x hx
    rcases List.mem_cons.mp hx with h | h
    · subst h; exact htl
    · exact hb.pendLeaf x h
  · intro x hx hxp
    rcases List.mem_cons.mp hxp with h | h
    · subst h; exact htd hx
    · exact hb.disj x hx h

/-- what a call of `__insert_task` achieves (the forward recursion of the model needs at most `f + 1` steps for the
    task; no task that is being inserted can be reached with that fuel) -/
def InsOK (f : Nat) : Prop :=
  ∀ (t : Uid) (σ : Store) (done pend : List Uid) (S E L : Uid → Nat) (fa : Nat),
    Built e tid B σ done pend S E L → t ∈ e.members →
    (e.isLeaf t = true → ∃ v, efF e (f + 1) t = some v) →
    (∀ s ∈ pend, efF e (f + 1) s = none) → f + 1 ≤ fa →
    ∃ σ' done' S' E' L', insertA e tid B fa σ t = some σ' ∧ Built e tid B σ' done' pend S' E' L' ∧
      (e.isLeaf t = true → t ∈ done') ∧ ∀ x ∈ done, x ∈ done'

theorem insert_ok (hid : IdInj e tid) (hdesc : DescOK e) : ∀ f, InsOK e tid B f := by
  intro f
  induction f using Nat.strongRecOn with
  | _ f ih =>
    intro t σ done pend S E L fa hb htm hef hpend hfa
    obtain ⟨fa', rfl⟩ : ∃ fa', fa = fa' + 1 := ⟨fa - 1, by omega⟩
    by_cases hleaf : e.isLeaf t = true
    · have hlen : ¬ (0 < (e.children t).length) := by
        unfold isLeaf at hleaf
        have : e.children t = [] := by simpa using hleaf
        simp [this]
      have htl : t ∈ leaves e := by
        unfold leaves
        exact List.mem_filter.mpr ⟨htm, hleaf⟩
      obtain ⟨v, hv⟩ := hef hleaf
      have htp : t ∉ pend := fun h => by rw [hpend t h] at hv; cases hv
      obtain ⟨tasks, hcalc, htk1, htk2⟩ := hb.hcalc
      by_cases hin : (Dict.get? tasks (idA (tid t))).isSome = true
      · -- already inserted
        have htd : t ∈ done := by
          rcases (htk1 t htl).mp hin with h | h
          · exact h
          · exact absurd h htp
        refine ⟨σ, done, S, E, L, ?_, hb, fun _ => htd, fun x hx => hx⟩
        simp only [insertA, hlen, if_false, hcalc, hin, if_true]
      · have htd : t ∉ done := fun h => hin (by rw [htk2 t (Or.inl h)]; rfl)
        have hb1 := hb.start e tid B hid htl htd htp hcalc
        -- the nested calls
        have hrec : RecOK e tid B (insertA e tid B fa') (t :: pend)
            (fun p => p ∈ prereqs e t ∧ ∃ w, efF e f p = some w) := by
          intro p σ' done' S' E' L' hb' hpl ⟨hpt, w, hw⟩
          obtain ⟨g, hg, hg1, hg2⟩ := efF_min e f p w hw
          have hpm : p ∈ e.members := (List.mem_filter.mp hpl).1
          have hpend' : ∀ s ∈ t :: pend, efF e (g + 1) s = none := by
            intro s hs
            rcases List.mem_cons.mp hs with h | h
            · subst h
              cases hs' : efF e (g + 1) s with
              | none => rfl
              | some u =>
                obtain ⟨w', hw'⟩ := efF_prereq e hs' hpt
                rw [hg2] at hw'; cases hw'
            · exact efF_none_of_le e (by omega) (hpend s h)
          obtain ⟨σ'', done'', S'', E'', L'', hrun, hb'', hin'', hsub''⟩ :=
            ih g hg p σ' done' (t :: pend) S' E' L' fa' hb' hpm (fun _ => ⟨w, hg1⟩) hpend' (by omega)
          exact ⟨σ'', done'', S'', E'', L'', hrun, hb'', hin'' (List.mem_filter.mp hpl).2, hsub''⟩
        -- the three loops
        have hcs : ∀ p ∈ cands e t, okB e p = true → p ∈ prereqs e t ∧ ∃ w, efF e f p = some w := by
          intro p hp hok
          have hpt : p ∈ prereqs e t := by
            rw [prereqs_eq, List.mem_eraseDups]
            exact List.mem_filter.mpr ⟨hp, hok⟩
          exact ⟨hpt, efF_prereq e hv hpt⟩
        obtain ⟨σ2, done2, S2, E2, L2, hfold, hb2, hin2, hsub2⟩ :=
          insert_loop e tid B hid _ _ _ hrec (cands e t) [] _ done S E L hb1 (fun x hx => by cases hx) hcs
        simp only [List.map_nil, List.nil_append, dd_nil, ← prereqs_eq] at hfold hin2
        obtain ⟨σ3, S3, E3, L3, hrun3, hb3⟩ := addWork_ok e tid B hid hb2 htl htp hin2
        refine ⟨σ3, done2 ++ [t], S3, E3, L3, ?_, hb3, fun _ => List.mem_append_right _ List.mem_cons_self,
          fun x hx => List.mem_append_left _ (hsub2 x hx)⟩
        simp only [insertA, hlen, if_false, hcalc, hin]
        rw [fold_insertOwner e tid B _ t (hdesc t htl), hfold]
        exact hrun3
    · have hlen : 0 < (e.children t).length := by
        unfold isLeaf at hleaf
        cases hc : e.children t with
        | nil => rw [hc] at hleaf; simp at hleaf
        | cons x l => simp
      refine ⟨σ, done, S, E, L, ?_, hb, fun h => absurd h hleaf, fun x hx => hx⟩
      simp only [insertA, hlen, if_true]

end insok

section init
variable (e : CPEnv) (tid : Uid → Int) (B : Nat)

theorem ef_of_acyclic (hac : acyclicB e = true) {t : Uid} (ht : t ∈ leaves e) : ∃ v, efF e (e.n + 1) t = some v := by
  unfold acyclicB at hac
  have := List.all_eq_true.mp hac t ht
  exact Option.isSome_iff_exists.mp this

theorem built_empty : Built e tid B [.calc [] [] [] .none (memOf e.members)] [] [] (fun _ => 0) (fun _ => 0) (fun _ => 0) := by
  have hg : getO B [Obj.calc [] [] [] Atom.none (memOf e.members)] B =
      some (.calc [] [] [] .none (memOf e.members)) := by
    simp [getO]
  have hfresh : ∀ a, suOf B [Obj.calc [] [] [] Atom.none (memOf e.members)] a = none ∧
      euOf B [Obj.calc [] [] [] Atom.none (memOf e.members)] a = none := by
    intro a
    by_cases ha : a = B
    · subst ha; simp only [suOf, euOf, hg]; exact ⟨trivial, trivial⟩
    · have : getO B [Obj.calc [] [] [] Atom.none (memOf e.members)] a = none := by
        unfold getO
        by_cases hlt : a < B
        · simp [hlt]
        · simp only [hlt, if_false]
          have : a - B ≠ 0 := by omega
          cases h : a - B with
          | zero => exact absurd h this
          | succ k => rfl
      simp only [suOf, euOf, this]; exact ⟨trivial, trivial⟩
  refine ⟨⟨?_, ?_, ?_, ?_, ?_, ?_, ?_, hfresh⟩, ⟨[], hg, ?_, ?_⟩, ?_, ?_, ?_, List.nodup_nil, ?_⟩
  all_goals first | (intro x hx; cases hx; done) | skip
  · intro t _
    simp [Dict.get?_nil]
  · intro t ht
    rcases ht with h | h <;> cases h

theorem init_loop (hid : IdInj e tid) (hdesc : DescOK e) (hac : acyclicB e = true) (fa : Nat) (hfa : e.n + 1 ≤ fa) :
    ∀ (ms : List Uid), (∀ t ∈ ms, t ∈ e.members) → ∀ (σ : Store) (done : List Uid) (S E L : Uid → Nat),
      Built e tid B σ done [] S E L →
      ∃ σ' done' S' E' L', ms.foldlM (fun σ t => insertA e tid B fa σ t) σ = some σ' ∧
        Built e tid B σ' done' [] S' E' L' ∧ (∀ x ∈ done, x ∈ done') ∧ ∀ t ∈ ms, e.isLeaf t = true → t ∈ done' := by
  intro ms
  induction ms with
  | nil => intro _ σ done S E L hb; exact ⟨σ, done, S, E, L, rfl, hb, fun x hx => hx, fun t ht => by cases ht⟩
  | cons t ms ih =>
    intro hms σ done S E L hb
    have htm := hms t List.mem_cons_self
    obtain ⟨σ1, done1, S1, E1, L1, hrun, hb1, hin1, hsub1⟩ :=
      insert_ok e tid B hid hdesc e.n t σ done [] S E L fa hb htm
        (fun hl => ef_of_acyclic e hac (List.mem_filter.mpr ⟨htm, hl⟩)) (fun s hs => by cases hs) hfa
    obtain ⟨σ', done', S', E', L', hfold, hb', hsub', hin'⟩ :=
      ih (fun x hx => hms x (List.mem_cons_of_mem _ hx)) σ1 done1 S1 E1 L1 hb1
    refine ⟨σ', done', S', E', L', ?_, hb', fun x hx => hsub' x (hsub1 x hx), ?_⟩
    · simp only [List.foldlM_cons, hrun, bind, Option.bind]; exact hfold
    · intro x hx hl
      rcases List.mem_cons.mp hx with h | h
      · subst h; exact hsub' x (hin1 hl)
      · exact hin' x h hl

/-- stage 2: the network `__init__` builds -/
theorem init_ok (hid : IdInj e tid) (hdesc : DescOK e) (hac : acyclicB e = true) (fa : Nat) (hfa : e.n + 1 ≤ fa) :
    ∃ σ done S E L, initA e tid B fa = some σ ∧ Built e tid B σ done [] S E L ∧ ∀ t, t ∈ done ↔ t ∈ leaves e := by
  obtain ⟨σ, done, S, E, L, hrun, hb, _, hin⟩ :=
    init_loop e tid B hid hdesc hac fa hfa e.members (fun t ht => ht) _ [] _ _ _ (built_empty e tid B)
  refine ⟨σ, done, S, E, L, hrun, hb, fun t => ⟨hb.doneLeaf t, fun ht => ?_⟩⟩
  obtain ⟨h1, h2⟩ := List.mem_filter.mp ht
  exact hin t h1 h2

end init

end Pj.CritPathSrc
