/-
  Lemmas/ScheduleSrc.lean — the hand-written model of the scheduler's inner loops (Model/Sched.lean: `reserved`,
  `nearestFwd`, `shiftFwd`, `nearestBwd`, `shiftBwd`) equals the interpretation of the CURRENT SOURCE of

    _ResourceUsage.__get_key / reserve / reserved
    ForwardScheduler.__get_resource_nearest_available_date / __shift_by_resource_usage_and_calendar
    BackwardScheduler.__get_resource_nearest_available_date / __shift_by_resource_usage_and_calendar

  (Extracted/ScheduleSrc.lean, regenerated from /repo/src/pjplan/schedule.py by tools/extract_schedule.py on every
  check), run by the scheduler layer of PyLite (`runW`: a mutable ledger + handlers for calls that leave the method).

  Setting.  The interpreter's ledger is a `List LRow`; a row of the model is encoded by `encRow` (resource name key
  `r : Option Nat` ↦ the object `ref (resRef r)`, day ↦ its midnight, task uid ↦ `ref uid`).  The scheduler object is
  `schedSelf b` (`self.__balance_resources = b`).  Calls leaving a scheduler method are interpreted by `srcH cal r`,
  i.e. BY RUNNING THE TRANSLATED SOURCE of the callee: `resource_usage.reserved/reserve` run `src_ResourceUsage_*`
  (`interpReserved`, `interpReserve`), `resource.get_available_units` / `get_nearest_availability_date` run the
  translated resource.py/calendar.py (`CalSrc.interpResource`, `CalSrc.interpSearch` with the default `max_days`) on
  the resource's calendar `cal`.  `max_steps` is bound to its default, emitted next to each method
  (`src_*_maxSteps`, proved equal to `Extracted.*MaxSteps` by `rfl`).

  Main results (`usedOf rows r t b day = reserved rows r day (if b then none else some t)` is the model's `used`
  function, `usedOf rows r t env.balance = usedBy env rows r t` by `rfl`; `mkRow r t (day, u)` is the row `addRows`
  appends):

    A  interpGetKey_eq       : interpGetKey (time d) = ok (time (midnight d))
       interpReserve_model   : interpReserve (rows.map encRow) (ref (resRef r)) (time d) (ref t) (num u)
                                 = ok (num u, (rows ++ [⟨r, dayOf d, t, u⟩]).map encRow)
       interpReserved_model  : interpReserved (rows.map encRow) (ref (resRef r)) (time d) (optRef t?)
                                 = ok (num (reserved rows r (dayOf d) t?))
    B  interpNearestFwd_eq   : interpNearestFwd cal b (resRef r) t (rows.map encRow) start
                                 = (nearestFwd cal (usedOf rows r t b) start).map (·, rows.map encRow)
       interpShiftFwd_eq     : fwdShiftMaxSteps < fuel →
                               interpShiftFwd fuel cal b (resRef r) t (rows.map encRow) start left
                                 = (shiftFwd cal (usedOf rows r t b) start left).map
                                     (fun (e, new) => (e, (rows ++ new.map (mkRow r t)).map encRow))
    C  interpNearestBwd_eq, interpShiftBwd_eq : the same for `nearestBwd`, `shiftBwd` (bwdShiftMaxSteps < fuel)

  for every calendar, ledger, resource key, task, balance flag, date and amount (any rational, also negative).
  Results, errors (RuntimeError = `.runtime`, ZeroDivisionError = `.crash .zeroDivision`, whatever the calendar
  raises) and the final ledger coincide; in particular no run gets `stuck`.  The only hypothesis is that the
  interpreter's `while` fuel exceeds `max_steps` (the `for` loops need none).  The primed versions
  (`interpShiftFwd_eq'` …) are the same statements for an arbitrary interpreter ledger.  No disagreement between model
  and source was found.

  A semantic edit of a translated method makes the corresponding `*_body` / `*_cond` / `*_post` / `*_prelude` /
  `*_shape` lemma fail to compile (see the negative check at the end).
-/
import PjVerif.Extracted.ScheduleSrc
import PjVerif.Model.Sched
import PjVerif.Lemmas.CalendarSrc
import PjVerif.Lemmas.SchedFill
namespace Pj.SchedSrc
open Pj.PyLite Pj.Extracted

syntax "pylite_w" (" [" Lean.Parser.Tactic.simpLemma,* "]")? : tactic
macro_rules
  | `(tactic| pylite_w) => `(tactic| pylite_w [])
  | `(tactic| pylite_w [$ls,*]) => `(tactic|
      simp [runW, execBlockW, Stmt.execW, Expr.evalW, forLoopW, iterOf, Env.get?, Env.set, truth, arith, arithTime,
        PyLite.compare, cmpRat, Atom.asNum?, Atom.asInt?, rowAttr, rangeOf, pure, Except.pure, bind, Except.bind, throw, throwThe,
        MonadExceptOf.throw, ← Rat.not_lt, $ls,*])

/-- inside `_ResourceUsage` no other object is called -/
def noH : Handlers :=
  { units := fun _ _ => throw stuck, nearest := fun _ _ _ => throw stuck,
    reserved := fun _ _ _ _ => throw stuck, reserve := fun _ _ _ _ _ => throw stuck }

def interpGetKey (d : Val) : Res Val :=
  (runW noH [] 0 src_ResourceUsage_get_key [("date", d)] []).map (·.1)

def interpReserved (L : List LRow) (r d t : Val) : Res Val :=
  (runW noH [] 0 src_ResourceUsage_reserved [("resource", r), ("date", d), ("task", t)] L).map (·.1)

def interpReserve (L : List LRow) (r d t u : Val) : Res (Val × List LRow) :=
  runW noH [] 0 src_ResourceUsage_reserve [("resource", r), ("date", d), ("task", t), ("units", u)] L

theorem interpGetKey_eq (d : Time) : interpGetKey (.atom (.time d)) = .ok (.atom (.time (midnight d))) := by
  unfold interpGetKey
  pylite_w [src_ResourceUsage_get_key, Except.map]

theorem interpReserve_eq (L : List LRow) (r t : Nat) (d : Time) (u : Rat) :
    interpReserve L (.atom (.ref r)) (.atom (.time d)) (.atom (.ref t)) (.atom (.num u)) =
      .ok (.atom (.num u), L ++ [⟨r, midnight d, t, u⟩]) := by
  unfold interpReserve
  pylite_w [src_ResourceUsage_reserve]

def optRef : Option Nat → Val
  | none => .atom .none
  | some t => .atom (.ref t)

/-- a comprehension over the ledger whose item function is a filter + projection -/
theorem compLoop_filter (f : Atom → Res (Option Atom)) (p : LRow → Bool) (h : LRow → Atom) (L : List LRow)
    (hf : ∀ x, f x.toAtom = .ok (if p x then some (h x) else none)) :
    compLoop f (L.map LRow.toAtom) = .ok ((L.filter p).map h) := by
  induction L with
  | nil => rfl
  | cons x L ih =>
    simp only [List.map_cons, compLoop, hf, ih, bind, Except.bind, pure, Except.pure, List.filter_cons]
    cases p x <;> rfl

theorem foldl_add_sum (l : List Rat) (a : Rat) : l.foldl (· + ·) a = a + l.sum := by
  induction l generalizing a with
  | nil => simp [Rat.add_zero]
  | cons x l ih => simp [List.foldl_cons, ih, List.sum_cons, Rat.add_assoc]

theorem sumLoop_nums {α : Type} (g : α → Rat) (l : List α) (a : Rat) :
    sumLoop (.atom (.num a)) (l.map (fun x => Atom.num (g x))) = .ok (.atom (.num (a + (l.map g).sum))) := by
  induction l generalizing a with
  | nil => simp [sumLoop, pure, Except.pure, Rat.add_zero]
  | cons x l ih =>
    simp [sumLoop, arith, arithTime, Atom.asNum?, bind, Except.bind, pure, Except.pure, ih, List.sum_cons, Rat.add_assoc]

/-- `_ResourceUsage.reserved` in closed form -/
def ledgerReserved (L : List LRow) (r : Nat) (d : Time) (t : Option Nat) : Rat :=
  ((L.filter (fun x => x.res == r && x.date == midnight d &&
      (match t with | some t => x.task == t | none => true))).map (·.units)).sum

theorem interpReserved_eq (L : List LRow) (r : Nat) (d : Time) (t : Option Nat) :
    interpReserved L (.atom (.ref r)) (.atom (.time d)) (optRef t) = .ok (.atom (.num (ledgerReserved L r d t))) := by
  unfold interpReserved
  cases t with
  | none =>
    simp only [src_ResourceUsage_reserved, runW, execBlockW, Stmt.execW, Expr.evalW, optRef, iterOf, Env.get?, Env.set, pure, Except.pure, bind, Except.bind, truth]
    simp
    rw [compLoop_filter (p := fun x => x.res == r && x.date == midnight d) (h := fun x => Atom.num x.units)]
    · simp [sumLoop_nums, Except.map, ledgerReserved, Rat.zero_add]
    · intro x
      by_cases h1 : x.res = r <;> by_cases h2 : x.date = midnight d <;>
        pylite_w [LRow.toAtom, Atom.pyEq, Atom.norm, h1, h2]
  | some t =>
    simp only [src_ResourceUsage_reserved, runW, execBlockW, Stmt.execW, Expr.evalW, optRef, iterOf, Env.get?, Env.set, pure, Except.pure, bind, Except.bind, truth]
    simp
    rw [compLoop_filter (p := fun x => x.res == r && x.date == midnight d && x.task == t) (h := fun x => Atom.num x.units)]
    · simp [sumLoop_nums, Except.map, ledgerReserved, Rat.zero_add]
    · intro x
      by_cases h1 : x.res = r <;> by_cases h2 : x.date = midnight d <;> by_cases h3 : x.task = t <;>
        pylite_w [LRow.toAtom, Atom.pyEq, Atom.norm, h1, h2, h3]

/-! ### the model's ledger -/

/-- the resource object of the name key `r` -/
def resRef : Option Nat → Nat
  | none => 0
  | some n => n + 1

theorem resRef_inj {a b : Option Nat} : resRef a = resRef b ↔ a = b := by
  cases a <;> cases b <;> simp [resRef]

/-- a row of the model as a `ResourceUsageRow`: the date is the day's midnight -/
def encRow (x : Row) : LRow := ⟨resRef x.res, ((x.day : Int) : Rat), x.task, x.units⟩

theorem midnight_eq_iff (day : Int) (d : Time) : ((day : Int) : Rat) = midnight d ↔ day = dayOf d := by
  unfold midnight
  exact Rat.intCast_inj

theorem ledgerReserved_enc (rows : List Row) (r : Option Nat) (d : Time) (t : Option Uid) :
    ledgerReserved (rows.map encRow) (resRef r) d t = reserved rows r (dayOf d) t := by
  unfold ledgerReserved reserved
  rw [List.filter_map, List.map_map]
  congr 2
  congr 1
  funext x
  have h1 : (resRef x.res == resRef r) = (x.res == r) := by
    rw [Bool.eq_iff_iff]; simp [resRef_inj]
  have h2 : (((x.day : Int) : Rat) == midnight d) = (x.day == dayOf d) := by
    rw [Bool.eq_iff_iff]; simp [midnight_eq_iff]
  cases t <;> simp [encRow, h1, h2]

/-! ### handlers: calls that leave a scheduler method run the translated source of the callee -/

def srcH (cal : Cal) (r : Nat) : Handlers :=
  { units := fun i t => if i = r then CalSrc.interpResource cal t else throw stuck
    nearest := fun i t dir =>
      if i = r then CalSrc.interpSearch (Extracted.maxDays + 1) cal dir Extracted.maxDays t else throw stuck
    reserved := interpReserved
    reserve := interpReserve }

theorem srcH_units (cal : Cal) (r : Nat) (t : Time) : (srcH cal r).units r t = (capR cal t).map some := by
  simp [srcH, CalSrc.interpResource_eq_capR]

theorem srcH_nearest (cal : Cal) (r : Nat) (t : Time) (dir : Int) :
    (srcH cal r).nearest r t dir = search cal dir Extracted.maxDays t := by
  simp [srcH, CalSrc.interpSearch_eq_search]

theorem srcH_reserved (cal : Cal) (r : Nat) (L : List LRow) (r' : Nat) (d : Time) (t : Option Nat) :
    (srcH cal r).reserved L (.atom (.ref r')) (.atom (.time d)) (optRef t) =
      .ok (.atom (.num (ledgerReserved L r' d t))) := interpReserved_eq L r' d t

theorem srcH_reserve (cal : Cal) (r : Nat) (L : List LRow) (r' t : Nat) (d : Time) (u : Rat) :
    (srcH cal r).reserve L (.atom (.ref r')) (.atom (.time d)) (.atom (.ref t)) (.atom (.num u)) =
      .ok (.atom (.num u), L ++ [⟨r', midnight d, t, u⟩]) := interpReserve_eq L r' t d u

/-- the scheduler object: `self.__balance_resources` -/
def schedSelf (b : Bool) : PyLite.Env := [("balance_resources", .atom (.bool b))]

/-- which rows count as "reserved": all of the resource (balancing) or only the task's own -/
def taskArg (b : Bool) (t : Nat) : Option Nat := if b then none else some t

/-- the `used` function of the model, on the interpreter's ledger -/
def usedL (L : List LRow) (r : Nat) (tk : Option Nat) (day : Int) : Rat := ledgerReserved L r ((day : Int) : Rat) tk

theorem ledgerReserved_usedL (L : List LRow) (r : Nat) (tk : Option Nat) (d : Time) :
    ledgerReserved L r d tk = usedL L r tk (dayOf d) := by
  unfold usedL ledgerReserved
  rw [midnight_intCast]
  rfl

theorem mul24_div24 (p : Rat) : 24 * p / 24 = p := by grind

def asTime : Res (Val × List LRow) → Res (Time × List LRow)
  | .ok (.atom (.time x), L) => pure (x, L)
  | .ok _ => throw stuck
  | .error e => throw e

/-! ### forward `__get_resource_nearest_available_date` -/

/-- the parameters (`resource_usage` is the ledger, the interpreter's state) -/
def nearParams (r t : Nat) (s : Time) (n : Nat) : PyLite.Env :=
  [("resource", .atom (.ref r)), ("start_date", .atom (.time s)), ("task", .atom (.ref t)),
   ("max_steps", .atom (.num ((n : Nat) : Rat)))]

def interpNearestFwd (cal : Cal) (b : Bool) (r t : Nat) (L : List LRow) (start : Time) : Res (Time × List LRow) :=
  asTime (runW (srcH cal r) (schedSelf b) 0 src_Fwd_nearest (nearParams r t start src_Fwd_nearest_maxSteps) L)

/-- the environment inside the `for` loop: before the first iteration the loop's locals do not exist yet -/
def nearEnv (r t : Nat) (s : Time) (n : Nat) (d : Time) : Option (Rat × Rat × Rat) → PyLite.Env
  | none => nearParams r t s n ++ [("d", .atom (.time d))]
  | some (i, a, v) => nearParams r t s n ++ [("d", .atom (.time d)), ("i", .atom (.num i)), ("reserved", .atom (.num a)),
      ("available", .atom (.num v))]

def fwdNearLoop : List Stmt :=
  match src_Fwd_nearest with
  | [_, _, .forRange _ _ _ b, _] => b
  | _ => []

theorem src_Fwd_nearest_shape : src_Fwd_nearest =
    [.assign "start_date" (.dayStart (.var "start_date")),
     .assign "d" (.nearest (.var "resource") (.var "start_date") (.num 1)),
     .forRange "i" (.num 0) (.var "max_steps") fwdNearLoop,
     .raiseRuntime] := rfl

theorem fwdNear_body (cal : Cal) (b : Bool) (r t : Nat) (L : List LRow) (s : Time) (n : Nat) (F : Nat) (d : Time)
    (j : Option (Rat × Rat × Rat)) (i : Int) :
    execBlockW (srcH cal r) (schedSelf b) F fwdNearLoop (Env.set (nearEnv r t s n d j) "i" (.atom (.num (i : Rat)))) L =
      match capR cal d with
      | .error e => .raise e
      | .ok c =>
        if 0 < c - usedL L r (taskArg b t) (dayOf d) then
          (if c = 0 then .raise (.crash .zeroDivision)
           else .ret (.atom (.time (midnight d + (1 - (c - usedL L r (taskArg b t) (dayOf d)) / c)))) L)
        else .normal (nearEnv r t s n (d + 1) (some ((i : Rat), usedL L r (taskArg b t) (dayOf d), c - usedL L r (taskArg b t) (dayOf d)))) L := by
  have hr1 := srcH_reserved cal r L r d none
  have hr2 := srcH_reserved cal r L r d (some t)
  simp only [optRef] at hr1 hr2
  rcases hu : capR cal d with e | c
  · rcases j with _ | ⟨i', a, v⟩ <;> cases b <;>
      pylite_w [fwdNearLoop, src_Fwd_nearest, nearEnv, nearParams, schedSelf, srcH_units, hr1, hr2, Except.map, hu]
  · obtain ⟨u, hu'⟩ : ∃ u, u = usedL L r (taskArg b t) (dayOf d) := ⟨_, rfl⟩
    rw [← hu']
    by_cases hpos : 0 < c - u <;> by_cases hc : c = 0 <;> (try subst hc) <;> cases b <;>
      simp only [taskArg, Bool.false_eq_true, if_false, if_true] at hu' <;> rcases j with _ | ⟨i', a, v⟩ <;>
      first
      | pylite_w [fwdNearLoop, src_Fwd_nearest, nearEnv, nearParams, schedSelf, srcH_units, hr1, hr2, Except.map, hu, ledgerReserved_usedL, ← hu', hpos, hc, mul24_div24]
      | pylite_w [fwdNearLoop, src_Fwd_nearest, nearEnv, nearParams, schedSelf, srcH_units, hr1, hr2, Except.map, hu, ledgerReserved_usedL, ← hu', hpos]

def outcomeT (L : List LRow) : Res Time → OutcomeW
  | .ok x => .ret (.atom (.time x)) L
  | .error e => .raise e

theorem fwdNear_loop (cal : Cal) (b : Bool) (r t : Nat) (L : List LRow) (s : Time) (n : Nat) (F : Nat) :
    ∀ (k : Nat) (i : Int) (d : Time) (j : Option (Rat × Rat × Rat)),
    (match rangeLoopW "i" (fun env' L' => execBlockW (srcH cal r) (schedSelf b) F fwdNearLoop env' L') k i
        (nearEnv r t s n d j) L with
      | .normal _ _ => .raise .runtime
      | o => o) = outcomeT L (nearestFwdLoop cal (usedL L r (taskArg b t)) k d) := by
  intro k
  induction k with
  | zero => intro i d j; simp [rangeLoopW, nearestFwdLoop, outcomeT, throw, throwThe, MonadExceptOf.throw]
  | succ k ih =>
    intro i d j
    simp only [rangeLoopW, fwdNear_body, nearestFwdLoop]
    rcases capR cal d with e | c
    · rfl
    · simp only [bind, Except.bind]
      by_cases hpos : 0 < c - usedL L r (taskArg b t) (dayOf d)
      · by_cases hc : c = 0
        · subst hc
          simp [hpos, outcomeT, throw, throwThe, MonadExceptOf.throw]
        · simp [hpos, hc, outcomeT, pure, Except.pure]
      · simp only [hpos, if_false]
        exact ih _ _ _

theorem fwdNearest_maxSteps_eq : src_Fwd_nearest_maxSteps = Extracted.fwdNearestMaxSteps := rfl

/-- forward `__get_resource_nearest_available_date`: the translated source computes `nearestFwd` and leaves the
    ledger alone -/
theorem interpNearestFwd_eq' (cal : Cal) (b : Bool) (r t : Nat) (L : List LRow) (start : Time) :
    interpNearestFwd cal b r t L start =
      (nearestFwd cal (usedL L r (taskArg b t)) start).map (fun e => (e, L)) := by
  unfold interpNearestFwd runW nearestFwd
  rw [src_Fwd_nearest_shape, ← fwdNearest_maxSteps_eq]
  generalize src_Fwd_nearest_maxSteps = n
  rcases hs : search cal 1 Extracted.maxDays (midnight start) with e | d
  · pylite_w [nearParams, srcH_nearest, hs, asTime, Except.map]
  · have hl := fwdNear_loop cal b r t L (midnight start) n 0 n 0 d none
    simp only [nearEnv, nearParams, List.cons_append, List.nil_append] at hl
    pylite_w [nearParams, srcH_nearest, hs]
    generalize rangeLoopW _ _ n 0 _ L = w at hl ⊢
    cases w <;> cases hn : nearestFwdLoop cal (usedL L r (taskArg b t)) n d <;>
      simp_all [outcomeT, asTime, Except.map, pure, Except.pure, throw, throwThe, MonadExceptOf.throw]

/-! ### forward `__shift_by_resource_usage_and_calendar` -/

theorem intCast_succ (day : Int) : (((day + 1 : Int)) : Rat) = (day : Rat) + 1 := by
  rw [Rat.intCast_add]; rfl
theorem intCast_pred (day : Int) : (((day - 1 : Int)) : Rat) = (day : Rat) - 1 := by
  rw [Rat.intCast_sub]; rfl
theorem natCast_succ (k : Nat) : (((k + 1 : Nat)) : Rat) = (k : Rat) + 1 := by
  rw [Rat.natCast_add]; rfl
theorem dayOf_succ (day : Int) : dayOf ((day : Rat) + 1) = day + 1 := by
  rw [← intCast_succ, dayOf_intCast]
theorem midnight_succ (day : Int) : midnight ((day : Rat) + 1) = (day : Rat) + 1 := by
  rw [← intCast_succ, midnight_intCast]
theorem natCast_lt_succ (n k : Nat) : ((n : Rat) < (k : Rat) + 1) ↔ n < k + 1 := by
  rw [← natCast_succ, Rat.natCast_lt_natCast]
/-- Python's `min(a, b)` (`b if b < a else a`) on numbers -/
theorem pymin_eq (a b : Rat) : (if b < a then b else a) = min a b := by grind

theorem ite_num (p : Prop) [Decidable p] (a b : Rat) :
    (if p then Val.atom (Atom.num a) else Val.atom (Atom.num b)) = Val.atom (Atom.num (if p then a else b)) := by
  split <;> rfl

/-- the row `reserve(resource, date, task, units)` appends for the model's pair (day, units) -/
def newRow (r t : Nat) (p : Int × Rat) : LRow := ⟨r, ((p.1 : Int) : Rat), t, p.2⟩

theorem sum_append_rat (l1 l2 : List Rat) : (l1 ++ l2).sum = l1.sum + l2.sum := by
  induction l1 with
  | nil => simp [Rat.zero_add]
  | cons x l ih => simp [List.sum_cons, ih, Rat.add_assoc]

/-- rows appended for the task `t` on the resource `r` count as reserved on their day, whichever notion of
    "reserved" (`b`) is in force -/
theorem usedL_append_new (L : List LRow) (r t : Nat) (b : Bool) (acc : List (Int × Rat)) (d : Int) :
    usedL (L ++ acc.map (newRow r t)) r (taskArg b t) d =
      usedL L r (taskArg b t) d + ((acc.filter (fun p => p.1 == d)).map (·.2)).sum := by
  unfold usedL ledgerReserved
  rw [List.filter_append, List.map_append, sum_append_rat, List.filter_map, List.map_map]
  congr 2
  have hp : ((fun x : LRow => x.res == r && x.date == midnight ((d : Int) : Rat) &&
      (match taskArg b t with | some t => x.task == t | none => true)) ∘ newRow r t) = (fun p => p.1 == d) := by
    funext p
    have h2 : (((p.1 : Int) : Rat) == midnight ((d : Int) : Rat)) = (p.1 == d) := by
      rw [Bool.eq_iff_iff]; simp [midnight_eq_iff, dayOf_intCast]
    cases b <;> simp [newRow, taskArg, h2]
  rw [hp]
  rfl

theorem usedL_append_other (L : List LRow) (r t : Nat) (b : Bool) (acc : List (Int × Rat)) (d : Int)
    (h : ∀ p ∈ acc, p.1 ≠ d) :
    usedL (L ++ acc.map (newRow r t)) r (taskArg b t) d = usedL L r (taskArg b t) d := by
  rw [usedL_append_new]
  have : acc.filter (fun p => p.1 == d) = [] := by
    rw [List.filter_eq_nil_iff]
    intro p hp
    simpa using h p hp
  rw [this]
  simp [Rat.add_zero]

def shiftParams (r t : Nat) (s : Time) (left : Rat) (n : Nat) : PyLite.Env :=
  [("resource", .atom (.ref r)), ("start_date", .atom (.time s)), ("task", .atom (.ref t)),
   ("left_hours", .atom (.num left)), ("max_steps", .atom (.num ((n : Nat) : Rat)))]

def interpShiftFwd (fuel : Nat) (cal : Cal) (b : Bool) (r t : Nat) (L : List LRow) (start : Time) (left : Rat) :
    Res (Time × List LRow) :=
  asTime (runW (srcH cal r) (schedSelf b) fuel src_Fwd_shift (shiftParams r t start left src_Fwd_shift_maxSteps) L)

/-- the environment at the head of the `while` loop: before the first iteration the loop's locals do not exist yet -/
def fwdShiftEnv (r t : Nat) (s : Time) (n : Nat) (left : Rat) (day : Int) (k : Nat) (dau : Rat) :
    Option (Rat × Rat) → PyLite.Env
  | none => shiftParams r t s left n ++ [("date", .atom (.time ((day : Int) : Rat))), ("days", .atom (.num ((k : Nat) : Rat))),
      ("date_available_units", .atom (.num dau))]
  | some (a, v) => shiftParams r t s left n ++ [("date", .atom (.time ((day : Int) : Rat))), ("days", .atom (.num ((k : Nat) : Rat))),
      ("date_available_units", .atom (.num dau)), ("reserved", .atom (.num a)), ("max_available", .atom (.num v))]

/-- condition and body of the loop, and the statements after it -/
def fwdShiftParts : Expr × List Stmt × List Stmt :=
  match src_Fwd_shift with
  | [_, _, _, _, .while c body, p1, p2, p3] => (c, body, [p1, p2, p3])
  | _ => (.none, [], [])

theorem fwdShift_cond (H : Handlers) (self : PyLite.Env) (L' : List LRow) (r t : Nat) (s : Time) (n : Nat) (left : Rat)
    (day : Int) (k : Nat) (dau : Rat) (j : Option (Rat × Rat)) :
    (do truth (← fwdShiftParts.1.evalW H self L' (fwdShiftEnv r t s n left day k dau j))) = .ok (decide (0 < left)) := by
  rcases j with _ | ⟨a, v⟩ <;> pylite_w [fwdShiftParts, src_Fwd_shift, fwdShiftEnv, shiftParams]

theorem fwdShift_body (cal : Cal) (b : Bool) (r t : Nat) (L' : List LRow) (s : Time) (n : Nat) (F : Nat) (left : Rat)
    (day : Int) (k : Nat) (dau : Rat) (j : Option (Rat × Rat)) :
    execBlockW (srcH cal r) (schedSelf b) F fwdShiftParts.2.1 (fwdShiftEnv r t s n left day k dau j) L' =
      match capR cal (((day + 1 : Int)) : Rat) with
      | .error e => .raise e
      | .ok c =>
        if n < k + 1 then .raise .runtime
        else if 0 < c - usedL L' r (taskArg b t) (day + 1) then
          .normal (fwdShiftEnv r t s n (left - min left (c - usedL L' r (taskArg b t) (day + 1))) (day + 1) (k + 1) c
              (some (usedL L' r (taskArg b t) (day + 1), c - usedL L' r (taskArg b t) (day + 1))))
            (L' ++ [newRow r t (day + 1, min left (c - usedL L' r (taskArg b t) (day + 1)))])
        else
          .normal (fwdShiftEnv r t s n left (day + 1) (k + 1) c
              (some (usedL L' r (taskArg b t) (day + 1), c - usedL L' r (taskArg b t) (day + 1)))) L' := by
  have hr1 := srcH_reserved cal r L' r ((day : Rat) + 1) none
  have hr2 := srcH_reserved cal r L' r ((day : Rat) + 1) (some t)
  have hrv := fun u => srcH_reserve cal r L' r t ((day : Rat) + 1) u
  simp only [optRef] at hr1 hr2
  rw [intCast_succ]
  rcases hu : capR cal ((day : Rat) + 1) with e | c
  · rcases j with _ | ⟨a, v⟩ <;> cases b <;>
      pylite_w [fwdShiftParts, src_Fwd_shift, fwdShiftEnv, shiftParams, schedSelf, srcH_units, hr1, hr2, Except.map, hu]
  · obtain ⟨u, hu'⟩ : ∃ u, u = usedL L' r (taskArg b t) (day + 1) := ⟨_, rfl⟩
    rw [← hu']
    by_cases hpos : 0 < c - u <;> by_cases hk : n < k + 1 <;> cases b <;>
      simp only [taskArg, Bool.false_eq_true, if_false, if_true] at hu' <;> rcases j with _ | ⟨a, v⟩ <;>
      pylite_w [fwdShiftParts, src_Fwd_shift, fwdShiftEnv, shiftParams, schedSelf, srcH_units, hr1, hr2, hrv, Except.map, hu,
        ledgerReserved_usedL, dayOf_succ, midnight_succ, ← hu', hpos, hk, natCast_lt_succ, ite_num, pymin_eq, newRow, intCast_succ, natCast_succ]

/-- the statements after the loop: the share of the last visited day that is reserved -/
theorem fwdShift_post (cal : Cal) (b : Bool) (r t : Nat) (L' : List LRow) (s : Time) (n : Nat) (F : Nat) (left : Rat)
    (day : Int) (k : Nat) (dau : Rat) (j : Option (Rat × Rat)) :
    execBlockW (srcH cal r) (schedSelf b) F fwdShiftParts.2.2 (fwdShiftEnv r t s n left day k dau j) L' =
      if dau = 0 then .raise (.crash .zeroDivision)
      else .ret (.atom (.time ((day : Rat) + usedL L' r (taskArg b t) day / dau))) L' := by
  have hr1 := srcH_reserved cal r L' r (day : Rat) none
  have hr2 := srcH_reserved cal r L' r (day : Rat) (some t)
  simp only [optRef] at hr1 hr2
  by_cases hd : dau = 0 <;> cases b <;> rcases j with _ | ⟨a, v⟩ <;>
    pylite_w [fwdShiftParts, src_Fwd_shift, fwdShiftEnv, shiftParams, schedSelf, hr1, hr2, ledgerReserved_usedL,
      dayOf_intCast, taskArg, hd, mul24_div24]

/-- the model's computation after the fill loop -/
def finishFwd (used : Int → Rat) : List (Int × Rat) × Int × Rat → Res (Time × List (Int × Rat))
  | (rows, day, dau) =>
    if dau = 0 then throw (.crash .zeroDivision)
    else pure ((day : Rat) + (used day + ((rows.filter (fun p => p.1 == day)).map (·.2)).sum) / dau, rows)

theorem shiftFwd_eq (cal : Cal) (used : Int → Rat) (start : Time) (left : Rat) :
    shiftFwd cal used start left =
      if left = 0 then pure (start, [])
      else fillFwd cal used Extracted.fwdShiftMaxSteps (Extracted.fwdShiftMaxSteps + 2) 0 (dayOf start - 1) left 0 []
        >>= finishFwd used := by
  unfold shiftFwd
  split
  · rfl
  · rfl

/-- result and final ledger -/
def outcomeS (L : List LRow) (r t : Nat) : Res (Time × List (Int × Rat)) → OutcomeW
  | .ok (e, rows) => .ret (.atom (.time e)) (L ++ rows.map (newRow r t))
  | .error e => .raise e

theorem fwdShift_loop (cal : Cal) (b : Bool) (r t : Nat) (L : List LRow) (s : Time) (n : Nat) (F : Nat) (m : Nat) :
    ∀ (k : Nat) (day : Int) (left dau : Rat) (acc : List (Int × Rat)) (j : Option (Rat × Rat)) (f g : Nat),
    k + m = n → m < f → m < g → (∀ p ∈ acc, p.1 ≤ day) →
    (match whileLoopW (fun env' L' => do truth (← fwdShiftParts.1.evalW (srcH cal r) (schedSelf b) L' env'))
        (fun env' L' => execBlockW (srcH cal r) (schedSelf b) F fwdShiftParts.2.1 env' L') f
        (fwdShiftEnv r t s n left day k dau j) (L ++ acc.map (newRow r t)) with
      | .normal env' L'' => execBlockW (srcH cal r) (schedSelf b) F fwdShiftParts.2.2 env' L''
      | o => o) =
    outcomeS L r t (fillFwd cal (usedL L r (taskArg b t)) n g k day left dau acc >>= finishFwd (usedL L r (taskArg b t))) := by
  induction m with
  | zero =>
    intro k day left dau acc j f g hk hf hg hacc
    obtain ⟨f, rfl⟩ : ∃ f', f = f' + 1 := ⟨f - 1, by omega⟩
    obtain ⟨g, rfl⟩ : ∃ g', g = g' + 1 := ⟨g - 1, by omega⟩
    simp only [whileLoopW, fwdShift_cond]
    by_cases hl : 0 < left
    · have hl' : ¬ left ≤ 0 := Rat.not_le.2 hl
      have hkn : n < k + 1 := by omega
      have hkn' : k + 1 > n := by omega
      simp only [hl, decide_true, fwdShift_body, fillFwd_succ _ _ _ _ _ _ _ _ _ hl', hkn, if_true]
      rcases capR cal (((day + 1 : Int)) : Rat) with e | c <;> rfl
    · have hl' : left ≤ 0 := Rat.not_lt.1 hl
      simp only [hl, decide_false, fwdShift_post, fillFwd, hl', if_true, pure, Except.pure, bind, Except.bind, finishFwd,
        usedL_append_new]
      by_cases hd : dau = 0 <;> simp [hd, outcomeS, throw, throwThe, MonadExceptOf.throw]
  | succ m ih =>
    intro k day left dau acc j f g hk hf hg hacc
    obtain ⟨f, rfl⟩ : ∃ f', f = f' + 1 := ⟨f - 1, by omega⟩
    obtain ⟨g, rfl⟩ : ∃ g', g = g' + 1 := ⟨g - 1, by omega⟩
    simp only [whileLoopW, fwdShift_cond]
    by_cases hl : 0 < left
    · have hl' : ¬ left ≤ 0 := Rat.not_le.2 hl
      have hkn : ¬ n < k + 1 := by omega
      have hkn' : ¬ k + 1 > n := by omega
      have hother : ∀ p ∈ acc, p.1 ≠ day + 1 := fun p hp => by have := hacc p hp; omega
      simp only [hl, decide_true, fwdShift_body, fillFwd_succ _ _ _ _ _ _ _ _ _ hl', hkn, if_false,
        usedL_append_other _ _ _ _ _ _ hother]
      rcases capR cal (((day + 1 : Int)) : Rat) with e | c
      · rfl
      · simp only [bind, Except.bind]
        by_cases hpos : 0 < c - usedL L r (taskArg b t) (day + 1)
        · simp only [hpos, if_true]
          have := ih (k + 1) (day + 1) (left - min left (c - usedL L r (taskArg b t) (day + 1))) c
            (acc ++ [(day + 1, min left (c - usedL L r (taskArg b t) (day + 1)))])
            (some (usedL L r (taskArg b t) (day + 1), c - usedL L r (taskArg b t) (day + 1))) f g (by omega) (by omega) (by omega)
            (by
              intro p hp
              rcases List.mem_append.1 hp with hp | hp
              · have := hacc p hp; omega
              · simp at hp; subst hp; simp)
          simp only [bind, Except.bind, List.map_append, List.append_assoc, List.map_cons, List.map_nil] at this ⊢
          exact this
        · simp only [hpos, if_false]
          have := ih (k + 1) (day + 1) left c acc
            (some (usedL L r (taskArg b t) (day + 1), c - usedL L r (taskArg b t) (day + 1))) f g (by omega) (by omega) (by omega)
            (fun p hp => by have := hacc p hp; omega)
          simp only [bind, Except.bind] at this ⊢
          exact this
    · have hl' : left ≤ 0 := Rat.not_lt.1 hl
      simp only [hl, decide_false, fwdShift_post, fillFwd, hl', if_true, pure, Except.pure, bind, Except.bind, finishFwd,
        usedL_append_new]
      by_cases hd : dau = 0 <;> simp [hd, outcomeS, throw, throwThe, MonadExceptOf.throw]

theorem fwdShift_maxSteps_eq : src_Fwd_shift_maxSteps = Extracted.fwdShiftMaxSteps := rfl

theorem execBlockW_append (H : Handlers) (self : PyLite.Env) (F : Nat) (p q : List Stmt) (env : PyLite.Env) (L : List LRow) :
    execBlockW H self F (p ++ q) env L =
      match execBlockW H self F p env L with
      | .normal env' L' => execBlockW H self F q env' L'
      | o => o := by
  induction p generalizing env L with
  | nil => simp [execBlockW]
  | cons s p ih =>
    simp only [List.cons_append, execBlockW]
    cases s.execW H self F env L <;> simp [ih]

def fwdShiftPrelude : List Stmt := src_Fwd_shift.take 4

theorem src_Fwd_shift_split : src_Fwd_shift =
    fwdShiftPrelude ++ ([.while fwdShiftParts.1 fwdShiftParts.2.1] ++ fwdShiftParts.2.2) := rfl

theorem fwdShift_prelude (H : Handlers) (self : PyLite.Env) (F : Nat) (r t : Nat) (L : List LRow) (start : Time)
    (left : Rat) (n : Nat) :
    execBlockW H self F fwdShiftPrelude (shiftParams r t start left n) L =
      if left = 0 then .ret (.atom (.time start)) L
      else .normal (fwdShiftEnv r t start n left (dayOf start - 1) 0 0 none) L := by
  by_cases hl : left = 0 <;>
    pylite_w [fwdShiftPrelude, src_Fwd_shift, shiftParams, fwdShiftEnv, hl, midnight, Atom.pyEq, Atom.norm, intCast_pred]

theorem fwdShift_tail (cal : Cal) (b : Bool) (r t : Nat) (L : List LRow) (s : Time) (n fuel : Nat) (left : Rat) (day : Int)
    (hf : n < fuel) :
    execBlockW (srcH cal r) (schedSelf b) fuel ([.while fwdShiftParts.1 fwdShiftParts.2.1] ++ fwdShiftParts.2.2)
        (fwdShiftEnv r t s n left day 0 0 none) L =
      outcomeS L r t (fillFwd cal (usedL L r (taskArg b t)) n (n + 2) 0 day left 0 [] >>= finishFwd (usedL L r (taskArg b t))) := by
  have hloop := fwdShift_loop cal b r t L s n fuel n 0 day left 0 [] none fuel (n + 2)
      (by omega) hf (by omega) (by simp)
  simp only [List.map_nil, List.append_nil] at hloop
  rw [execBlockW_append]
  simp only [execBlockW, Stmt.execW]
  rw [← hloop]
  generalize whileLoopW _ _ fuel _ L = w
  cases w <;> rfl

/-- forward `__shift_by_resource_usage_and_calendar`: the translated source returns the end date of `shiftFwd` and
    appends exactly the model's rows; `fuel` bounds the `while` loop of the interpreter -/
theorem interpShiftFwd_eq' (fuel : Nat) (cal : Cal) (b : Bool) (r t : Nat) (L : List LRow) (start : Time) (left : Rat)
    (hf : Extracted.fwdShiftMaxSteps < fuel) :
    interpShiftFwd fuel cal b r t L start left =
      (shiftFwd cal (usedL L r (taskArg b t)) start left).map (fun p => (p.1, L ++ p.2.map (newRow r t))) := by
  unfold interpShiftFwd runW
  rw [shiftFwd_eq, src_Fwd_shift_split, execBlockW_append, fwdShift_prelude, ← fwdShift_maxSteps_eq]
  rw [← fwdShift_maxSteps_eq] at hf
  by_cases hl : left = 0
  · simp [hl, asTime, Except.map, pure, Except.pure]
  · simp only [hl, if_false, fwdShift_tail _ _ _ _ _ _ _ _ _ _ hf]
    rcases fillFwd cal (usedL L r (taskArg b t)) src_Fwd_shift_maxSteps (src_Fwd_shift_maxSteps + 2) 0 (dayOf start - 1) left 0 []
      with e | ⟨rows, day, dau⟩
    · rfl
    · simp only [bind, Except.bind, finishFwd]
      by_cases hd : dau = 0 <;> simp [hd, outcomeS, asTime, Except.map, pure, Except.pure, throw, throwThe, MonadExceptOf.throw]

/-! ### backward `__get_resource_nearest_available_date` -/

theorem add_neg_one (a : Rat) : a + -1 = a - 1 := by grind
theorem dayOf_pred (day : Int) : dayOf ((day : Rat) - 1) = day - 1 := by
  rw [← intCast_pred, dayOf_intCast]
theorem midnight_pred (day : Int) : midnight ((day : Rat) - 1) = (day : Rat) - 1 := by
  rw [← intCast_pred, midnight_intCast]

def interpNearestBwd (cal : Cal) (b : Bool) (r t : Nat) (L : List LRow) (start : Time) : Res (Time × List LRow) :=
  asTime (runW (srcH cal r) (schedSelf b) 0 src_Bwd_nearest (nearParams r t start src_Bwd_nearest_maxSteps) L)

def bwdNearLoop : List Stmt :=
  match src_Bwd_nearest with
  | [_, _, .forRange _ _ _ b, _] => b
  | _ => []

theorem src_Bwd_nearest_shape : src_Bwd_nearest =
    [.assign "start_date" (.dayStart (.var "start_date")),
     .assign "d" (.bin .sub (.nearest (.var "resource") (.var "start_date") (.num (-1))) (.timedelta (.num 1))),
     .forRange "i" (.num 0) (.var "max_steps") bwdNearLoop,
     .raiseRuntime] := rfl

theorem bwdNear_body (cal : Cal) (b : Bool) (r t : Nat) (L : List LRow) (s : Time) (n : Nat) (F : Nat) (d : Time)
    (j : Option (Rat × Rat × Rat)) (i : Int) :
    execBlockW (srcH cal r) (schedSelf b) F bwdNearLoop (Env.set (nearEnv r t s n d j) "i" (.atom (.num (i : Rat)))) L =
      match capR cal d with
      | .error e => .raise e
      | .ok c =>
        if 0 < c - usedL L r (taskArg b t) (dayOf d) then
          (if c = 0 then .raise (.crash .zeroDivision)
           else .ret (.atom (.time (midnight d - (1 - (c - usedL L r (taskArg b t) (dayOf d)) / c)))) L)
        else .normal (nearEnv r t s n (d - 1) (some ((i : Rat), usedL L r (taskArg b t) (dayOf d), c - usedL L r (taskArg b t) (dayOf d)))) L := by
  have hr1 := srcH_reserved cal r L r d none
  have hr2 := srcH_reserved cal r L r d (some t)
  simp only [optRef] at hr1 hr2
  rcases hu : capR cal d with e | c
  · rcases j with _ | ⟨i', a, v⟩ <;> cases b <;>
      pylite_w [bwdNearLoop, src_Bwd_nearest, nearEnv, nearParams, schedSelf, srcH_units, hr1, hr2, Except.map, hu]
  · obtain ⟨u, hu'⟩ : ∃ u, u = usedL L r (taskArg b t) (dayOf d) := ⟨_, rfl⟩
    rw [← hu']
    by_cases hpos : 0 < c - u <;> by_cases hc : c = 0 <;> (try subst hc) <;> cases b <;>
      simp only [taskArg, Bool.false_eq_true, if_false, if_true] at hu' <;> rcases j with _ | ⟨i', a, v⟩ <;>
      first
      | pylite_w [bwdNearLoop, src_Bwd_nearest, nearEnv, nearParams, schedSelf, srcH_units, hr1, hr2, Except.map, hu, ledgerReserved_usedL, ← hu', hpos, hc, mul24_div24, add_neg_one]
      | pylite_w [bwdNearLoop, src_Bwd_nearest, nearEnv, nearParams, schedSelf, srcH_units, hr1, hr2, Except.map, hu, ledgerReserved_usedL, ← hu', hpos, add_neg_one]

theorem bwdNear_loop (cal : Cal) (b : Bool) (r t : Nat) (L : List LRow) (s : Time) (n : Nat) (F : Nat) :
    ∀ (k : Nat) (i : Int) (d : Time) (j : Option (Rat × Rat × Rat)),
    (match rangeLoopW "i" (fun env' L' => execBlockW (srcH cal r) (schedSelf b) F bwdNearLoop env' L') k i
        (nearEnv r t s n d j) L with
      | .normal _ _ => .raise .runtime
      | o => o) = outcomeT L (nearestBwdLoop cal (usedL L r (taskArg b t)) k d) := by
  intro k
  induction k with
  | zero => intro i d j; simp [rangeLoopW, nearestBwdLoop, outcomeT, throw, throwThe, MonadExceptOf.throw]
  | succ k ih =>
    intro i d j
    simp only [rangeLoopW, bwdNear_body, nearestBwdLoop]
    rcases capR cal d with e | c
    · rfl
    · simp only [bind, Except.bind]
      by_cases hpos : 0 < c - usedL L r (taskArg b t) (dayOf d)
      · by_cases hc : c = 0
        · subst hc
          simp [hpos, outcomeT, throw, throwThe, MonadExceptOf.throw]
        · simp [hpos, hc, outcomeT, pure, Except.pure]
      · simp only [hpos, if_false]
        exact ih _ _ _

theorem bwdNearest_maxSteps_eq : src_Bwd_nearest_maxSteps = Extracted.bwdNearestMaxSteps := rfl

theorem interpNearestBwd_eq' (cal : Cal) (b : Bool) (r t : Nat) (L : List LRow) (start : Time) :
    interpNearestBwd cal b r t L start =
      (nearestBwd cal (usedL L r (taskArg b t)) start).map (fun e => (e, L)) := by
  unfold interpNearestBwd runW nearestBwd
  rw [src_Bwd_nearest_shape, ← bwdNearest_maxSteps_eq]
  generalize src_Bwd_nearest_maxSteps = n
  rcases hs : search cal (-1) Extracted.maxDays (midnight start) with e | d
  · pylite_w [nearParams, srcH_nearest, hs, asTime, Except.map]
  · have hl := bwdNear_loop cal b r t L (midnight start) n 0 n 0 (d - 1) none
    simp only [nearEnv, nearParams, List.cons_append, List.nil_append] at hl
    pylite_w [nearParams, srcH_nearest, hs]
    generalize rangeLoopW _ _ n 0 _ L = w at hl ⊢
    cases w <;> cases hn : nearestBwdLoop cal (usedL L r (taskArg b t)) n (d - 1) <;>
      simp_all [outcomeT, asTime, Except.map, pure, Except.pure, throw, throwThe, MonadExceptOf.throw]

/-! ### backward `__shift_by_resource_usage_and_calendar` -/

def interpShiftBwd (fuel : Nat) (cal : Cal) (b : Bool) (r t : Nat) (L : List LRow) (end_ : Time) (left : Rat) :
    Res (Time × List LRow) :=
  asTime (runW (srcH cal r) (schedSelf b) fuel src_Bwd_shift (shiftParams r t end_ left src_Bwd_shift_maxSteps) L)

def bwdShiftEnv (r t : Nat) (s : Time) (n : Nat) (left : Rat) (day : Int) (k : Nat) : Option (Rat × Rat) → PyLite.Env
  | none => shiftParams r t s left n ++ [("date", .atom (.time ((day : Int) : Rat))), ("days", .atom (.num ((k : Nat) : Rat)))]
  | some (a, v) => shiftParams r t s left n ++ [("date", .atom (.time ((day : Int) : Rat))), ("days", .atom (.num ((k : Nat) : Rat))),
      ("reserved", .atom (.num a)), ("max_available", .atom (.num v))]

def bwdShiftParts : Expr × List Stmt × List Stmt :=
  match src_Bwd_shift with
  | [_, _, _, .while c body, p1, p2, p3] => (c, body, [p1, p2, p3])
  | _ => (.none, [], [])

def bwdShiftPrelude : List Stmt := src_Bwd_shift.take 3

theorem src_Bwd_shift_split : src_Bwd_shift =
    bwdShiftPrelude ++ ([.while bwdShiftParts.1 bwdShiftParts.2.1] ++ bwdShiftParts.2.2) := rfl

theorem bwdShift_cond (H : Handlers) (self : PyLite.Env) (L' : List LRow) (r t : Nat) (s : Time) (n : Nat) (left : Rat)
    (day : Int) (k : Nat) (j : Option (Rat × Rat)) :
    (do truth (← bwdShiftParts.1.evalW H self L' (bwdShiftEnv r t s n left day k j))) = .ok (decide (0 < left)) := by
  rcases j with _ | ⟨a, v⟩ <;> pylite_w [bwdShiftParts, src_Bwd_shift, bwdShiftEnv, shiftParams]

theorem bwdShift_body (cal : Cal) (b : Bool) (r t : Nat) (L' : List LRow) (s : Time) (n : Nat) (F : Nat) (left : Rat)
    (day : Int) (k : Nat) (j : Option (Rat × Rat)) :
    execBlockW (srcH cal r) (schedSelf b) F bwdShiftParts.2.1 (bwdShiftEnv r t s n left day k j) L' =
      match capR cal (((day - 1 : Int)) : Rat) with
      | .error e => .raise e
      | .ok c =>
        if n < k + 1 then .raise .runtime
        else if 0 < c - usedL L' r (taskArg b t) (day - 1) then
          .normal (bwdShiftEnv r t s n (left - min left (c - usedL L' r (taskArg b t) (day - 1))) (day - 1) (k + 1)
              (some (usedL L' r (taskArg b t) (day - 1), c - usedL L' r (taskArg b t) (day - 1))))
            (L' ++ [newRow r t (day - 1, min left (c - usedL L' r (taskArg b t) (day - 1)))])
        else
          .normal (bwdShiftEnv r t s n left (day - 1) (k + 1)
              (some (usedL L' r (taskArg b t) (day - 1), c - usedL L' r (taskArg b t) (day - 1)))) L' := by
  have hr1 := srcH_reserved cal r L' r ((day : Rat) - 1) none
  have hr2 := srcH_reserved cal r L' r ((day : Rat) - 1) (some t)
  have hrv := fun u => srcH_reserve cal r L' r t ((day : Rat) - 1) u
  simp only [optRef] at hr1 hr2
  rw [intCast_pred]
  rcases hu : capR cal ((day : Rat) - 1) with e | c
  · rcases j with _ | ⟨a, v⟩ <;> cases b <;>
      pylite_w [bwdShiftParts, src_Bwd_shift, bwdShiftEnv, shiftParams, schedSelf, srcH_units, hr1, hr2, Except.map, hu, add_neg_one]
  · obtain ⟨u, hu'⟩ : ∃ u, u = usedL L' r (taskArg b t) (day - 1) := ⟨_, rfl⟩
    rw [← hu']
    by_cases hpos : 0 < c - u <;> by_cases hk : n < k + 1 <;> cases b <;>
      simp only [taskArg, Bool.false_eq_true, if_false, if_true] at hu' <;> rcases j with _ | ⟨a, v⟩ <;>
      pylite_w [bwdShiftParts, src_Bwd_shift, bwdShiftEnv, shiftParams, schedSelf, srcH_units, hr1, hr2, hrv, Except.map, hu,
        ledgerReserved_usedL, dayOf_pred, midnight_pred, ← hu', hpos, hk, natCast_lt_succ, ite_num, pymin_eq, newRow,
        intCast_pred, natCast_succ, add_neg_one]

/-- the statements after the loop -/
theorem bwdShift_post (cal : Cal) (b : Bool) (r t : Nat) (L' : List LRow) (s : Time) (n : Nat) (F : Nat) (left : Rat)
    (day : Int) (k : Nat) (j : Option (Rat × Rat)) :
    execBlockW (srcH cal r) (schedSelf b) F bwdShiftParts.2.2 (bwdShiftEnv r t s n left day k j) L' =
      match capR cal ((day : Int) : Rat) with
      | .error e => .raise e
      | .ok c =>
        if c = 0 then .raise (.crash .zeroDivision)
        else .ret (.atom (.time ((day : Rat) + 1 - usedL L' r (taskArg b t) day / c))) L' := by
  have hr1 := srcH_reserved cal r L' r (day : Rat) none
  have hr2 := srcH_reserved cal r L' r (day : Rat) (some t)
  simp only [optRef] at hr1 hr2
  rcases hu : capR cal ((day : Int) : Rat) with e | c
  · cases b <;> rcases j with _ | ⟨a, v⟩ <;>
      pylite_w [bwdShiftParts, src_Bwd_shift, bwdShiftEnv, shiftParams, schedSelf, srcH_units, hr1, hr2, Except.map, hu]
  · by_cases hd : c = 0 <;> cases b <;> rcases j with _ | ⟨a, v⟩ <;>
      pylite_w [bwdShiftParts, src_Bwd_shift, bwdShiftEnv, shiftParams, schedSelf, srcH_units, hr1, hr2, Except.map, hu,
        ledgerReserved_usedL, dayOf_intCast, taskArg, hd, mul24_div24]

def finishBwd (cal : Cal) (used : Int → Rat) : List (Int × Rat) × Int → Res (Time × List (Int × Rat))
  | (rows, day) => do
    let c ← capR cal (day : Rat)
    if c = 0 then throw (.crash .zeroDivision)
    else pure ((day : Rat) + 1 - (used day + ((rows.filter (fun p => p.1 == day)).map (·.2)).sum) / c, rows)

theorem shiftBwd_eq (cal : Cal) (used : Int → Rat) (end_ : Time) (left : Rat) :
    shiftBwd cal used end_ left =
      if left = 0 then pure (end_, [])
      else fillBwd cal used Extracted.bwdShiftMaxSteps (Extracted.bwdShiftMaxSteps + 2) 0 (dayOf end_) left []
        >>= finishBwd cal used := by
  unfold shiftBwd
  split
  · rfl
  · rfl

theorem bwdShift_loop (cal : Cal) (b : Bool) (r t : Nat) (L : List LRow) (s : Time) (n : Nat) (F : Nat) (m : Nat) :
    ∀ (k : Nat) (day : Int) (left : Rat) (acc : List (Int × Rat)) (j : Option (Rat × Rat)) (f g : Nat),
    k + m = n → m < f → m < g → (∀ p ∈ acc, day ≤ p.1) →
    (match whileLoopW (fun env' L' => do truth (← bwdShiftParts.1.evalW (srcH cal r) (schedSelf b) L' env'))
        (fun env' L' => execBlockW (srcH cal r) (schedSelf b) F bwdShiftParts.2.1 env' L') f
        (bwdShiftEnv r t s n left day k j) (L ++ acc.map (newRow r t)) with
      | .normal env' L'' => execBlockW (srcH cal r) (schedSelf b) F bwdShiftParts.2.2 env' L''
      | o => o) =
    outcomeS L r t (fillBwd cal (usedL L r (taskArg b t)) n g k day left acc >>= finishBwd cal (usedL L r (taskArg b t))) := by
  induction m with
  | zero =>
    intro k day left acc j f g hk hf hg hacc
    obtain ⟨f, rfl⟩ : ∃ f', f = f' + 1 := ⟨f - 1, by omega⟩
    obtain ⟨g, rfl⟩ : ∃ g', g = g' + 1 := ⟨g - 1, by omega⟩
    simp only [whileLoopW, bwdShift_cond]
    by_cases hl : 0 < left
    · have hl' : ¬ left ≤ 0 := Rat.not_le.2 hl
      have hkn : n < k + 1 := by omega
      simp only [hl, decide_true, bwdShift_body, fillBwd_succ _ _ _ _ _ _ _ _ hl', hkn, if_true]
      rcases capR cal (((day - 1 : Int)) : Rat) with e | c <;> rfl
    · have hl' : left ≤ 0 := Rat.not_lt.1 hl
      simp only [hl, decide_false, bwdShift_post, fillBwd, hl', if_true, pure, Except.pure, bind, Except.bind, finishBwd,
        usedL_append_new]
      rcases capR cal ((day : Int) : Rat) with e | c
      · rfl
      · by_cases hd : c = 0 <;> simp [hd, outcomeS, throw, throwThe, MonadExceptOf.throw]
  | succ m ih =>
    intro k day left acc j f g hk hf hg hacc
    obtain ⟨f, rfl⟩ : ∃ f', f = f' + 1 := ⟨f - 1, by omega⟩
    obtain ⟨g, rfl⟩ : ∃ g', g = g' + 1 := ⟨g - 1, by omega⟩
    simp only [whileLoopW, bwdShift_cond]
    by_cases hl : 0 < left
    · have hl' : ¬ left ≤ 0 := Rat.not_le.2 hl
      have hkn : ¬ n < k + 1 := by omega
      have hother : ∀ p ∈ acc, p.1 ≠ day - 1 := fun p hp => by have := hacc p hp; omega
      simp only [hl, decide_true, bwdShift_body, fillBwd_succ _ _ _ _ _ _ _ _ hl', hkn, if_false,
        usedL_append_other _ _ _ _ _ _ hother]
      rcases capR cal (((day - 1 : Int)) : Rat) with e | c
      · rfl
      · simp only [bind, Except.bind]
        by_cases hpos : 0 < c - usedL L r (taskArg b t) (day - 1)
        · simp only [hpos, if_true]
          have := ih (k + 1) (day - 1) (left - min left (c - usedL L r (taskArg b t) (day - 1)))
            (acc ++ [(day - 1, min left (c - usedL L r (taskArg b t) (day - 1)))])
            (some (usedL L r (taskArg b t) (day - 1), c - usedL L r (taskArg b t) (day - 1))) f g (by omega) (by omega) (by omega)
            (by
              intro p hp
              rcases List.mem_append.1 hp with hp | hp
              · have := hacc p hp; omega
              · simp at hp; subst hp; simp)
          simp only [bind, Except.bind, List.map_append, List.append_assoc, List.map_cons, List.map_nil] at this ⊢
          exact this
        · simp only [hpos, if_false]
          have := ih (k + 1) (day - 1) left acc
            (some (usedL L r (taskArg b t) (day - 1), c - usedL L r (taskArg b t) (day - 1))) f g (by omega) (by omega) (by omega)
            (fun p hp => by have := hacc p hp; omega)
          simp only [bind, Except.bind] at this ⊢
          exact this
    · have hl' : left ≤ 0 := Rat.not_lt.1 hl
      simp only [hl, decide_false, bwdShift_post, fillBwd, hl', if_true, pure, Except.pure, bind, Except.bind, finishBwd,
        usedL_append_new]
      rcases capR cal ((day : Int) : Rat) with e | c
      · rfl
      · by_cases hd : c = 0 <;> simp [hd, outcomeS, throw, throwThe, MonadExceptOf.throw]

theorem bwdShift_maxSteps_eq : src_Bwd_shift_maxSteps = Extracted.bwdShiftMaxSteps := rfl

theorem bwdShift_prelude (H : Handlers) (self : PyLite.Env) (F : Nat) (r t : Nat) (L : List LRow) (end_ : Time)
    (left : Rat) (n : Nat) :
    execBlockW H self F bwdShiftPrelude (shiftParams r t end_ left n) L =
      if left = 0 then .ret (.atom (.time end_)) L
      else .normal (bwdShiftEnv r t end_ n left (dayOf end_) 0 none) L := by
  by_cases hl : left = 0 <;>
    pylite_w [bwdShiftPrelude, src_Bwd_shift, shiftParams, bwdShiftEnv, hl, midnight, Atom.pyEq, Atom.norm]

theorem bwdShift_tail (cal : Cal) (b : Bool) (r t : Nat) (L : List LRow) (s : Time) (n fuel : Nat) (left : Rat) (day : Int)
    (hf : n < fuel) :
    execBlockW (srcH cal r) (schedSelf b) fuel ([.while bwdShiftParts.1 bwdShiftParts.2.1] ++ bwdShiftParts.2.2)
        (bwdShiftEnv r t s n left day 0 none) L =
      outcomeS L r t (fillBwd cal (usedL L r (taskArg b t)) n (n + 2) 0 day left [] >>= finishBwd cal (usedL L r (taskArg b t))) := by
  have hloop := bwdShift_loop cal b r t L s n fuel n 0 day left [] none fuel (n + 2)
      (by omega) hf (by omega) (by simp)
  simp only [List.map_nil, List.append_nil] at hloop
  rw [execBlockW_append]
  simp only [execBlockW, Stmt.execW]
  rw [← hloop]
  generalize whileLoopW _ _ fuel _ L = w
  cases w <;> rfl

/-- backward `__shift_by_resource_usage_and_calendar` -/
theorem interpShiftBwd_eq' (fuel : Nat) (cal : Cal) (b : Bool) (r t : Nat) (L : List LRow) (end_ : Time) (left : Rat)
    (hf : Extracted.bwdShiftMaxSteps < fuel) :
    interpShiftBwd fuel cal b r t L end_ left =
      (shiftBwd cal (usedL L r (taskArg b t)) end_ left).map (fun p => (p.1, L ++ p.2.map (newRow r t))) := by
  unfold interpShiftBwd runW
  rw [shiftBwd_eq, src_Bwd_shift_split, execBlockW_append, bwdShift_prelude, ← bwdShift_maxSteps_eq]
  rw [← bwdShift_maxSteps_eq] at hf
  by_cases hl : left = 0
  · simp [hl, asTime, Except.map, pure, Except.pure]
  · simp only [hl, if_false, bwdShift_tail _ _ _ _ _ _ _ _ _ _ hf]
    rcases fillBwd cal (usedL L r (taskArg b t)) src_Bwd_shift_maxSteps (src_Bwd_shift_maxSteps + 2) 0 (dayOf end_) left []
      with e | ⟨rows, day⟩
    · rfl
    · simp only [bind, Except.bind, finishBwd]
      rcases capR cal ((day : Int) : Rat) with e | c
      · rfl
      · by_cases hd : c = 0 <;> simp [hd, outcomeS, asTime, Except.map, pure, Except.pure, throw, throwThe, MonadExceptOf.throw]

/-! ### the statements on the model's ledger (`List Row`) -/

/-- the row the model appends (`addRows`) for a pair (day, units) -/
def mkRow (r : Option Nat) (t : Uid) (p : Int × Rat) : Row := { res := r, day := p.1, task := t, units := p.2 }

/-- the model's `used` function (`usedBy env rows r t` with `b = env.balance`) -/
def usedOf (rows : List Row) (r : Option Nat) (t : Uid) (b : Bool) : Int → Rat :=
  fun day => reserved rows r day (if b then none else some t)

theorem usedOf_usedBy (env : Pj.Env) (rows : List Row) (r : Option Nat) (t : Uid) :
    usedOf rows r t env.balance = usedBy env rows r t := rfl

theorem usedL_enc (rows : List Row) (r : Option Nat) (t : Uid) (b : Bool) :
    usedL (rows.map encRow) (resRef r) (taskArg b t) = usedOf rows r t b := by
  funext day
  unfold usedL usedOf
  rw [ledgerReserved_enc, dayOf_intCast]
  rfl

theorem addRows_rows (σ : SS) (r : Option Nat) (t : Uid) (rows : List (Int × Rat)) :
    (addRows σ r t rows).rows = σ.rows ++ rows.map (mkRow r t) := rfl

theorem enc_append (rows : List Row) (r : Option Nat) (t : Uid) (new : List (Int × Rat)) :
    rows.map encRow ++ new.map (newRow (resRef r) t) = (rows ++ new.map (mkRow r t)).map encRow := by
  rw [List.map_append, List.map_map]
  rfl

/-- A. `_ResourceUsage.reserved(resource, date[, task])` on the model's ledger -/
theorem interpReserved_model (rows : List Row) (r : Option Nat) (d : Time) (t : Option Uid) :
    interpReserved (rows.map encRow) (.atom (.ref (resRef r))) (.atom (.time d)) (optRef t) =
      .ok (.atom (.num (reserved rows r (dayOf d) t))) := by
  rw [interpReserved_eq, ledgerReserved_enc]

/-- A. `_ResourceUsage.reserve(resource, date, task, units)` appends the row of the day and returns `units` -/
theorem interpReserve_model (rows : List Row) (r : Option Nat) (d : Time) (t : Uid) (u : Rat) :
    interpReserve (rows.map encRow) (.atom (.ref (resRef r))) (.atom (.time d)) (.atom (.ref t)) (.atom (.num u)) =
      .ok (.atom (.num u), (rows ++ [({ res := r, day := dayOf d, task := t, units := u } : Row)]).map encRow) := by
  rw [interpReserve_eq]
  simp [encRow, midnight]

/-- B. forward `__get_resource_nearest_available_date` -/
theorem interpNearestFwd_eq (cal : Cal) (b : Bool) (rows : List Row) (r : Option Nat) (t : Uid) (start : Time) :
    interpNearestFwd cal b (resRef r) t (rows.map encRow) start =
      (nearestFwd cal (usedOf rows r t b) start).map (fun e => (e, rows.map encRow)) := by
  rw [interpNearestFwd_eq', usedL_enc]

/-- B. forward `__shift_by_resource_usage_and_calendar` -/
theorem interpShiftFwd_eq (fuel : Nat) (cal : Cal) (b : Bool) (rows : List Row) (r : Option Nat) (t : Uid)
    (start : Time) (left : Rat) (hf : Extracted.fwdShiftMaxSteps < fuel) :
    interpShiftFwd fuel cal b (resRef r) t (rows.map encRow) start left =
      (shiftFwd cal (usedOf rows r t b) start left).map
        (fun p => (p.1, (rows ++ p.2.map (mkRow r t)).map encRow)) := by
  rw [interpShiftFwd_eq' _ _ _ _ _ _ _ _ hf, usedL_enc]
  simp only [enc_append]

/-- C. backward `__get_resource_nearest_available_date` -/
theorem interpNearestBwd_eq (cal : Cal) (b : Bool) (rows : List Row) (r : Option Nat) (t : Uid) (start : Time) :
    interpNearestBwd cal b (resRef r) t (rows.map encRow) start =
      (nearestBwd cal (usedOf rows r t b) start).map (fun e => (e, rows.map encRow)) := by
  rw [interpNearestBwd_eq', usedL_enc]

/-- C. backward `__shift_by_resource_usage_and_calendar` -/
theorem interpShiftBwd_eq (fuel : Nat) (cal : Cal) (b : Bool) (rows : List Row) (r : Option Nat) (t : Uid)
    (end_ : Time) (left : Rat) (hf : Extracted.bwdShiftMaxSteps < fuel) :
    interpShiftBwd fuel cal b (resRef r) t (rows.map encRow) end_ left =
      (shiftBwd cal (usedOf rows r t b) end_ left).map
        (fun p => (p.1, (rows ++ p.2.map (mkRow r t)).map encRow)) := by
  rw [interpShiftBwd_eq' _ _ _ _ _ _ _ _ hf, usedL_enc]
  simp only [enc_append]

/-
  NEGATIVE SANITY CHECK (not compiled; performed 2026-09-27 with a scratch copy of schedule.py under /tmp/mut_sched,
  the translator run on the mutated text, output written to Extracted/ScheduleSrc.lean, then
  `lake build PjVerif.Lemmas.ScheduleSrc`; afterwards the file was regenerated from the real source and the build
  succeeded again).  Every semantic mutation is a Miss of the translator or breaks the lemma of the mutated method:

    fwd nearest  `datetime(start_date.year, …, 0, 0, 0, 0)` -> `start_date.replace(hour=0, minute=0, second=0)`   MISS
                 balance conditional collapsed to `resource_usage.reserved(resource, d)`          fwdNear_body      FAILS
                 `available > 0` -> `>= 0`                                                        fwdNear_body      FAILS
                 `d += timedelta(days=1)` -> `days=2`                                             fwdNear_body      FAILS
                 `percent = 1 - available / cap` -> `available / cap`                             fwdNear_body      FAILS
                 `get_nearest_availability_date(start_date, 1)` -> `-1`                           src_Fwd_nearest_shape FAILS
                 `range(0, max_steps)` -> `range(1, max_steps)`                                   src_Fwd_nearest_shape FAILS
    fwd shift    `days += 1` moved inside `if max_available > 0`                                  fwdShift_body     FAILS
                 `min(left_hours, max_available)` -> `max_available`                              fwdShift_body     FAILS
                 `days > max_steps` -> `>=`                                                       fwdShift_body     FAILS
                 `- timedelta(days=1)` dropped from the initial `date`                            fwdShift_prelude  FAILS
                 `left_hours == 0` -> `<= 0`                                                      fwdShift_prelude  FAILS
                 `while left_hours > 0` -> `>= 0`                                                 fwdShift_cond     FAILS
                 final `timedelta(hours=24 * percent)` -> `hours=percent`                         fwdShift_post     FAILS
                 final `reserved` always the whole-resource total                                 fwdShift_post     FAILS
    ledger       `item.date == self.__get_key(date)` -> `item.date == date`                       interpReserved_eq FAILS
                 `and item.task == task` dropped                                                  interpReserved_eq FAILS
                 `sum(units, 0)` -> `sum(units, 1)`                                               interpReserved_eq FAILS
                 row date `self.__get_key(date)` -> `date`                                        interpReserve_eq  FAILS
                 `return units` -> `return 0`                                                     interpReserve_eq  FAILS
                 `__get_key` returns `date`                          interpGetKey_eq, interpReserve_eq, interpReserved_eq FAIL
    bwd nearest  `- timedelta(days=1)` after the search dropped                                   src_Bwd_nearest_shape FAILS
                 `d += timedelta(days=-1)` -> `days=1`                                            bwdNear_body      FAILS
                 result `- timedelta(hours=…)` -> `+`                                             bwdNear_body      FAILS
    bwd shift    `+ timedelta(days=1)` dropped from the result                                    bwdShift_post     FAILS
                 `max_available > 0` -> `>= 0`                                                    bwdShift_body     FAILS
                 `left_hours -= …reserve(…)` -> `+=`                                              bwdShift_body     FAILS
                 aliasing `ru = resource_usage`                                                   MISS

  Harmless rewrites that still build: renaming the local `percent`; `0 < available`; `d = d + timedelta(days=1)`;
  `range(max_steps)`; another RuntimeError message, docstrings, comments (same term); `else:` instead of falling
  through after the `return`; `… if not self.__balance_resources else …` with swapped branches; `days = days + 1`;
  `max_steps < days`; `timedelta(days=percent)` instead of `timedelta(hours=24 * percent)`; swapped conjuncts, a
  renamed comprehension variable and `not (task is not None)` in `reserved`; `date = date - timedelta(days=1)` in
  the backward loop.  Harmless rewrites that break a proof (the loop invariants fix the exact list of local
  variables, and the proofs do not know that `min` / `==` are symmetric): a further local variable inside the
  `while` loop, `min(max_available, left_hours)`, `0 == left_hours`.
-/

end Pj.SchedSrc
