/-
  Lemmas/FacadeSrc.lean — THE LIST FACADES OF task.py: the hand-written model of the facade methods and operators
  (Model/GraphOps.lean: `chRemove`, `chInsert` / `pyInsert`, `prAppend`, `prRemove`, `suAppend`, `suRemove`, `floordiv`,
  `lshift`, `rshift`, `chMove` / `moveOne`, `chReorder` / `reorderLoop`, `chSort` / `sortBy`, `forEach …`) equals the
  interpretation of the CURRENT SOURCE of

    _ChildrenList.remove / insert / move / reorder / sort      _PredecessorsList.append / remove
    _SuccessorsList.append / remove      _ImmutableTaskList.__add__ / __lshift__ / __rshift__ / __setattr__('parent', …)
    Task.__floordiv__ / __lshift__ / __rshift__      Task.__set_children

  (Extracted/FacadeSrc.lean, regenerated from src/pjplan/task.py by tools/extract_facade.py on every check), run as
  FURTHER FUNCTIONS OF THE PROGRAM task.py: `facadeFuns` = the 17 new functions, and `taskFuns` (Extracted/TaskSrc.lean)
  for the 25 old ones - the relation setters and their helpers, which are the callees.  (`_ChildrenList.append` is
  function 24 of `taskFuns`: `children_append_spec` in Lemmas/TaskSrcB.lean.)

  This file: the entry points.  FacadeSrcMono.lean: extending a program keeps its theorems (`progH_mono`).
  FacadeSrcA.lean: stage 1.  FacadeSrcB.lean: stage 2 (`move`, `reorder`).  FacadeSrcSort.lean, FacadeSrcC.lean: stage 3
  (`sort`).  FacadeSrcD.lean: stage 4 (list-level operators, bulk `parent`), THE SUMMARY AND THE RESULTS (`interp…_eq`),
  the negative check.  FacadeSrcCheck.lean, FacadeSrcCheckI / A / A2 / B / C / D.lean: the kernel-checked concrete runs.

  Setting (in addition to Lemmas/TaskSrc.lean, whose encoding `encHeap s` is used unchanged).
  * A FACADE OBJECT `_ChildrenList(parent, _list, _setter)` / `_PredecessorsList(parent, _list)` / … is only built by the
    getters of `Task` from the raw list of the task itself (checked by the translator), so a facade TAKEN FROM THE
    CURRENT STATE is the pair (owner `ref h`, field): `self._list` is the list object the attribute of the owner holds
    NOW - read, changed in place and written back through the owner (`attr`, `attrRemove`, `setAttr … (listInsert …)`).
    The first parameter of a translated facade method is the owner.  A facade taken earlier and used after the
    `predecessors` / `successors` setter rebound the attribute ("stale") is a different object graph: out of scope.
    `self.__setter(self._list)` is the call of the translated `Task.__set_children` (`self.__children = lst`) with the
    value the attribute already holds.
  * An `_ImmutableTaskList` is its list: the first parameter of `__add__`, `__lshift__`, `__rshift__`, `__setattr__` is a
    list VALUE (for the loops of stage 4: a list that no attribute of a task holds, e.g. a query result).
  * The program runs with `progH (facPrim L) facadeFuns F`: `facPrim L` gives `_root` the meaning it has in
    Lemmas/TaskSrc.lean and every other library primitive (`__getattribute__`, `str`, `join:<sep>`; only used by `sort`)
    the meaning `L` - the theorems hold for EVERY `L`.
-/
import PjVerif.Extracted.FacadeSrc
import PjVerif.Lemmas.TaskSrc
namespace Pj.FacadeSrc
open Pj.PyLite Pj.Extracted Pj.Extracted.Facade Pj.TaskSrc

/-- the meaning of the library primitives: name ↦ arguments ↦ result (`x.__getattribute__(k)` = `L "__getattribute__"
    [x, k]`, `str(v)` = `L "str" [v]`, `'-'.join(l)` = `L "join:-" l`) -/
abbrev Lib := String → List Atom → Res Atom

/-- no library primitive has a meaning (enough for everything but `sort`) -/
def noLib : Lib := fun _ _ => .error stuck

def facPrim (L : Lib) : String → List Atom → PState → Res Val := fun name args st =>
  if name = "_root" then taskPrim name args st else (L name args).map Val.atom

/-- call the k-th function of the extended program with at most `fuel` nested calls -/
def interpF (L : Lib) (fuel : Nat) (k : Nat) (args : List Val) (st : PState) : Res (Val × PState) :=
  runProg (facPrim L) facadeFuns fuel k args st

/-- an `int` -/
def intV (i : Int) : Val := .atom (.num (i : Rat))

/-! ### entry points: `h.children.remove(t)` … ; the facade is the one of the owner `h` in the state the call starts in -/

def interpChRemove (F : Nat) (h t : Uid) (st : PState) : Res (Val × PState) :=
  interpF noLib F fn_ChildrenList_remove [.atom (.ref h), .atom (.ref t)] st
def interpChInsert (F : Nat) (h : Uid) (i : Int) (t : Uid) (st : PState) : Res (Val × PState) :=
  interpF noLib F fn_ChildrenList_insert [.atom (.ref h), intV i, .atom (.ref t)] st
def interpPrAppend (F : Nat) (t x : Uid) (st : PState) : Res (Val × PState) :=
  interpF noLib F fn_PredecessorsList_append [.atom (.ref t), .atom (.ref x)] st
def interpPrRemove (F : Nat) (t x : Uid) (st : PState) : Res (Val × PState) :=
  interpF noLib F fn_PredecessorsList_remove [.atom (.ref t), .atom (.ref x)] st
def interpSuAppend (F : Nat) (t x : Uid) (st : PState) : Res (Val × PState) :=
  interpF noLib F fn_SuccessorsList_append [.atom (.ref t), .atom (.ref x)] st
def interpSuRemove (F : Nat) (t x : Uid) (st : PState) : Res (Val × PState) :=
  interpF noLib F fn_SuccessorsList_remove [.atom (.ref t), .atom (.ref x)] st
/-- `h // v`, `t << v`, `t >> v` for a Python value `v` -/
def interpFloordiv (F : Nat) (h : Uid) (v : Val) (st : PState) : Res (Val × PState) :=
  interpF noLib F fn_Task_floordiv [.atom (.ref h), v] st
def interpLshift (F : Nat) (t : Uid) (v : Val) (st : PState) : Res (Val × PState) :=
  interpF noLib F fn_Task_lshift [.atom (.ref t), v] st
def interpRshift (F : Nat) (t : Uid) (v : Val) (st : PState) : Res (Val × PState) :=
  interpF noLib F fn_Task_rshift [.atom (.ref t), v] st
/-- `h.children.move(v, before=b, after=a)` -/
def interpChMove (F : Nat) (h : Uid) (v : Val) (b a : Option Uid) (st : PState) : Res (Val × PState) :=
  interpF noLib F fn_ChildrenList_move [.atom (.ref h), v, .atom (optRef b), .atom (optRef a)] st
/-- `h.children.reorder(ids)` -/
def interpChReorder (F : Nat) (h : Uid) (ids : List Int) (st : PState) : Res (Val × PState) :=
  interpF noLib F fn_ChildrenList_reorder [.atom (.ref h), .list (ids.map idA)] st
/-- `h.children.sort(key, reverse)` -/
def interpChSort (L : Lib) (F : Nat) (h : Uid) (key : Val) (rev : Bool) (st : PState) : Res (Val × PState) :=
  interpF L F fn_ChildrenList_sort [.atom (.ref h), key, .atom (.bool rev)] st
/-- `ts << v`, `ts >> v`, `ts.parent = p` for a list of tasks `ts` (an `_ImmutableTaskList`) -/
def interpListLshift (F : Nat) (ts : List Uid) (v : Val) (st : PState) : Res (Val × PState) :=
  interpF noLib F fn_ImmutableTaskList_lshift [refs ts, v] st
def interpListRshift (F : Nat) (ts : List Uid) (v : Val) (st : PState) : Res (Val × PState) :=
  interpF noLib F fn_ImmutableTaskList_rshift [refs ts, v] st
def interpListSetParent (F : Nat) (ts : List Uid) (p : Option Uid) (st : PState) : Res (Val × PState) :=
  interpF noLib F fn_ImmutableTaskList_set_parent [refs ts, .atom (optRef p)] st

end Pj.FacadeSrc
