/-
  Lemmas/FacadeSrcD.lean — stage 4 of the translated tie for the list facades of task.py (`_ImmutableTaskList.__lshift__ /
  __rshift__`, the bulk assignment `tasks.parent = p`), THE RESULTS of all stages (`interp…_eq`, section "THE RESULTS"
  below), and the negative check (end of the file).  See Lemmas/FacadeSrc.lean for the setting.

  Summary (all proofs complete; axioms: propext, Classical.choice, Quot.sound).
    Program.   The 17 translated functions extend the program task.py: `facadeFuns k` = the new function for k = 25 … 41,
               `taskFuns k` otherwise.  `progH_mono` (FacadeSrcMono.lean): a call that does not end STUCK in a program
               has the same result in every extension of its table and its primitives; the model never produces `stuck`
               (`setParent_ns`, `setPreds_ns`, `setSuccs_ns`, `setChildren_ns`), so the theorems of Lemmas/TaskSrc*.lean
               about the setters carry over unchanged (`lift`; `children_set_f`, `preds_set_f`, `succs_set_f`,
               `parent_set_f`) and are what the facade methods call.
    Stage 1    (FacadeSrcCheck / CheckI / CheckA / CheckA2.lean: `decide +kernel` on the graphs `g1`, `g2`, `g3` of
               Lemmas/TaskSrcCheck.lean - a WBS with nesting and links, detached trees, shared ids, a second WBS; a
               diamond of links; a parent cycle - every owner and every task / pair of tasks: `remove`, `append`,
               `insert` with indexes inside, at the ends, negative and out of range, `predecessors / successors .append
               / .remove`, the three operators with a task, a list, `None`, a list with `None`s as the right-hand side;
               returned values included.)  General theorems `interpChRemove_eq`, `interpChInsert_eq`, `interpPrAppend_eq`,
               `interpPrRemove_eq`, `interpSuAppend_eq`, `interpSuRemove_eq`, `interpFloordiv_eq`, `interpLshift_eq`,
               `interpRshift_eq`, `interpChAppend_eq`: for every `s`, no well-formedness, F ≥ s.n + 7 (children) / s.n + 5
               (links), proviso: the model does not end in RecursionError; `interpNoneArg_eq`: `None` as the task.
    Stage 2    (FacadeSrcCheckB.lean: `g6` - five children, two with the same id -, `g7` - NOT well formed, a child
               named twice -, `g1`, `g2`: `move` of one / two / a repeated / no task before / after every task, both or
               neither anchor; `reorder` with partial, complete, unknown and repeated ids.)  `interpChMove_eq`,
               `interpChReorder_eq`: for every `s`, NO proviso (no recursion is involved), F ≥ 3 / F ≥ 2; `reorder` ends
               in StopIteration / ValueError exactly when the model does.
    Stage 3    (FacadeSrcCheckC.lean: a concrete library on `g6`: a string attribute, an `int` attribute with ties, both
               directions, two-attribute keys; wrong key type; incomparable keys.)  `interpChSort_str_eq`,
               `interpChSort_list_eq`: for every `s` and EVERY meaning `L` of `__getattribute__` / `str` / `join` under
               which the Python sort keys of the children are ordered as the model's integer keys.  `pySorted_refs`:
               the primitive `sorted` (stable insertion by `keyLe`) is the model's `sortBy` (`List.mergeSort`).
    Stage 4    (FacadeSrcCheckD.lean.)  `interpListLshift_eq`, `interpListRshift_eq`, `interpListSetParent_some_eq`: for
               every `s`, F ≥ s.n + 6 / 7, with the proviso; `interpListSetParent_eq` (also `p = None`) needs `Inv s`
               (every reachable state) because `t.parent = None` on a member of a WBS needs `WF.once` in every
               intermediate state (the disagreement `Check.g4` of Lemmas/TaskSrcCheckB.lean).

  Disagreements.  None: on every state - well formed or not - the translated facade methods and the model agree
    (`listSetParent … None` on a state whose children lists repeat a task inherits the known disagreement of the
    `parent` setter).  What the model does not say and the source does: nothing was found either; the only modelling
    decision the proofs had to confirm is that `self.__setter(self._list)` and the slice assignment `self._list[:] = …`
    together are one update of the owner's list (`so_set` / `so_last`, `set_children_spec`).

  Limitations (in addition to those of Lemmas/TaskSrc.lean: errors carry no state; the fuel counts nested calls of
    translated functions).  (1) The facade is taken from the state the call starts in (stale facades: not modelled).
    (2) An `_ImmutableTaskList` is a list value: stage 4 is about a list that is not changed in place while the loop
    runs.  (3) Default values of parameters are not modelled (`move`, `sort` take all arguments).  (4) `sort`: the
    library is abstract; keys are numbers, datetimes or abstract strings (numbered in lexicographic order), pairwise
    comparable - where Python raises TypeError / AttributeError (a `None` among the keys, a missing attribute) the run
    is stuck or `L` is undefined, and the model (`chSort` never fails) says nothing.  (5) `__setattr__` is translated for
    the key `parent` only; `remove_all`, `__call__`, `order_by`, `__getattr__`, `__getitem__`, printing are not
    translated.  (6) `insert` takes an `int` index.
-/
import PjVerif.Lemmas.FacadeSrcC
import PjVerif.Lemmas.GraphInv
namespace Pj.FacadeSrc
open Pj.PyLite Pj.Extracted Pj.Extracted.Facade Pj.TaskSrc
set_option linter.unusedSimpArgs false
set_option linter.unusedVariables false

/-! ### stage 4: element-by-element application (`forEach`) -/

/-- a `for` loop over a list of tasks whose body is one step `f` of the model: the loop is `forEach f`.  `I` is an
    invariant of the model states the steps need (`fun _ => True` when they need none); the number of objects `n` does
    not change (it bounds the fuel) -/
theorem forEach_loop (st : PState) (f : G → Uid → G × Option Err) (x : String) (body : PyLite.Env → PState → OutcomeP)
    (P : PyLite.Env → Prop) (I : G → Prop) (ts0 : List Uid)
    (hbody : ∀ s' t ρ, t ∈ ts0 → P ρ → I s' → (f s' t).2 ≠ some (.crash .recursion) →
      match f s' t with
      | (s'', none) => I s'' ∧ ∃ ρ', P ρ' ∧ body (ρ.set x (.atom (.ref t))) (withG st s') = .normal ρ' (withG st s'')
      | (_, some e) => body (ρ.set x (.atom (.ref t))) (withG st s') = .raise e) :
    ∀ (ts : List Uid), (∀ t ∈ ts, t ∈ ts0) → ∀ s' ρ, P ρ → I s' → (forEach f s' ts).2 ≠ some (.crash .recursion) →
      match forEach f s' ts with
      | (s'', none) => ∃ ρ', P ρ' ∧ forLoopP x body (ts.map Atom.ref) ρ (withG st s') = .normal ρ' (withG st s'')
      | (_, some e) => forLoopP x body (ts.map Atom.ref) ρ (withG st s') = .raise e := by
  intro ts
  induction ts with
  | nil => intro _ s' ρ hP _ _; exact ⟨ρ, hP, rfl⟩
  | cons t ts ih =>
    intro hsub s' ρ hP hI hrec
    have hb := hbody s' t ρ (hsub t List.mem_cons_self) hP hI
    simp only [forEach] at hrec ⊢
    cases hr : f s' t with
    | mk s'' e =>
      rw [hr] at hb hrec
      cases e with
      | some e =>
        simp only [] at hrec hb ⊢
        have hb := hb hrec
        simp only [List.map_cons, forLoopP, hb]
      | none =>
        simp only [] at hrec hb ⊢
        obtain ⟨hI'', ρ', hP', hb⟩ := hb (by simp)
        have := ih (fun t ht => hsub t (List.mem_cons_of_mem _ ht)) s'' ρ' hP' hI'' hrec
        simp only [List.map_cons, forLoopP, hb]
        exact this

theorem tf_list_lshift : facadeFuns fn_ImmutableTaskList_lshift =
    some (src_ImmutableTaskList_lshift_params, src_ImmutableTaskList_lshift) := rfl
theorem tf_list_rshift : facadeFuns fn_ImmutableTaskList_rshift =
    some (src_ImmutableTaskList_rshift_params, src_ImmutableTaskList_rshift) := rfl
theorem tf_list_set_parent : facadeFuns fn_ImmutableTaskList_set_parent =
    some (src_ImmutableTaskList_set_parent_params, src_ImmutableTaskList_set_parent) := rfl

/-- the local environment of the list-level operators -/
structure LsEnv (ρ : PyLite.Env) (ts : List Uid) (v : Val) : Prop where
  list : ρ.get? "_list" = some (refs ts)
  other : ρ.get? "other" = some v

theorem LsEnv.set {ρ : PyLite.Env} {ts : List Uid} {v : Val} (hρ : LsEnv ρ ts v) (w : Val) : LsEnv (ρ.set "t" w) ts v :=
  ⟨by rw [Env.get?_set, if_neg (by decide)]; exact hρ.list, by rw [Env.get?_set, if_neg (by decide)]; exact hρ.other⟩

def lsBodyL : List Stmt := match src_ImmutableTaskList_lshift with | .forIn _ _ b :: _ => b | _ => []
def lsBodyR : List Stmt := match src_ImmutableTaskList_rshift with | .forIn _ _ b :: _ => b | _ => []
theorem lsL_shape : src_ImmutableTaskList_lshift = [.forIn "t" (.var "_list") lsBodyL, .ret (.var "other")] := rfl
theorem lsR_shape : src_ImmutableTaskList_rshift = [.forIn "t" (.var "_list") lsBodyR, .ret (.var "other")] := rfl

/-- STAGE 4.  `ts << v` = `forEach lshift`: the tasks are linked one after the other, the first rejection stops the
    loop (the earlier tasks stay linked) -/
theorem list_lshift_spec (L : Lib) (s : G) (st : PState) (hh : st.heap = encHeap s) (ts : List Uid) (v : Val) (l : List Uid)
    (hv : ValueOf v l) (F : Nat) (hF : s.fuel + 5 ≤ F)
    (hrec : (forEach (fun s t => lshift s t l) s ts).2 ≠ some (.crash .recursion)) :
    (Hf L F).fnV fn_ImmutableTaskList_lshift [refs ts, v] st = opResult st v (forEach (fun s t => lshift s t l) s ts) := by
  obtain ⟨F, rfl⟩ : ∃ F', F = F' + 4 := ⟨F - 4, by unfold G.fuel at hF; omega⟩
  rw [fnVf_succ _ _ _ _ _ tf_list_lshift, callPV_eq]
  simp only [src_ImmutableTaskList_lshift_params, bindParamsV, pure, Except.pure, bind, Except.bind, lsL_shape]
  have hρ : LsEnv [("_list", refs ts), ("other", v)] ts v := ⟨rfl, rfl⟩
  generalize ([("_list", refs ts), ("other", v)] : PyLite.Env) = ρ at hρ
  rw [execBlockP_cons, execP_forIn (vs := ts.map Atom.ref) (st' := st) (hit := by pyl [hρ.list, refs])]
  have hl := forEach_loop st (fun s t => lshift s t l) "t" (fun ρ st => execBlockP (Hf L (F + 3)) [] noRec lsBodyL ρ st)
    (fun ρ => LsEnv ρ ts v) (fun s' => s'.n = s.n) ts
    (by
      intro s' t ρ _ hP hn hr
      have hP' := hP.set (.atom (.ref t))
      have hcv : (Env.set ρ "t" (.atom (.ref t))).get? "t" = some (.atom (.ref t)) := by rw [Env.get?_set, if_pos rfl]
      have ho := hP'.other
      have h1 := add_spec L (withG st s') (F + 1) (s'.preds t) v l hv
      have h2 := preds_set_f L s' (withG st s') rfl t _ (F + 3) _ (valueOf_refs (s'.preds t ++ l))
        (by unfold G.fuel at hF ⊢; omega) hr
      simp only [lshift] at hr ⊢
      cases hq : setPreds s' t (s'.preds t ++ l) with
      | mk s'' e =>
        rw [hq] at h2
        have hn'' : s''.n = s.n := by
          have := setPreds_n s' t (s'.preds t ++ l)
          rw [hq] at this; exact this.trans hn
        cases e with
        | none =>
          simp only [setterResult, withG_withG] at h2
          refine ⟨hn'', _, hP', ?_⟩
          unfold lsBodyL
          simp only [src_ImmutableTaskList_lshift]
          pyl [hcv, ho, h1, h2]
        | some e =>
          simp only [setterResult] at h2
          unfold lsBodyL
          simp only [src_ImmutableTaskList_lshift]
          pyl [hcv, ho, h1, h2])
    ts (fun _ h => h) s ρ hρ rfl hrec
  rw [withG_self st s hh] at hl
  cases hr : forEach (fun s t => lshift s t l) s ts with
  | mk s'' e =>
    rw [hr] at hl
    cases e with
    | some e => simp only [hl, opResult]
    | none =>
      obtain ⟨ρ', hρ', hl⟩ := hl
      simp only [hl, opResult]
      rw [execBlockP_cons, execP_ret (he := evalP_var _ _ _ _ _ _ hρ'.other)]

theorem list_rshift_spec (L : Lib) (s : G) (st : PState) (hh : st.heap = encHeap s) (ts : List Uid) (v : Val) (l : List Uid)
    (hv : ValueOf v l) (F : Nat) (hF : s.fuel + 5 ≤ F)
    (hrec : (forEach (fun s t => rshift s t l) s ts).2 ≠ some (.crash .recursion)) :
    (Hf L F).fnV fn_ImmutableTaskList_rshift [refs ts, v] st = opResult st v (forEach (fun s t => rshift s t l) s ts) := by
  obtain ⟨F, rfl⟩ : ∃ F', F = F' + 4 := ⟨F - 4, by unfold G.fuel at hF; omega⟩
  rw [fnVf_succ _ _ _ _ _ tf_list_rshift, callPV_eq]
  simp only [src_ImmutableTaskList_rshift_params, bindParamsV, pure, Except.pure, bind, Except.bind, lsR_shape]
  have hρ : LsEnv [("_list", refs ts), ("other", v)] ts v := ⟨rfl, rfl⟩
  generalize ([("_list", refs ts), ("other", v)] : PyLite.Env) = ρ at hρ
  rw [execBlockP_cons, execP_forIn (vs := ts.map Atom.ref) (st' := st) (hit := by pyl [hρ.list, refs])]
  have hl := forEach_loop st (fun s t => rshift s t l) "t" (fun ρ st => execBlockP (Hf L (F + 3)) [] noRec lsBodyR ρ st)
    (fun ρ => LsEnv ρ ts v) (fun s' => s'.n = s.n) ts
    (by
      intro s' t ρ _ hP hn hr
      have hP' := hP.set (.atom (.ref t))
      have hcv : (Env.set ρ "t" (.atom (.ref t))).get? "t" = some (.atom (.ref t)) := by rw [Env.get?_set, if_pos rfl]
      have ho := hP'.other
      have h1 := add_spec L (withG st s') (F + 1) (s'.succs t) v l hv
      have h2 := succs_set_f L s' (withG st s') rfl t _ (F + 3) _ (valueOf_refs (s'.succs t ++ l))
        (by unfold G.fuel at hF ⊢; omega) hr
      simp only [rshift] at hr ⊢
      cases hq : setSuccs s' t (s'.succs t ++ l) with
      | mk s'' e =>
        rw [hq] at h2
        have hn'' : s''.n = s.n := by
          have := setSuccs_n s' t (s'.succs t ++ l)
          rw [hq] at this; exact this.trans hn
        cases e with
        | none =>
          simp only [setterResult, withG_withG] at h2
          refine ⟨hn'', _, hP', ?_⟩
          unfold lsBodyR
          simp only [src_ImmutableTaskList_rshift]
          pyl [hcv, ho, h1, h2]
        | some e =>
          simp only [setterResult] at h2
          unfold lsBodyR
          simp only [src_ImmutableTaskList_rshift]
          pyl [hcv, ho, h1, h2])
    ts (fun _ h => h) s ρ hρ rfl hrec
  rw [withG_self st s hh] at hl
  cases hr : forEach (fun s t => rshift s t l) s ts with
  | mk s'' e =>
    rw [hr] at hl
    cases e with
    | some e => simp only [hl, opResult]
    | none =>
      obtain ⟨ρ', hρ', hl⟩ := hl
      simp only [hl, opResult]
      rw [execBlockP_cons, execP_ret (he := evalP_var _ _ _ _ _ _ hρ'.other)]

def spBody : List Stmt := match src_ImmutableTaskList_set_parent with | [_, .forIn _ _ b] => b | _ => []
theorem sp_shape : src_ImmutableTaskList_set_parent =
    [.assign "tasks" (.listComp (.var "t") "t" (.var "_list") (.bool true)), .forIn "t" (.var "tasks") spBody] := rfl

/-- STAGE 4.  `ts.parent = p` (`_ImmutableTaskList.__setattr__('parent', p)`) = `forEach setParent`.  `I` is any
    invariant of the intermediate model states that gives what `t.parent = None` needs for a member of a WBS (`honce`:
    the children list of the old parent names the task at most once); for `p ≠ None` take `I := fun _ => True` -/
theorem list_set_parent_spec (L : Lib) (s : G) (st : PState) (hh : st.heap = encHeap s) (ts : List Uid) (p : Option Uid)
    (F : Nat) (hF : s.fuel + 6 ≤ F) (I : G → Prop) (hI : I s)
    (hstep : ∀ s' t, t ∈ ts → I s' → s'.n = s.n → (setParent s' t p).2 = none → I (setParent s' t p).1)
    (honce : p = none → ∀ s' t, t ∈ ts → I s' → s'.n = s.n →
      ∀ w q, s'.owner t = some w → s'.parent t = some q → (s'.children q).count t ≤ 1)
    (hrec : (forEach (fun s t => setParent s t p) s ts).2 ≠ some (.crash .recursion)) :
    (Hf L F).fnV fn_ImmutableTaskList_set_parent [refs ts, .atom (optRef p)] st =
      opResult st (.atom .none) (forEach (fun s t => setParent s t p) s ts) := by
  obtain ⟨F, rfl⟩ : ∃ F', F = F' + 1 := ⟨F - 1, by unfold G.fuel at hF; omega⟩
  rw [fnVf_succ _ _ _ _ _ tf_list_set_parent, callPV_eq]
  simp only [src_ImmutableTaskList_set_parent_params, bindParamsV, pure, Except.pure, bind, Except.bind, sp_shape]
  rw [execBlockP_cons, execP_assign (he := evalP_listComp_id _ _ _ _ _ _ _ _ (evalP_var _ _ _ _ _ _ rfl))]
  simp only []
  have hval : (Env.set [("_list", refs ts), ("value", Val.atom (optRef p))] "tasks" (Val.list (ts.map Atom.ref))).get? "value" =
      some (.atom (optRef p)) := by simp [Env.get?_set, Env.get?_cons]
  have htasks : (Env.set [("_list", refs ts), ("value", Val.atom (optRef p))] "tasks" (Val.list (ts.map Atom.ref))).get? "tasks" =
      some (.list (ts.map Atom.ref)) := by simp [Env.get?_set, Env.get?_cons]
  generalize Env.set [("_list", refs ts), ("value", Val.atom (optRef p))] "tasks" (Val.list (ts.map Atom.ref)) = ρ at hval htasks
  rw [execBlockP_cons, execP_forIn (vs := ts.map Atom.ref) (st' := st) (hit := evalP_var _ _ _ _ _ _ htasks)]
  have hl := forEach_loop st (fun s t => setParent s t p) "t" (fun ρ st => execBlockP (Hf L F) [] noRec spBody ρ st)
    (fun ρ => ρ.get? "value" = some (.atom (optRef p))) (fun s' => I s' ∧ s'.n = s.n) ts
    (by
      intro s' t ρ ht hP hIn hr
      obtain ⟨hI', hn⟩ := hIn
      have hP' : (Env.set ρ "t" (.atom (.ref t))).get? "value" = some (.atom (optRef p)) := by
        rw [Env.get?_set, if_neg (by decide)]; exact hP
      have hcv : (Env.set ρ "t" (.atom (.ref t))).get? "t" = some (.atom (.ref t)) := by rw [Env.get?_set, if_pos rfl]
      have h2 := parent_set_f L s' (withG st s') rfl t p F (by unfold G.fuel at hF ⊢; omega)
        (fun hp => honce hp s' t ht hI' hn) hr
      have hst := hstep s' t ht hI' hn
      have hn2 := setParent_n s' t p
      cases hq : setParent s' t p with
      | mk s'' e =>
        rw [hq] at h2 hst hn2
        cases e with
        | none =>
          simp only [setterResult, withG_withG] at h2
          refine ⟨⟨hst rfl, hn2.trans hn⟩, _, hP', ?_⟩
          unfold spBody
          simp only [src_ImmutableTaskList_set_parent]
          pyl [hcv, hP', h2]
        | some e =>
          simp only [setterResult] at h2
          unfold spBody
          simp only [src_ImmutableTaskList_set_parent]
          pyl [hcv, hP', h2])
    ts (fun _ h => h) s ρ hval ⟨hI, rfl⟩ hrec
  rw [withG_self st s hh] at hl
  cases hr : forEach (fun s t => setParent s t p) s ts with
  | mk s'' e =>
    rw [hr] at hl
    cases e with
    | some e => simp only [hl, opResult]
    | none =>
      obtain ⟨ρ', hρ', hl⟩ := hl
      simp only [hl, opResult, execBlockP_nil]

/-! ## THE RESULTS

  In all statements: `s` any graph state (no well-formedness unless stated), `st` any Python state whose store is the
  encoding of `s` (`hh`), `F` the recursion limit, and - where the model can end in RecursionError at all - the proviso
  that it does not (`hrec`); `opResult st v r` = `ok (v, withG st s')` when the model accepts with the new state `s'`,
  `error e` when it rejects with `e`.  The facade is the one of the owner in the state `s` (Lemmas/FacadeSrc.lean). -/

/-- `h.children.append(t)` in the extended program (function 24 of `taskFuns`: `children_append_spec`, carried over by
    `lift`) -/
def interpChAppend (F : Nat) (h t : Uid) (st : PState) : Res (Val × PState) :=
  interpF noLib F fn_ChildrenList_append [.atom (.ref h), .atom (.ref t)] st

theorem interpChAppend_eq (s : G) (st : PState) (hh : st.heap = encHeap s) (h t : Uid) (F : Nat) (hF : s.n + 5 ≤ F)
    (hrec : (chAppend s h t).2 ≠ some (.crash .recursion)) :
    interpChAppend F h t st = opResult st (.atom .none) (chAppend s h t) :=
  lift noLib (children_append_spec s st hh h t F (by unfold G.fuel; omega) hrec)
    (setterResult_ns _ _ (setParentSome_ns s t h))

/-- STAGE 1.  `h.children.remove(t)`: returns whether `t` was a child -/
theorem interpChRemove_eq (s : G) (st : PState) (hh : st.heap = encHeap s) (h t : Uid) (F : Nat) (hF : s.n + 7 ≤ F)
    (hrec : (chRemove s h t).2 ≠ some (.crash .recursion)) :
    interpChRemove F h t st = opResult st (.atom (.bool ((s.children h).contains t))) (chRemove s h t) :=
  ch_remove_spec noLib s st hh h t F (by unfold G.fuel; omega) hrec

/-- STAGE 1.  `h.children.insert(i, t)` for an `int` index `i` (`pyInsert`: Python's negative / out-of-range indexes) -/
theorem interpChInsert_eq (s : G) (st : PState) (hh : st.heap = encHeap s) (h : Uid) (i : Int) (t : Uid) (F : Nat)
    (hF : s.n + 7 ≤ F) (hrec : (chInsert s h i t).2 ≠ some (.crash .recursion)) :
    interpChInsert F h i t st = opResult st (.atom .none) (chInsert s h i t) :=
  ch_insert_spec noLib s st hh h i t F (by unfold G.fuel; omega) hrec

/-- STAGE 1.  `t.predecessors.append(x)` / `.remove(x)`, `t.successors.append(x)` / `.remove(x)` -/
theorem interpPrAppend_eq (s : G) (st : PState) (hh : st.heap = encHeap s) (t x : Uid) (F : Nat) (hF : s.n + 5 ≤ F)
    (hrec : (prAppend s t x).2 ≠ some (.crash .recursion)) :
    interpPrAppend F t x st = opResult st (.atom .none) (prAppend s t x) :=
  pr_append_spec noLib s st hh t x F (by unfold G.fuel; omega) hrec

theorem interpPrRemove_eq (s : G) (st : PState) (hh : st.heap = encHeap s) (t x : Uid) (F : Nat) (hF : s.n + 5 ≤ F)
    (hrec : (prRemove s t x).2 ≠ some (.crash .recursion)) :
    interpPrRemove F t x st = opResult st (.atom (.bool ((s.preds t).contains x))) (prRemove s t x) :=
  pr_remove_spec noLib s st hh t x F (by unfold G.fuel; omega) hrec

theorem interpSuAppend_eq (s : G) (st : PState) (hh : st.heap = encHeap s) (t x : Uid) (F : Nat) (hF : s.n + 5 ≤ F)
    (hrec : (suAppend s t x).2 ≠ some (.crash .recursion)) :
    interpSuAppend F t x st = opResult st (.atom .none) (suAppend s t x) :=
  su_append_spec noLib s st hh t x F (by unfold G.fuel; omega) hrec

theorem interpSuRemove_eq (s : G) (st : PState) (hh : st.heap = encHeap s) (t x : Uid) (F : Nat) (hF : s.n + 5 ≤ F)
    (hrec : (suRemove s t x).2 ≠ some (.crash .recursion)) :
    interpSuRemove F t x st = opResult st (.atom (.bool ((s.succs t).contains x))) (suRemove s t x) :=
  su_remove_spec noLib s st hh t x F (by unfold G.fuel; omega) hrec

/-- STAGE 1.  `None` as the task argument of `remove` / `insert` / `append` of the three facades: RuntimeError
    (`_check_not_none`), in every state, for every owner `o`, index `i` and limit `F ≥ 2` -/
theorem interpNoneArg_eq (st : PState) (F : Nat) (hF : 2 ≤ F) (o i : Val) :
    interpF noLib F fn_ChildrenList_remove [o, .atom .none] st = .error .runtime ∧
    interpF noLib F fn_ChildrenList_insert [o, i, .atom .none] st = .error .runtime ∧
    interpF noLib F fn_ChildrenList_append [o, .atom .none] st = .error .runtime ∧
    interpF noLib F fn_PredecessorsList_append [o, .atom .none] st = .error .runtime ∧
    interpF noLib F fn_PredecessorsList_remove [o, .atom .none] st = .error .runtime ∧
    interpF noLib F fn_SuccessorsList_append [o, .atom .none] st = .error .runtime ∧
    interpF noLib F fn_SuccessorsList_remove [o, .atom .none] st = .error .runtime := by
  obtain ⟨F, rfl⟩ : ∃ F', F = F' + 2 := ⟨F - 2, by omega⟩
  exact none_arg_spec noLib st F o i

/-- STAGE 1.  `h // v`, `t << v`, `t >> v` for every admissible value `v` standing for the list of tasks `l` (`ValueOf`:
    a list of tasks and `None`s, a task, `None`): the children / links are APPENDED; the operator returns `v` -/
theorem interpFloordiv_eq (s : G) (st : PState) (hh : st.heap = encHeap s) (h : Uid) (v : Val) (l : List Uid)
    (hv : ValueOf v l) (F : Nat) (hF : s.n + 7 ≤ F) (hrec : (floordiv s h l).2 ≠ some (.crash .recursion)) :
    interpFloordiv F h v st = opResult st v (floordiv s h l) :=
  floordiv_spec noLib s st hh h v l hv F (by unfold G.fuel; omega) hrec

theorem interpLshift_eq (s : G) (st : PState) (hh : st.heap = encHeap s) (t : Uid) (v : Val) (l : List Uid)
    (hv : ValueOf v l) (F : Nat) (hF : s.n + 5 ≤ F) (hrec : (lshift s t l).2 ≠ some (.crash .recursion)) :
    interpLshift F t v st = opResult st v (lshift s t l) :=
  lshift_spec noLib s st hh t v l hv F (by unfold G.fuel; omega) hrec

theorem interpRshift_eq (s : G) (st : PState) (hh : st.heap = encHeap s) (t : Uid) (v : Val) (l : List Uid)
    (hv : ValueOf v l) (F : Nat) (hF : s.n + 5 ≤ F) (hrec : (rshift s t l).2 ≠ some (.crash .recursion)) :
    interpRshift F t v st = opResult st v (rshift s t l) :=
  rshift_spec noLib s st hh t v l hv F (by unfold G.fuel; omega) hrec

/-- STAGE 2.  `h.children.move(v, before=b, after=a)` = `chMove` (`moveOne`): no proviso, any limit `F ≥ 3` -/
theorem interpChMove_eq (s : G) (st : PState) (hh : st.heap = encHeap s) (h : Uid) (v : Val) (ts : List Uid)
    (hv : ValueOf v ts) (b a : Option Uid) (F : Nat) (hF : 3 ≤ F) :
    interpChMove F h v b a st = opResult st (.atom .none) (chMove s h ts b a) :=
  ch_move_spec noLib s st hh h v ts hv b a F hF

/-- STAGE 2.  `h.children.reorder(ids)` = `chReorder` (`reorderLoop`): StopIteration for an unknown id, ValueError for a
    repeated one; no proviso, any limit `F ≥ 2` -/
theorem interpChReorder_eq (s : G) (st : PState) (hh : st.heap = encHeap s) (h : Uid) (ids : List Int) (F : Nat)
    (hF : 2 ≤ F) :
    interpChReorder F h ids st = opResult st (.atom .none) (chReorder s h ids) :=
  ch_reorder_spec noLib s st hh h ids F hF

/-- STAGE 3.  `h.children.sort(key, reverse)`, `key` a `str`: for EVERY meaning `L` of `__getattribute__` under which
    the attribute values `val u` of the children are ordered (`keyLe`) as the model's integer keys `key u` -/
theorem interpChSort_str_eq (L : Lib) (s : G) (st : PState) (hh : st.heap = encHeap s) (h : Uid) (k : Nat) (rev : Bool)
    (key : Uid → Int) (val : Uid → Atom) (F : Nat) (hF : 2 ≤ F)
    (hval : ∀ u ∈ s.children h, L "__getattribute__" [.ref u, .str k] = .ok (val u))
    (hord : ∀ u ∈ s.children h, ∀ v ∈ s.children h, keyLe (val u) (val v) = some (decide (key u ≤ key v))) :
    interpChSort L F h (.atom (.str k)) rev st = opResult st (.atom .none) (chSort s h key rev) :=
  ch_sort_str_spec L s st hh h k rev key val F hF hval hord

/-- STAGE 3.  `h.children.sort(key, reverse)`, `key` a list of `str`s: the sort key of the child `u` is
    `'-'.join([str(u.__getattribute__(k)) for k in key])` -/
theorem interpChSort_list_eq (L : Lib) (s : G) (st : PState) (hh : st.heap = encHeap s) (h : Uid) (ks : List Nat)
    (rev : Bool) (key : Uid → Int) (attr strv : Uid → Nat → Atom) (val : Uid → Atom) (F : Nat) (hF : 2 ≤ F)
    (hattr : ∀ u ∈ s.children h, ∀ k ∈ ks, L "__getattribute__" [.ref u, .str k] = .ok (attr u k))
    (hstr : ∀ u ∈ s.children h, ∀ k ∈ ks, L "str" [attr u k] = .ok (strv u k))
    (hjoin : ∀ u ∈ s.children h, L "join:-" (ks.map (strv u)) = .ok (val u))
    (hord : ∀ u ∈ s.children h, ∀ v ∈ s.children h, keyLe (val u) (val v) = some (decide (key u ≤ key v))) :
    interpChSort L F h (.list (ks.map Atom.str)) rev st = opResult st (.atom .none) (chSort s h key rev) :=
  ch_sort_list_spec L s st hh h ks rev key attr strv val F hF hattr hstr hjoin hord

/-- STAGE 4.  `ts << v`, `ts >> v` for a list of tasks `ts` = `step s (.listLshift ts l)` / `(.listRshift ts l)` -/
theorem interpListLshift_eq (s : G) (st : PState) (hh : st.heap = encHeap s) (ts : List Uid) (v : Val) (l : List Uid)
    (hv : ValueOf v l) (F : Nat) (hF : s.n + 6 ≤ F) (hrec : (step s (.listLshift ts l)).2 ≠ some (.crash .recursion)) :
    interpListLshift F ts v st = opResult st v (step s (.listLshift ts l)) :=
  list_lshift_spec noLib s st hh ts v l hv F (by unfold G.fuel; omega) hrec

theorem interpListRshift_eq (s : G) (st : PState) (hh : st.heap = encHeap s) (ts : List Uid) (v : Val) (l : List Uid)
    (hv : ValueOf v l) (F : Nat) (hF : s.n + 6 ≤ F) (hrec : (step s (.listRshift ts l)).2 ≠ some (.crash .recursion)) :
    interpListRshift F ts v st = opResult st v (step s (.listRshift ts l)) :=
  list_rshift_spec noLib s st hh ts v l hv F (by unfold G.fuel; omega) hrec

/-- STAGE 4.  `ts.parent = q` for a task `q` = `step s (.listSetParent ts (some q))`: no well-formedness -/
theorem interpListSetParent_some_eq (s : G) (st : PState) (hh : st.heap = encHeap s) (ts : List Uid) (q : Uid) (F : Nat)
    (hF : s.n + 7 ≤ F) (hrec : (step s (.listSetParent ts (some q))).2 ≠ some (.crash .recursion)) :
    interpListSetParent F ts (some q) st = opResult st (.atom .none) (step s (.listSetParent ts (some q))) :=
  list_set_parent_spec noLib s st hh ts (some q) F (by unfold G.fuel; omega) (fun _ => True) trivial
    (fun _ _ _ _ _ _ => trivial) (fun hp => by cases hp) hrec

/-- STAGE 4.  `ts.parent = p` (also `None`) on a state with the invariant `Inv` (C01 / C05: every reachable state), for
    visible tasks in range: `t.parent = None` needs `WF.once` in every intermediate state, which `Inv` provides -/
theorem interpListSetParent_eq (s : G) (st : PState) (hh : st.heap = encHeap s) (hi : Inv s) (ts : List Uid) (p : Option Uid)
    (hvis : ∀ t ∈ ts, s.hidden t = false) (hts : ∀ t ∈ ts, t < s.n) (hp : ∀ q, p = some q → q < s.n) (F : Nat)
    (hF : s.n + 7 ≤ F) (hrec : (step s (.listSetParent ts p)).2 ≠ some (.crash .recursion)) :
    interpListSetParent F ts p st = opResult st (.atom .none) (step s (.listSetParent ts p)) :=
  list_set_parent_spec noLib s st hh ts p F (by unfold G.fuel; omega) (fun s' => Inv s' ∧ s'.tid = s.tid) ⟨hi, rfl⟩
    (fun s' t ht hI hn _ =>
      ⟨setParent_Inv s' t p hI.1 (by unfold G.hidden; rw [hI.2]; exact hvis t ht) (by rw [hn]; exact hts t ht)
        (fun q hq => by rw [hn]; exact hp q hq), (setParent_tid s' t p).trans hI.2⟩)
    (fun _ s' t _ hI _ _ q _ _ => List.nodup_iff_count.1 (hI.1.wf.once q) t) hrec

section axioms
#print axioms progH_mono
#print axioms interpChAppend_eq
#print axioms interpChRemove_eq
#print axioms interpChInsert_eq
#print axioms interpPrAppend_eq
#print axioms interpPrRemove_eq
#print axioms interpSuAppend_eq
#print axioms interpSuRemove_eq
#print axioms interpNoneArg_eq
#print axioms interpFloordiv_eq
#print axioms interpLshift_eq
#print axioms interpRshift_eq
#print axioms interpChMove_eq
#print axioms interpChReorder_eq
#print axioms interpChSort_str_eq
#print axioms interpChSort_list_eq
#print axioms interpListLshift_eq
#print axioms interpListRshift_eq
#print axioms interpListSetParent_some_eq
#print axioms interpListSetParent_eq
end axioms

/-
  NEGATIVE SANITY CHECK (not compiled; performed 2026-09-27 with /tmp/leanwork2/mut/facade_mut.py: one textual edit of a
  scratch copy of the snapshot task.py, tools/extract_facade.py run on the mutated text; unless it answers Miss its output
  is written to Extracted/FacadeSrc.lean of a scratch copy of the Lean project and Lemmas/FacadeSrcA … FacadeSrcD plus the
  check file(s) of the mutated method are built; afterwards the generated file was restored and everything built again).
  Lemma files are built in the order A, B, C, D and a failing file stops the later ones: the FIRST failing lemma(s) are
  listed; `Check…:` = the file with failing kernel-checked examples.
  Every semantic mutation is a Miss of the translator or breaks a lemma AND an example:

    `remove` (children): the early `return False` for a task that is not a child dropped   ch_remove_spec FAILS; Check
    `remove` (children): `return True` dropped (returns None)             ch_remove_spec FAILS; Check
    `insert`: `siblings.insert(index + 1, task)`                          ch_insert_spec FAILS; CheckI
    `insert`: `siblings.append(task)` (the index ignored)                 ch_insert_spec FAILS; CheckI
    `insert`: the task is not removed from the siblings first             ch_insert_spec FAILS; CheckI
    `insert`: `siblings.insert(max(index, 0), task)` (another clamping)   MISS (call of max)
    `insert`: in place, `self._list.insert(…); self.__parent.children = self._list`   MISS (the live list as a value)
    (PyLite itself: `pyInsertA` clamping a too negative index to the END)  pyInsertA_refs FAILS; CheckI (index -7)
    `predecessors.append`: `[task] + […]` (prepends)                      pr_append_spec FAILS; CheckA
    `predecessors.remove`: `v == task` for `v != task`                    pr_remove_spec FAILS; CheckA
    `successors.remove` assigns `self.__parent.predecessors`              su_remove_spec FAILS; CheckA
    `successors.append` without `_check_not_none(task, 'Task')`           none_arg_spec FAILS; CheckA (`append(None)`)
    `__floordiv__`: `self.children = other` (replaces instead of appending)   floordiv_spec FAILS; CheckA2
    `Task.__lshift__`: `self.successors += other`                         lshift_spec FAILS; CheckA2
    `Task.__rshift__`: `return self`                                      MISS (a parameter that is not a value is returned)
    `__add__`: `_to_list(other) + self._list` (the new tasks first)       add_spec FAILS; CheckA2
    `__iadd__` defined on `_TaskList`                                     MISS
    `move`: `insert(self._list.index(before) + 1, …)` (after, not before) mv_body FAILS; CheckB
    `move`: `insert(self._list.index(after), …)` (before, not after)      mv_body FAILS; CheckB
    `move`: `self._list = [t for t in self._list if t is not task]` (rebinds the list)   MISS (_list is reassigned)
    `move`: the check `before in tasks or after in tasks` dropped         mv_shape, mv_checks, … FAIL; CheckB
    `move`: the check `before not in self._list` dropped                  mv_shape, mv_checks, … FAIL; CheckB
    `move`: without `tasks = _to_list(tasks)`                             mv_shape, mv_l1, … FAIL; CheckB (a single task, `None`)
    `reorder`: `if ch in _all: _all.remove(ch)` (tolerates a repeated id) ro_body FAILS; CheckB
    `reorder`: `_all = self._list` (removes from the live list)           MISS (a list attribute in a local variable)
    `reorder`: `self._list[:] = _all + new_list`                          ch_reorder_spec FAILS; CheckB
    `reorder`: `next((…), None)`                                          MISS
    `reorder`: `id(t) == _id`                                             ro_body FAILS; CheckB
    `reorder`: `self._list = new_list + _all` (rebinds instead of the slice assignment)   MISS (_list is reassigned)
    `sort`: `reverse=False` and then `if reverse: self._list.reverse()` (ties end up reversed)   MISS (method of the raw list)
    `sort`: `reverse=not reverse`                                         ch_sort_str_spec FAILS; CheckC
    `sort`: the multi-key string without `str()`                          ch_sort_list_spec FAILS; CheckC
    `sort`: `'+'.join`                                                    ch_sort_list_spec FAILS; CheckC
    `sort`: `for k in reversed(key)`                                      MISS
    `sort`: `lst = sorted(…)` (a copy is sorted, the list is not updated) ch_sort_str_spec FAILS; CheckC
    `sort`: `type(key) is list` in the first test                         ch_sort_str_spec, ch_sort_list_spec FAIL; CheckC
    list `<<`: `t.successors += other`                                    list_lshift_spec FAILS; CheckD
    list `>>`: `return other` inside the loop (only the first task)       list_rshift_spec FAILS; CheckD
    `__setattr__`: `key.startswith('p')` (the key `parent` takes the `super()` branch)   MISS

  Harmless rewrites that give the same term (everything still builds): comments, docstrings, the text of the error
  messages, `not task in l` for `task not in l`.  Harmless rewrites that give another term and still check (lemmas and
  examples): the local `siblings` of `insert` renamed; the two tests `before is not None and after is not None` /
  `before is None and after is None` of `move` swapped.  Harmless rewrites that break a proof but no example (the
  proofs fix the shape of the term): `t is not task` for `t != task` in `remove` (ch_remove_spec); the final
  `self.__setter(self._list)` of `move` dropped - the list was changed in place (mv_shape); the test
  `self.__setter is None` of `reorder` dropped (ro_shape); `__setattr__` iterating `self._list` directly instead of the
  copy `tasks` - for a list VALUE the same (sp_shape).  Harmless rewrite the translator refuses:
  `list(self._list)` for `self._list.copy()` (Miss: only `.copy()`, a display or a comprehension makes a local fresh).
-/

end Pj.FacadeSrc
