/-
  Lemmas/CsvSrcR.lean — CSV I/O, towards the READ side: the cell parsers on ANY store (they do not touch it), the key
  order of the header dict.
-/
import PjVerif.Lemmas.CsvSrcW9
namespace Pj.CsvSrc
open Pj.PyLite Pj.Extracted.Csv Pj.Csv

/-- the common shape `if len(x) == 0: return d` / `return e`, on any store -/
theorem cell_shape_st (L : IOLib) (F k : Nat) (x : String) (d e : Expr) (s : List Char) (st : PState)
    (h : csvFuns k = some ([x], [.ifElse (.cmp .eq (.prim "strlen" (.listCons (.var x) .listNil)) (.num 0)) [.ret d] [],
      .ret e])) :
    runIO L csvFuns (F + 1) k [.atom (strA s)] st =
      (if s = [] then d else e).evalP (HH L F) [] [(x, .atom (strA s))] st := by
  have hx := env1_get x (.atom (strA s))
  simp only [runIO_fn L F k _ _ _ _ h, callPV, bindParamsV, pure, Except.pure, bind, Except.bind,
    execBlockP, Stmt.execP, eval_strlen_zero L F _ x s _ hx, truthP]
  by_cases hs : s = []
  · simp only [hs, decide_true, if_true, execBlockP, Stmt.execP]
    cases (d.evalP (HH L F) [] [(x, .atom (strA []))] st) with
    | error e => rfl
    | ok r => rfl
  · simp only [hs, decide_false, if_false, execBlockP, Stmt.execP, Bool.false_eq_true]
    cases (e.evalP (HH L F) [] [(x, .atom (strA s))] st) with
    | error e => rfl
    | ok r => rfl

/-- a cell result paired with the unchanged store -/
def withSt (st : PState) (r : Res Val) : Res (Val × PState) := r.map (fun v => (v, st))

theorem parse_bool_run (L : IOLib) (F : Nat) (s : List Char) (st : PState) :
    runIO L csvFuns (F + 1) fn_parse_bool [.atom (strA s)] st = .ok (.atom (.bool (s == "True".toList)), st) := by
  rw [cell_shape_st L F fn_parse_bool "_val" _ _ s st rfl]
  by_cases hs : s = []
  · subst hs; rfl
  · simp only [hs, if_false, Expr.evalP, env1_get, HH_prim, prim_lit_True, pure, Except.pure, bind, Except.bind,
      PyLite.compare, litA, pyEq_strA]
    congr 4
    by_cases h : s = "True".toList
    · subst h; rfl
    · have : (s == "True".toList) = false := by simpa using h
      rw [this]; exact decide_eq_false h

theorem parse_int_run (L : IOLib) (F : Nat) (s : List Char) (st : PState) :
    runIO L csvFuns (F + 1) fn_parse_int [.atom (strA s)] st = withSt st (cellParse L.toInt Atom.num s) := by
  rw [cell_shape_st L F fn_parse_int "_val" _ _ s st rfl]
  by_cases hs : s = []
  · subst hs; rfl
  · simp only [hs, if_false, Expr.evalP, env1_get, HH_prim, prim_int, pure, Except.pure, bind, Except.bind, cellParse,
      nonEmpty_ne hs, withSt]
    cases L.toInt s <;> rfl

theorem parse_float_run (L : IOLib) (F : Nat) (s : List Char) (st : PState) :
    runIO L csvFuns (F + 1) fn_parse_float [.atom (strA s)] st = withSt st (cellParse L.toFloat Atom.num s) := by
  rw [cell_shape_st L F fn_parse_float "_val" _ _ s st rfl]
  by_cases hs : s = []
  · subst hs; rfl
  · simp only [hs, if_false, Expr.evalP, env1_get, HH_prim, prim_float, pure, Except.pure, bind, Except.bind, cellParse,
      nonEmpty_ne hs, withSt]
    cases L.toFloat s <;> rfl

theorem parse_date_run (L : IOLib) (F : Nat) (s : List Char) (st : PState) :
    runIO L csvFuns (F + 1) fn_parse_date [.atom (strA s)] st = withSt st (cellParse L.strptime Atom.time s) := by
  rw [cell_shape_st L F fn_parse_date "_date" _ _ s st rfl]
  by_cases hs : s = []
  · subst hs; rfl
  · simp only [hs, if_false, Expr.evalP, env1_get, HH_prim, prim_lit_date, prim_strptime, pure, Except.pure, bind,
      Except.bind, cellParse, nonEmpty_ne hs, withSt]
    cases L.strptime s <;> rfl

theorem parse_str_run (L : IOLib) (F : Nat) (s : List Char) (st : PState) :
    runIO L csvFuns (F + 1) fn_parse_str [.atom (strA s)] st = .ok (.atom (optStr (nonEmpty s)), st) := by
  simp [runIO, progIO, csvFuns, fn_parse_str, fn_parse_header, src_parse_str, src_parse_str_params, callPV,
    bindParamsV, execBlockP, Stmt.execP, Expr.evalP, PyLite.Env.get?, prim_lit_empty, progIO_prim, pure,
    Except.pure, bind, Except.bind, PyLite.compare, pyEq_strA, truthP]
  by_cases h : s = [] <;> simp [h, nonEmpty, optStr]

theorem mapM_atomsOf' {β} (g' : Atom → Res Atom) (g : Str → Res β) (h : β → Atom)
    (hg : ∀ s, g' (strA s) = (g s).map h) (ps : List Str) :
    (atomsOf ps).mapM g' = (ps.mapM g).map (fun qs => qs.map h) := by
  induction ps with
  | nil => rfl
  | cons p ps ih =>
    rw [atomsOf, List.map_cons, mapM_cons_res, mapM_cons_res, hg]
    rw [atomsOf] at ih
    rw [ih]
    cases g p with
    | error e => rfl
    | ok b => cases ps.mapM g <;> rfl

theorem parse_predecessors_run (L : IOLib) (F : Nat) (s : List Char) (st : PState) :
    runIO L csvFuns (F + 1) fn_parse_predecessors [.atom (strA s)] st =
      withSt st (if s = [] then .ok (.list []) else
        ((splitOn ';' s).mapM L.toInt).map (fun qs => Val.list (qs.map Atom.num))) := by
  rw [cell_shape_st L F fn_parse_predecessors "_val" _ _ s st rfl]
  by_cases hs : s = []
  · subst hs; rfl
  · simp only [hs, if_false]
    rw [listComp_pure (HH L F) _ _ _ "v" st (atomsOf (splitOn ';' s))
      (fun a => match a with
        | .str k => (L.toInt (strDecode k)).map Atom.num
        | _ => .error stuck)]
    · rw [mapM_atomsOf' _ L.toInt Atom.num (fun s => by simp [strA, strDecode_code])]
      cases (splitOn ';' s).mapM L.toInt <;> rfl
    · simp only [Expr.evalP, env1_get, HH_prim, prim_lit_semi, prim_split_semi, pure, Except.pure, bind, Except.bind]
    · intro v hv
      obtain ⟨p, -, rfl⟩ := List.mem_map.1 hv
      simp only [Expr.evalP, envGet_set, if_true, HH_prim, prim_int, pure, Except.pure, bind, Except.bind]
      simp only [strA, strDecode_code]
      cases L.toInt p <;> rfl

/-! ### the key order of the header dict: the clean names, first occurrences (`for k in header`) -/

theorem hdr_keys_fold (cells : List Str) : ∀ (is : List Nat) (D : List (Atom × Atom)) (cols : List Str), keysOf D cols →
    keysOf (is.foldl (hdrStep cells) D) ((is.map (cleanAt cells)).foldl addKey cols)
  | [], _, _, h => h
  | i :: is, D, cols, h => by
    rw [List.foldl_cons, List.map_cons, List.foldl_cons]
    exact hdr_keys_fold cells is _ _ (keysOf_insert D cols _ _ h)

theorem range_cleanAt (cells : List Str) :
    (List.range cells.length).map (cleanAt cells) = cells.map (fun h => h.filter (fun c => c != bom)) := by
  apply List.ext_getElem
  · simp
  · intro i h1 h2
    have hi : i < cells.length := by simpa using h1
    simp [cleanAt, List.getD, List.getElem?_eq_getElem hi]

/-- the keys of `__parse_header(row)`, in order: the BOM-free names without repetitions (first occurrence), as the
    model's `readRow` takes its columns (`clean.eraseDups`) -/
theorem hdrDict_keys (cells : List Str) :
    (hdrDict cells).map (·.1) = ((cells.map (fun h => h.filter (fun c => c != bom))).eraseDups).map strA := by
  have := hdr_keys_fold cells (List.range cells.length) [] [] rfl
  rw [range_cleanAt, addKey_fold_nil] at this
  exact this

end Pj.CsvSrc
