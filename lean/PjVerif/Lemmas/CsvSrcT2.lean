/-
  Lemmas/CsvSrcT2.lean — CSV I/O, READ side, `raws_to_wbs`: the THIRD loop (predecessor links through `wbs[id]`,
  library function 107 `t.predecessors.append(p)`).  `wbs[id]` reads the `roots` / `children` / `id` slots only
  (`wbsFind`), function 107 writes the `predecessors` / `successors` slots only: the lookups of the whole loop are
  those of the store the loop starts with.
-/
import PjVerif.Lemmas.CsvSrcT1
namespace Pj.CsvSrc
open Pj.PyLite Pj.Extracted.Csv Pj.Csv

/-! ### `wbs[id]` -/

def idIs (st : PState) (k : Atom) (i : Nat) : Bool :=
  match (st.heap i).get? "id" with
  | some (.atom a) => a.pyEq k
  | _ => false

/-- `wbs[k]`: the first task, depth first, with the id `k` -/
def wbsFind (st : PState) (w : Nat) (k : Atom) : Option Nat := (wbsTasks st w).find? (idIs st k)

theorem prim_wbs_getitem (L : IOLib) (st : PState) (w : Nat) (k : Atom) :
    ioPrim L "wbs_getitem" [.ref w, k] st =
      match wbsFind st w k with
      | some i => .ok (.atom (.ref i))
      | none => .error .runtime := by
  unfold ioPrim
  iterate 21 rw [if_neg (by decide +kernel)]
  rw [if_pos (by decide +kernel)]
  rfl

/-- two stores with the same tree: `roots`, `children`, `id` slots and the allocation pointer -/
structure SameTree (st st' : PState) : Prop where
  reads : st'.reads = st.reads
  children : ∀ j, (st'.heap j).get? "children" = (st.heap j).get? "children"
  roots : ∀ j, (st'.heap j).get? "roots" = (st.heap j).get? "roots"
  id : ∀ j, (st'.heap j).get? "id" = (st.heap j).get? "id"

theorem SameTree.refl (st : PState) : SameTree st st := ⟨rfl, fun _ => rfl, fun _ => rfl, fun _ => rfl⟩

theorem SameTree.trans {a b c : PState} (h1 : SameTree a b) (h2 : SameTree b c) : SameTree a c :=
  ⟨h2.reads.trans h1.reads, fun j => (h2.children j).trans (h1.children j),
    fun j => (h2.roots j).trans (h1.roots j), fun j => (h2.id j).trans (h1.id j)⟩

theorem dfsHeap_congr (h h' : Nat → PyLite.Env) (hc : ∀ j, (h' j).get? "children" = (h j).get? "children") :
    ∀ (f : Nat) (l : List Nat), dfsHeap h' f l = dfsHeap h f l
  | 0, _ => rfl
  | f + 1, l => by
    simp only [dfsHeap]
    congr 1
    funext i
    rw [hc i, dfsHeap_congr h h' hc f]

theorem wbsTasks_same {st st' : PState} (h : SameTree st st') (w : Nat) : wbsTasks st' w = wbsTasks st w := by
  unfold wbsTasks
  rw [h.reads, h.roots w, dfsHeap_congr st.heap st'.heap h.children]

theorem idIs_same {st st' : PState} (h : SameTree st st') (k : Atom) : idIs st' k = idIs st k := by
  funext i
  simp only [idIs, h.id i]

theorem wbsFind_same {st st' : PState} (h : SameTree st st') (w : Nat) (k : Atom) : wbsFind st' w k = wbsFind st w k := by
  unfold wbsFind
  rw [wbsTasks_same h, idIs_same h]

/-! ### `t.predecessors.append(p)` -/

/-- function 107 on the store -/
def predStep (st : PState) (t p : Nat) : PState :=
  let h1 := heapSet st.heap t "predecessors" (.list (listSlot st.heap t "predecessors" ++ [Atom.ref p]))
  { st with heap := heapSet h1 p "successors" (.list (listSlot h1 p "successors" ++ [Atom.ref t])) }

theorem ioFn_add_pred (L : IOLib) (st : PState) (t p : Nat) :
    ioFn L 107 [.atom (.ref t), .atom (.ref p)] st = .ok (.atom .none, predStep st t p) := by
  unfold ioFn
  rw [if_neg (by decide), if_neg (by decide), if_neg (by decide), if_neg (by decide), if_neg (by decide),
    if_neg (by decide), if_neg (by decide), if_pos rfl]
  rfl

theorem predStep_get (st : PState) (t p j : Nat) (g : String) (h1 : "predecessors" ≠ g) (h2 : "successors" ≠ g) :
    ((predStep st t p).heap j).get? g = (st.heap j).get? g := by
  unfold predStep
  simp only
  rw [heapSet_get_ne _ _ _ _ _ _ h2, heapSet_get_ne _ _ _ _ _ _ h1]

theorem predStep_same (st : PState) (t p : Nat) : SameTree st (predStep st t p) :=
  ⟨rfl, fun j => predStep_get st t p j _ (by decide) (by decide),
    fun j => predStep_get st t p j _ (by decide) (by decide), fun j => predStep_get st t p j _ (by decide) (by decide)⟩

theorem predStep_other (st : PState) (t p j : Nat) (ht : j ≠ t) (hp : j ≠ p) : (predStep st t p).heap j = st.heap j := by
  unfold predStep
  simp only
  rw [heapSet_other _ _ _ _ _ hp, heapSet_other _ _ _ _ _ ht]

/-! ### the inner loop -/

def predInner : List Stmt :=
  [.assign "predecessor_task" (.prim "wbs_getitem" (.listCons (.var "wbs") (.listCons (.var "predecessor_id") .listNil))),
   .ifElse (.isNotNone (.var "predecessor_task"))
     [.expr (.callFn 107 (.listCons (.var "task") (.listCons (.var "predecessor_task") .listNil)))]
     []]

theorem pred_inner (L : IOLib) (F : Nat) (rec) (env : PyLite.Env) (st : PState) (w t p : Nat) (k : Atom)
    (hw : env.get? "wbs" = some (.atom (.ref w))) (ht : env.get? "task" = some (.atom (.ref t)))
    (hk : env.get? "predecessor_id" = some (.atom k)) (hf : wbsFind st w k = some p) :
    execBlockP (HH L (F + 1)) [] rec predInner env st =
      .normal (env.set "predecessor_task" (.atom (.ref p))) (predStep st t p) := by
  let env1 := env.set "predecessor_task" (.atom (.ref p))
  have h1 : (Stmt.assign "predecessor_task" (.prim "wbs_getitem" (.listCons (.var "wbs")
      (.listCons (.var "predecessor_id") .listNil)))).execP (HH L (F + 1)) [] rec env st = .normal env1 st :=
    exec_assign (eval_prim (eval_cons (eval_var hw) (eval_cons (eval_var hk) eval_nil))
      (by rw [HH_prim, prim_wbs_getitem, hf]))
  have ht1 : env1.get? "task" = some (.atom (.ref t)) := by rw [envGet_set, if_neg (by decide)]; exact ht
  have hp1 : env1.get? "predecessor_task" = some (.atom (.ref p)) := by rw [envGet_set, if_pos rfl]
  have hc := eval_isNotNone (H := HH L (F + 1)) (self := []) (st := st) (eval_var hp1)
  have hne : (Val.atom (Atom.ref p) = Val.atom Atom.none) = False := by simp
  unfold predInner
  rw [block_cons_normal h1, execBlockP, exec_ifElse hc rfl]
  simp only [hne, decide_false, Bool.not_false, if_true]
  rw [block_cons_normal (exec_expr (v := .atom .none) ((eval_callFn (evalArgs_cons (eval_var ht1)
    (evalArgs_cons (eval_var hp1) evalArgs_nil))).trans ((HH_fnV_lib L F 107 _ _ rfl).trans (ioFn_add_pred L st t p))))]
  rfl

/-- the store after the predecessors `ps` of the task `t` -/
def predFold (t : Nat) (ps : List Nat) (st : PState) : PState := ps.foldl (fun s p => predStep s t p) st

theorem predFold_same (t : Nat) : ∀ (ps : List Nat) (st : PState), SameTree st (predFold t ps st)
  | [], st => SameTree.refl st
  | p :: ps, st => (predStep_same st t p).trans (predFold_same t ps _)

theorem predFold_other (t j : Nat) (ht : j ≠ t) : ∀ (ps : List Nat) (st : PState), (∀ p ∈ ps, j ≠ p) →
    (predFold t ps st).heap j = st.heap j
  | [], _, _ => rfl
  | p :: ps, st, h => by
    show (predFold t ps (predStep st t p)).heap j = _
    rw [predFold_other t j ht ps _ (fun q hq => h q (List.mem_cons_of_mem _ hq)),
      predStep_other st t p j ht (h p (List.mem_cons_self ..))]

/-- the inner loop: the lookups are those of the store `st0` the loop starts with -/
theorem pred_inner_loop (L : IOLib) (F : Nat) (rec) (w t : Nat) (st0 : PState) :
    ∀ (ks : List Atom) (ps : List Nat) (env : PyLite.Env) (st : PState),
      env.get? "wbs" = some (.atom (.ref w)) → env.get? "task" = some (.atom (.ref t)) → SameTree st0 st →
      ks.map (wbsFind st0 w) = ps.map some →
      ∃ env', forLoopP "predecessor_id" (fun e s => execBlockP (HH L (F + 1)) [] rec predInner e s) ks env st =
          .normal env' (predFold t ps st) ∧ Frame ["predecessor_id", "predecessor_task"] env env'
  | [], [], env, st, _, _, _, _ => ⟨env, rfl, Frame.refl _ _⟩
  | [], _ :: _, _, _, _, _, _, h => by simp at h
  | _ :: _, [], _, _, _, _, _, h => by simp at h
  | k :: ks, p :: ps, env, st, hw, ht, hs, h => by
    obtain ⟨hkp, hrest⟩ := List.cons.inj h
    have hb := pred_inner L F rec (env.set "predecessor_id" (.atom k)) st w t p k
      (by rw [envGet_set, if_neg (by decide)]; exact hw) (by rw [envGet_set, if_neg (by decide)]; exact ht)
      (by rw [envGet_set, if_pos rfl]) (by rw [wbsFind_same hs]; exact hkp)
    obtain ⟨env', h1, h2⟩ := pred_inner_loop L F rec w t st0 ks ps
      ((env.set "predecessor_id" (.atom k)).set "predecessor_task" (.atom (.ref p))) (predStep st t p)
      (by rw [envGet_set, if_neg (by decide), envGet_set, if_neg (by decide)]; exact hw)
      (by rw [envGet_set, if_neg (by decide), envGet_set, if_neg (by decide)]; exact ht)
      (hs.trans (predStep_same st t p)) hrest
    refine ⟨env', ?_, ((Frame.set env "predecessor_id" _ (by simp)).trans
      (Frame.set _ "predecessor_task" _ (by simp))).trans h2⟩
    rw [forLoopP, hb]
    dsimp only
    rw [h1]; rfl

/-! ### the outer loop -/

def predBody : List Stmt :=
  [.assign "task" (.prim "wbs_getitem" (.listCons (.var "wbs") (.listCons (.attr (.var "raw") "id") .listNil))),
   .forIn "predecessor_id" (.attr (.var "raw") "predecessor_ids") predInner]

theorem pred_body (L : IOLib) (F : Nat) (rec) (env : PyLite.Env) (st st0 : PState) (w o t : Nat) (a : Atom)
    (ks : List Atom) (ps : List Nat)
    (hw : env.get? "wbs" = some (.atom (.ref w))) (hraw : env.get? "raw" = some (.atom (.ref o)))
    (hs : SameTree st0 st) (hid : (st.heap o).get? "id" = some (.atom a))
    (hpids : (st.heap o).get? "predecessor_ids" = some (.list ks))
    (hf : wbsFind st0 w a = some t) (hps : ks.map (wbsFind st0 w) = ps.map some) :
    ∃ env', execBlockP (HH L (F + 1)) [] rec predBody env st = .normal env' (predFold t ps st) ∧
      Frame ["task", "predecessor_id", "predecessor_task"] env env' := by
  let env1 := env.set "task" (.atom (.ref t))
  have h1 : (Stmt.assign "task" (.prim "wbs_getitem" (.listCons (.var "wbs")
      (.listCons (.attr (.var "raw") "id") .listNil)))).execP (HH L (F + 1)) [] rec env st = .normal env1 st :=
    exec_assign (eval_prim (eval_cons (eval_var hw) (eval_cons (eval_attr (eval_var hraw) hid) eval_nil))
      (by rw [HH_prim, prim_wbs_getitem, wbsFind_same hs, hf]))
  have hw1 : env1.get? "wbs" = some (.atom (.ref w)) := by rw [envGet_set, if_neg (by decide)]; exact hw
  have hraw1 : env1.get? "raw" = some (.atom (.ref o)) := by rw [envGet_set, if_neg (by decide)]; exact hraw
  have ht1 : env1.get? "task" = some (.atom (.ref t)) := by rw [envGet_set, if_pos rfl]
  obtain ⟨env2, h2, hfr⟩ := pred_inner_loop L F rec w t st0 ks ps env1 st hw1 ht1 hs hps
  have h2' : (Stmt.forIn "predecessor_id" (.attr (.var "raw") "predecessor_ids") predInner).execP (HH L (F + 1)) [] rec
      env1 st = .normal env2 (predFold t ps st) := by
    rw [exec_forIn (eval_attr (eval_var hraw1) hpids) rfl]; exact h2
  refine ⟨env2, ?_, fun x hx => ?_⟩
  · unfold predBody
    rw [block_cons_normal h1, block_cons_normal h2']
    rfl
  · rw [hfr x (fun hh => hx (by simp at hh ⊢; rcases hh with h | h <;> simp [h])),
      envGet_set, if_neg (fun hh => hx (by simp [← hh]))]

/-- a row of the third loop: the raw object, its id and its task, its predecessor ids and their tasks -/
structure PredRow where
  o : Nat
  a : Atom
  t : Nat
  ks : List Atom
  ps : List Nat

/-- the store after the third loop -/
def predAll (rows : List PredRow) (st : PState) : PState := rows.foldl (fun s r => predFold r.t r.ps s) st

theorem predAll_same : ∀ (rows : List PredRow) (st : PState), SameTree st (predAll rows st)
  | [], st => SameTree.refl st
  | r :: rows, st => (predFold_same r.t r.ps st).trans (predAll_same rows _)

/-- the third loop: raw objects below `n`, every task `wbs[id]` finds from `n` on; the lookups are those of the store the
    loop starts with -/
theorem pred_loop (L : IOLib) (F : Nat) (rec) (n w : Nat) (E : Nat → PyLite.Env) (st0 : PState)
    (hG : ∀ k q, wbsFind st0 w k = some q → n ≤ q) :
    ∀ (rows : List PredRow) (env : PyLite.Env) (st : PState),
      env.get? "wbs" = some (.atom (.ref w)) → SameTree st0 st → (∀ j < n, st.heap j = E j) →
      (∀ r ∈ rows, r.o < n ∧ (E r.o).get? "id" = some (.atom r.a) ∧
        (E r.o).get? "predecessor_ids" = some (.list r.ks) ∧ wbsFind st0 w r.a = some r.t ∧
        r.ks.map (wbsFind st0 w) = r.ps.map some) →
      ∃ env', forLoopP "raw" (fun e s => execBlockP (HH L (F + 1)) [] rec predBody e s)
          (rows.map (fun r => Atom.ref r.o)) env st = .normal env' (predAll rows st) ∧
        Frame ["raw", "task", "predecessor_id", "predecessor_task"] env env'
  | [], env, st, _, _, _, _ => ⟨env, rfl, Frame.refl _ _⟩
  | r :: rows, env, st, hw, hs, hlow, hrows => by
    obtain ⟨ho, hid, hpids, hf, hps⟩ := hrows r (List.mem_cons_self ..)
    obtain ⟨env1, g1, g3⟩ := pred_body L F rec (env.set "raw" (.atom (.ref r.o))) st st0 w r.o r.t r.a r.ks r.ps
      (by rw [envGet_set, if_neg (by decide)]; exact hw) (by rw [envGet_set, if_pos rfl]) hs
      (by rw [hlow _ ho]; exact hid) (by rw [hlow _ ho]; exact hpids) hf hps
    have hmem : ∀ p ∈ r.ps, n ≤ p := by
      intro p hp
      have hm : some p ∈ r.ks.map (wbsFind st0 w) := by rw [hps]; exact List.mem_map_of_mem hp
      obtain ⟨k, _, hk⟩ := List.mem_map.1 hm
      exact hG _ _ hk
    have ht : n ≤ r.t := hG _ _ hf
    obtain ⟨env2, g4, g6⟩ := pred_loop L F rec n w E st0 hG rows env1 (predFold r.t r.ps st)
      (by rw [g3 "wbs" (by decide), envGet_set, if_neg (by decide)]; exact hw)
      (hs.trans (predFold_same r.t r.ps st))
      (fun j hj => by
        rw [predFold_other r.t j (by omega) r.ps st (fun p hp => by have := hmem p hp; omega)]; exact hlow j hj)
      (fun r' hr' => hrows r' (List.mem_cons_of_mem _ hr'))
    refine ⟨env2, ?_, ?_⟩
    · rw [List.map_cons, forLoopP, g1]
      dsimp only
      rw [g4]; rfl
    · intro x hx
      rw [g6 x hx, g3 x (fun hh => hx (by simp at hh ⊢; rcases hh with h | h | h <;> simp [h])),
        envGet_set, if_neg (fun hh => hx (by simp [← hh]))]

end Pj.CsvSrc
