/-
  Lemmas/TaskSrcCheckD.lean — stage 1 of the translated tie for task.py, stage D: kernel-checked concrete runs of the
  translated source (Extracted/TaskSrc.lean) against the graph model.  The graphs and the comparison are defined in
  Lemmas/TaskSrcCheck.lean; see Lemmas/TaskSrc.lean for the setting.  (The checks are spread over several files so
  that `lake` builds them in parallel.)
-/
import PjVerif.Lemmas.TaskSrcCheck
namespace Pj.TaskSrc
open Pj.PyLite Pj.Extracted
namespace Check

/-! #### stage D: the `children` setter -/

def agreeChildren (s : G) (t : Uid) (l : List Uid) : Prop :=
  observe s.n (interpSetChildren F t (refs l) (encSt s)) = expect s.n (setChildren s t l)
instance (s t l) : Decidable (agreeChildren s t l) := by unfold agreeChildren; infer_instance

/-- every call with the empty list, every one-element list, every list `[a, 10]` and `[11, a, 11]` -/
def childrenAgree (s : G) : Bool :=
  allU s (fun t => decide (agreeChildren s t []) &&
    allU s (fun a => decide (agreeChildren s t [a]) && decide (agreeChildren s t [a, 10]) &&
      decide (agreeChildren s t [11, a, 11])))

example : childrenAgree g2 = true := by decide +kernel
example : childrenAgree g3 = true := by decide +kernel

example : (setChildren g1 1 [3]).2 = none ∧ (setChildren g1 1 [3]).1.owner 2 = none ∧ agreeChildren g1 1 [3] := by
  decide +kernel                                                              -- 2 leaves the WBS, 3 moves under 1
example : (setChildren g1 0 [3, 1]).2 = none ∧ agreeChildren g1 0 [3, 1] := by decide +kernel          -- the roots reordered
example : (setChildren g1 1 [2, 10, 11]).2 = none ∧ agreeChildren g1 1 [2, 10, 11] := by decide +kernel -- detached tasks enter
example : (setChildren g1 10 [5, 11]).2 = none ∧ agreeChildren g1 10 [5, 11] := by decide +kernel      -- 5 leaves the tree of 4
example : (setChildren g1 1 [9]).2 = some .runtime ∧ agreeChildren g1 1 [9] := by decide +kernel       -- another WBS
example : (setChildren g1 4 [1]).2 = some .runtime ∧ agreeChildren g1 4 [1] := by decide +kernel       -- a member under a detached task
example : (setChildren g1 2 [1]).2 = some .runtime ∧ agreeChildren g1 2 [1] := by decide +kernel       -- an ancestor
example : (setChildren g1 3 [2]).2 = some .runtime ∧ agreeChildren g1 3 [2] := by decide +kernel       -- linked
example : (setChildren g1 3 [5]).2 = some .runtime ∧ agreeChildren g1 3 [5] := by decide +kernel       -- shared id
example : (setChildren g1 10 [7, 12]).2 = some .runtime ∧ agreeChildren g1 10 [7, 12] := by decide +kernel -- shared id among the new
example : (setChildren g2 1 [3, 2]).2 = none ∧ agreeChildren g2 1 [3, 2] := by decide +kernel
example : (setChildren g2 6 [2]).2 = none ∧ agreeChildren g2 6 [2] := by decide +kernel
example : observe g1.n (interpSetChildren F 1 (.atom .none) (encSt g1)) = expect g1.n (setChildren g1 1 []) := by
  decide +kernel
example : observe g1.n (interpSetChildren F 10 (refV 11) (encSt g1)) = expect g1.n (setChildren g1 10 [11]) := by
  decide +kernel

end Check
end Pj.TaskSrc
