/-
  Lemmas/PrintSrcC.lean — Part 4 of the translated sheet printer (see Lemmas/PrintSrc.lean, PrintSrcA.lean, PrintSrcB.lean):
  the layout numbers.  `__calc_max_title_len` = `titleLen` (`title_len_spec`, `interpTitleLen_eq`), `__max_field_len` =
  `maxFieldLen` (`max_field_len_spec`, `interpMaxFieldLen_eq`), for every string library `S` with `S.OK`, every `pts`,
  theme, state; the subtrees at most as deep as the model's fuel (`DepthOK`).
-/
import PjVerif.Lemmas.PrintSrcB
namespace Pj.PrintSrc
open Pj.PyLite Pj.Print Pj.Extracted.Print
open Pj.TaskSrc (callPV_eq execBlockP_cons execBlockP_nil execP_forIn forLoopP_acc noRec)
set_option linter.unusedSimpArgs false
set_option linter.unusedVariables false

variable {S : Lib} (pts : Nat → PyTask) (th : PyTheme)

/-! ### numbers -/

theorem natCast_add_rat (a b : Nat) : ((a : Nat) : Rat) + ((b : Nat) : Rat) = ((a + b : Nat) : Rat) := by
  rw [Rat.natCast_add]

theorem natCast_zero_rat : ((0 : Nat) : Rat) = 0 := rfl

/-- `max` of two variables / values that are naturals -/
theorem evalP_max_nat (H : PHandlers) (self ρ : PyLite.Env) (st : PState) (a b : Expr) (x y : Nat)
    (ha : a.evalP H self ρ st = .ok (.atom (.num ((x : Nat) : Rat)), st))
    (hb : b.evalP H self ρ st = .ok (.atom (.num ((y : Nat) : Rat)), st)) :
    (Expr.max a b).evalP H self ρ st = .ok (.atom (.num ((max x y : Nat) : Rat)), st) := by
  simp only [Expr.evalP, ha, hb, pyMax_nat, bind, Except.bind, pure, Except.pure]

/-! ## `__calc_max_title_len` -/

/-- the length of the name (0 for None) -/
def nameLen (pts : Nat → PyTask) (t : Nat) : Nat := ((pts t).name.map List.length).getD 0

/-- the environment of `__calc_max_title_len` -/
def TlEnv (ρ : PyLite.Env) (t level : Nat) : Prop :=
  ρ.get? "task" = some (.atom (.ref t)) ∧ ρ.get? "level" = some (.atom (.num ((level : Nat) : Rat)))

theorem TlEnv.set {ρ : PyLite.Env} {t level : Nat} (h : TlEnv ρ t level) (x : String) (v : Val)
    (hx : x ≠ "task" ∧ x ≠ "level") : TlEnv (ρ.set x v) t level := by
  obtain ⟨h1, h2⟩ := hx
  obtain ⟨ht, hl⟩ := h
  constructor <;> simp only [Pj.TaskSrc.Env.get?_set, h1, h2, if_false]
  · exact ht
  · exact hl

/-- the first statement: the length of the name -/
theorem tlName_spec (hS : S.OK) (F t level : Nat) (ρ : PyLite.Env) (st : PState) (hρ : TlEnv ρ t level) :
    execBlockP (Hp S pts th F) [] noRec (src_calc_max_title_len.take 1) ρ st =
      .normal (ρ.set "name_len" (.atom (.num ((nameLen pts t : Nat) : Rat)))) st := by
  obtain ⟨ht, hl⟩ := hρ
  cases hname : (pts t).name with
  | none =>
    ppl [src_calc_max_title_len, ht, hname, Lib.os, nameLen, natCast_zero_rat]
  | some nm =>
    ppl [src_calc_max_title_len, ht, hname, Lib.os, nameLen, s_ne_none, prim_strlen' pts th hS]

/-- the indentation plus the name -/
theorem tlWidth_eval (hS : S.OK) (F t level : Nat) (ρ : PyLite.Env) (st : PState)
    (hl : ρ.get? "level" = some (.atom (.num ((level : Nat) : Rat))))
    (hn : ρ.get? "name_len" = some (.atom (.num ((nameLen pts t : Nat) : Rat)))) :
    (Expr.bin .add (.prim "strlen" (.listCons (.prim "repeat" (.listCons (.prim "lit:   " .listNil)
        (.listCons (.var "level") .listNil))) .listNil)) (.var "name_len")).evalP (Hp S pts th F) [] ρ st =
      .ok (.atom (.num ((3 * level + nameLen pts t : Nat) : Rat)), st) := by
  rw [← natCast_add_rat]
  ppl [hl, hn, lit_3sp, prim_repeat pts th hS, prim_strlen' pts th hS, flatten_replicate3]

/-- the second statement: the running maximum -/
theorem tlMax_spec (hS : S.OK) (F t level cur : Nat) (ρ : PyLite.Env) (st : PState)
    (hl : ρ.get? "level" = some (.atom (.num ((level : Nat) : Rat))))
    (hn : ρ.get? "name_len" = some (.atom (.num ((nameLen pts t : Nat) : Rat))))
    (hc : ρ.get? "_current_max" = some (.atom (.num ((cur : Nat) : Rat)))) :
    execBlockP (Hp S pts th F) [] noRec ((src_calc_max_title_len.drop 1).take 1) ρ st =
      .normal (ρ.set "_current_max" (.atom (.num ((max cur (3 * level + nameLen pts t) : Nat) : Rat)))) st := by
  have hw := tlWidth_eval pts th hS F t level ρ st hl hn
  have hv : (Expr.var "_current_max").evalP (Hp S pts th F) [] ρ st = .ok (.atom (.num ((cur : Nat) : Rat)), st) := by
    ppl [hc]
  have hm := evalP_max_nat (Hp S pts th F) [] ρ st _ _ cur (3 * level + nameLen pts t) hv hw
  show execBlockP (Hp S pts th F) [] noRec [.assign "_current_max" (.max _ _)] ρ st = _
  simp only [execBlockP_cons, execBlockP_nil, Stmt.execP, hm, bind, Except.bind, pure, Except.pure]

def tlHead : List Stmt := src_calc_max_title_len.take 2
theorem tl_head_shape : tlHead = src_calc_max_title_len.take 1 ++ (src_calc_max_title_len.drop 1).take 1 := rfl
theorem tl_shape' : src_calc_max_title_len = tlHead ++ [tlLoop, .ret (.var "_current_max")] := rfl

/-- the two statements before the loop -/
theorem tlHead_spec (hS : S.OK) (F t level cur : Nat) (ρ : PyLite.Env) (st : PState) (hρ : TlEnv ρ t level)
    (hc : ρ.get? "_current_max" = some (.atom (.num ((cur : Nat) : Rat)))) :
    ∃ ρ', execBlockP (Hp S pts th F) [] noRec tlHead ρ st = .normal ρ' st ∧ TlEnv ρ' t level ∧
      ρ'.get? "_current_max" = some (.atom (.num ((max cur (3 * level + nameLen pts t) : Nat) : Rat))) := by
  have hρ1 : TlEnv (ρ.set "name_len" (.atom (.num ((nameLen pts t : Nat) : Rat)))) t level := hρ.set _ _ (by decide)
  refine ⟨(ρ.set "name_len" (.atom (.num ((nameLen pts t : Nat) : Rat)))).set "_current_max"
    (.atom (.num ((max cur (3 * level + nameLen pts t) : Nat) : Rat))), ?_, hρ1.set "_current_max" _ (by decide),
    by simp [Pj.TaskSrc.Env.get?_set]⟩
  rw [tl_head_shape, execBlockP_append, tlName_spec pts th hS F t level ρ st hρ]
  exact tlMax_spec pts th hS F t level cur _ st hρ1.2 (by simp [Pj.TaskSrc.Env.get?_set])
    (by simp [Pj.TaskSrc.Env.get?_set, hc])

/-- the arguments of `__calc_max_title_len` -/
def tlArgs (t level cur : Nat) : List Val :=
  [.atom (.ref t), .atom (.num ((level : Nat) : Rat)), .atom (.num ((cur : Nat) : Rat))]

/-- what a call for a child does (the induction hypothesis) -/
def TlKidsOK (S : Lib) (pts : Nat → PyTask) (th : PyTheme) (F n level : Nat) (cs : List Nat) : Prop :=
  ∀ c ∈ cs, ∀ m st', (Hp S pts th F).fnV fn_calc_max_title_len (tlArgs c (level + 1) m) st' =
    .ok (.atom (.num ((titleLen (tsOf S pts) n (level + 1) c m : Nat) : Rat)), st')

/-- one round of the loop over the children -/
theorem tlBody_spec (F n t level c m : Nat) (ρ : PyLite.Env) (st : PState) (hρ : TlEnv ρ t level)
    (hm : ρ.get? "_current_max" = some (.atom (.num ((m : Nat) : Rat))))
    (hcall : (Hp S pts th F).fnV fn_calc_max_title_len (tlArgs c (level + 1) m) st =
      .ok (.atom (.num ((titleLen (tsOf S pts) n (level + 1) c m : Nat) : Rat)), st)) :
    execBlockP (Hp S pts th F) [] noRec tlBody (ρ.set "ch" (.atom (.ref c))) st =
      .normal ((ρ.set "ch" (.atom (.ref c))).set "_current_max"
        (.atom (.num ((titleLen (tsOf S pts) n (level + 1) c m : Nat) : Rat)))) st := by
  have hρ' : TlEnv (ρ.set "ch" (.atom (.ref c))) t level := hρ.set _ _ (by decide)
  have h0 : (ρ.set "ch" (.atom (.ref c))).get? "ch" = some (.atom (.ref c)) := by simp [Pj.TaskSrc.Env.get?_set]
  have h1 := hρ'.2
  have h2 : (ρ.set "ch" (.atom (.ref c))).get? "_current_max" = some (.atom (.num ((m : Nat) : Rat))) := by
    simp [Pj.TaskSrc.Env.get?_set, hm]
  simp only [tlArgs, ← natCast_succ_rat] at hcall
  generalize ρ.set "ch" (.atom (.ref c)) = ρ1 at *
  ppl [tlBody, tlLoop, src_calc_max_title_len, h0, h1, h2, hcall]

/-- the loop over the children -/
theorem tlLoop_spec (F n t level m : Nat) (ρ : PyLite.Env) (st : PState) (hρ : TlEnv ρ t level)
    (hm : ρ.get? "_current_max" = some (.atom (.num ((m : Nat) : Rat))))
    (hrec : TlKidsOK S pts th F n level (pts t).children) :
    ∃ ρ', tlLoop.execP (Hp S pts th F) [] noRec ρ st = .normal ρ' st ∧
      ρ'.get? "_current_max" = some (.atom (.num
        (((pts t).children.foldl (fun m ch => titleLen (tsOf S pts) n (level + 1) ch m) m : Nat) : Rat))) := by
  obtain ⟨ρ', -, hacc, hl⟩ := forLoopP_foldN "ch" "_current_max"
    (fun ρ st => execBlockP (Hp S pts th F) [] noRec tlBody ρ st) (fun ρ => TlEnv ρ t level) (tlG S pts n level) st
    ((pts t).children.map Atom.ref)
    (by
      intro ρ m v hv hP ha
      obtain ⟨c, hc, rfl⟩ := List.mem_map.1 hv
      refine ⟨_, ?_, ?_, tlBody_spec pts th F n t level c m ρ st hP ha (hrec c hc m st)⟩
      · exact (hP.set _ _ (by decide)).set _ _ (by decide)
      · simp [Pj.TaskSrc.Env.get?_set, tlG])
    ρ m hρ hm
  rw [foldl_tlG] at hacc
  refine ⟨ρ', ?_, hacc⟩
  have ht := hρ.1
  rw [tlLoop_eq, execP_forIn (vs := (pts t).children.map Atom.ref) (st' := st) (hit := by ppl [ht, refsA]), hl]

/-- the body of `__calc_max_title_len`, given what the calls for the children do -/
theorem title_body (hS : S.OK) (F n t level cur : Nat) (st : PState)
    (hrec : TlKidsOK S pts th F n level (pts t).children) :
    callPV (Hp S pts th F) src_calc_max_title_len_params src_calc_max_title_len (tlArgs t level cur) st =
      .ok (.atom (.num ((titleLen (tsOf S pts) (n + 1) level t cur : Nat) : Rat)), st) := by
  rw [callPV_eq]
  have hbind : bindParamsV src_calc_max_title_len_params (tlArgs t level cur) =
      .ok [("task", .atom (.ref t)), ("level", .atom (.num ((level : Nat) : Rat))),
        ("_current_max", .atom (.num ((cur : Nat) : Rat)))] := rfl
  rw [hbind]
  have hρ0 : TlEnv [("task", .atom (.ref t)), ("level", .atom (.num ((level : Nat) : Rat))),
      ("_current_max", .atom (.num ((cur : Nat) : Rat)))] t level := by
    constructor <;> simp [Pj.TaskSrc.Env.get?_cons]
  obtain ⟨ρ1, h1, hρ1, hc1⟩ := tlHead_spec pts th hS F t level cur _ st hρ0 (by simp [Pj.TaskSrc.Env.get?_cons])
  obtain ⟨ρ2, h2, hc2⟩ := tlLoop_spec pts th F n t level _ ρ1 st hρ1 hc1 hrec
  have hret : (Stmt.ret (.var "_current_max")).execP (Hp S pts th F) [] noRec ρ2 st =
      .ret (.atom (.num ((titleLen (tsOf S pts) (n + 1) level t cur : Nat) : Rat))) st := by
    ppl [hc2, titleLen, toPTask, nameLen]
  simp only [tl_shape', execBlockP_append, h1, execBlockP_cons, h2, hret]

/-- `__calc_max_title_len` = `titleLen` -/
theorem title_len_spec (hS : S.OK) :
    ∀ (n F t level cur : Nat) (st : PState), DepthOK pts (n + 1) t →
      (Hp S pts th (F + n + 1)).fnV fn_calc_max_title_len (tlArgs t level cur) st =
        .ok (.atom (.num ((titleLen (tsOf S pts) (n + 1) level t cur : Nat) : Rat)), st) := by
  intro n
  induction n with
  | zero =>
    intro F t level cur st hd
    rw [pfnV_succ _ _ _ _ _ _ _ pf_title]
    refine title_body pts th hS F 0 t level cur st ?_
    intro c hcm
    exact absurd (hd c hcm) (by simp [DepthOK])
  | succ n ih =>
    intro F t level cur st hd
    rw [pfnV_succ _ _ _ _ _ _ _ pf_title]
    refine title_body pts th hS (F + (n + 1)) (n + 1) t level cur st ?_
    intro c hcm m st'
    exact ih F c (level + 1) m st' (hd c hcm)

/-- the entry point -/
theorem interpTitleLen_eq (hS : S.OK) (F n t level cur : Nat) (hd : DepthOK pts (n + 1) t) (hF : n + 1 ≤ F) :
    interpTitleLen S pts F t level cur = .ok (.atom (.num ((titleLen (tsOf S pts) (n + 1) level t cur : Nat) : Rat))) := by
  obtain ⟨F, rfl⟩ : ∃ F', F = F' + n + 1 := ⟨F - (n + 1), by omega⟩
  have := title_len_spec pts noTheme hS n F t level cur st0 hd
  simp only [tlArgs] at this
  simp only [interpTitleLen, interp, runProg]
  rw [this]; rfl

/-! ## `__max_field_len` -/

theorem pf_maxfield : printFuns fn_max_field_len = some (src_max_field_len_params, src_max_field_len) := rfl

def mfInit : Stmt := src_max_field_len.getD 0 .pass
def mfLoop : Stmt := src_max_field_len.getD 1 .pass
def mfBody : List Stmt := match mfLoop with | .forIn _ _ b => b | _ => []
def mfCell : Stmt := mfBody.getD 0 .pass
def mfKids : Stmt := mfBody.getD 1 .pass
theorem mf_shape : src_max_field_len = [mfInit, mfLoop, .ret (.var "max_len")] := rfl
theorem mfLoop_eq : mfLoop = .forIn "t" (.var "tasks") mfBody := rfl
theorem mfBody_eq : mfBody = [mfCell, mfKids] := rfl
theorem mfCell_eq : mfCell = .assign "max_len" (.max (.var "max_len")
    (.prim "strlen" (.listCons (.callFn fn_get_field_value (.listCons (.var "t") (.listCons (.var "field") .listNil))) .listNil))) := rfl
theorem mfKids_eq : mfKids = .assign "max_len" (.max (.var "max_len")
    (.callFn fn_max_field_len (.listCons (.prim "children" (.listCons (.var "t") .listNil)) (.listCons (.var "field") .listNil)))) := rfl

/-- the environment of `__max_field_len` -/
def MfEnv (S : Lib) (ρ : PyLite.Env) (field : Str) : Prop := ρ.get? "field" = some (.atom (S.s field))

theorem MfEnv.set {ρ : PyLite.Env} {field : Str} (h : MfEnv S ρ field) (x : String) (v : Val) (hx : x ≠ "field") :
    MfEnv S (ρ.set x v) field := by
  unfold MfEnv
  simp only [Pj.TaskSrc.Env.get?_set, hx, if_false]
  exact h

theorem evalP_var (H : PHandlers) (ρ : PyLite.Env) (st : PState) (x : String) (v : Val) (h : ρ.get? x = some v) :
    (Expr.var x).evalP H [] ρ st = .ok (v, st) := by
  simp [Expr.evalP, h, pure, Except.pure]

/-- the first statement: the header and one blank -/
theorem mfInit_spec (hS : S.OK) (F : Nat) (field : Str) (ρ : PyLite.Env) (st : PState) (hρ : MfEnv S ρ field) :
    mfInit.execP (Hp S pts th F) [] noRec ρ st =
      .normal (ρ.set "max_len" (.atom (.num ((field.length + 1 : Nat) : Rat)))) st := by
  have hf : ρ.get? "field" = some (.atom (S.s field)) := hρ
  rw [← natCast_succ_rat]
  ppl [mfInit, src_max_field_len, hf, prim_strlen' pts th hS]

/-- the length of the cell text of `t` -/
theorem mfCellLen_eval (hS : S.OK) (F t : Nat) (field : Str) (ρ : PyLite.Env) (st : PState) (hρ : MfEnv S ρ field)
    (ht : ρ.get? "t" = some (.atom (.ref t))) :
    (Expr.prim "strlen" (.listCons (.callFn fn_get_field_value (.listCons (.var "t") (.listCons (.var "field") .listNil)))
        .listNil)).evalP (Hp S pts th (F + 3)) [] ρ st =
      .ok (.atom (.num (((fieldValue (tsOf S pts) t field).length : Nat) : Rat)), st) := by
  have hf : ρ.get? "field" = some (.atom (S.s field)) := hρ
  have hfv := field_value_spec pts th hS F t field st
  ppl [hf, ht, hfv, prim_strlen' pts th hS]

/-- the first statement of the loop body -/
theorem mfCell_spec (hS : S.OK) (F t m : Nat) (field : Str) (ρ : PyLite.Env) (st : PState) (hρ : MfEnv S ρ field)
    (ht : ρ.get? "t" = some (.atom (.ref t))) (hm : ρ.get? "max_len" = some (.atom (.num ((m : Nat) : Rat)))) :
    mfCell.execP (Hp S pts th (F + 3)) [] noRec ρ st =
      .normal (ρ.set "max_len" (.atom (.num ((max m (fieldValue (tsOf S pts) t field).length : Nat) : Rat)))) st := by
  have hmx := evalP_max_nat (Hp S pts th (F + 3)) [] ρ st _ _ m _ (evalP_var _ ρ st _ _ hm)
    (mfCellLen_eval pts th hS F t field ρ st hρ ht)
  rw [mfCell_eq]
  simp only [Stmt.execP, hmx, bind, Except.bind, pure, Except.pure]

/-- the arguments of `__max_field_len` -/
def mfArgs (S : Lib) (tasks : List Nat) (field : Str) : List Val := [refsA tasks, .atom (S.s field)]

/-- the recursive call for the children of `t` -/
theorem mfKidsCall_eval (H : PHandlers) (t k : Nat) (field : Str) (ρ : PyLite.Env) (st : PState) (hρ : MfEnv S ρ field)
    (hp : H.prim = printPrim S pts th)
    (ht : ρ.get? "t" = some (.atom (.ref t)))
    (hcall : H.fnV fn_max_field_len (mfArgs S (pts t).children field) st = .ok (.atom (.num ((k : Nat) : Rat)), st)) :
    (Expr.callFn fn_max_field_len (.listCons (.prim "children" (.listCons (.var "t") .listNil))
        (.listCons (.var "field") .listNil))).evalP H [] ρ st = .ok (.atom (.num ((k : Nat) : Rat)), st) := by
  have hf : ρ.get? "field" = some (.atom (S.s field)) := hρ
  simp only [mfArgs] at hcall
  ppl [hf, ht, hp, hcall]

/-- the second statement of the loop body -/
theorem mfKids_spec (F t m k : Nat) (field : Str) (ρ : PyLite.Env) (st : PState) (hρ : MfEnv S ρ field)
    (ht : ρ.get? "t" = some (.atom (.ref t))) (hm : ρ.get? "max_len" = some (.atom (.num ((m : Nat) : Rat))))
    (hcall : (Hp S pts th F).fnV fn_max_field_len (mfArgs S (pts t).children field) st =
      .ok (.atom (.num ((k : Nat) : Rat)), st)) :
    mfKids.execP (Hp S pts th F) [] noRec ρ st = .normal (ρ.set "max_len" (.atom (.num ((max m k : Nat) : Rat)))) st := by
  have hmx := evalP_max_nat (Hp S pts th F) [] ρ st _ _ m _ (evalP_var _ ρ st _ _ hm)
    (mfKidsCall_eval pts th (Hp S pts th F) t k field ρ st hρ (Hp_prim S pts th F) ht hcall)
  rw [mfKids_eq]
  simp only [Stmt.execP, hmx, bind, Except.bind, pure, Except.pure]

/-- what the call for the children of a task does (the induction hypothesis) -/
def MfKidsOK (S : Lib) (pts : Nat → PyTask) (th : PyTheme) (F n : Nat) (field : Str) (tasks : List Nat) : Prop :=
  ∀ t ∈ tasks, ∀ st', (Hp S pts th F).fnV fn_max_field_len (mfArgs S (pts t).children field) st' =
    .ok (.atom (.num ((maxFieldLen (tsOf S pts) field n (pts t).children : Nat) : Rat)), st')

/-- one step of the model's fold -/
def mfStep (S : Lib) (pts : Nat → PyTask) (field : Str) (n : Nat) (m t : Nat) : Nat :=
  max (max m (fieldValue (tsOf S pts) t field).length) (maxFieldLen (tsOf S pts) field n (tsOf S pts t).children)

/-- one round of the loop over the tasks -/
theorem mfBody_spec (hS : S.OK) (F n t m : Nat) (field : Str) (ρ : PyLite.Env) (st : PState) (hρ : MfEnv S ρ field)
    (hm : ρ.get? "max_len" = some (.atom (.num ((m : Nat) : Rat))))
    (hcall : (Hp S pts th (F + 3)).fnV fn_max_field_len (mfArgs S (pts t).children field) st =
      .ok (.atom (.num ((maxFieldLen (tsOf S pts) field n (pts t).children : Nat) : Rat)), st)) :
    ∃ ρ', MfEnv S ρ' field ∧ ρ'.get? "max_len" = some (.atom (.num ((mfStep S pts field n m t : Nat) : Rat))) ∧
      execBlockP (Hp S pts th (F + 3)) [] noRec mfBody (ρ.set "t" (.atom (.ref t))) st = .normal ρ' st := by
  have hρ1 : MfEnv S (ρ.set "t" (.atom (.ref t))) field := hρ.set _ _ (by decide)
  have ht1 : (ρ.set "t" (.atom (.ref t))).get? "t" = some (.atom (.ref t)) := by simp [Pj.TaskSrc.Env.get?_set]
  have hm1 : (ρ.set "t" (.atom (.ref t))).get? "max_len" = some (.atom (.num ((m : Nat) : Rat))) := by
    simp [Pj.TaskSrc.Env.get?_set, hm]
  generalize ρ.set "t" (.atom (.ref t)) = ρ1 at *
  have h1 := mfCell_spec pts th hS F t m field ρ1 st hρ1 ht1 hm1
  have hρ2 : MfEnv S (ρ1.set "max_len" (.atom (.num ((max m (fieldValue (tsOf S pts) t field).length : Nat) : Rat)))) field :=
    hρ1.set _ _ (by decide)
  have h2 := mfKids_spec pts th (F + 3) t (max m (fieldValue (tsOf S pts) t field).length) _ field _ st hρ2
    (by simp [Pj.TaskSrc.Env.get?_set, ht1]) (by simp [Pj.TaskSrc.Env.get?_set]) hcall
  have h3 : execBlockP (Hp S pts th (F + 3)) [] noRec mfBody ρ1 st =
      .normal ((ρ1.set "max_len" (.atom (.num ((max m (fieldValue (tsOf S pts) t field).length : Nat) : Rat)))).set "max_len"
        (.atom (.num ((max (max m (fieldValue (tsOf S pts) t field).length)
          (maxFieldLen (tsOf S pts) field n (pts t).children) : Nat) : Rat)))) st := by
    rw [mfBody_eq]
    simp only [execBlockP_cons, execBlockP_nil, h1, h2]
  refine ⟨_, ?_, ?_, h3⟩
  · exact hρ2.set "max_len" _ (by decide)
  · simp [Pj.TaskSrc.Env.get?_set, mfStep, toPTask]

def mfG (S : Lib) (pts : Nat → PyTask) (field : Str) (n : Nat) (m : Nat) : Atom → Nat
  | .ref t => mfStep S pts field n m t
  | _ => m

theorem foldl_mfG (field : Str) (n : Nat) (ts : List Nat) (m : Nat) :
    (ts.map Atom.ref).foldl (mfG S pts field n) m = ts.foldl (mfStep S pts field n) m := by
  induction ts generalizing m with
  | nil => rfl
  | cons a l ih => simp [mfG, ih]

/-- the loop over the tasks -/
theorem mfLoop_spec (hS : S.OK) (F n m : Nat) (tasks : List Nat) (field : Str) (ρ : PyLite.Env) (st : PState)
    (hρ : MfEnv S ρ field) (hts : ρ.get? "tasks" = some (refsA tasks))
    (hm : ρ.get? "max_len" = some (.atom (.num ((m : Nat) : Rat))))
    (hrec : MfKidsOK S pts th (F + 3) n field tasks) :
    ∃ ρ', mfLoop.execP (Hp S pts th (F + 3)) [] noRec ρ st = .normal ρ' st ∧
      ρ'.get? "max_len" = some (.atom (.num ((tasks.foldl (mfStep S pts field n) m : Nat) : Rat))) := by
  obtain ⟨ρ', -, hacc, hl⟩ := forLoopP_foldN "t" "max_len"
    (fun ρ st => execBlockP (Hp S pts th (F + 3)) [] noRec mfBody ρ st) (fun ρ => MfEnv S ρ field) (mfG S pts field n) st
    (tasks.map Atom.ref)
    (by
      intro ρ m v hv hP ha
      obtain ⟨t, ht, rfl⟩ := List.mem_map.1 hv
      exact mfBody_spec pts th hS F n t m field ρ st hP ha (hrec t ht st))
    ρ m hρ hm
  rw [foldl_mfG] at hacc
  refine ⟨ρ', ?_, hacc⟩
  rw [mfLoop_eq, execP_forIn (vs := tasks.map Atom.ref) (st' := st) (hit := by ppl [hts, refsA]), hl]

theorem maxFieldLen_succ (field : Str) (n : Nat) (tasks : List Nat) :
    maxFieldLen (tsOf S pts) field (n + 1) tasks = tasks.foldl (mfStep S pts field n) (field.length + 1) := rfl

/-- the body of `__max_field_len`, given what the calls for the children do -/
theorem max_field_body (hS : S.OK) (F n : Nat) (tasks : List Nat) (field : Str) (st : PState)
    (hrec : MfKidsOK S pts th (F + 3) n field tasks) :
    callPV (Hp S pts th (F + 3)) src_max_field_len_params src_max_field_len (mfArgs S tasks field) st =
      .ok (.atom (.num ((maxFieldLen (tsOf S pts) field (n + 1) tasks : Nat) : Rat)), st) := by
  rw [callPV_eq]
  have hbind : bindParamsV src_max_field_len_params (mfArgs S tasks field) =
      .ok [("tasks", refsA tasks), ("field", .atom (S.s field))] := rfl
  rw [hbind]
  have hρ0 : MfEnv S [("tasks", refsA tasks), ("field", .atom (S.s field))] field := by
    simp [MfEnv, Pj.TaskSrc.Env.get?_cons]
  have h1 := mfInit_spec pts th hS (F + 3) field _ st hρ0
  obtain ⟨ρ2, h2, hc2⟩ := mfLoop_spec pts th hS F n (field.length + 1) tasks field
    (Env.set [("tasks", refsA tasks), ("field", .atom (S.s field))] "max_len"
      (.atom (.num ((field.length + 1 : Nat) : Rat)))) st (hρ0.set "max_len" _ (by decide))
    (by simp [Pj.TaskSrc.Env.get?_set, Pj.TaskSrc.Env.get?_cons]) (by simp [Pj.TaskSrc.Env.get?_set]) hrec
  have hret : (Stmt.ret (.var "max_len")).execP (Hp S pts th (F + 3)) [] noRec ρ2 st =
      .ret (.atom (.num ((maxFieldLen (tsOf S pts) field (n + 1) tasks : Nat) : Rat))) st := by
    rw [maxFieldLen_succ]
    ppl [hc2]
  simp only [mf_shape, execBlockP_cons, h1, h2, hret]

/-- `__max_field_len` = `maxFieldLen` -/
theorem max_field_len_spec (hS : S.OK) (field : Str) :
    ∀ (n F : Nat) (tasks : List Nat) (st : PState), (∀ t ∈ tasks, DepthOK pts n t) →
      (Hp S pts th (F + n + 4)).fnV fn_max_field_len (mfArgs S tasks field) st =
        .ok (.atom (.num ((maxFieldLen (tsOf S pts) field (n + 1) tasks : Nat) : Rat)), st) := by
  intro n
  induction n with
  | zero =>
    intro F tasks st hd
    rw [pfnV_succ _ _ _ _ _ _ _ pf_maxfield]
    refine max_field_body pts th hS F 0 tasks field st ?_
    intro t ht
    exact absurd (hd t ht) (by simp [DepthOK])
  | succ n ih =>
    intro F tasks st hd
    rw [pfnV_succ _ _ _ _ _ _ _ pf_maxfield]
    refine max_field_body pts th hS (F + (n + 1)) (n + 1) tasks field st ?_
    intro t ht st'
    have := ih F (pts t).children st' (hd t ht)
    have he : F + (n + 1) + 3 = F + n + 4 := by omega
    rw [he]; exact this

/-- the entry point -/
theorem interpMaxFieldLen_eq (hS : S.OK) (F n : Nat) (tasks : List Nat) (field : Str)
    (hd : ∀ t ∈ tasks, DepthOK pts n t) (hF : n + 4 ≤ F) :
    interpMaxFieldLen S pts F tasks field =
      .ok (.atom (.num ((maxFieldLen (tsOf S pts) field (n + 1) tasks : Nat) : Rat))) := by
  obtain ⟨F, rfl⟩ : ∃ F', F = F' + n + 4 := ⟨F - (n + 4), by omega⟩
  have := max_field_len_spec pts noTheme hS field n F tasks st0 hd
  simp only [mfArgs] at this
  simp only [interpMaxFieldLen, interp, runProg]
  rw [this]; rfl

end Pj.PrintSrc
