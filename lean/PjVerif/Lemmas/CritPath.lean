/- Lemmas/CritPath.lean — helper lemmas for Props/C12.lean -/
import PjVerif.Spec.CritPath
import PjVerif.Lemmas.Rel
import PjVerif.Lemmas.Fuel
namespace Pj
open CPEnv

/-! ### lists of rationals -/

theorem foldl_max_ge_init (l : List Rat) (a : Rat) : a ≤ l.foldl max a := by
  induction l generalizing a with
  | nil => exact Rat.le_refl
  | cons x xs ih =>
    have := ih (max a x)
    simp only [List.foldl_cons]
    grind

theorem foldl_max_ge_mem (l : List Rat) (a : Rat) : ∀ x ∈ l, x ≤ l.foldl max a := by
  induction l generalizing a with
  | nil => intro x hx; cases hx
  | cons y ys ih =>
    intro x hx
    simp only [List.foldl_cons]
    rcases List.mem_cons.mp hx with rfl | hx
    · have := foldl_max_ge_init ys (max a x)
      grind
    · exact ih (max a y) x hx

theorem foldl_max_eq_or_mem (l : List Rat) (a : Rat) : l.foldl max a = a ∨ l.foldl max a ∈ l := by
  induction l generalizing a with
  | nil => exact Or.inl rfl
  | cons y ys ih =>
    simp only [List.foldl_cons]
    rcases ih (max a y) with h | h
    · rw [h]
      by_cases hay : a ≤ y
      · right
        have : max a y = y := by grind
        rw [this]; exact List.mem_cons_self
      · left; grind
    · exact Or.inr (List.mem_cons_of_mem _ h)

/-- the maximum of a non-empty list of non-negative numbers is attained -/
theorem foldl_max_zero_mem (l : List Rat) (hne : l ≠ []) (h0 : ∀ x ∈ l, 0 ≤ x) : l.foldl max 0 ∈ l := by
  rcases foldl_max_eq_or_mem l 0 with h | h
  · cases l with
    | nil => exact absurd rfl hne
    | cons y ys =>
      have h1 := foldl_max_ge_mem (y :: ys) 0 y List.mem_cons_self
      have h2 := h0 y List.mem_cons_self
      rw [h] at h1 ⊢
      have : y = 0 := by grind
      rw [← this]; exact List.mem_cons_self
  · exact h

theorem foldl_min_le_init (l : List Rat) (a : Rat) : l.foldl min a ≤ a := by
  induction l generalizing a with
  | nil => exact Rat.le_refl
  | cons x xs ih =>
    have := ih (min a x)
    simp only [List.foldl_cons]
    grind

theorem le_foldl_min (l : List Rat) (a c : Rat) (ha : c ≤ a) (hl : ∀ x ∈ l, c ≤ x) : c ≤ l.foldl min a := by
  induction l generalizing a with
  | nil => exact ha
  | cons x xs ih =>
    simp only [List.foldl_cons]
    refine ih (min a x) ?_ (fun y hy => hl y (List.mem_cons_of_mem _ hy))
    have := hl x List.mem_cons_self
    grind

/-- `max` over the reflected list is the reflection of `min` -/
theorem foldl_max_reflect (len : Rat) (l : List Rat) (c : Rat) :
    (l.map (fun x => len - x)).foldl max (len - c) = len - l.foldl min c := by
  induction l generalizing c with
  | nil => rfl
  | cons x xs ih =>
    simp only [List.map_cons, List.foldl_cons]
    have : max (len - c) (len - x) = len - min c x := by grind
    rw [this]
    exact ih (min c x)

/-! ### `mapM` in `Option` -/

theorem mapM_some_map {β γ δ : Type} (g : β → Option γ) (g' : β → Option δ) (h : γ → δ) (l : List β) (r : List γ)
    (hg : ∀ a ∈ l, ∀ b, g a = some b → g' a = some (h b))
    (hm : l.mapM g = some r) : l.mapM g' = some (r.map h) := by
  induction l generalizing r with
  | nil =>
    simp only [List.mapM_nil, pure, Option.some.injEq] at hm
    subst hm; simp
  | cons x xs ih =>
    obtain ⟨b, bs, hb, hbs, rfl⟩ := (mapM_some_cons g x xs r).mp hm
    exact (mapM_some_cons g' x xs _).mpr ⟨h b, bs.map h, hg x List.mem_cons_self b hb,
      ih bs (fun a ha => hg a (List.mem_cons_of_mem _ ha)) hbs, rfl⟩

theorem mapM_none_of_mem {β γ : Type} (g : β → Option γ) (l : List β) (a : β) (ha : a ∈ l) (hg : g a = none) :
    l.mapM g = none := by
  cases h : l.mapM g with
  | none => rfl
  | some r =>
    obtain ⟨b, _, hb⟩ := mapM_some_mem g l r h a ha
    rw [hg] at hb; cases hb

/-- a successful `mapM` that tags every element keeps the elements -/
theorem mapM_tag_fst {β γ : Type} (g : β → Option (β × γ)) (l : List β) (r : List (β × γ))
    (hg : ∀ a ∈ l, ∀ b, g a = some b → b.1 = a) (hm : l.mapM g = some r) : r.map (·.1) = l := by
  induction l generalizing r with
  | nil =>
    simp only [List.mapM_nil, pure, Option.some.injEq] at hm
    subst hm; rfl
  | cons x xs ih =>
    obtain ⟨b, bs, hb, hbs, rfl⟩ := (mapM_some_cons g x xs r).mp hm
    simp only [List.map_cons]
    rw [hg x List.mem_cons_self b hb, ih bs (fun a ha => hg a (List.mem_cons_of_mem _ ha)) hbs]

/-! ### the network -/

namespace CPEnv

theorem dur_nonneg (e : CPEnv) (t : Uid) : 0 ≤ e.dur t := by
  unfold dur
  simp only
  split
  · exact Rat.le_refl
  · grind

theorem mem_succsOf (e : CPEnv) (t s : Uid) : s ∈ succsOf e t ↔ s ∈ leaves e ∧ t ∈ prereqs e s := by
  unfold succsOf
  simp [List.mem_filter]

/-- more fuel does not change a successful forward pass -/
theorem efF_mono (e : CPEnv) (f : Nat) (t : Uid) (a : Rat) (h : efF e f t = some a) : efF e (f + 1) t = some a := by
  induction f generalizing t a with
  | zero => simp [efF] at h
  | succ f ih =>
    rw [efF] at h ⊢
    simp only [Option.map_eq_some_iff] at h ⊢
    obtain ⟨ll, hll, rfl⟩ := h
    exact ⟨ll, mapM_some_congr _ _ _ _ (fun c _ b hb => ih c b hb) hll, rfl⟩

theorem efF_mono_le (e : CPEnv) (f g : Nat) (hfg : f ≤ g) (t : Uid) (a : Rat) (h : efF e f t = some a) :
    efF e g t = some a := by
  induction g with
  | zero =>
    have : f = 0 := by omega
    subst this; exact h
  | succ g ih =>
    by_cases hfg' : f ≤ g
    · exact efF_mono e g t a (ih hfg')
    · have : f = g + 1 := by omega
      subst this; exact h

theorem efF_nonneg (e : CPEnv) (f : Nat) (t : Uid) (a : Rat) (h : efF e f t = some a) : 0 ≤ a := by
  cases f with
  | zero => simp [efF] at h
  | succ f =>
    rw [efF] at h
    simp only [Option.map_eq_some_iff] at h
    obtain ⟨ll, _, rfl⟩ := h
    have h1 := foldl_max_ge_init ll 0
    have h2 := dur_nonneg e t
    grind

/-- a leaf finishes no earlier than any of its prerequisites plus its own duration -/
theorem ef_step (e : CPEnv) (s t : Uid) (ht : t ∈ prereqs e s) (a b : Rat)
    (hs : ef e s = some a) (hb : ef e t = some b) : b + e.dur s ≤ a := by
  unfold ef at hs hb
  rw [efF] at hs
  simp only [Option.map_eq_some_iff] at hs
  obtain ⟨ll, hll, rfl⟩ := hs
  obtain ⟨b', hb', hg⟩ := mapM_some_mem _ _ _ hll t ht
  have := efF_mono e _ t b' hg
  rw [this] at hb
  have hbb : b' = b := Option.some.inj hb
  subst hbb
  have := foldl_max_ge_mem ll 0 b' hb'
  grind

/-- the project length is the (attained) maximum of the earliest finishes -/
theorem projectLen_spec (e : CPEnv) (len : Rat) (h : projectLen e = some len) :
    (∀ x ∈ leaves e, ∃ w, ef e x = some w ∧ w ≤ len) ∧
    (leaves e ≠ [] → ∃ t ∈ leaves e, ef e t = some len) := by
  unfold projectLen at h
  simp only [Option.map_eq_some_iff] at h
  obtain ⟨ll, hll, rfl⟩ := h
  constructor
  · intro x hx
    obtain ⟨b, hb, hg⟩ := mapM_some_mem _ _ _ hll x hx
    exact ⟨b, hg, foldl_max_ge_mem ll 0 b hb⟩
  · intro hne
    have hne' : ll ≠ [] := by
      intro hnil
      subst hnil
      cases hl : leaves e with
      | nil => exact hne hl
      | cons y ys =>
        rw [hl] at hll
        obtain ⟨b, bs, _, _, hh⟩ := (mapM_some_cons _ y ys _).mp hll
        cases hh
    have h0 : ∀ x ∈ ll, 0 ≤ x := by
      intro x hx
      obtain ⟨a, _, hg⟩ := mapM_some_mem_inv _ _ _ hll x hx
      exact efF_nonneg e _ a x hg
    obtain ⟨a, ha, hg⟩ := mapM_some_mem_inv _ _ _ hll _ (foldl_max_zero_mem ll hne' h0)
    exact ⟨a, ha, hg⟩

/-- unfolding of the backward pass -/
theorem lfF_succ_some (e : CPEnv) (len : Rat) (f : Nat) (t : Uid) (v : Rat) (h : lfF e len (f + 1) t = some v) :
    (succsOf e t = [] ∧ v = len) ∨
    ∃ s ss b bs, succsOf e t = s :: ss ∧
      (s :: ss).mapM (fun x => (lfF e len f x).map (fun l => l - e.dur x)) = some (b :: bs) ∧
      v = bs.foldl min b := by
  rw [lfF] at h
  split at h
  · next hnil => exact Or.inl ⟨hnil, (Option.some.inj h).symm⟩
  · next s ss hcons =>
    simp only [Option.map_eq_some_iff] at h
    obtain ⟨ll, hll, rfl⟩ := h
    obtain ⟨b, bs, _, _, rfl⟩ := (mapM_some_cons _ s ss ll).mp hll
    exact Or.inr ⟨s, ss, b, bs, hcons, hll, rfl⟩

/-- the latest finish never exceeds the project length -/
theorem lfF_le_len (e : CPEnv) (len : Rat) (f : Nat) (t : Uid) (v : Rat) (h : lfF e len f t = some v) : v ≤ len := by
  induction f generalizing t v with
  | zero => simp [lfF] at h
  | succ f ih =>
    rcases lfF_succ_some e len f t v h with ⟨_, rfl⟩ | ⟨s, ss, b, bs, _, hll, rfl⟩
    · exact Rat.le_refl
    · obtain ⟨b0, bs0, hb0, _, hh⟩ := (mapM_some_cons _ s ss _).mp hll
      cases hh
      simp only [Option.map_eq_some_iff] at hb0
      obtain ⟨l0, hl0, rfl⟩ := hb0
      have h1 := ih s l0 hl0
      have h2 := foldl_min_le_init bs (l0 - e.dur s)
      have h3 := dur_nonneg e s
      grind

/-- backward pass and longest tail are mirror images: `lf = len - tail` -/
theorem tailF_of_lfF (e : CPEnv) (len : Rat) (f : Nat) (t : Uid) (v : Rat) (h : lfF e len f t = some v) :
    tailF e f t = some (len - v) := by
  induction f generalizing t v with
  | zero => simp [lfF] at h
  | succ f ih =>
    rw [tailF]
    rcases lfF_succ_some e len f t v h with ⟨hnil, rfl⟩ | ⟨s, ss, b, bs, hcons, hll, rfl⟩
    · rw [hnil]
      simp only [List.mapM_nil, pure, Option.map_some, List.foldl_nil, Option.some.injEq]
      grind
    · rw [hcons]
      have hm := mapM_some_map (fun x => (lfF e len f x).map (fun l => l - e.dur x))
        (fun s => (tailF e f s).map (fun x => x + e.dur s)) (fun x => len - x) (s :: ss) (b :: bs) ?_ hll
      · rw [hm]
        simp only [Option.map_some, List.map_cons, List.foldl_cons, Option.some.injEq]
        have hb : b ≤ len := by
          obtain ⟨b0, bs0, hb0, _, hh⟩ := (mapM_some_cons _ s ss _).mp hll
          cases hh
          simp only [Option.map_eq_some_iff] at hb0
          obtain ⟨l0, hl0, rfl⟩ := hb0
          have h1 := lfF_le_len e len f s l0 hl0
          have h3 := dur_nonneg e s
          grind
        have : max 0 (len - b) = len - b := by grind
        rw [this]
        exact foldl_max_reflect len bs b
      · intro a _ b' hb'
        simp only [Option.map_eq_some_iff] at hb' ⊢
        obtain ⟨l0, hl0, rfl⟩ := hb'
        exact ⟨len - l0, ih a l0 hl0, by grind⟩

/-- the latest finish of a leaf is not before its earliest finish -/
theorem ef_le_lfF (e : CPEnv) (len : Rat) (hlen : ∀ x ∈ leaves e, ∃ w, ef e x = some w ∧ w ≤ len)
    (f : Nat) (t : Uid) (ht : t ∈ leaves e) (v : Rat) (h : lfF e len f t = some v)
    (w : Rat) (hw : ef e t = some w) : w ≤ v := by
  induction f generalizing t v w with
  | zero => simp [lfF] at h
  | succ f ih =>
    rcases lfF_succ_some e len f t v h with ⟨_, rfl⟩ | ⟨s, ss, b, bs, hcons, hll, rfl⟩
    · obtain ⟨w', hw', hle⟩ := hlen t ht
      rw [hw] at hw'; cases Option.some.inj hw'
      exact hle
    · have key : ∀ x ∈ b :: bs, w ≤ x := by
        intro x hx
        obtain ⟨a, ha, hg⟩ := mapM_some_mem_inv _ _ _ hll x hx
        simp only [Option.map_eq_some_iff] at hg
        obtain ⟨l0, hl0, rfl⟩ := hg
        rw [← hcons] at ha
        obtain ⟨hal, hta⟩ := (mem_succsOf e t a).mp ha
        obtain ⟨wa, hwa, _⟩ := hlen a hal
        have h1 := ih a hal l0 hl0 wa hwa
        have h2 := ef_step e a t hta wa w hwa hw
        grind
      exact le_foldl_min bs b w (key b List.mem_cons_self) (fun x hx => key x (List.mem_cons_of_mem _ hx))

/-- totality of the backward pass: if the forward pass of `t` fails with every fuel `≤ k`, and every leaf passes
    forward with some fuel `≤ k + f`, then the backward pass from `t` succeeds with fuel `f` (a failing backward
    walk of `f` steps would end at a leaf whose forward pass needs fuel `> k + f`) -/
theorem lfF_total_aux (e : CPEnv) (len : Rat) (f k : Nat) (t : Uid) (ht : t ∈ leaves e)
    (hk : ∀ g, g ≤ k → efF e g t = none)
    (hall : ∀ x ∈ leaves e, ∃ g, g ≤ k + f ∧ efF e g x ≠ none) : ∃ v, lfF e len f t = some v := by
  induction f generalizing k t with
  | zero =>
    obtain ⟨g, hg, hne⟩ := hall t ht
    exact absurd (hk g hg) hne
  | succ f ih =>
    rw [lfF]
    split
    · exact ⟨len, rfl⟩
    · next s ss hcons =>
      have hm : ∃ r, (s :: ss).mapM (fun x => (lfF e len f x).map (fun l => l - e.dur x)) = some r := by
        refine mapM_total _ _ ?_
        intro a ha
        rw [← hcons] at ha
        obtain ⟨hal, hta⟩ := (mem_succsOf e t a).mp ha
        have hk' : ∀ g, g ≤ k + 1 → efF e g a = none := by
          intro g hg
          cases g with
          | zero => rfl
          | succ g =>
            rw [efF, mapM_none_of_mem (efF e g) (prereqs e a) t hta (hk g (by omega))]
            rfl
        obtain ⟨v, hv⟩ := ih (k + 1) a hal hk' (fun x hx => by
          obtain ⟨g, hg, hne⟩ := hall x hx
          exact ⟨g, by omega, hne⟩)
        exact ⟨v - e.dur a, by rw [hv]; rfl⟩
      obtain ⟨r, hr⟩ := hm
      exact ⟨_, by rw [hr]; rfl⟩

theorem lfF_total (e : CPEnv) (len : Rat) (ha : acyclicB e = true) (t : Uid) (ht : t ∈ leaves e) :
    ∃ v, lfF e len (e.n + 1) t = some v := by
  refine lfF_total_aux e len (e.n + 1) 0 t ht ?_ ?_
  · intro g hg
    have : g = 0 := by omega
    subst this; rfl
  · intro x hx
    unfold acyclicB at ha
    have := List.all_eq_true.mp ha x hx
    refine ⟨e.n + 1, by omega, ?_⟩
    intro hnone
    unfold ef at this
    rw [hnone] at this
    cases this

end CPEnv
end Pj
