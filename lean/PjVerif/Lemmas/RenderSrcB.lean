/-
  Lemmas/RenderSrcB.lean — stage 3 of the translated tie for the Mermaid renderers (general theorems): the Gantt source.
  `MermaidGantt.__mermaid_task_state` = `stateOf`, `MermaidGantt.__mermaid_task` = `ganttLine`, for every task description,
  clock and string library.  (`MermaidGantt.__src`: the kernel-checked runs of RenderSrcCheckB.lean only.)
  The summary of the results and the NEGATIVE CHECK are the comment block at the end.  See Lemmas/RenderSrc.lean.
-/
import PjVerif.Lemmas.RenderSrcA
namespace Pj.RenderSrc
open Pj.PyLite Pj.Render Pj.Extracted.Render
open Pj.PrintSrc (Lib lookupA refsA one D_s text_s pyEq_s)
open Pj.TaskSrc (callPV_eq execBlockP_cons execBlockP_nil execP_forIn noRec)
set_option linter.unusedSimpArgs false
set_option linter.unusedVariables false

variable (S : Lib) (V : View) (pts : Nat → RTask)

theorem lit_ms (st : PState) : renderPrim S V pts "lit:milestone," [] st = .ok (.atom (S.s (lit "milestone,"))) := by litr
theorem lit_done (st : PState) : renderPrim S V pts "lit:done," [] st = .ok (.atom (S.s (lit "done,"))) := by litr
theorem lit_active (st : PState) : renderPrim S V pts "lit:active," [] st = .ok (.atom (S.s (lit "active,"))) := by litr
theorem lit_four (st : PState) : renderPrim S V pts "lit:    " [] st = .ok (.atom (S.s (lit "    "))) := by litr
theorem lit_colon (st : PState) : renderPrim S V pts "lit::" [] st = .ok (.atom (S.s [':'])) := by litr
theorem lit_colsp (st : PState) : renderPrim S V pts "lit:: " [] st = .ok (.atom (S.s (lit ": "))) := by litr
theorem lit_idu (st : PState) : renderPrim S V pts "lit:id_" [] st = .ok (.atom (S.s (lit "id_"))) := by litr
theorem lit_comma (st : PState) : renderPrim S V pts "lit:, " [] st = .ok (.atom (S.s (lit ", "))) := by litr

theorem prim_now (st : PState) : renderPrim S V pts "datetime.now" [] st = .ok (.atom (.time V.now)) := by primr
theorem prim_ms (t : Nat) (st : PState) : renderPrim S V pts "milestone" [.ref t] st = .ok (.atom (.bool (pts t).milestone)) := by primr
theorem prim_start (t : Nat) (st : PState) : renderPrim S V pts "start" [.ref t] st = .ok (.atom (.time (pts t).start)) := by primr
theorem prim_end (t : Nat) (st : PState) : renderPrim S V pts "end" [.ref t] st = .ok (.atom (.time (pts t).end_)) := by primr
theorem prim_strftime (t : Time) (st : PState) :
    renderPrim S V pts "strftime:%d.%m.%Y %H:%M" [.time t] st = .ok (.atom (S.s (S.fmt t))) := by primr

theorem lit_sp_id : lit " id_" = ' ' :: lit "id_" := by decide

variable {S}

/-! ### `__mermaid_task_state` -/

theorem pf_state : renderFuns fn_task_state = some (src_task_state_params, src_task_state) := rfl

theorem task_state_spec (F t : Nat) (st : PState) :
    (Hr S V pts (F + 1)).fnV fn_task_state [.atom (.ref t)] st = .ok (.atom (S.s (stateOf (toGTask S V (pts t)))), st) := by
  rw [rfnV_succ _ _ _ _ _ _ _ pf_state]
  by_cases h1 : (pts t).milestone = true
  · rpl [src_task_state_params, src_task_state, prim_now, prim_ms, prim_start, prim_end, lit_ms, lit_done, lit_active,
      stateOf, toGTask, h1]
  · have h1' : (pts t).milestone = false := by simpa using h1
    by_cases h2 : (pts t).end_ ≤ V.now
    · rpl [src_task_state_params, src_task_state, prim_now, prim_ms, prim_start, prim_end, lit_ms, lit_done, lit_active,
        stateOf, toGTask, h1', h2]
    · by_cases h3 : (pts t).start < V.now
      · rpl [src_task_state_params, src_task_state, prim_now, prim_ms, prim_start, prim_end, lit_ms, lit_done, lit_active,
          stateOf, toGTask, h1', h2, h3]
      · rpl [src_task_state_params, src_task_state, prim_now, prim_ms, prim_start, prim_end, lit_ms, lit_done, lit_active,
          stateOf, toGTask, h1', h2, h3]

/-! ### `__mermaid_task` -/

theorem pf_line : renderFuns fn_mermaid_task = some (src_mermaid_task_params, src_mermaid_task) := rfl

theorem gantt_line_spec (hS : S.OK) (F t : Nat) (st : PState) :
    (Hr S V pts (F + 2)).fnV fn_mermaid_task [.atom (.ref 0), .atom (.ref t)] st =
      .ok (.atom (S.s (ganttLine (toGTask S V (pts t)))), st) := by
  rw [rfnV_succ _ _ _ _ _ _ _ pf_line]
  have hst := task_state_spec (S := S) V pts F t st
  have hr := prim_replace' V pts hS (pts t).name [':'] [] rfl st
  rw [pyReplace_single, flatMap_del] at hr
  have e : (toGTask S V (pts t)).name = (pts t).name := rfl
  have e2 : (toGTask S V (pts t)).idText = S.text (pts t).id := rfl
  have e3 : (toGTask S V (pts t)).start = S.fmt (pts t).start := rfl
  have e4 : (toGTask S V (pts t)).end_ = S.fmt (pts t).end_ := rfl
  rpl [src_mermaid_task_params, src_mermaid_task, prim_start, prim_end, prim_strftime, lit_four, lit_colon, lit_colsp, lit_idu,
    lit_comma, hst, hr, prim_concat' V pts hS, text_s hS, ganttLine, e, e2, e3, e4, lit_sp_id, List.append_assoc]

/-- the entry points -/
theorem interpTaskState_eq (F t : Nat) (hF : 1 ≤ F) :
    interpTaskState S V pts F t = .ok (.atom (S.s (stateOf (toGTask S V (pts t))))) := by
  obtain ⟨F, rfl⟩ : ∃ F', F = F' + 1 := ⟨F - 1, by omega⟩
  have := task_state_spec (S := S) V pts F t st0
  simp only [interpTaskState, interp, runProg]
  rw [this]; rfl

theorem interpGanttLine_eq (hS : S.OK) (F t : Nat) (hF : 2 ≤ F) :
    interpGanttLine S V pts F t = .ok (.atom (S.s (ganttLine (toGTask S V (pts t))))) := by
  obtain ⟨F, rfl⟩ : ∃ F', F = F' + 2 := ⟨F - 2, by omega⟩
  have := gantt_line_spec V pts hS F t st0
  simp only [interpGanttLine, interp, runProg]
  rw [this]; rfl

/-
  RESULTS (axioms: propext, Classical.choice, Quot.sound; no change to Model/PyLite.lean).
  General theorems (every string library `S` with `S.OK`, every task description `pts`, view `V` (WBS members, title, flags,
  clock), state, fuel):
    label_spec          (Hr S V pts (F+1)).fnV fn_label [S.s name] st = ok (S.s (escLabel (name.filter (· ≠ '"'))), st)
    network_src_spec    (Hr S V pts (F+2)).fnV fn_network_src [ref 0] st = ok (S.s (networkSrc (nAll S V pts) V.tasks), st)
                        (labels, one edge per entry of the predecessor list - inside or outside the WBS, repetitions kept -,
                        a Start edge exactly for the tasks without predecessors, then the style lines)
    task_state_spec     (Hr S V pts (F+1)).fnV fn_task_state [ref t] st = ok (S.s (stateOf (toGTask S V (pts t))), st)   (no S.OK)
    gantt_line_spec     (Hr S V pts (F+2)).fnV fn_mermaid_task [ref 0, ref t] st = ok (S.s (ganttLine (toGTask S V (pts t))), st)
    interpLabel_eq (1 ≤ F), interpNetworkSrc_eq (2 ≤ F), interpTaskState_eq (1 ≤ F), interpGanttLine_eq (2 ≤ F): the entry points.
    pyReplace_single    `s.replace(c, new)` for a one-character `c` is the model's single pass; `flatMap_esc`: the two brace
                        replacements one after the other are `escLabel`.
  Kernel-checked runs only (RenderSrcCheck.lean, RenderSrcCheckB.lean; WBS `w1`, six views): `MermaidGantt.__src` =
  `ganttSrc` (title / no title / empty title, weekends, tick interval missing / empty, two and three sections with
  unsectioned tasks, one named section, '-' written out, no task), and all of the above on concrete inputs, with the exact
  texts.  Not done: the general theorem for `MermaidGantt.__src` (the dict of lists `sections_map` lives in boxes).
  Domain (Lemmas/RenderSrc.lean): `name` a str, `start` / `end` datetimes, `milestone` a bool, `gantt_section` any value
  (the model reads `str` of it: two values with the same text but different types are outside the model);
  `__dict_to_style`, `__styles`, `to_html` and the templates are not translated.
  Disagreements between the model and the translated source inside the model's domain: none found.

  NEGATIVE CHECK (scratch copies of network.py / gantt.py, translated by tools/extract_render.py; the five families of checks of
  the Check files evaluated on the mutant program: label, net, state, line, gantt):
    label escaping of one brace only (`}` kept)      label, net FAIL         quotes kept in labels                    label, net FAIL
    predecessors de-duplicated by id (dict comp.)    MISS                    edges taken from `t.successors`          MISS
    Start edge for every task                        net FAIL                `done` decided before the milestone flag state, line, gantt FAIL
    a single named section written as a section      gantt FAIL              dates formatted without minutes          line, gantt FAIL
      (`len(sections) == 0`)                                                   (the primitive "strftime:%d.%m.%Y %H" has no meaning)
    `active` decided by `<=`                         state, line, gantt FAIL colon kept in task names                 line, gantt FAIL
  (the mutants of `__label`, `__src` of the network, `__mermaid_task_state`, `__mermaid_task` also break `label_spec`,
  `network_src_spec`, `task_state_spec`, `gantt_line_spec`, whose proofs are about the unmutated term.)
  Harmless rewrites that still pass all five families: `res = res + f"…"` instead of `res += …`, `0 == len(t.predecessors)`,
  `f'id_{t.id}'` instead of `'id_' + str(t.id)`, an `elif` chain in `__mermaid_task_state` (the last three change the term:
  the general theorems have to be re-run / the shape lemmas re-stated).
-/

end Pj.RenderSrc
