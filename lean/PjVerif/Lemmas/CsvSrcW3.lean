/-
  Lemmas/CsvSrcW3.lean — CSV I/O, the WRITE side, part 3: `csvwriter.writerow`, the cells of a task row.
-/
import PjVerif.Lemmas.CsvSrcW2
namespace Pj.CsvSrc
open Pj.PyLite Pj.Extracted.Csv Pj.Csv

/-! ### `csvwriter.writerow(cells)` -/

theorem prim_writerow (L : IOLib) (st : PState) (cells : List Atom) (strs : List Str)
    (h : cells.mapM L.cell = .ok strs) :
    ioPrim L "csv.writerow" (strA [';'] :: cells) st = .ok (.atom (strA (encodeRow strs))) := by
  unfold ioPrim
  rw [if_neg (by decide +kernel), if_neg (by decide +kernel), if_neg (by decide +kernel), if_neg (by decide +kernel),
    if_neg (by decide +kernel), if_neg (by decide +kernel), if_neg (by decide +kernel), if_neg (by decide +kernel),
    if_neg (by decide +kernel), if_neg (by decide +kernel), if_neg (by decide +kernel), if_neg (by decide +kernel),
    if_neg (by decide +kernel), if_neg (by decide +kernel), if_neg (by decide +kernel), if_pos (by decide +kernel)]
  simp only [strA, strDecode_code]
  rw [if_pos (by rfl), h]; rfl

def writeStmt (cellsExpr : Expr) : Stmt :=
  .boxAppend (.listIndex (.var "csvwriter") (.num 0))
    (.prim "csv.writerow" (.listCons (.listIndex (.var "csvwriter") (.num 1)) cellsExpr))

theorem exec_writerow (L : IOLib) (F : Nat) (rec) (env : PyLite.Env) (st : PState) (b : Nat) (cellsExpr : Expr)
    (cells : List Atom) (strs : List Str) (vs : List Atom)
    (hcw : env.get? "csvwriter" = some (.list [.box b, strA [';']]))
    (hcells : cellsExpr.evalP (HH L F) [] env st = .ok (.list cells, st))
    (hstrs : cells.mapM L.cell = .ok strs) (hb : st.boxes[b]? = some vs) :
    (writeStmt cellsExpr).execP (HH L F) [] rec env st =
      .normal env { st with boxes := st.boxes.set b (vs ++ [strA (encodeRow strs)]) } := by
  have h0 : (Expr.listIndex (.var "csvwriter") (.num 0)).evalP (HH L F) [] env st = .ok (.atom (.box b), st) := by
    simp only [Expr.evalP, hcw, bind, Except.bind, pure, Except.pure]
    rw [show Atom.asInt? (.num 0) = some 0 from rfl]; rfl
  have h1 : (Expr.listIndex (.var "csvwriter") (.num 1)).evalP (HH L F) [] env st = .ok (.atom (strA [';']), st) := by
    simp only [Expr.evalP, hcw, bind, Except.bind, pure, Except.pure]
    rw [show Atom.asInt? (.num 1) = some 1 from rfl]; rfl
  have h2 := eval_prim (H := HH L F) (self := []) (name := "csv.writerow") (eval_cons h1 hcells)
    (by rw [HH_prim, prim_writerow L st cells strs hstrs])
  unfold writeStmt
  rw [Stmt.execP, h0]
  simp only [bind, Except.bind, h2, pure, Except.pure, hb, strA, Atom.isBox, Bool.false_eq_true, if_false]

/-! ### `__format_custom` on any store -/

def fmtA (L : IOLib) : Atom → Atom
  | .time t => strA (L.strftime t)
  | a => a

theorem format_custom_run (L : IOLib) (F : Nat) (a : Atom) (st : PState) (ha : cellOK a) :
    (HH L (F + 1)).fnV fn_format_custom [.atom a] st = .ok (.atom (fmtA L a), st) := by
  have hx := env1_get "_val" (.atom a)
  rw [HH_fnV L F fn_format_custom _ _ _ _ rfl]
  simp only [callPV, bindParamsV, pure, Except.pure, bind, Except.bind,
    src_format_custom, src_format_custom_params, execBlockP, Stmt.execP, Expr.evalP, hx, HH_prim, prim_isdt]
  cases a <;> first
    | exact False.elim ha
    | (simp only [truthP, pure, Except.pure, if_true, Bool.false_eq_true, if_false, execBlockP, Stmt.execP, Expr.evalP, hx,
        HH_prim, prim_lit_date, prim_strftime, bind, Except.bind, fmtA] <;> rfl)

/-! ### the slots of a raw object -/

section raw
variable (W : WbsD) (d : TaskD)
theorem rawEnv_id : (rawEnv W d).get? "id" = some (.atom (.num (d.id : Rat))) := by
  simp [rawEnv, rawBase, rawArgs, PyLite.Env.get?]
theorem rawEnv_name : (rawEnv W d).get? "name" = some (.atom (optStr d.name)) := by
  simp [rawEnv, rawBase, rawArgs, PyLite.Env.get?]
theorem rawEnv_resource : (rawEnv W d).get? "resource" = some (.atom (optStr d.resource)) := by
  simp [rawEnv, rawBase, rawArgs, PyLite.Env.get?]
theorem rawEnv_start : (rawEnv W d).get? "start" = some (.atom (optTime d.start)) := by
  simp [rawEnv, rawBase, rawArgs, PyLite.Env.get?]
theorem rawEnv_end : (rawEnv W d).get? "end" = some (.atom (optTime d.end_)) := by
  simp [rawEnv, rawBase, rawArgs, PyLite.Env.get?]
theorem rawEnv_milestone : (rawEnv W d).get? "milestone" = some (.atom (.bool d.milestone)) := by
  simp [rawEnv, rawBase, rawArgs, PyLite.Env.get?]
theorem rawEnv_estimate : (rawEnv W d).get? "estimate" = some (.atom (optNum d.estimate)) := by
  simp [rawEnv, rawBase, rawArgs, PyLite.Env.get?]
theorem rawEnv_spent : (rawEnv W d).get? "spent" = some (.atom (optNum d.spent)) := by
  simp [rawEnv, rawBase, rawArgs, PyLite.Env.get?]
theorem rawEnv_parent_id : (rawEnv W d).get? "parent_id" = some (.atom (parentIdA W d)) := by
  simp [rawEnv, rawBase, rawArgs, PyLite.Env.get?]
theorem rawEnv_predecessor_ids : (rawEnv W d).get? "predecessor_ids" = some (.list (d.preds.map (idA W))) := by
  simp [rawEnv, rawBase, rawArgs, PyLite.Env.get?]
theorem rawEnv_isTask : isTask (rawEnv W d) = false ↔ ∀ p ∈ d.custom, p.1 ≠ "__task__" := by
  simp [isTask, rawEnv, rawBase, rawArgs, envGet_append, PyLite.Env.get?, List.find?_eq_none]
end raw

/-! ### the cells of a task row -/

section cells
variable {H : PHandlers} {self : PyLite.Env}

theorem eval_isNotNone {e : Expr} {env : PyLite.Env} {st st' : PState} {v : Val}
    (he : e.evalP H self env st = .ok (v, st')) :
    (Expr.isNotNone e).evalP H self env st = .ok (.atom (.bool (!decide (v = .atom .none))), st') := by
  simp only [Expr.evalP, he, bind, Except.bind, pure, Except.pure]

end cells

def nameCellE (f : String) : Expr :=
  .ite (.prim "bool" (.listCons (.attr (.var "task") f) .listNil)) (.attr (.var "task") f) (.prim "lit:" .listNil)

def timeCellE (f : String) : Expr :=
  .ite (.isNotNone (.attr (.var "task") f)) (.prim "strftime" (.listCons (.attr (.var "task") f) (.listCons (.prim "lit:%d.%m.%y" .listNil) .listNil))) .none

def timeA (L : IOLib) : Option Time → Atom
  | none => .none
  | some t => strA (L.strftime t)

theorem eval_nameCell (L : IOLib) (F : Nat) (env : PyLite.Env) (st : PState) (r : Nat) (f : String) (x : Option Str)
    (ht : env.get? "task" = some (.atom (.ref r))) (hf : (st.heap r).get? f = some (.atom (optStr x))) :
    (nameCellE f).evalP (HH L F) [] env st = .ok (.atom (strA (orEmpty x)), st) := by
  have hat : (Expr.attr (.var "task") f).evalP (HH L F) [] env st = .ok (.atom (optStr x), st) :=
    eval_attr (eval_var ht) hf
  have hlit : (Expr.prim "lit:" .listNil).evalP (HH L F) [] env st = .ok (.atom (strA []), st) :=
    eval_prim eval_nil (by rw [HH_prim, prim_lit_empty])
  unfold nameCellE
  cases x with
  | none =>
    rw [eval_ite (t := false) (eval_prim (eval_cons hat eval_nil) (by rw [HH_prim, prim_bool]; rfl)) rfl]
    simpa [orEmpty] using hlit
  | some s =>
    by_cases hs : s = []
    · subst hs
      rw [eval_ite (t := false) (eval_prim (eval_cons hat eval_nil) (by rw [HH_prim, prim_bool]; rfl)) rfl]
      simpa [orEmpty] using hlit
    · have hne : ¬ strCode s = 0 := fun e => hs (strCode_eq_zero.1 e)
      rw [eval_ite (t := true) (eval_prim (v := .atom (.bool true)) (eval_cons hat eval_nil)
        (by rw [HH_prim, prim_bool]; simp [optStr, strA, hne])) rfl]
      simpa [orEmpty, optStr] using hat

theorem eval_timeCell (L : IOLib) (F : Nat) (env : PyLite.Env) (st : PState) (r : Nat) (f : String) (x : Option Time)
    (ht : env.get? "task" = some (.atom (.ref r))) (hf : (st.heap r).get? f = some (.atom (optTime x))) :
    (timeCellE f).evalP (HH L F) [] env st = .ok (.atom (timeA L x), st) := by
  have hat : (Expr.attr (.var "task") f).evalP (HH L F) [] env st = .ok (.atom (optTime x), st) :=
    eval_attr (eval_var ht) hf
  unfold timeCellE
  cases x with
  | none =>
    rw [eval_ite (t := false) (eval_isNotNone hat) (by simp [optTime, truthP]; rfl)]
    simp [Expr.evalP, timeA, pure, Except.pure]
  | some t =>
    rw [eval_ite (t := true) (eval_isNotNone hat) (by simp [optTime, truthP]; rfl)]
    simp only [if_true]
    exact eval_prim (eval_cons hat (eval_cons (eval_prim eval_nil (by rw [HH_prim, prim_lit_date])) eval_nil))
      (by rw [HH_prim]; exact prim_strftime L st t)

/-! the predecessor ids -/

theorem prim_str_num (L : IOLib) (st : PState) (q : Rat) :
    ioPrim L "str" [.num q] st = .ok (.atom (strA (L.strNum q))) := by
  unfold ioPrim
  rw [if_neg (by decide +kernel), if_neg (by decide +kernel), if_neg (by decide +kernel), if_neg (by decide +kernel),
    if_neg (by decide +kernel), if_neg (by decide +kernel), if_neg (by decide +kernel), if_pos (by decide +kernel)]
  rfl

theorem prim_str_str (L : IOLib) (st : PState) (k : Nat) :
    ioPrim L "str" [.str k] st = .ok (.atom (.str k)) := by
  unfold ioPrim
  rw [if_neg (by decide +kernel), if_neg (by decide +kernel), if_neg (by decide +kernel), if_neg (by decide +kernel),
    if_neg (by decide +kernel), if_neg (by decide +kernel), if_neg (by decide +kernel), if_pos (by decide +kernel)]
  rfl

theorem all_strA (f : Atom → Bool) (hf : ∀ s, f (strA s) = true) : ∀ ss : List Str, (ss.map strA).all f = true
  | [] => rfl
  | a :: ss => by rw [List.map_cons, List.all_cons, hf, all_strA f hf ss]; rfl

theorem map_strA {β} (f : Atom → β) (g : Str → β) (hf : ∀ s, f (strA s) = g s) (ss : List Str) :
    (ss.map strA).map f = ss.map g := by
  rw [List.map_map]; exact List.map_congr_left (fun s _ => hf s)

theorem prim_join (L : IOLib) (st : PState) (ss : List Str) :
    ioPrim L "join" (strA [';'] :: ss.map strA) st = .ok (.atom (strA (joinWith ';' ss))) := by
  unfold ioPrim
  rw [if_neg (by decide +kernel), if_neg (by decide +kernel), if_neg (by decide +kernel), if_neg (by decide +kernel),
    if_neg (by decide +kernel), if_pos (by decide +kernel)]
  simp only [strA, strDecode_code]
  rw [if_pos (all_strA _ (fun _ => rfl) ss), map_strA _ id (fun s => by simp [strA, strDecode_code]) ss, List.map_id]; rfl

def predsE : Expr :=
  .prim "join" (.listCons (.prim "lit:;" .listNil) (.listComp (.prim "str" (.listCons (.var "pid") .listNil)) "pid" (.attr (.var "task") "predecessor_ids") (.bool true)))

theorem idA_valid {W : WbsD} {p : Nat} (L : IOLib) (h : valid W p) :
    ∃ q : Rat, idA W p = .num q ∧ idStr L W p = L.strNum q := by
  obtain ⟨dp, h1, -, -⟩ := valid_task h
  exact ⟨(dp.id : Rat), by simp [idA, h1], by simp [idStr, h1]⟩

theorem preds_mapM (L : IOLib) (W : WbsD) : ∀ (ps : List Nat), (∀ p ∈ ps, valid W p) →
    (ps.map (idA W)).mapM (fun a => match a with
      | .num q => (Except.ok (strA (L.strNum q)) : Res Atom) | _ => .error stuck) =
      .ok ((ps.map (idStr L W)).map strA)
  | [], _ => rfl
  | p :: ps, hv => by
    obtain ⟨q, h1, h2⟩ := idA_valid L (hv p (List.mem_cons_self ..))
    rw [List.map_cons, mapM_cons_res, preds_mapM L W ps (fun x hx => hv x (List.mem_cons_of_mem _ hx)), h1]
    simp [h2]

theorem eval_preds (L : IOLib) (F : Nat) (W : WbsD) (env : PyLite.Env) (st : PState) (r : Nat) (ps : List Nat)
    (hv : ∀ p ∈ ps, valid W p) (ht : env.get? "task" = some (.atom (.ref r)))
    (hf : (st.heap r).get? "predecessor_ids" = some (.list (ps.map (idA W)))) :
    predsE.evalP (HH L F) [] env st = .ok (.atom (strA (joinWith ';' (ps.map (idStr L W)))), st) := by
  have hcomp : (Expr.listComp (.prim "str" (.listCons (.var "pid") .listNil)) "pid"
      (.attr (.var "task") "predecessor_ids") (.bool true)).evalP (HH L F) [] env st =
      .ok (.list ((ps.map (idStr L W)).map strA), st) := by
    rw [listComp_pure (HH L F) env _ _ "pid" st (ps.map (idA W))
      (fun a => match a with | .num q => .ok (strA (L.strNum q)) | _ => .error stuck) (eval_attr (eval_var ht) hf)]
    · rw [preds_mapM L W ps hv]; rfl
    · intro v hv'
      obtain ⟨p, hp, rfl⟩ := List.mem_map.1 hv'
      obtain ⟨q, h1, -⟩ := idA_valid L (hv p hp)
      rw [h1, eval_prim (eval_cons (eval_var (by rw [envGet_set, if_pos rfl])) eval_nil)
        (by rw [HH_prim, prim_str_num])]
      rfl
  exact eval_prim (eval_cons (eval_prim eval_nil (by rw [HH_prim, prim_lit_semi])) hcomp)
    (by rw [HH_prim, prim_join])

/-! the custom cells -/

def pickA (L : IOLib) (e : PyLite.Env) (k : String) : Atom :=
  match e.get? k with
  | some (.atom a) => fmtA L a
  | _ => .none

def customAtom (L : IOLib) (e : PyLite.Env) (k : String) : Atom :=
  if hasKey e k && !(['_'].isPrefixOf k.toList) then pickA L e k else strA []

def customElt : Expr :=
  .ite (.and (.isIn (.var "k") (.prim "__dict__" (.listCons (.var "task") .listNil))) (.not (.prim "startswith" (.listCons (.var "k") (.listCons (.prim "lit:_" .listNil) .listNil))))) (.callFn fn_format_custom (.listCons (.prim "__getattribute__" (.listCons (.var "task") (.listCons (.var "k") .listNil))) .listNil)) (.prim "lit:" .listNil)

def customE : Expr := .listComp customElt "k" (.var "field_list") (.bool true)

theorem eval_customElt (L : IOLib) (F : Nat) (env : PyLite.Env) (st : PState) (r : Nat) (k : String)
    (ht : env.get? "task" = some (.atom (.ref r))) (hk : env.get? "k" = some (.atom (nameA k)))
    (he : isTask (st.heap r) = false)
    (hok : hasKey (st.heap r) k = true → ['_'].isPrefixOf k.toList = false →
      ∃ a, (st.heap r).get? k = some (.atom a) ∧ cellOK a) :
    customElt.evalP (HH L (F + 1)) [] env st = .ok (.atom (customAtom L (st.heap r) k), st) := by
  have hin : (Expr.isIn (.var "k") (.prim "__dict__" (.listCons (.var "task") .listNil))).evalP (HH L (F + 1)) [] env st =
      .ok (.atom (.bool (hasKey (st.heap r) k)), st) := by
    rw [eval_isIn (eval_var hk) (eval_prim (eval_cons (eval_var ht) eval_nil) (by rw [HH_prim, prim_dict])),
      names_any _ k he]
  have hsw : (Expr.prim "startswith" (.listCons (.var "k") (.listCons (.prim "lit:_" .listNil) .listNil))).evalP
      (HH L (F + 1)) [] env st = .ok (.atom (.bool (['_'].isPrefixOf k.toList)), st) :=
    eval_prim (eval_cons (eval_var hk) (eval_cons (eval_prim eval_nil (by rw [HH_prim, prim_lit_us])) eval_nil))
      (by rw [HH_prim, nameA, prim_startswith])
  have hlit : (Expr.prim "lit:" .listNil).evalP (HH L (F + 1)) [] env st = .ok (.atom (strA []), st) :=
    eval_prim eval_nil (by rw [HH_prim, prim_lit_empty])
  unfold customElt
  cases hh : hasKey (st.heap r) k with
  | false =>
    rw [hh] at hin
    rw [eval_ite (t := false) (x := .atom (.bool false)) (st' := st) ((eval_and hin rfl).trans (by simp)) rfl]
    simpa [customAtom, hh] using hlit
  | true =>
    rw [hh] at hin
    cases hp : ['_'].isPrefixOf k.toList with
    | true =>
      rw [hp] at hsw
      rw [eval_ite (t := false) ((eval_and hin rfl).trans (by simp only [if_true]; exact eval_not hsw rfl)) rfl]
      simpa [customAtom, hh, hp] using hlit
    | false =>
      rw [hp] at hsw
      obtain ⟨a, ha1, ha2⟩ := hok hh hp
      have hga : (Expr.prim "__getattribute__" (.listCons (.var "task") (.listCons (.var "k") .listNil))).evalP
          (HH L (F + 1)) [] env st = .ok (.atom a, st) :=
        eval_prim (eval_cons (eval_var ht) (eval_cons (eval_var hk) eval_nil)) (by rw [HH_prim, prim_getattr, ha1])
      rw [eval_ite (t := true) ((eval_and hin rfl).trans (by simp only [if_true]; exact eval_not hsw rfl)) rfl]
      simp only [if_true]
      rw [eval_callFn (evalArgs_cons hga evalArgs_nil), format_custom_run L F a st ha2]
      simp [customAtom, pickA, hh, hp, ha1]

theorem eval_customE (L : IOLib) (F : Nat) (env : PyLite.Env) (st : PState) (r : Nat) (cols : List Str)
    (ht : env.get? "task" = some (.atom (.ref r))) (hfl : env.get? "field_list" = some (.list (cols.map strA)))
    (he : isTask (st.heap r) = false)
    (hok : ∀ col ∈ cols, hasKey (st.heap r) (String.ofList col) = true → ['_'].isPrefixOf col = false →
      ∃ a, (st.heap r).get? (String.ofList col) = some (.atom a) ∧ cellOK a) :
    customE.evalP (HH L (F + 1)) [] env st =
      .ok (.list (cols.map (fun col => customAtom L (st.heap r) (String.ofList col))), st) := by
  unfold customE
  rw [listComp_pure (HH L (F + 1)) env _ _ "k" st (cols.map strA)
    (fun v => .ok (match v with
      | .str c => customAtom L (st.heap r) (String.ofList (strDecode c))
      | _ => .none)) (eval_var hfl)]
  · rw [mapM_ok, map_strA _ (fun col => customAtom L (st.heap r) (String.ofList col))
      (fun s => by simp [strA, strDecode_code])]
    rfl
  · intro v hv
    obtain ⟨col, hcol, rfl⟩ := List.mem_map.1 hv
    have hn : nameA (String.ofList col) = strA col := by simp [nameA, String.toList_ofList]
    rw [eval_customElt L F _ st r (String.ofList col) (by rw [envGet_set, if_neg (by decide)]; exact ht)
      (by rw [envGet_set, if_pos rfl, hn]) he
      (fun h1 h2 => hok col hcol h1 (by simpa [String.toList_ofList] using h2))]
    simp [strA, strDecode_code, Except.map]

end Pj.CsvSrc
