/-
  Lemmas/CritPathSrcNet.lean — the object store of alg/critical_path.py as a list of typed objects (`Obj`), its encoding
  as a PyLite heap (`encHeap`, `mkSt`), and the program of critical_path.py re-written over that store, function by
  function, in the `Option` monad (`none` = the run leaves the typed store or raises): `newNodeA`, `connectA`, `addWorkA`,
  `insertA`, `initA`, `forwardA`, `backwardA`, `calcA`, `cpA`.  Lemmas/CritPathSrcA.lean shows that the translated source
  computes what these functions compute (a statement-by-statement simulation); Lemmas/CritPathSrcB.lean /
  CritPathSrcC.lean relate them to Model/CritPath.lean.  See Lemmas/CritPathSrc.lean.
-/
import PjVerif.Lemmas.CritPathSrc
namespace Pj.CritPathSrc
open Pj.PyLite Pj.Extracted.CritPath

/-- an object of the module: a `_PNode`, a `_PLink`, the `CriticalPathCalculator` -/
inductive Obj
  | node (fw bw : List Nat) (su eu : Option Rat)      -- forward_links, backward_links, start_units, end_units
  | link (s e : Nat) (u : Rat)                        -- start, end, units
  | calc (nodes : List Nat) (links tasks : List (Atom × Atom)) (ed : Atom) (mem : List Atom)
                                                      -- __nodes, __links, __tasks, __end_date, __members
  deriving DecidableEq, Repr, Inhabited

/-- the objects allocated so far: the i-th is the object `ref (B + i)` -/
abbrev Store := List Obj

def refsN (l : List Nat) : Val := .list (l.map Atom.ref)

def encObj : Obj → PyLite.Env
  | .node fw bw su eu =>
    [("forward_links", refsN fw), ("backward_links", refsN bw), ("start_units", .atom (optNum su)),
     ("end_units", .atom (optNum eu))]
  | .link s e u => [("start", .atom (.ref s)), ("end", .atom (.ref e)), ("units", .atom (.num u))]
  | .calc nodes links tasks ed mem =>
    [("__nodes", refsN nodes), ("__links", .dict links), ("__tasks", .dict tasks), ("__end_date", .atom ed),
     ("__members", .list mem)]

section store
variable (B : Nat)

def getO (σ : Store) (a : Nat) : Option Obj := if a < B then none else σ[a - B]?

def setO (σ : Store) (a : Nat) (o : Obj) : Store := σ.set (a - B) o

/-- the heap: the objects of the store from the address `B` on, nothing elsewhere -/
def encHeap (σ : Store) : Nat → PyLite.Env := fun j =>
  match getO B σ j with
  | some o => encObj o
  | none => []

/-- the Python state of a run: the store, the allocation pointer behind it -/
def mkSt (σ : Store) : PState :=
  { L := [], heap := encHeap B σ, done := [], res := [], reads := B + σ.length, boxes := [] }

/-- one step of `max` / `min` on numbers, as Python takes it -/
def pyMaxR (a b : Rat) : Rat := if a < b then b else a
def pyMinR (a b : Rat) : Rat := if b < a then b else a

/-- `_PNode()` -/
def newPNode (σ : Store) : Nat × Store := (B + σ.length, σ ++ [.node [] [] none none])

/-- `_PLink(units, start, end)` -/
def newPLink (σ : Store) (u : Rat) (s e : Nat) : Nat × Store := (B + σ.length, σ ++ [.link s e u])

/-- `self.__new_node()` -/
def newNodeA (σ : Store) : Option (Nat × Store) :=
  let r := newPNode B σ
  match getO B r.2 B with
  | some (.calc nodes links tasks ed mem) => some (r.1, setO B r.2 B (.calc (nodes ++ [r.1]) links tasks ed mem))
  | _ => none

/-- `self.__connect(start, end, units)` -/
def connectA (σ : Store) (s e : Nat) (u : Rat) : Option (Nat × Store) :=
  let r := newPLink B σ u s e
  match getO B r.2 s with
  | some (.node fw bw su eu) =>
    let σ2 := setO B r.2 s (.node (fw ++ [r.1]) bw su eu)
    match getO B σ2 e with
    | some (.node fw' bw' su' eu') => some (r.1, setO B σ2 e (.node fw' (bw' ++ [r.1]) su' eu'))
    | _ => none
  | _ => none

/-- one round of the loop of `__add_work`: `link = self.__links[p]; self.__connect(link.end, start, 0)` -/
def addWorkStep (s : Nat) (σ : Store) (p : Atom) : Option Store :=
  match getO B σ B with
  | some (.calc _ links _ _ _) =>
    match Dict.get? links p with
    | some (.ref lp) =>
      match getO B σ lp with
      | some (.link _ ep _) => (connectA B σ ep s 0).map (·.2)
      | _ => none
    | _ => none
  | _ => none

/-- `self.__add_work(id, units, predecessors)` -/
def addWorkA (σ : Store) (id : Atom) (u : Rat) (preds : List Atom) : Option Store :=
  match newNodeA B σ with
  | none => none
  | some (s, σ1) =>
    match newNodeA B σ1 with
    | none => none
    | some (e, σ2) =>
      match connectA B σ2 s e u with
      | none => none
      | some (l, σ3) =>
        match getO B σ3 B with
        | some (.calc nodes links tasks ed mem) =>
          preds.foldlM (addWorkStep B s) (setO B σ3 B (.calc nodes (Dict.insert links id (.ref l)) tasks ed mem))
        | _ => none

end store

section insert
variable (e : CPEnv) (tid : Uid → Int) (B : Nat)

/-- the innermost loop body of `__insert_task`: the candidate `p` -/
def insertStep (rec : Store → Uid → Option Store) (acc : Store × List Atom) (p : Uid) : Option (Store × List Atom) :=
  match getO B acc.1 B with
  | some (.calc _ _ _ _ mem) =>
    if (e.children p).length = 0 ∧ mem.any (fun v => v.pyEq (.num ((p : Nat) : Rat))) = true ∧
        acc.2.any (fun v => v.pyEq (idA (tid p))) = false then
      (rec acc.1 p).map (fun σ' => (σ', acc.2 ++ [idA (tid p)]))
    else some acc
  | _ => none

/-- the loop over `[pred] + list(pred.all_children)` -/
def insertPred (rec : Store → Uid → Option Store) (acc : Store × List Atom) (pred : Uid) : Option (Store × List Atom) :=
  match descF e.children (e.n + 1) pred with
  | none => none
  | some d => (pred :: d).foldlM (insertStep e tid B rec) acc

/-- the loop over `owner.predecessors` -/
def insertOwner (rec : Store → Uid → Option Store) (acc : Store × List Atom) (owner : Uid) : Option (Store × List Atom) :=
  (e.preds owner).foldlM (insertPred e tid B rec) acc

/-- `self.__insert_task(task)` with at most `f` nested activations -/
def insertA : Nat → Store → Uid → Option Store
  | 0, _, _ => none
  | f + 1, σ, t =>
    if 0 < (e.children t).length then some σ
    else
      match getO B σ B with
      | some (.calc nodes links tasks ed mem) =>
        if (Dict.get? tasks (idA (tid t))).isSome then some σ
        else
          let σ1 := setO B σ B (.calc nodes links (Dict.insert tasks (idA (tid t)) (.ref t)) ed mem)
          match (t :: e.ancestors (e.n + 1) t).foldlM (insertOwner e tid B (insertA f)) (σ1, []) with
          | none => none
          | some (σ2, pids) => addWorkA B σ2 (idA (tid t)) (e.dur t) pids
      | _ => none

/-- `set([id(t) for t in tasks])` -/
def memOf (members : List Uid) : List Atom := pyDedup (members.map (fun u => Atom.num ((u : Nat) : Rat)))

/-- `CriticalPathCalculator(tasks, None)`: the store after `__init__` (the calculator is the object `ref B`) -/
def initA (f : Nat) : Option Store :=
  e.members.foldlM (fun σ t => insertA e tid B f σ t) [.calc [] [] [] .none (memOf e.members)]

end insert

section passes
variable (B : Nat)

/-- `node.start_units = v` / `node.end_units = v` -/
def setSU (σ : Store) (a : Nat) (v : Option Rat) : Option Store :=
  match getO B σ a with
  | some (.node fw bw _ eu) => some (setO B σ a (.node fw bw v eu))
  | _ => none

def setEU (σ : Store) (a : Nat) (v : Option Rat) : Option Store :=
  match getO B σ a with
  | some (.node fw bw su _) => some (setO B σ a (.node fw bw su v))
  | _ => none

/-- one round of the loop of `__forward` -/
def fwdStep (rec : Store → Nat → Option Store) (acc : Store × Rat) (l : Nat) : Option (Store × Rat) :=
  match getO B acc.1 l with
  | some (.link s _ _) =>
    match getO B acc.1 s with
    | some (.node _ _ su _) =>
      match (if su.isNone then rec acc.1 s else some acc.1) with
      | none => none
      | some σ' =>
        match getO B σ' l with
        | some (.link s' _ u') =>
          match getO B σ' s' with
          | some (.node _ _ (some v) _) => some (σ', pyMaxR acc.2 (v + u'))
          | _ => none
        | _ => none
    | _ => none
  | _ => none

/-- `self.__forward(node)` with at most `f` nested activations -/
def forwardA : Nat → Store → Nat → Option Store
  | 0, _, _ => none
  | f + 1, σ, a =>
    match getO B σ a with
    | some (.node _ bw su _) =>
      if su.isNone then
        match bw.foldlM (fwdStep B (forwardA f)) (σ, 0) with
        | none => none
        | some (σ', ms) => setSU B σ' a (some ms)
      else some σ
    | _ => none

/-- one round of the loop of `__backward` -/
def bwdStep (rec : Store → Nat → Option Store) (acc : Store × Option Rat) (l : Nat) : Option (Store × Option Rat) :=
  match getO B acc.1 l with
  | some (.link _ en _) =>
    match getO B acc.1 en with
    | some (.node _ _ _ eu) =>
      match (if eu.isNone then rec acc.1 en else some acc.1) with
      | none => none
      | some σ' =>
        match getO B σ' l with
        | some (.link _ en' u') =>
          match getO B σ' en' with
          | some (.node _ _ _ (some v)) =>
            some (σ', some (match acc.2 with | none => v - u' | some m => pyMinR m (v - u')))
          | _ => none
        | _ => none
    | _ => none
  | _ => none

/-- `self.__backward(node)` with at most `f` nested activations -/
def backwardA : Nat → Store → Nat → Option Store
  | 0, _, _ => none
  | f + 1, σ, a =>
    match getO B σ a with
    | some (.node fw _ _ eu) =>
      if eu.isNone then
        match fw.foldlM (bwdStep B (backwardA f)) (σ, none) with
        | none => none
        | some (σ', me) =>
          match me with
          | some m => setEU B σ' a (some m)
          | none =>
            match getO B σ' a with
            | some (.node _ _ su' _) => setEU B σ' a su'
            | _ => none
      else some σ
    | _ => none

/-- `len(n.backward_links) == 0` / `len(n.forward_links) == 0` -/
def noBw (σ : Store) (n : Nat) : Option Bool :=
  match getO B σ n with
  | some (.node _ bw _ _) => some (decide (bw.length = 0))
  | _ => none

def noFw (σ : Store) (n : Nat) : Option Bool :=
  match getO B σ n with
  | some (.node fw _ _ _) => some (decide (fw.length = 0))
  | _ => none

/-- `[n for n in l if c(n)]` -/
def filterO (c : Nat → Option Bool) : List Nat → Option (List Nat)
  | [] => some []
  | n :: l =>
    match c n with
    | none => none
    | some b => (filterO c l).map (fun r => if b then n :: r else r)

/-- the nodes of the calculator -/
def nodesOf (σ : Store) : Option (List Nat) :=
  match getO B σ B with
  | some (.calc nodes _ _ _ _) => some nodes
  | _ => none

/-- one round of the last loop of `calc`: the task of the link `links[k]` joins the result when its float passes the
    tolerance test -/
def resStep (en : Nat) (σ : Store) (res : List Atom) (k : Atom) : Option (List Atom) :=
  match getO B σ B with
  | some (.calc _ links tasks _ _) =>
    match Dict.get? links k with
    | some (.ref v) =>
      match getO B σ v with
      | some (.link s t u) =>
        match getO B σ t, getO B σ s, getO B σ en with
        | some (.node _ _ _ (some teu)), some (.node _ _ (some ssu) _), some (.node _ _ (some len) _) =>
          let r := teu - ssu - u
          if (if r < 0 then -r else r) ≤ (1 / 1000000000 : Rat) * pyMaxR 1 len then
            match Dict.get? tasks k with
            | some tk => some (res ++ [tk])
            | none => none
          else some res
        | _, _, _ => none
      | _ => none
    | _ => none
  | _ => none

/-- `self.calc()` (with `__end_date = None`) with at most `f` nested activations of the passes: the result -/
def calcA (f : Nat) (σ : Store) : Option (List Atom × Store) :=
  match getO B σ B with
  | some (.calc nodes _ _ _ _) =>
    match filterO (noBw B σ) nodes, filterO (noFw B σ) nodes with
    | some startNodes, some endNodes =>
      let b := newPNode B σ
      match setSU B b.2 b.1 (some 0) with
      | none => none
      | some σ1 =>
        match startNodes.foldlM (fun σ n => (connectA B σ b.1 n 0).map (·.2)) σ1 with
        | none => none
        | some σ2 =>
          let en := newPNode B σ2
          match endNodes.foldlM (fun σ n => (connectA B σ n en.1 0).map (·.2)) en.2 with
          | none => none
          | some σ3 =>
            match nodesOf B σ3 with
            | none => none
            | some nodes3 =>
              match (nodes3 ++ [en.1]).foldlM (forwardA B f) σ3 with
              | none => none
              | some σ4 =>
                match nodesOf B σ4 with
                | none => none
                | some nodes4 =>
                  match nodes4.foldlM (backwardA B f) σ4 with
                  | none => none
                  | some σ5 =>
                    match getO B σ5 B with
                    | some (.calc _ links _ ed _) =>
                      match (links.map (·.1)).foldlM (resStep B en.1 σ5) [] with
                      | none => none
                      | some res => if ed = .none then some (res, σ5) else none
                    | _ => none
    | _, _ => none
  | _ => none

end passes

/-- `CriticalPathCalculator(tasks, None).calc()` over the typed store -/
def cpA (e : CPEnv) (tid : Uid → Int) (B : Nat) (f : Nat) : Option (List Atom × Store) :=
  match initA e tid B f with
  | none => none
  | some σ => calcA B f σ

end Pj.CritPathSrc
