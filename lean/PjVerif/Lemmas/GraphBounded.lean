/-
  Lemmas/GraphBounded.lean — no operation creates objects: the universe size is constant and every uid stored
  in the state stays below it, provided the operation only names existing objects.
-/
import PjVerif.Spec.Graph
namespace Pj

theorem step_n (s : G) (op : Op) : (step s op).1.n = s.n := by
  sorry

theorem setParent_Bounded (s : G) (t : Uid) (p : Option Uid) (hb : Bounded s) (ht : t < s.n)
    (hp : ∀ q, p = some q → q < s.n) : Bounded (setParent s t p).1 := by
  sorry

theorem setChildren_Bounded (s : G) (h : Uid) (l : List Uid) (hb : Bounded s) (hh : h < s.n)
    (hl : ∀ v ∈ l, v < s.n) : Bounded (setChildren s h l).1 := by
  sorry

theorem setPreds_Bounded (s : G) (t : Uid) (l : List Uid) (hb : Bounded s) (ht : t < s.n)
    (hl : ∀ v ∈ l, v < s.n) : Bounded (setPreds s t l).1 := by
  sorry

theorem setSuccs_Bounded (s : G) (t : Uid) (l : List Uid) (hb : Bounded s) (ht : t < s.n)
    (hl : ∀ v ∈ l, v < s.n) : Bounded (setSuccs s t l).1 := by
  sorry

theorem step_Bounded (s : G) (op : Op) (hb : Bounded s) (hr : ∀ u ∈ op.allUids, u < s.n) :
    Bounded (step s op).1 := by
  sorry

theorem fresh_Bounded (n : Nat) (tid : Uid → Int) (hid : ∀ u, n ≤ u → tid u ≠ emptyId) :
    Bounded (fresh n tid) := by
  sorry

end Pj
