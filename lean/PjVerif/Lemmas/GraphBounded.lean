/-
  Lemmas/GraphBounded.lean — no operation creates objects: the universe size is constant and every uid stored
  in the state stays below it, provided the operation only names existing objects.
-/
import PjVerif.Spec.Graph
namespace Pj

/-! ### list helpers -/

private theorem mapM_some_inv' {β γ : Type} (g : β → Option γ) (l : List β) (r : List γ)
    (h : l.mapM g = some r) : ∀ b ∈ r, ∃ a ∈ l, g a = some b := by
  induction l generalizing r with
  | nil =>
    simp only [List.mapM_nil, pure, Option.some.injEq] at h
    subst h; intro b hb; cases hb
  | cons x xs ih =>
    simp only [List.mapM_cons, bind, pure, Option.bind_eq_some_iff, Option.some.injEq] at h
    obtain ⟨b, hb, bs, hbs, rfl⟩ := h
    intro b' hb'
    rcases List.mem_cons.mp hb' with rfl | hb'
    · exact ⟨x, List.mem_cons_self, hb⟩
    · obtain ⟨a, ha, hg⟩ := ih bs hbs b' hb'
      exact ⟨a, List.mem_cons_of_mem _ ha, hg⟩

private theorem descF_lt (next : Uid → List Uid) (n : Nat) (hn : ∀ u c, c ∈ next u → c < n)
    (f : Nat) (t : Uid) (l : List Uid) (h : descF next f t = some l) : ∀ x ∈ l, x < n := by
  induction f generalizing t l with
  | zero => simp [descF] at h
  | succ f ih =>
    intro x hx
    simp only [descF, Option.map_eq_some_iff] at h
    obtain ⟨ll, hll, rfl⟩ := h
    obtain ⟨b, hb, hxb⟩ := List.mem_flatten.mp hx
    obtain ⟨c, hc, hg⟩ := mapM_some_inv' _ _ _ hll b hb
    simp only [Option.map_eq_some_iff] at hg
    obtain ⟨r', hr', rfl⟩ := hg
    rcases List.mem_cons.mp hxb with rfl | hxr
    · exact hn _ _ hc
    · exact ih c r' hr' x hxr

private theorem subtreeF_lt (s : G) (hb : Bounded s) (f : Nat) (t : Uid) (ht : t < s.n) (l : List Uid)
    (h : subtreeF s.children f t = some l) : ∀ x ∈ l, x < s.n := by
  simp only [subtreeF, Option.map_eq_some_iff] at h
  obtain ⟨r, hr, rfl⟩ := h
  intro x hx
  rcases List.mem_cons.mp hx with rfl | hx
  · exact ht
  · exact descF_lt s.children s.n (fun u c hc => (hb.children u c hc).2) f t r hr x hx

/-! ### field updates -/

private theorem bounded_updChildren (s : G) (hb : Bounded s) (u : Uid) (l : List Uid) (hu : l ≠ [] → u < s.n)
    (hl : ∀ c ∈ l, c < s.n) : Bounded { s with children := upd s.children u l } := by
  refine ⟨hb.parent, ?_, hb.preds, hb.succs, hb.owner⟩
  intro v c hc
  simp only [upd] at hc
  split at hc
  · subst_vars
    exact ⟨hu (List.ne_nil_of_mem hc), hl c hc⟩
  · exact hb.children v c hc

private theorem bounded_updParent (s : G) (hb : Bounded s) (t : Uid) (p : Option Uid) (ht : t < s.n)
    (hp : ∀ q, p = some q → q < s.n) : Bounded { s with parent := upd s.parent t p } := by
  refine ⟨?_, hb.children, hb.preds, hb.succs, hb.owner⟩
  intro v c hc
  simp only [upd] at hc
  split at hc
  next hv =>
    rw [hv]
    exact ⟨ht, hp c hc⟩
  · exact hb.parent v c hc

private theorem setOwners_Bounded (s : G) (hb : Bounded s) (ts : List Uid) (w : Option Uid)
    (hw : ∀ x, w = some x → x < s.n ∧ ∀ u ∈ ts, u < s.n) : Bounded (setOwners s ts w) := by
  refine ⟨hb.parent, hb.children, hb.preds, hb.succs, ?_⟩
  intro u x hx
  simp only [setOwners] at hx
  by_cases hc : ts.contains u = true
  · rw [if_pos hc] at hx
    obtain ⟨h1, h2⟩ := hw x hx
    exact ⟨h2 u (by simpa using hc), h1⟩
  · rw [if_neg hc] at hx
    exact hb.owner u x hx

/-! ### the parent setter -/

private theorem detachOld_n (s : G) (t : Uid) : (detachOld s t).n = s.n := by
  unfold detachOld
  split
  · split <;> rfl
  · rfl

private theorem detachOld_Bounded (s : G) (t : Uid) (hb : Bounded s) : Bounded (detachOld s t) := by
  unfold detachOld
  split
  · split
    next q _ hc =>
      have hm : t ∈ s.children q := by simpa using hc
      exact bounded_updChildren s hb q _ (fun _ => (hb.children q t hm).1)
        (fun c hc => (hb.children q c (List.mem_of_mem_erase hc)).2)
    · exact hb
  · exact hb

private theorem mutParentSome_n (s : G) (t p : Uid) : (mutParentSome s t p).1.n = s.n := by
  unfold mutParentSome
  split
  · rfl
  · simp only
    split <;> split <;> simp [setOwners, detachOld_n]

private theorem mutParentSome_Bounded (s : G) (t p : Uid) (hb : Bounded s) (ht : t < s.n) (hp : p < s.n) :
    Bounded (mutParentSome s t p).1 := by
  unfold mutParentSome
  split
  · exact hb
  next sub hsub =>
    have hsubn := subtreeF_lt s hb _ t ht sub hsub
    have h1 : Bounded (detachOld s t) := detachOld_Bounded s t hb
    have h2 : Bounded { detachOld s t with parent := upd (detachOld s t).parent t (some p) } :=
      bounded_updParent _ h1 t (some p) (by rw [detachOld_n]; exact ht)
        (by intro q hq; cases hq; rw [detachOld_n]; exact hp)
    have h3 : ∀ s3 : G, Bounded s3 → s3.n = s.n →
        Bounded (if (s3.children p).contains t then s3
          else { s3 with children := upd s3.children p (s3.children p ++ [t]) }) := by
      intro s3 hb3 hn3
      split
      · exact hb3
      · refine bounded_updChildren s3 hb3 p _ (fun _ => by rw [hn3]; exact hp) ?_
        intro c hc
        rcases List.mem_append.mp hc with hc | hc
        · exact (hb3.children p c hc).2
        · simp only [List.mem_singleton] at hc
          subst hc; rw [hn3]; exact ht
    simp only
    split
    · exact h3 _ h2 (detachOld_n s t)
    next w hw =>
      refine h3 _ (setOwners_Bounded _ h2 sub (some w) ?_) (by simp [setOwners, detachOld_n])
      intro x hx
      cases hx
      refine ⟨(h2.owner p w hw).2, ?_⟩
      intro u hu
      show u < (detachOld s t).n
      rw [detachOld_n]; exact hsubn u hu

private theorem setParentSome_n (s : G) (t p : Uid) : (setParentSome s t p).1.n = s.n := by
  unfold setParentSome
  split
  · rfl
  · exact mutParentSome_n s t p

private theorem setParentSome_Bounded (s : G) (t p : Uid) (hb : Bounded s) (ht : t < s.n) (hp : p < s.n) :
    Bounded (setParentSome s t p).1 := by
  unfold setParentSome
  split
  · exact hb
  · exact mutParentSome_Bounded s t p hb ht hp

private theorem setParentNone_n (s : G) (t : Uid) : (setParentNone s t).1.n = s.n := by
  unfold setParentNone
  split
  · exact setParentSome_n s t _
  · simp [detachOld_n]

private theorem setParentNone_Bounded (s : G) (t : Uid) (hb : Bounded s) (ht : t < s.n) :
    Bounded (setParentNone s t).1 := by
  unfold setParentNone
  split
  next w hw => exact setParentSome_Bounded s t w hb ht (hb.owner t w hw).2
  · exact bounded_updParent _ (detachOld_Bounded s t hb) t none (by rw [detachOld_n]; exact ht)
      (by intro q hq; cases hq)

theorem setParent_n (s : G) (t : Uid) (p : Option Uid) : (setParent s t p).1.n = s.n := by
  unfold setParent
  split
  · exact setParentSome_n s t _
  · exact setParentNone_n s t

theorem setParent_Bounded (s : G) (t : Uid) (p : Option Uid) (hb : Bounded s) (ht : t < s.n)
    (hp : ∀ q, p = some q → q < s.n) : Bounded (setParent s t p).1 := by
  unfold setParent
  split
  next q => exact setParentSome_Bounded s t q hb ht (hp q rfl)
  · exact setParentNone_Bounded s t hb ht

/-! ### the children setter -/

private theorem releaseChildren_n (s : G) (h : Uid) (l : List Uid) : (releaseChildren s h l).1.n = s.n := by
  unfold releaseChildren
  simp only
  split <;> simp [setOwners]

private theorem releaseChildren_Bounded (s : G) (h : Uid) (l : List Uid) (hb : Bounded s) :
    Bounded (releaseChildren s h l).1 := by
  unfold releaseChildren
  simp only
  split
  · exact hb
  next subs _ =>
    have h1 : Bounded { s with parent := fun x => if (s.children h).contains x then none else s.parent x } := by
      refine ⟨?_, hb.children, hb.preds, hb.succs, hb.owner⟩
      intro u p hp
      simp only at hp
      split at hp
      · cases hp
      · exact hb.parent u p hp
    have h2 := setOwners_Bounded _ h1 subs.flatten none (by intro x hx; cases hx)
    exact bounded_updChildren _ h2 h [] (fun hne => absurd rfl hne) (by intro c hc; cases hc)

private theorem foldSetParent_n (l : List Uid) (h : Uid) : ∀ s : G, (foldSetParent s l h).1.n = s.n := by
  induction l with
  | nil => intro s; rfl
  | cons v vs ih =>
    intro s
    unfold foldSetParent
    have hn := setParent_n s v (some h)
    split
    next s' e heq => rw [heq] at hn; exact hn
    next s' heq => rw [heq] at hn; rw [ih s']; exact hn

private theorem foldSetParent_Bounded (l : List Uid) (h : Uid) :
    ∀ s : G, Bounded s → h < s.n → (∀ v ∈ l, v < s.n) → Bounded (foldSetParent s l h).1 := by
  induction l with
  | nil => intro s hb _ _; exact hb
  | cons v vs ih =>
    intro s hb hh hl
    unfold foldSetParent
    have hn := setParent_n s v (some h)
    have hb' := setParent_Bounded s v (some h) hb (hl v List.mem_cons_self)
      (by intro q hq; cases hq; exact hh)
    split
    next s' e heq => rw [heq] at hb'; exact hb'
    next s' heq =>
      rw [heq] at hb' hn
      exact ih s' hb' (by rw [hn]; exact hh)
        (by intro u hu; rw [hn]; exact hl u (List.mem_cons_of_mem _ hu))

theorem setChildren_n (s : G) (h : Uid) (l : List Uid) : (setChildren s h l).1.n = s.n := by
  unfold setChildren
  split
  · rfl
  · have hn := releaseChildren_n s h l
    split
    next s1 e heq => rw [heq] at hn; exact hn
    next s1 heq => rw [heq] at hn; rw [foldSetParent_n]; exact hn

theorem setChildren_Bounded (s : G) (h : Uid) (l : List Uid) (hb : Bounded s) (hh : h < s.n)
    (hl : ∀ v ∈ l, v < s.n) : Bounded (setChildren s h l).1 := by
  unfold setChildren
  split
  · exact hb
  · have hn := releaseChildren_n s h l
    have hb' := releaseChildren_Bounded s h l hb
    split
    next s1 e heq => rw [heq] at hb'; exact hb'
    next s1 heq =>
      rw [heq] at hn hb'
      exact foldSetParent_Bounded l h s1 hb' (by rw [hn]; exact hh)
        (by intro v hv; rw [hn]; exact hl v hv)

/-! ### links -/

theorem setPreds_n (s : G) (t : Uid) (l : List Uid) : (setPreds s t l).1.n = s.n := by
  unfold setPreds
  split <;> simp [mutPreds]

theorem setSuccs_n (s : G) (t : Uid) (l : List Uid) : (setSuccs s t l).1.n = s.n := by
  unfold setSuccs
  split <;> simp [mutSuccs]

private theorem mem_link_upd (S : List Uid) (t v : Uid) (C : Prop) [Decidable C]
    (h : v ∈ if C then S ++ [t] else S) : v ∈ S ∨ (C ∧ v = t) := by
  split at h
  next hc =>
    rcases List.mem_append.mp h with h | h
    · exact Or.inl h
    · exact Or.inr ⟨hc, by simpa using h⟩
  · exact Or.inl h

private theorem mem_ite_filter (l : List Uid) (p : Uid → Bool) (c : Bool) (v : Uid)
    (h : v ∈ if c = true then l.filter p else l) : v ∈ l := by
  split at h
  · exact (List.mem_filter.mp h).1
  · exact h

private theorem mutPreds_Bounded (s : G) (t : Uid) (l : List Uid) (hb : Bounded s) (ht : t < s.n)
    (hl : ∀ v ∈ l, v < s.n) : Bounded (mutPreds s t l) := by
  refine ⟨hb.parent, hb.children, ?_, ?_, hb.owner⟩
  · intro u v hv
    simp only [mutPreds, upd] at hv
    split at hv
    · subst_vars; exact ⟨ht, hl v hv⟩
    · exact hb.preds u v hv
  · intro u v hv
    rcases mem_link_upd _ t v _ hv with h | ⟨hc, rfl⟩
    · exact hb.succs u v (mem_ite_filter _ _ _ v h)
    · exact ⟨hl u (by simpa using hc.1), ht⟩

private theorem mutSuccs_Bounded (s : G) (t : Uid) (l : List Uid) (hb : Bounded s) (ht : t < s.n)
    (hl : ∀ v ∈ l, v < s.n) : Bounded (mutSuccs s t l) := by
  refine ⟨hb.parent, hb.children, ?_, ?_, hb.owner⟩
  · intro u v hv
    rcases mem_link_upd _ t v _ hv with h | ⟨hc, rfl⟩
    · exact hb.preds u v (mem_ite_filter _ _ _ v h)
    · exact ⟨hl u (by simpa using hc.1), ht⟩
  · intro u v hv
    simp only [mutSuccs, upd] at hv
    split at hv
    · subst_vars; exact ⟨ht, hl v hv⟩
    · exact hb.succs u v hv

theorem setPreds_Bounded (s : G) (t : Uid) (l : List Uid) (hb : Bounded s) (ht : t < s.n)
    (hl : ∀ v ∈ l, v < s.n) : Bounded (setPreds s t l).1 := by
  unfold setPreds
  split
  · exact hb
  · exact mutPreds_Bounded s t l hb ht hl

theorem setSuccs_Bounded (s : G) (t : Uid) (l : List Uid) (hb : Bounded s) (ht : t < s.n)
    (hl : ∀ v ∈ l, v < s.n) : Bounded (setSuccs s t l).1 := by
  unfold setSuccs
  split
  · exact hb
  · exact mutSuccs_Bounded s t l hb ht hl

/-! ### list façades -/

private theorem mem_pyInsert (l : List Uid) (i : Int) (x c : Uid) (h : c ∈ pyInsert l i x) : c ∈ l ∨ c = x := by
  unfold pyInsert at h
  simp only [List.mem_append, List.mem_singleton] at h
  rcases h with (h | h) | h
  · exact Or.inl (List.mem_of_mem_take h)
  · exact Or.inr h
  · exact Or.inl (List.mem_of_mem_drop h)

private theorem mem_moveOne (l : List Uid) (task : Uid) (b a : Option Uid) (c : Uid)
    (h : c ∈ moveOne l task b a) : c ∈ l ∨ c = task := by
  unfold moveOne at h
  simp only at h
  split at h
  · simp only [List.mem_append, List.mem_singleton] at h
    rcases h with (h | h) | h
    · exact Or.inl (List.mem_of_mem_erase (List.mem_of_mem_take h))
    · exact Or.inr h
    · exact Or.inl (List.mem_of_mem_erase (List.mem_of_mem_drop h))
  · simp only [List.mem_append, List.mem_singleton] at h
    rcases h with (h | h) | h
    · exact Or.inl (List.mem_of_mem_erase (List.mem_of_mem_take h))
    · exact Or.inr h
    · exact Or.inl (List.mem_of_mem_erase (List.mem_of_mem_drop h))
  · exact Or.inl (List.mem_of_mem_erase h)

private theorem mem_foldl_moveOne (ts : List Uid) (b a : Option Uid) :
    ∀ (l : List Uid) (c : Uid), c ∈ ts.foldl (fun acc t => moveOne acc t b a) l → c ∈ l ∨ c ∈ ts := by
  induction ts with
  | nil => intro l c h; exact Or.inl h
  | cons t ts ih =>
    intro l c h
    simp only [List.foldl_cons] at h
    rcases ih _ c h with h | h
    · rcases mem_moveOne l t b a c h with h | h
      · exact Or.inl h
      · exact Or.inr (h ▸ List.mem_cons_self)
    · exact Or.inr (List.mem_cons_of_mem _ h)

private theorem mem_reorderLoop (s : G) (l : List Uid) (ids : List Int) :
    ∀ (new rest r : List Uid), reorderLoop s l ids new rest = .ok r → ∀ c ∈ r, c ∈ new ++ rest := by
  induction ids with
  | nil =>
    intro new rest r h c hc
    simp only [reorderLoop, pure, Except.pure, Except.ok.injEq] at h
    subst h; exact hc
  | cons i ids ih =>
    intro new rest r h c hc
    unfold reorderLoop at h
    split at h
    · cases h
    · split at h
      · have := ih _ _ r h c hc
        simp only [List.mem_append, List.mem_singleton] at this ⊢
        rcases this with (h1 | h1) | h1
        · exact Or.inl h1
        · subst h1; exact Or.inr (by simpa using ‹rest.contains _ = true›)
        · exact Or.inr (List.mem_of_mem_erase h1)
      · cases h

theorem chMove_n (s : G) (h : Uid) (ts : List Uid) (b a : Option Uid) : (chMove s h ts b a).1.n = s.n := by
  unfold chMove
  simp only
  repeat' split
  all_goals rfl

private theorem chMove_Bounded (s : G) (h : Uid) (ts : List Uid) (b a : Option Uid) (hb : Bounded s)
    (hh : h < s.n) (hts : ∀ v ∈ ts, v < s.n) : Bounded (chMove s h ts b a).1 := by
  unfold chMove
  simp only
  repeat' split
  all_goals first
    | exact hb
    | (refine bounded_updChildren s hb h _ (fun _ => hh) ?_
       intro c hc
       rcases mem_foldl_moveOne ts _ _ _ c hc with hc | hc
       · exact (hb.children h c hc).2
       · exact hts c hc)

theorem chSort_n (s : G) (h : Uid) (key : Uid → Int) (rev : Bool) : (chSort s h key rev).1.n = s.n := rfl

private theorem chSort_Bounded (s : G) (h : Uid) (key : Uid → Int) (rev : Bool) (hb : Bounded s) (hh : h < s.n) :
    Bounded (chSort s h key rev).1 := by
  unfold chSort
  refine bounded_updChildren s hb h _ (fun _ => hh) ?_
  intro c hc
  unfold sortBy at hc
  split at hc
  · exact (hb.children h c (List.mem_mergeSort.mp hc)).2
  · exact (hb.children h c (List.mem_mergeSort.mp hc)).2

theorem chReorder_n (s : G) (h : Uid) (ids : List Int) : (chReorder s h ids).1.n = s.n := by
  unfold chReorder
  split <;> rfl

private theorem chReorder_Bounded (s : G) (h : Uid) (ids : List Int) (hb : Bounded s) (hh : h < s.n) :
    Bounded (chReorder s h ids).1 := by
  unfold chReorder
  split
  · exact hb
  next l heq =>
    refine bounded_updChildren s hb h _ (fun _ => hh) ?_
    intro c hc
    have := mem_reorderLoop s _ ids _ _ l heq c hc
    simp only [List.nil_append] at this
    exact (hb.children h c this).2

theorem chRemove_n (s : G) (h t : Uid) : (chRemove s h t).1.n = s.n := by
  unfold chRemove
  split
  · exact setChildren_n s h _
  · rfl

/-- needs no range hypothesis: the operation only acts when `t` is listed under `h` -/
private theorem chRemove_Bounded (s : G) (h t : Uid) (hb : Bounded s) : Bounded (chRemove s h t).1 := by
  unfold chRemove
  split
  next hc =>
    have hm : t ∈ s.children h := by simpa using hc
    exact setChildren_Bounded s h _ hb (hb.children h t hm).1
      (fun v hv => (hb.children h v (List.mem_filter.mp hv).1).2)
  · exact hb

private theorem chInsert_Bounded (s : G) (h : Uid) (i : Int) (t : Uid) (hb : Bounded s) (hh : h < s.n)
    (ht : t < s.n) : Bounded (chInsert s h i t).1 := by
  unfold chInsert
  refine setChildren_Bounded s h _ hb hh ?_
  intro v hv
  rcases mem_pyInsert _ i t v hv with hv | hv
  · exact (hb.children h v (List.mem_filter.mp hv).1).2
  · subst hv; exact ht

/-! ### iteration -/

private theorem forEach_inv (P : G → Prop) (f : G → Uid → G × Option Err) (ts : List Uid) :
    ∀ s : G, P s → (∀ s t, t ∈ ts → P s → P (f s t).1) → P (forEach f s ts).1 := by
  induction ts with
  | nil => intro s hs _; exact hs
  | cons t ts ih =>
    intro s hs hf
    unfold forEach
    have h1 := hf s t List.mem_cons_self hs
    split
    next s' e heq => rw [heq] at h1; exact h1
    next s' heq =>
      rw [heq] at h1
      exact ih s' h1 (fun s t ht => hf s t (List.mem_cons_of_mem _ ht))

private theorem removeRec_inv (P : G → Prop) (t : Uid) (hP : ∀ s cur, P s → P (chRemove s cur t).1) :
    ∀ (f : Nat) (s : G) (cur : Uid) (r : G × Option Err × Bool), P s → removeRec t f s cur = some r → P r.1 := by
  intro f
  induction f with
  | zero => intro s cur r _ h; simp [removeRec] at h
  | succ f ih =>
    intro s cur r hs h
    rw [removeRec] at h
    split at h
    · simp only [Option.some.injEq] at h
      subst h
      exact hP s cur hs
    · have hgo : ∀ (cs : List Uid) (r : G × Option Err × Bool), removeRec.go t f s cs = some r → P r.1 := by
        intro cs
        induction cs with
        | nil =>
          intro r h
          rw [removeRec.go] at h
          simp only [Option.some.injEq] at h
          subst h; exact hs
        | cons c cs ihc =>
          intro r h
          rw [removeRec.go] at h
          split at h
          · cases h
          next s' e b heq =>
            simp only [Option.some.injEq] at h
            subst h
            exact ih s c _ hs heq
          next s' heq =>
            simp only [Option.some.injEq] at h
            subst h
            exact ih s c _ hs heq
          · exact ihc r h
      exact hgo _ r h

private theorem wbsRemove_inv (P : G → Prop) (t : Uid) (hP : ∀ s cur, P s → P (chRemove s cur t).1)
    (s : G) (w : Uid) (hs : P s) : P (wbsRemove s w t).1 := by
  unfold wbsRemove
  split
  · exact hs
  next s' e b heq => exact removeRec_inv P t hP _ s w _ hs heq

theorem wbsRemove_n (s : G) (w t : Uid) : (wbsRemove s w t).1.n = s.n :=
  wbsRemove_inv (fun s' => s'.n = s.n) t (fun s' cur h => by rw [chRemove_n]; exact h) s w rfl

private theorem wbsRemove_Bounded (s : G) (w t : Uid) (hb : Bounded s) : Bounded (wbsRemove s w t).1 :=
  wbsRemove_inv Bounded t (fun s' cur h => chRemove_Bounded s' cur t h) s w hb

/-! ### `step` -/

theorem step_n (s : G) (op : Op) : (step s op).1.n = s.n := by
  cases op with
  | setParent t p => exact setParent_n s t p
  | setChildren h l => exact setChildren_n s h l
  | chAppend h t => exact setParent_n s t (some h)
  | chRemove h t => exact chRemove_n s h t
  | chInsert h i t => exact setChildren_n s h _
  | chMove h ts b a => exact chMove_n s h ts b a
  | chSort h keys rev => rfl
  | chReorder h ids => exact chReorder_n s h ids
  | setPreds t l => exact setPreds_n s t l
  | setSuccs t l => exact setSuccs_n s t l
  | prAppend t x => exact setPreds_n s t _
  | prRemove t x =>
    show (prRemove s t x).1.n = s.n
    unfold prRemove; split
    · exact setPreds_n s t _
    · rfl
  | suAppend t x => exact setSuccs_n s t _
  | suRemove t x =>
    show (suRemove s t x).1.n = s.n
    unfold suRemove; split
    · exact setSuccs_n s t _
    · rfl
  | floordiv h l => exact setChildren_n s h _
  | lshift t l => exact setPreds_n s t _
  | rshift t l => exact setSuccs_n s t _
  | listLshift ts l =>
    exact forEach_inv (fun s' => s'.n = s.n) _ ts s rfl
      (fun s' t _ h => by show (setPreds s' t _).1.n = s.n; rw [setPreds_n]; exact h)
  | listRshift ts l =>
    exact forEach_inv (fun s' => s'.n = s.n) _ ts s rfl
      (fun s' t _ h => by show (setSuccs s' t _).1.n = s.n; rw [setSuccs_n]; exact h)
  | listSetParent ts p =>
    exact forEach_inv (fun s' => s'.n = s.n) _ ts s rfl
      (fun s' t _ h => by show (setParent s' t p).1.n = s.n; rw [setParent_n]; exact h)
  | wbsRemove w t => exact wbsRemove_n s w t
  | wbsRemoveAll w ts =>
    exact forEach_inv (fun s' => s'.n = s.n) _ ts s rfl
      (fun s' t _ h => by show (wbsRemove s' w t).1.n = s.n; rw [wbsRemove_n]; exact h)
  | chRemoveAll h ts =>
    exact forEach_inv (fun s' => s'.n = s.n) _ ts s rfl
      (fun s' t _ hn => by show (chRemove s' h t).1.n = s.n; rw [chRemove_n]; exact hn)

theorem step_Bounded (s : G) (op : Op) (hb : Bounded s) (hr : ∀ u ∈ op.allUids, u < s.n) :
    Bounded (step s op).1 := by
  cases op with
  | setParent t p =>
    simp only [Op.allUids, List.mem_cons, Option.mem_toList] at hr
    exact setParent_Bounded s t p hb (hr t (Or.inl rfl)) (fun q hq => hr q (Or.inr hq))
  | setChildren h l =>
    simp only [Op.allUids, List.mem_cons] at hr
    exact setChildren_Bounded s h l hb (hr h (Or.inl rfl)) (fun v hv => hr v (Or.inr hv))
  | chAppend h t =>
    simp only [Op.allUids, List.mem_cons, List.not_mem_nil, or_false] at hr
    exact setParent_Bounded s t (some h) hb (hr t (Or.inr rfl))
      (fun q hq => by cases hq; exact hr h (Or.inl rfl))
  | chRemove h t => exact chRemove_Bounded s h t hb
  | chInsert h i t =>
    simp only [Op.allUids, List.mem_cons, List.not_mem_nil, or_false] at hr
    exact chInsert_Bounded s h i t hb (hr h (Or.inl rfl)) (hr t (Or.inr rfl))
  | chMove h ts b a =>
    simp only [Op.allUids, List.cons_append, List.mem_cons, List.mem_append] at hr
    exact chMove_Bounded s h ts b a hb (hr h (Or.inl rfl)) (fun v hv => hr v (Or.inr (Or.inl (Or.inl hv))))
  | chSort h keys rev =>
    simp only [Op.allUids, List.mem_cons, List.not_mem_nil, or_false] at hr
    exact chSort_Bounded s h _ rev hb (hr h rfl)
  | chReorder h ids =>
    simp only [Op.allUids, List.mem_cons, List.not_mem_nil, or_false] at hr
    exact chReorder_Bounded s h ids hb (hr h rfl)
  | setPreds t l =>
    simp only [Op.allUids, List.mem_cons] at hr
    exact setPreds_Bounded s t l hb (hr t (Or.inl rfl)) (fun v hv => hr v (Or.inr hv))
  | setSuccs t l =>
    simp only [Op.allUids, List.mem_cons] at hr
    exact setSuccs_Bounded s t l hb (hr t (Or.inl rfl)) (fun v hv => hr v (Or.inr hv))
  | prAppend t x =>
    simp only [Op.allUids, List.mem_cons, List.not_mem_nil, or_false] at hr
    refine setPreds_Bounded s t _ hb (hr t (Or.inl rfl)) ?_
    intro v hv
    rcases List.mem_append.mp hv with hv | hv
    · exact (hb.preds t v hv).2
    · simp only [List.mem_singleton] at hv; subst hv; exact hr v (Or.inr rfl)
  | prRemove t x =>
    simp only [Op.allUids, List.mem_cons, List.not_mem_nil, or_false] at hr
    show Bounded (prRemove s t x).1
    unfold prRemove; split
    · exact setPreds_Bounded s t _ hb (hr t (Or.inl rfl))
        (fun v hv => (hb.preds t v (List.mem_filter.mp hv).1).2)
    · exact hb
  | suAppend t x =>
    simp only [Op.allUids, List.mem_cons, List.not_mem_nil, or_false] at hr
    refine setSuccs_Bounded s t _ hb (hr t (Or.inl rfl)) ?_
    intro v hv
    rcases List.mem_append.mp hv with hv | hv
    · exact (hb.succs t v hv).2
    · simp only [List.mem_singleton] at hv; subst hv; exact hr v (Or.inr rfl)
  | suRemove t x =>
    simp only [Op.allUids, List.mem_cons, List.not_mem_nil, or_false] at hr
    show Bounded (suRemove s t x).1
    unfold suRemove; split
    · exact setSuccs_Bounded s t _ hb (hr t (Or.inl rfl))
        (fun v hv => (hb.succs t v (List.mem_filter.mp hv).1).2)
    · exact hb
  | floordiv h l =>
    simp only [Op.allUids, List.mem_cons] at hr
    refine setChildren_Bounded s h _ hb (hr h (Or.inl rfl)) ?_
    intro v hv
    rcases List.mem_append.mp hv with hv | hv
    · exact (hb.children h v hv).2
    · exact hr v (Or.inr hv)
  | lshift t l =>
    simp only [Op.allUids, List.mem_cons] at hr
    refine setPreds_Bounded s t _ hb (hr t (Or.inl rfl)) ?_
    intro v hv
    rcases List.mem_append.mp hv with hv | hv
    · exact (hb.preds t v hv).2
    · exact hr v (Or.inr hv)
  | rshift t l =>
    simp only [Op.allUids, List.mem_cons] at hr
    refine setSuccs_Bounded s t _ hb (hr t (Or.inl rfl)) ?_
    intro v hv
    rcases List.mem_append.mp hv with hv | hv
    · exact (hb.succs t v hv).2
    · exact hr v (Or.inr hv)
  | listLshift ts l =>
    simp only [Op.allUids, List.mem_append] at hr
    refine (forEach_inv (fun s' => Bounded s' ∧ s'.n = s.n) _ ts s ⟨hb, rfl⟩ ?_).1
    intro s' t ht ⟨hb', hn'⟩
    refine ⟨?_, by show (setPreds s' t _).1.n = s.n; rw [setPreds_n]; exact hn'⟩
    refine setPreds_Bounded s' t _ hb' (by rw [hn']; exact hr t (Or.inl ht)) ?_
    intro v hv
    rcases List.mem_append.mp hv with hv | hv
    · exact (hb'.preds t v hv).2
    · rw [hn']; exact hr v (Or.inr hv)
  | listRshift ts l =>
    simp only [Op.allUids, List.mem_append] at hr
    refine (forEach_inv (fun s' => Bounded s' ∧ s'.n = s.n) _ ts s ⟨hb, rfl⟩ ?_).1
    intro s' t ht ⟨hb', hn'⟩
    refine ⟨?_, by show (setSuccs s' t _).1.n = s.n; rw [setSuccs_n]; exact hn'⟩
    refine setSuccs_Bounded s' t _ hb' (by rw [hn']; exact hr t (Or.inl ht)) ?_
    intro v hv
    rcases List.mem_append.mp hv with hv | hv
    · exact (hb'.succs t v hv).2
    · rw [hn']; exact hr v (Or.inr hv)
  | listSetParent ts p =>
    simp only [Op.allUids, List.mem_append, Option.mem_toList] at hr
    refine (forEach_inv (fun s' => Bounded s' ∧ s'.n = s.n) _ ts s ⟨hb, rfl⟩ ?_).1
    intro s' t ht ⟨hb', hn'⟩
    refine ⟨?_, by show (setParent s' t p).1.n = s.n; rw [setParent_n]; exact hn'⟩
    exact setParent_Bounded s' t p hb' (by rw [hn']; exact hr t (Or.inl ht))
      (fun q hq => by rw [hn']; exact hr q (Or.inr hq))
  | wbsRemove w t => exact wbsRemove_Bounded s w t hb
  | wbsRemoveAll w ts =>
    exact forEach_inv Bounded _ ts s hb (fun s' t _ h => wbsRemove_Bounded s' w t h)
  | chRemoveAll h ts =>
    exact forEach_inv Bounded _ ts s hb (fun s' t _ hb' => chRemove_Bounded s' h t hb')

theorem fresh_Bounded (n : Nat) (tid : Uid → Int) (hid : ∀ u, n ≤ u → tid u ≠ emptyId) :
    Bounded (fresh n tid) := by
  refine ⟨?_, ?_, ?_, ?_, ?_⟩
  · intro u p h; simp [fresh] at h
  · intro u c h; simp [fresh] at h
  · intro u c h; simp [fresh] at h
  · intro u c h; simp [fresh] at h
  · intro u w h
    simp only [fresh] at h
    split at h
    next hc =>
      cases h
      have : u < n := by
        apply Classical.byContradiction
        intro hlt
        exact hid u (Nat.le_of_not_lt hlt) (by simpa using hc)
      exact ⟨this, this⟩
    · cases h

end Pj
