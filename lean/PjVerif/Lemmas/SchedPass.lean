/-
  Lemmas/SchedPass.lean — structural facts about the recursive passes: what one placement and one pass may change
  ("extension" of the pass state), and the ledger invariant that every reservation respects (C03).
-/
import PjVerif.Lemmas.SchedFill
import PjVerif.Spec.Sched
namespace Pj

/-- `σ'` extends `σ`: tasks are only ever added to `done` (each once), the fields of a task change only while it
    is being placed and are frozen afterwards, rows and resource-table entries are only appended, and every new
    row belongs to a task that became done in between -/
structure Ext (σ σ' : SS) : Prop where
  done : ∃ l, σ'.done = σ.done ++ l ∧ (∀ x ∈ l, x ∉ σ.done) ∧ l.Nodup
  frozen : ∀ x, x ∈ σ.done → σ'.f x = σ.f x
  untouched : ∀ x, x ∉ σ'.done → σ'.f x = σ.f x
  rows : ∃ r, σ'.rows = σ.rows ++ r ∧ ∀ x ∈ r, x.task ∈ σ'.done ∧ x.task ∉ σ.done
  res : ∃ r, σ'.res = σ.res ++ r ∧ ∀ p ∈ r, ∀ q ∈ σ.res, q.1 ≠ p.1
  reads : σ.reads ≤ σ'.reads

theorem Ext.refl (σ : SS) : Ext σ σ := by
  sorry

theorem Ext.trans {σ σ' σ'' : SS} (h1 : Ext σ σ') (h2 : Ext σ' σ'') : Ext σ σ'' := by
  sorry

theorem fwdPlace_ext (env : Env) (σ σ' : SS) (t : Uid) (m : Time) (ht : t ∉ σ.done)
    (h : fwdPlace env σ t m = .ok σ') : Ext σ σ' ∧ σ'.done = σ.done ++ [t] := by
  sorry

theorem bwdPlace_ext (env : Env) (σ σ' : SS) (t : Uid) (m m' : Time) (ht : t ∉ σ.done)
    (h : bwdPlace env σ t m m' = .ok σ') : Ext σ σ' ∧ σ'.done = σ.done ++ [t] := by
  sorry

theorem passList_ext (step : SS → Uid → Res SS) (hstep : ∀ σ x σ', step σ x = .ok σ' → Ext σ σ') :
    ∀ (xs : List Uid) (σ σ' : SS), passList step σ xs = .ok σ' → Ext σ σ' := by
  sorry

/-- one forward pass extends the state and leaves its task done -/
theorem fwdPass_ext (env : Env) : ∀ (fuel : Nat) (stk : List Uid) (σ : SS) (t : Uid) (m : Time) (σ' : SS),
    fwdPass env fuel stk σ t m = .ok σ' → Ext σ σ' ∧ t ∈ σ'.done := by
  sorry

theorem bwdPass_ext (env : Env) : ∀ (fuel : Nat) (stk : List Uid) (σ : SS) (t : Uid) (m : Time) (σ' : SS),
    bwdPass env fuel stk σ t m = .ok σ' → Ext σ σ' ∧ t ∈ σ'.done := by
  sorry

/-- after a successful pass over a task, its whole subtree (along `children`) is done -/
theorem fwdPass_subtree_done (env : Env) : ∀ (fuel : Nat) (stk : List Uid) (σ : SS) (t : Uid) (m : Time) (σ' : SS),
    fwdPass env fuel stk σ t m = .ok σ' →
    ∀ x l, subtreeF (fun u => (env.info u).children) (env.n + 1) t = some l → x ∈ l → x ∈ σ'.done := by
  sorry

theorem bwdPass_subtree_done (env : Env) : ∀ (fuel : Nat) (stk : List Uid) (σ : SS) (t : Uid) (m : Time) (σ' : SS),
    bwdPass env fuel stk σ t m = .ok σ' →
    ∀ x l, subtreeF (fun u => (env.info u).children) (env.n + 1) t = some l → x ∈ l → x ∈ σ'.done := by
  sorry

/-- the ledger invariant: what C03 says about the rows, relative to the resource table of the state -/
structure LedgerOK (env : Env) (σ : SS) : Prop where
  pos : ∀ r ∈ σ.rows, 0 < r.units
  own : ∀ r ∈ σ.rows, r.res = (env.info r.task).resource
  present : ∀ r ∈ σ.rows, (σ.res.map (·.1)).contains r.res = true
  capDay : ∀ r ∈ σ.rows, 0 < capMid σ.res r.res r.day
  noOver : ∀ r ∈ σ.rows, reserved σ.rows r.res r.day (if env.balance then none else some r.task) ≤ capMid σ.res r.res r.day

theorem fwdPlace_ledger (env : Env) (σ σ' : SS) (t : Uid) (m : Time) (hl : LedgerOK env σ)
    (h : fwdPlace env σ t m = .ok σ') : LedgerOK env σ' := by
  sorry

theorem bwdPlace_ledger (env : Env) (σ σ' : SS) (t : Uid) (m m' : Time) (hl : LedgerOK env σ)
    (h : bwdPlace env σ t m m' = .ok σ') : LedgerOK env σ' := by
  sorry

theorem fwdPass_ledger (env : Env) : ∀ (fuel : Nat) (stk : List Uid) (σ : SS) (t : Uid) (m : Time) (σ' : SS),
    LedgerOK env σ → fwdPass env fuel stk σ t m = .ok σ' → LedgerOK env σ' := by
  sorry

theorem bwdPass_ledger (env : Env) : ∀ (fuel : Nat) (stk : List Uid) (σ : SS) (t : Uid) (m : Time) (σ' : SS),
    LedgerOK env σ → bwdPass env fuel stk σ t m = .ok σ' → LedgerOK env σ' := by
  sorry

end Pj
