/-
  Lemmas/SchedPass.lean — structural facts about the recursive passes: what one placement and one pass may change
  ("extension" of the pass state), and the ledger invariant that every reservation respects (C03).
-/
import PjVerif.Lemmas.SchedFill
import PjVerif.Lemmas.Rel
import PjVerif.Spec.Sched
namespace Pj

/-- `σ'` extends `σ`: tasks are only ever added to `done` (each once), the fields of a task change only while it
    is being placed and are frozen afterwards, rows and resource-table entries are only appended, and every new
    row belongs to a task that became done in between -/
structure Ext (σ σ' : SS) : Prop where
  done : ∃ l, σ'.done = σ.done ++ l ∧ (∀ x ∈ l, x ∉ σ.done) ∧ l.Nodup
  frozen : ∀ x, x ∈ σ.done → σ'.f x = σ.f x
  untouched : ∀ x, x ∉ σ'.done → σ'.f x = σ.f x
  rows : ∃ r, σ'.rows = σ.rows ++ r ∧ ∀ x ∈ r, x.task ∈ σ'.done ∧ x.task ∉ σ.done
  res : ∃ r, σ'.res = σ.res ++ r ∧ ∀ p ∈ r, ∀ q ∈ σ.res, q.1 ≠ p.1
  reads : σ.reads ≤ σ'.reads

theorem Ext.refl (σ : SS) : Ext σ σ :=
  ⟨⟨[], by simp, by simp, List.nodup_nil⟩, fun _ _ => rfl, fun _ _ => rfl, ⟨[], by simp, by simp⟩,
    ⟨[], by simp, by simp⟩, Nat.le_refl _⟩

theorem Ext.done_sub {σ σ' : SS} (h : Ext σ σ') {x : Uid} (hx : x ∈ σ.done) : x ∈ σ'.done := by
  obtain ⟨l, hl, _⟩ := h.done
  rw [hl]; exact List.mem_append_left _ hx

theorem Ext.trans {σ σ' σ'' : SS} (h1 : Ext σ σ') (h2 : Ext σ' σ'') : Ext σ σ'' := by
  obtain ⟨l1, hl1, hn1, hd1⟩ := h1.done
  obtain ⟨l2, hl2, hn2, hd2⟩ := h2.done
  obtain ⟨r1, hr1, hq1⟩ := h1.rows
  obtain ⟨r2, hr2, hq2⟩ := h2.rows
  obtain ⟨s1, hs1, hp1⟩ := h1.res
  obtain ⟨s2, hs2, hp2⟩ := h2.res
  refine ⟨⟨l1 ++ l2, by rw [hl2, hl1, List.append_assoc], ?_, ?_⟩, ?_, ?_, ⟨r1 ++ r2, by rw [hr2, hr1, List.append_assoc], ?_⟩,
    ⟨s1 ++ s2, by rw [hs2, hs1, List.append_assoc], ?_⟩, Nat.le_trans h1.reads h2.reads⟩
  · intro x hx
    rcases List.mem_append.1 hx with hx | hx
    · exact hn1 x hx
    · exact fun hc => hn2 x hx (h1.done_sub hc)
  · refine List.nodup_append.2 ⟨hd1, hd2, ?_⟩
    intro a ha b hb hab
    subst hab
    exact hn2 a hb (by rw [hl1]; exact List.mem_append_right _ ha)
  · intro x hx
    rw [h2.frozen x (h1.done_sub hx), h1.frozen x hx]
  · intro x hx
    have hx' : x ∉ σ'.done := fun hc => hx (h2.done_sub hc)
    rw [h2.untouched x hx, h1.untouched x hx']
  · intro x hx
    rcases List.mem_append.1 hx with hx | hx
    · exact ⟨h2.done_sub (hq1 x hx).1, (hq1 x hx).2⟩
    · exact ⟨(hq2 x hx).1, fun hc => (hq2 x hx).2 (h1.done_sub hc)⟩
  · intro p hp q hq
    rcases List.mem_append.1 hp with hp | hp
    · exact hp1 p hp q hq
    · exact hp2 p hp q (by rw [hs1]; exact List.mem_append_left _ hq)

/-! ### stage-wise frames -/

/-- the usage row a placement of `t` writes for one `(day, units)` pair -/
def mkRow (r : Option Nat) (t : Uid) (p : Int × Rat) : Row := { res := r, day := p.1, task := t, units := p.2 }

/-- a stage of the placement of `t`: only `t`'s fields (and the clock counter) change, and the rows `new` are
    appended for `t` on its resource -/
structure Stage (env : Env) (t : Uid) (new : List (Int × Rat)) (σ σ' : SS) : Prop where
  done : σ'.done = σ.done
  res : σ'.res = σ.res
  f : ∀ x, x ≠ t → σ'.f x = σ.f x
  rows : σ'.rows = σ.rows ++ new.map (mkRow (env.info t).resource t)
  reads : σ.reads ≤ σ'.reads

theorem Stage.refl (env : Env) (t : Uid) (σ : SS) : Stage env t [] σ σ :=
  ⟨rfl, rfl, fun _ _ => rfl, by simp, Nat.le_refl _⟩

theorem Stage.trans {env : Env} {t : Uid} {n1 n2 : List (Int × Rat)} {σ σ' σ'' : SS}
    (h1 : Stage env t n1 σ σ') (h2 : Stage env t n2 σ' σ'') : Stage env t (n1 ++ n2) σ σ'' :=
  ⟨h2.done.trans h1.done, h2.res.trans h1.res, fun x hx => (h2.f x hx).trans (h1.f x hx),
    by rw [h2.rows, h1.rows, List.map_append, List.append_assoc], Nat.le_trans h1.reads h2.reads⟩

theorem Stage.cast {env : Env} {t : Uid} {n n' : List (Int × Rat)} {σ σ' : SS}
    (h : Stage env t n σ σ') (e : n = n') : Stage env t n' σ σ' := e ▸ h

theorem Stage.setF (env : Env) (t : Uid) (σ : SS) (g : Fields → Fields) : Stage env t [] σ (setF σ t g) :=
  ⟨rfl, rfl, fun x hx => by simp [Pj.setF, upd, hx], by simp [Pj.setF], Nat.le_refl _⟩

theorem Stage.now (env : Env) (t : Uid) (σ : SS) : Stage env t [] σ (now env σ).2 :=
  ⟨rfl, rfl, fun _ _ => rfl, by simp [Pj.now], by simp [Pj.now]⟩

theorem Stage.addRows (env : Env) (t : Uid) (σ : SS) (new : List (Int × Rat)) :
    Stage env t new σ (addRows σ (env.info t).resource t new) :=
  ⟨rfl, rfl, fun _ _ => rfl, rfl, Nat.le_refl _⟩

theorem fillEst_stage (env : Env) (t : Uid) (σ σ' : SS) (h : fillEst env t σ = .ok σ') : Stage env t [] σ σ' := by
  unfold fillEst at h
  simp only [bind, Except.bind] at h
  split at h
  · cases h
  · rename_i σ1 h1
    have s1 : Stage env t [] σ σ1 := by
      split at h1
      · cases h1; exact Stage.refl _ _ _
      · split at h1
        · cases h1; exact Stage.setF _ _ _ _
        · split at h1
          · cases h1
          · cases h1; exact Stage.setF _ _ _ _
    have s2 : Stage env t [] σ1 σ' := by
      split at h
      · cases h; exact Stage.refl _ _ _
      · split at h
        · cases h; exact Stage.setF _ _ _ _
        · split at h
          · cases h
          · cases h; exact Stage.setF _ _ _ _
    exact s1.trans s2

theorem leftOf_nonneg (σ : SS) (t : Uid) : 0 ≤ leftOf σ t := by
  unfold leftOf
  simp only
  split <;> grind

/-- the rows of one reservation: each fits into what its day still offers, at most one per day
    (given that the ledger the loop saw had no negative totals) -/
def GoodNew (cal : Cal) (used : Int → Rat) (new : List (Int × Rat)) : Prop :=
  (∀ d, 0 ≤ used d) →
    (∀ p ∈ new, ∃ c, capR cal (p.1 : Rat) = .ok c ∧ 0 < p.2 ∧ p.2 ≤ c - used p.1) ∧
    (new.map (·.1)).Pairwise (· ≠ ·)

theorem GoodNew.nil (cal : Cal) (used : Int → Rat) : GoodNew cal used [] := by
  intro _; simp

theorem shiftFwd_good (cal : Cal) (used : Int → Rat) (start : Time) (left : Rat) (e : Time)
    (rows : List (Int × Rat)) (hl : 0 ≤ left) (h : shiftFwd cal used start left = .ok (e, rows)) :
    GoodNew cal used rows := by
  intro hu
  obtain ⟨h0, h1⟩ := shiftFwd_spec cal used start left e rows hl hu h
  by_cases hz : left = 0
  · rw [(h0 hz).2]; simp
  · obtain ⟨dayL, dauL, hs, _⟩ := h1 (by grind)
    exact ⟨hs.fits, hs.incr.imp (fun h => Int.ne_of_lt h)⟩

theorem shiftBwd_good (cal : Cal) (used : Int → Rat) (end_ : Time) (left : Rat) (s : Time)
    (rows : List (Int × Rat)) (hl : 0 ≤ left) (h : shiftBwd cal used end_ left = .ok (s, rows)) :
    GoodNew cal used rows := by
  intro hu
  obtain ⟨h0, h1⟩ := shiftBwd_spec cal used end_ left s rows hl hu h
  by_cases hz : left = 0
  · rw [(h0 hz).2]; simp
  · obtain ⟨dayL, hs, _⟩ := h1 (by grind)
    exact ⟨hs.fits, hs.decr.imp (fun h => Int.ne_of_gt h)⟩

theorem fwdStart_stage (env : Env) (cal : Cal) (used : Int → Rat) (t : Uid) (m : Time) (σ σ' : SS)
    (h : fwdStart env cal used t m σ = .ok σ') : Stage env t [] σ σ' := by
  unfold fwdStart at h
  simp only at h
  split at h
  · cases h; exact Stage.refl _ _ _
  · split at h
    · simp only [bind, Except.bind] at h
      split at h
      · cases h
      · cases h
        exact (Stage.now env t σ).trans (Stage.setF _ _ _ _)
    · split at h
      · cases h; exact Stage.setF _ _ _ _
      · cases h; exact Stage.setF _ _ _ _

theorem bwdEnd_stage (env : Env) (cal : Cal) (used : Int → Rat) (t : Uid) (m m' : Time) (σ σ' : SS)
    (h : bwdEnd env cal used t m m' σ = .ok σ') : Stage env t [] σ σ' := by
  unfold bwdEnd at h
  simp only at h
  split at h
  · cases h; exact Stage.refl _ _ _
  · split at h
    · simp only [bind, Except.bind] at h
      split at h
      · cases h
      · cases h
        exact Stage.setF _ _ _ _
    · split at h
      · cases h; exact Stage.setF _ _ _ _
      · cases h; exact Stage.setF _ _ _ _

theorem fwdEnd_stage (env : Env) (cal : Cal) (used : Int → Rat) (t : Uid) (σ σ' : SS)
    (h : fwdEnd env cal used t σ = .ok σ') : ∃ new, Stage env t new σ σ' ∧ GoodNew cal used new := by
  unfold fwdEnd at h
  simp only at h
  split at h
  · cases h; exact ⟨[], Stage.refl _ _ _, GoodNew.nil _ _⟩
  · split at h
    · simp only [bind, Except.bind] at h
      split at h
      · cases h
      · rename_i v hv
        obtain ⟨e, rows⟩ := v
        cases h
        refine ⟨rows, ?_, shiftFwd_good _ _ _ _ _ _ (leftOf_nonneg _ _) hv⟩
        exact ((((Stage.now env t σ).trans (Stage.addRows env t _ rows)).trans (Stage.now env t _)).trans
          (Stage.setF env t _ _)).cast (by simp)
    · split at h
      · cases h
      · cases h; exact ⟨[], Stage.setF _ _ _ _, GoodNew.nil _ _⟩

theorem bwdStart_stage (env : Env) (cal : Cal) (used : Int → Rat) (t : Uid) (m : Time) (σ σ' : SS)
    (h : bwdStart env cal used t m σ = .ok σ') : ∃ new, Stage env t new σ σ' ∧ GoodNew cal used new := by
  unfold bwdStart at h
  simp only at h
  split at h
  · simp only [bind, Except.bind] at h
    split at h
    · cases h
    · rename_i v hv
      obtain ⟨s, rows⟩ := v
      cases h
      refine ⟨rows, ?_, shiftBwd_good _ _ _ _ _ _ (leftOf_nonneg _ _) hv⟩
      exact ((Stage.addRows env t σ rows).trans (Stage.setF env t _ _)).cast (by simp)
  · split at h
    · cases h
    · cases h; exact ⟨[], Stage.setF _ _ _ _, GoodNew.nil _ _⟩

/-! ### the resource table -/

theorem resLookup_spec (res : List (Option Nat × Cal)) (k : Option Nat) :
    (∃ r, (resLookup res k).1 = res ++ r ∧ ∀ p ∈ r, p.1 = k ∧ ∀ q ∈ res, q.1 ≠ p.1) ∧
    calOf (resLookup res k).1 k = (resLookup res k).2 ∧
    ((resLookup res k).1.map (·.1)).contains k = true := by
  unfold resLookup
  cases hf : res.find? (fun p => p.1 == k) with
  | some p =>
    simp only
    have hp : p.1 = k := by simpa using List.find?_some hf
    refine ⟨⟨[], by simp, by simp⟩, by simp [calOf, hf], ?_⟩
    rw [List.contains_iff_mem]
    exact List.mem_map.2 ⟨p, List.mem_of_find?_eq_some hf, hp⟩
  | none =>
    simp only
    have hn := List.find?_eq_none.1 hf
    refine ⟨⟨[(k, defaultCal)], rfl, ?_⟩, ?_, ?_⟩
    · intro p hp
      simp only [List.mem_singleton] at hp
      subst hp
      exact ⟨rfl, fun q hq => by simpa using hn q hq⟩
    · simp [calOf, List.find?_append, hf]
    · simp

theorem calOf_append (res r : List (Option Nat × Cal)) (k : Option Nat)
    (hk : (res.map (·.1)).contains k = true) : calOf (res ++ r) k = calOf res k := by
  rw [List.contains_iff_mem] at hk
  obtain ⟨p, hp, hpk⟩ := List.mem_map.1 hk
  unfold calOf
  rw [List.find?_append]
  cases hf : res.find? (fun p => p.1 == k) with
  | some q => simp
  | none =>
    have := List.find?_eq_none.1 hf p hp
    simp [hpk] at this

theorem capMid_append (res r : List (Option Nat × Cal)) (k : Option Nat) (d : Int)
    (hk : (res.map (·.1)).contains k = true) : capMid (res ++ r) k d = capMid res k d := by
  unfold capMid
  rw [calOf_append res r k hk]

theorem contains_append_left (res r : List (Option Nat × Cal)) (k : Option Nat)
    (hk : (res.map (·.1)).contains k = true) : ((res ++ r).map (·.1)).contains k = true := by
  rw [List.contains_iff_mem] at hk ⊢
  rw [List.map_append]
  exact List.mem_append_left _ hk

/-! ### one placement, stage by stage -/

theorem fwdPlace_stage (env : Env) (σ σ' : SS) (t : Uid) (m : Time) (h : fwdPlace env σ t m = .ok σ') :
    ∃ new σm, Stage env t new { σ with res := (resLookup σ.res (env.info t).resource).1 } σm ∧
      σ' = markDone σm t ∧
      GoodNew (resLookup σ.res (env.info t).resource).2 (usedBy env σ.rows (env.info t).resource t) new := by
  unfold fwdPlace at h
  rcases hr : resLookup σ.res (env.info t).resource with ⟨res', cal⟩
  simp only [hr, bind, Except.bind, pure, Except.pure] at h ⊢
  split at h
  · cases h
    exact ⟨[], _, Stage.setF _ _ _ _, rfl, GoodNew.nil _ _⟩
  · split at h
    · cases h
    · rename_i σ1 h1
      split at h
      · cases h
      · rename_i σ2 h2
        split at h
        · cases h
        · rename_i σ3 h3
          cases h
          obtain ⟨new, hs, hg⟩ := fwdEnd_stage _ _ _ _ _ _ h3
          exact ⟨new, σ3, (((fwdStart_stage _ _ _ _ _ _ _ h1).trans (fillEst_stage _ _ _ _ h2)).trans hs).cast (by simp),
            rfl, hg⟩

theorem bwdPlace_stage (env : Env) (σ σ' : SS) (t : Uid) (m m' : Time) (h : bwdPlace env σ t m m' = .ok σ') :
    ∃ new σm, Stage env t new { σ with res := (resLookup σ.res (env.info t).resource).1 } σm ∧
      σ' = markDone σm t ∧
      GoodNew (resLookup σ.res (env.info t).resource).2 (usedBy env σ.rows (env.info t).resource t) new := by
  unfold bwdPlace at h
  rcases hr : resLookup σ.res (env.info t).resource with ⟨res', cal⟩
  simp only [hr, bind, Except.bind, pure, Except.pure] at h ⊢
  split at h
  · cases h
    exact ⟨[], _, Stage.setF _ _ _ _, rfl, GoodNew.nil _ _⟩
  · split at h
    · cases h
    · rename_i σ1 h1
      split at h
      · cases h
      · rename_i σ2 h2
        split at h
        · cases h
        · rename_i σ3 h3
          cases h
          obtain ⟨new, hs, hg⟩ := bwdStart_stage _ _ _ _ _ _ _ h3
          exact ⟨new, σ3, (((bwdEnd_stage _ _ _ _ _ _ _ _ h1).trans (fillEst_stage _ _ _ _ h2)).trans hs).cast (by simp),
            rfl, hg⟩

theorem place_ext_of_stage (env : Env) (σ σm : SS) (t : Uid) (new : List (Int × Rat)) (ht : t ∉ σ.done)
    (hs : Stage env t new { σ with res := (resLookup σ.res (env.info t).resource).1 } σm) :
    Ext σ (markDone σm t) ∧ (markDone σm t).done = σ.done ++ [t] := by
  have hd : (markDone σm t).done = σ.done ++ [t] := by simp [markDone, hs.done]
  obtain ⟨⟨r, hr, hrk⟩, _, _⟩ := resLookup_spec σ.res (env.info t).resource
  refine ⟨⟨⟨[t], hd, by simpa using ht, by simp⟩, ?_, ?_, ⟨_, hs.rows, ?_⟩, ⟨r, ?_, fun p hp => (hrk p hp).2⟩, hs.reads⟩, hd⟩
  · intro x hx
    exact hs.f x (fun hc => ht (hc ▸ hx))
  · intro x hx
    rw [hd] at hx
    exact hs.f x (fun hc => hx (by simp [hc]))
  · intro x hx
    obtain ⟨p, _, rfl⟩ := List.mem_map.1 hx
    exact ⟨by rw [hd]; simp [mkRow], ht⟩
  · show σm.res = _
    rw [hs.res]; exact hr

theorem fwdPlace_ext (env : Env) (σ σ' : SS) (t : Uid) (m : Time) (ht : t ∉ σ.done)
    (h : fwdPlace env σ t m = .ok σ') : Ext σ σ' ∧ σ'.done = σ.done ++ [t] := by
  obtain ⟨new, σm, hs, rfl, _⟩ := fwdPlace_stage env σ σ' t m h
  exact place_ext_of_stage env σ σm t new ht hs

theorem bwdPlace_ext (env : Env) (σ σ' : SS) (t : Uid) (m m' : Time) (ht : t ∉ σ.done)
    (h : bwdPlace env σ t m m' = .ok σ') : Ext σ σ' ∧ σ'.done = σ.done ++ [t] := by
  obtain ⟨new, σm, hs, rfl, _⟩ := bwdPlace_stage env σ σ' t m m' h
  exact place_ext_of_stage env σ σm t new ht hs

/-! ### loops over task lists -/

/-- a reflexive, transitive relation established by every step holds across `passList` -/
theorem passList_rel (R : SS → SS → Prop) (hrefl : ∀ σ, R σ σ) (htrans : ∀ a b c, R a b → R b c → R a c)
    (step : SS → Uid → Res SS) :
    ∀ (xs : List Uid), (∀ σ x σ', x ∈ xs → step σ x = .ok σ' → R σ σ') →
      ∀ (σ σ' : SS), passList step σ xs = .ok σ' → R σ σ' := by
  intro xs
  induction xs with
  | nil => intro _ σ σ' h; cases h; exact hrefl _
  | cons x xs ih =>
    intro hstep σ σ' h
    simp only [passList, bind, Except.bind] at h
    split at h
    · cases h
    · rename_i σ1 h1
      exact htrans _ _ _ (hstep σ x σ1 List.mem_cons_self h1)
        (ih (fun σ y σ' hy => hstep σ y σ' (List.mem_cons_of_mem _ hy)) σ1 σ' h)

theorem passList_ext (step : SS → Uid → Res SS) (hstep : ∀ σ x σ', step σ x = .ok σ' → Ext σ σ') :
    ∀ (xs : List Uid) (σ σ' : SS), passList step σ xs = .ok σ' → Ext σ σ' := fun xs =>
  passList_rel Ext Ext.refl (fun _ _ _ => Ext.trans) step xs (fun σ x σ' _ => hstep σ x σ')

/-- an invariant kept by every step is kept by `passList` -/
theorem passList_inv (I : SS → Prop) (step : SS → Uid → Res SS) (xs : List Uid)
    (hstep : ∀ σ x σ', x ∈ xs → I σ → step σ x = .ok σ' → I σ') (σ σ' : SS) (hi : I σ)
    (h : passList step σ xs = .ok σ') : I σ' :=
  passList_rel (fun a b => I a → I b) (fun _ h => h) (fun _ _ _ h1 h2 h => h2 (h1 h)) step xs
    (fun σ x σ' hx h hi => hstep σ x σ' hx hi h) σ σ' h hi

/-- when every step extends the state and leaves its task done, all tasks of the list are done at the end -/
theorem passList_all_done (step : SS → Uid → Res SS) :
    ∀ (xs : List Uid), (∀ σ x σ', x ∈ xs → step σ x = .ok σ' → Ext σ σ' ∧ x ∈ σ'.done) →
      ∀ (σ σ' : SS), passList step σ xs = .ok σ' → ∀ x ∈ xs, x ∈ σ'.done := by
  intro xs
  induction xs with
  | nil => intro _ σ σ' _ x hx; cases hx
  | cons y xs ih =>
    intro hstep σ σ' h x hx
    simp only [passList, bind, Except.bind] at h
    split at h
    · cases h
    · rename_i σ1 h1
      have hrest := fun σ z σ' (hz : z ∈ xs) => hstep σ z σ' (List.mem_cons_of_mem _ hz)
      rcases List.mem_cons.1 hx with rfl | hx
      · have he : Ext σ1 σ' := passList_rel Ext Ext.refl (fun _ _ _ => Ext.trans) step xs
          (fun σ z σ' hz hh => (hrest σ z σ' hz hh).1) σ1 σ' h
        exact he.done_sub (hstep σ x σ1 List.mem_cons_self h1).2
      · exact ih hrest σ1 σ' h x hx

/-! ### the common shape of the two recursive passes -/

/-- `fwdPass` and `bwdPass` are instances of one memoised traversal: pass over the same-side links, aggregate a
    date from them, pass over the children, place the task -/
def gPass (env : Env) (links kids : Uid → List Uid) (agg : SS → List Uid → Time → Time)
    (place : SS → Uid → Time → Time → Res SS) : Nat → List Uid → SS → Uid → Time → Res SS
  | 0, _, _, _, _ => throw (.crash .recursion)
  | fuel + 1, stk, σ, t, minDate =>
    if σ.done.contains t then pure σ
    else if stk.contains t then throw (.crash .recursion)
    else do
      let σ ← passList (fun σ p => if (env.info p).member == (env.info t).member
                 then gPass env links kids agg place fuel (t :: stk) σ p minDate else pure σ) σ (links t)
      let v := agg σ (links t) minDate
      let σ ← passList (fun σ c => gPass env links kids agg place fuel (t :: stk) σ c v) σ (kids t)
      place σ t minDate v

theorem fwdPass_eq_gPass (env : Env) : ∀ (fuel : Nat) (stk : List Uid) (σ : SS) (t : Uid) (m : Time),
    fwdPass env fuel stk σ t m =
      gPass env (fun u => (env.info u).preds) (fun u => (env.info u).children) maxEnds
        (fun σ t _ v => fwdPlace env σ t v) fuel stk σ t m := by
  intro fuel
  induction fuel with
  | zero => intros; rfl
  | succ fuel ih =>
    intro stk σ t m
    simp only [fwdPass, gPass, ih]

theorem bwdPass_eq_gPass (env : Env) : ∀ (fuel : Nat) (stk : List Uid) (σ : SS) (t : Uid) (m : Time),
    bwdPass env fuel stk σ t m =
      gPass env (fun u => (env.info u).succs) (fun u => (env.info u).children.reverse) minStarts
        (fun σ t m v => bwdPlace env σ t m v) fuel stk σ t m := by
  intro fuel
  induction fuel with
  | zero => intros; rfl
  | succ fuel ih =>
    intro stk σ t m
    simp only [bwdPass, gPass, ih]

theorem gPass_succ_cases (env : Env) (links kids : Uid → List Uid) (agg : SS → List Uid → Time → Time)
    (place : SS → Uid → Time → Time → Res SS) (fuel : Nat) (stk : List Uid) (σ : SS) (t : Uid) (m : Time) (σ' : SS)
    (h : gPass env links kids agg place (fuel + 1) stk σ t m = .ok σ') :
    (t ∈ σ.done ∧ σ' = σ) ∨
    (t ∉ σ.done ∧ t ∉ stk ∧ ∃ σ1 σ2,
      passList (fun σ p => if (env.info p).member == (env.info t).member
          then gPass env links kids agg place fuel (t :: stk) σ p m else pure σ) σ (links t) = .ok σ1 ∧
      passList (fun σ c => gPass env links kids agg place fuel (t :: stk) σ c (agg σ1 (links t) m)) σ1 (kids t)
        = .ok σ2 ∧
      place σ2 t m (agg σ1 (links t) m) = .ok σ') := by
  simp only [gPass] at h
  split at h
  · rename_i hd
    cases h
    exact Or.inl ⟨List.contains_iff_mem.1 hd, rfl⟩
  · rename_i hd
    split at h
    · cases h
    · rename_i hs
      simp only [bind, Except.bind] at h
      split at h
      · cases h
      · rename_i σ1 h1
        split at h
        · cases h
        · rename_i σ2 h2
          refine Or.inr ⟨fun hc => hd (List.contains_iff_mem.2 hc), fun hc => hs (List.contains_iff_mem.2 hc),
            σ1, σ2, h1, h2, h⟩

/-- stack-aware extension: additionally, no task of the in-progress stack becomes done -/
def ExtS (stk : List Uid) (σ σ' : SS) : Prop := Ext σ σ' ∧ ∀ x ∈ stk, x ∉ σ.done → x ∉ σ'.done

theorem ExtS.refl (stk : List Uid) (σ : SS) : ExtS stk σ σ := ⟨Ext.refl σ, fun _ _ h => h⟩

theorem ExtS.trans {stk : List Uid} {a b c : SS} (h1 : ExtS stk a b) (h2 : ExtS stk b c) : ExtS stk a c :=
  ⟨h1.1.trans h2.1, fun x hx hn => h2.2 x hx (h1.2 x hx hn)⟩

theorem passList_extS (stk : List Uid) (step : SS → Uid → Res SS) (xs : List Uid)
    (hstep : ∀ σ x σ', x ∈ xs → step σ x = .ok σ' → ExtS stk σ σ') (σ σ' : SS)
    (h : passList step σ xs = .ok σ') : ExtS stk σ σ' :=
  passList_rel (ExtS stk) (ExtS.refl stk) (fun _ _ _ => ExtS.trans) step xs hstep σ σ' h

section generic
variable (env : Env) (links kids : Uid → List Uid) (agg : SS → List Uid → Time → Time)
  (place : SS → Uid → Time → Time → Res SS)
  (hplace_ext : ∀ σ σ' t m v, t ∉ σ.done → place σ t m v = .ok σ' → Ext σ σ' ∧ σ'.done = σ.done ++ [t])
include hplace_ext

/-- one pass extends the state, keeps the tasks in progress undone and leaves its task done -/
theorem gPass_extS : ∀ (fuel : Nat) (stk : List Uid) (σ : SS) (t : Uid) (m : Time) (σ' : SS),
    gPass env links kids agg place fuel stk σ t m = .ok σ' → ExtS stk σ σ' ∧ t ∈ σ'.done := by
  intro fuel
  induction fuel with
  | zero => intro stk σ t m σ' h; cases h
  | succ fuel ih =>
    intro stk σ t m σ' h
    rcases gPass_succ_cases env links kids agg place fuel stk σ t m σ' h with ⟨hd, rfl⟩ | ⟨hd, hs, σ1, σ2, h1, h2, h3⟩
    · exact ⟨ExtS.refl _ _, hd⟩
    · have e1 : ExtS (t :: stk) σ σ1 := passList_extS _ _ _ (fun a x b _ hh => by
        split at hh
        · exact (ih _ _ _ _ _ hh).1
        · cases hh; exact ExtS.refl _ _) _ _ h1
      have e2 : ExtS (t :: stk) σ1 σ2 := passList_extS _ _ _ (fun a x b _ hh => (ih _ _ _ _ _ hh).1) _ _ h2
      have e12 := e1.trans e2
      have ht2 : t ∉ σ2.done := e12.2 t List.mem_cons_self hd
      obtain ⟨e3, hd3⟩ := hplace_ext _ _ _ _ _ ht2 h3
      refine ⟨⟨e12.1.trans e3, ?_⟩, by rw [hd3]; simp⟩
      intro x hx hn
      rw [hd3]
      have := e12.2 x (List.mem_cons_of_mem _ hx) hn
      intro hc
      rcases List.mem_append.1 hc with hc | hc
      · exact this hc
      · simp only [List.mem_singleton] at hc
        exact hs (hc ▸ hx)

/-- an invariant of the state that every placement keeps (for tasks satisfying `Q`, a property inherited by
    children and by the same-side links the pass follows) is kept by a pass; the placement may assume that its
    task is not done yet and that its children are -/
theorem gPass_inv (I : SS → Prop) (Q : Uid → Prop)
    (hplace : ∀ σ σ' t m v, Q t → I σ → t ∉ σ.done → (∀ c ∈ kids t, c ∈ σ.done) → place σ t m v = .ok σ' → I σ')
    (hkids : ∀ t c, Q t → c ∈ kids t → Q c)
    (hlinks : ∀ t p, Q t → p ∈ links t → (env.info p).member = (env.info t).member → Q p) :
    ∀ (fuel : Nat) (stk : List Uid) (σ : SS) (t : Uid) (m : Time) (σ' : SS),
      Q t → I σ → gPass env links kids agg place fuel stk σ t m = .ok σ' → I σ' := by
  intro fuel
  induction fuel with
  | zero => intro stk σ t m σ' _ _ h; cases h
  | succ fuel ih =>
    intro stk σ t m σ' hq hi h
    rcases gPass_succ_cases env links kids agg place fuel stk σ t m σ' h with ⟨hd, rfl⟩ | ⟨hd, hs, σ1, σ2, h1, h2, h3⟩
    · exact hi
    · have hx := gPass_extS env links kids agg place hplace_ext fuel (t :: stk)
      have e1 : ExtS (t :: stk) σ σ1 := passList_extS _ _ _ (fun a x b _ hh => by
        split at hh
        · exact (hx _ _ _ _ hh).1
        · cases hh; exact ExtS.refl _ _) _ _ h1
      have e2 : ExtS (t :: stk) σ1 σ2 := passList_extS _ _ _ (fun a x b _ hh => (hx _ _ _ _ hh).1) _ _ h2
      have ht2 : t ∉ σ2.done := (e1.trans e2).2 t List.mem_cons_self hd
      have i1 : I σ1 := passList_inv I _ _ (fun a x b hxl ha hh => by
        split at hh
        · rename_i hm
          exact ih _ _ _ _ _ (hlinks t x hq hxl (by simpa using hm)) ha hh
        · cases hh; exact ha) _ _ hi h1
      have i2 : I σ2 := passList_inv I _ _ (fun a x b hxl ha hh => ih _ _ _ _ _ (hkids t x hq hxl) ha hh) _ _ i1 h2
      have hk : ∀ c ∈ kids t, c ∈ σ2.done := passList_all_done _ _ (fun a x b _ hh =>
        ⟨(hx _ _ _ _ hh).1.1, (hx _ _ _ _ hh).2⟩) _ _ h2
      exact hplace _ _ _ _ _ hq i2 ht2 hk h3

end generic

theorem fwdPlace_ext' (env : Env) : ∀ (σ σ' : SS) (t : Uid) (m v : Time), t ∉ σ.done →
    (fun σ t (_ : Time) v => fwdPlace env σ t v) σ t m v = .ok σ' → Ext σ σ' ∧ σ'.done = σ.done ++ [t] :=
  fun σ σ' t _ v ht h => fwdPlace_ext env σ σ' t v ht h

theorem bwdPlace_ext' (env : Env) : ∀ (σ σ' : SS) (t : Uid) (m v : Time), t ∉ σ.done →
    (fun σ t m v => bwdPlace env σ t m v) σ t m v = .ok σ' → Ext σ σ' ∧ σ'.done = σ.done ++ [t] :=
  fun σ σ' t m v ht h => bwdPlace_ext env σ σ' t m v ht h

/-- stack-aware form of `fwdPass_ext` -/
theorem fwdPass_extS (env : Env) (fuel : Nat) (stk : List Uid) (σ : SS) (t : Uid) (m : Time) (σ' : SS)
    (h : fwdPass env fuel stk σ t m = .ok σ') : ExtS stk σ σ' ∧ t ∈ σ'.done := by
  rw [fwdPass_eq_gPass] at h
  exact gPass_extS env _ _ _ _ (fwdPlace_ext' env) fuel stk σ t m σ' h

theorem bwdPass_extS (env : Env) (fuel : Nat) (stk : List Uid) (σ : SS) (t : Uid) (m : Time) (σ' : SS)
    (h : bwdPass env fuel stk σ t m = .ok σ') : ExtS stk σ σ' ∧ t ∈ σ'.done := by
  rw [bwdPass_eq_gPass] at h
  exact gPass_extS env _ _ _ _ (bwdPlace_ext' env) fuel stk σ t m σ' h

/-- one forward pass extends the state and leaves its task done -/
theorem fwdPass_ext (env : Env) : ∀ (fuel : Nat) (stk : List Uid) (σ : SS) (t : Uid) (m : Time) (σ' : SS),
    fwdPass env fuel stk σ t m = .ok σ' → Ext σ σ' ∧ t ∈ σ'.done := by
  intro fuel stk σ t m σ' h
  have := fwdPass_extS env fuel stk σ t m σ' h
  exact ⟨this.1.1, this.2⟩

theorem bwdPass_ext (env : Env) : ∀ (fuel : Nat) (stk : List Uid) (σ : SS) (t : Uid) (m : Time) (σ' : SS),
    bwdPass env fuel stk σ t m = .ok σ' → Ext σ σ' ∧ t ∈ σ'.done := by
  intro fuel stk σ t m σ' h
  have := bwdPass_extS env fuel stk σ t m σ' h
  exact ⟨this.1.1, this.2⟩

/-- a pass keeps an invariant that every placement keeps (see `gPass_inv`) -/
theorem fwdPass_inv (env : Env) (I : SS → Prop) (Q : Uid → Prop)
    (hplace : ∀ σ σ' t v, Q t → I σ → t ∉ σ.done → (∀ c ∈ (env.info t).children, c ∈ σ.done) →
      fwdPlace env σ t v = .ok σ' → I σ')
    (hkids : ∀ t c, Q t → c ∈ (env.info t).children → Q c)
    (hlinks : ∀ t p, Q t → p ∈ (env.info t).preds → (env.info p).member = (env.info t).member → Q p)
    (fuel : Nat) (stk : List Uid) (σ : SS) (t : Uid) (m : Time) (σ' : SS) (hq : Q t) (hi : I σ)
    (h : fwdPass env fuel stk σ t m = .ok σ') : I σ' := by
  rw [fwdPass_eq_gPass] at h
  exact gPass_inv env _ _ _ _ (fwdPlace_ext' env) I Q (fun σ σ' t _ v => hplace σ σ' t v) hkids hlinks
    fuel stk σ t m σ' hq hi h

theorem bwdPass_inv (env : Env) (I : SS → Prop) (Q : Uid → Prop)
    (hplace : ∀ σ σ' t m v, Q t → I σ → t ∉ σ.done → (∀ c ∈ (env.info t).children, c ∈ σ.done) →
      bwdPlace env σ t m v = .ok σ' → I σ')
    (hkids : ∀ t c, Q t → c ∈ (env.info t).children → Q c)
    (hlinks : ∀ t p, Q t → p ∈ (env.info t).succs → (env.info p).member = (env.info t).member → Q p)
    (fuel : Nat) (stk : List Uid) (σ : SS) (t : Uid) (m : Time) (σ' : SS) (hq : Q t) (hi : I σ)
    (h : bwdPass env fuel stk σ t m = .ok σ') : I σ' := by
  rw [bwdPass_eq_gPass] at h
  exact gPass_inv env _ _ _ _ (bwdPlace_ext' env) I Q
    (fun σ σ' t m v hq hi ht hk => hplace σ σ' t m v hq hi ht (fun c hc => hk c (List.mem_reverse.2 hc)))
    (fun t c hq hc => hkids t c hq (List.mem_reverse.1 hc)) hlinks
    fuel stk σ t m σ' hq hi h

/-! ### the whole subtree is done -/

/-- `done` is closed under `children` (holds of the empty list, kept by every pass) -/
def DoneClosed (env : Env) (σ : SS) : Prop := ∀ x ∈ σ.done, ∀ c ∈ (env.info x).children, c ∈ σ.done

theorem DoneClosed.desc {env : Env} {σ : SS} (hcl : DoneClosed env σ) {t x : Uid} (ht : t ∈ σ.done)
    (h : TC (fun a b => b ∈ (env.info a).children) t x) : x ∈ σ.done := by
  induction h with
  | single h => exact hcl _ ht _ h
  | tail _ h ih => exact hcl _ ih _ h

theorem DoneClosed.subtree {env : Env} {σ : SS} (hcl : DoneClosed env σ) {t : Uid} (ht : t ∈ σ.done)
    (f : Nat) (l : List Uid) (hl : subtreeF (fun u => (env.info u).children) f t = some l) :
    ∀ x ∈ l, x ∈ σ.done := by
  intro x hx
  simp only [subtreeF, Option.map_eq_some_iff] at hl
  obtain ⟨r, hr, rfl⟩ := hl
  rcases List.mem_cons.1 hx with rfl | hx
  · exact ht
  · exact hcl.desc ht (descF_sound _ _ _ _ hr x hx)

theorem place_doneClosed (env : Env) (σ σ' : SS) (t : Uid) (hi : DoneClosed env σ)
    (hk : ∀ c ∈ (env.info t).children, c ∈ σ.done) (hd : σ'.done = σ.done ++ [t]) : DoneClosed env σ' := by
  intro x hx c hc
  rw [hd] at hx ⊢
  rcases List.mem_append.1 hx with hx | hx
  · exact List.mem_append_left _ (hi x hx c hc)
  · simp only [List.mem_singleton] at hx
    subst hx
    exact List.mem_append_left _ (hk c hc)

/-- a pass keeps `done` closed under `children` -/
theorem fwdPass_doneClosed (env : Env) (fuel : Nat) (stk : List Uid) (σ : SS) (t : Uid) (m : Time) (σ' : SS)
    (hcl : DoneClosed env σ) (h : fwdPass env fuel stk σ t m = .ok σ') : DoneClosed env σ' :=
  fwdPass_inv env (DoneClosed env) (fun _ => True)
    (fun σ σ' t v _ hi ht hk h => place_doneClosed env σ σ' t hi hk (fwdPlace_ext env σ σ' t v ht h).2)
    (fun _ _ _ _ => trivial) (fun _ _ _ _ _ => trivial) fuel stk σ t m σ' trivial hcl h

theorem bwdPass_doneClosed (env : Env) (fuel : Nat) (stk : List Uid) (σ : SS) (t : Uid) (m : Time) (σ' : SS)
    (hcl : DoneClosed env σ) (h : bwdPass env fuel stk σ t m = .ok σ') : DoneClosed env σ' :=
  bwdPass_inv env (DoneClosed env) (fun _ => True)
    (fun σ σ' t m v _ hi ht hk h => place_doneClosed env σ σ' t hi hk (bwdPlace_ext env σ σ' t m v ht h).2)
    (fun _ _ _ _ => trivial) (fun _ _ _ _ _ => trivial) fuel stk σ t m σ' trivial hcl h

/-- after a successful pass over a task, its whole subtree (along `children`) is done — provided `done` was
    closed under `children` before (otherwise a task that is already done returns at once although its children
    need not be done); see `fwdPass_doneClosed` for the preservation of that hypothesis -/
theorem fwdPass_subtree_done (env : Env) : ∀ (fuel : Nat) (stk : List Uid) (σ : SS) (t : Uid) (m : Time) (σ' : SS),
    DoneClosed env σ →
    fwdPass env fuel stk σ t m = .ok σ' →
    ∀ x l, subtreeF (fun u => (env.info u).children) (env.n + 1) t = some l → x ∈ l → x ∈ σ'.done := by
  intro fuel stk σ t m σ' hcl h x l hl hx
  exact (fwdPass_doneClosed env fuel stk σ t m σ' hcl h).subtree (fwdPass_ext env fuel stk σ t m σ' h).2 _ l hl x hx

/-- the closure hypothesis of `fwdPass_subtree_done` cannot be dropped: a task that is already done returns at
    once, whatever the state of its children -/
example : ∃ (env : Env) (σ : SS), fwdPass env 1 [] σ 0 0 = .ok σ ∧
    subtreeF (fun u => (env.info u).children) (env.n + 1) 0 = some [0, 1] ∧ 1 ∉ σ.done := by
  refine ⟨{ n := 1, info := fun u => { (default : TaskInfo) with children := if u = 0 then [1] else [] }, roots := [0],
            balance := false, defaultEst := 1, clock := fun _ => 0, bound := 0 },
          { f := fun _ => default, rows := [], done := [0], res := [], reads := 0 }, ?_, ?_, ?_⟩
  · simp [fwdPass]; rfl
  · simp [subtreeF, descF]
  · simp

theorem bwdPass_subtree_done (env : Env) : ∀ (fuel : Nat) (stk : List Uid) (σ : SS) (t : Uid) (m : Time) (σ' : SS),
    DoneClosed env σ →
    bwdPass env fuel stk σ t m = .ok σ' →
    ∀ x l, subtreeF (fun u => (env.info u).children) (env.n + 1) t = some l → x ∈ l → x ∈ σ'.done := by
  intro fuel stk σ t m σ' hcl h x l hl hx
  exact (bwdPass_doneClosed env fuel stk σ t m σ' hcl h).subtree (bwdPass_ext env fuel stk σ t m σ' h).2 _ l hl x hx

/-! ### the ledger -/

/-- the ledger invariant: what C03 says about the rows, relative to the resource table of the state -/
structure LedgerOK (env : Env) (σ : SS) : Prop where
  pos : ∀ r ∈ σ.rows, 0 < r.units
  own : ∀ r ∈ σ.rows, r.res = (env.info r.task).resource
  present : ∀ r ∈ σ.rows, (σ.res.map (·.1)).contains r.res = true
  capDay : ∀ r ∈ σ.rows, 0 < capMid σ.res r.res r.day
  noOver : ∀ r ∈ σ.rows, reserved σ.rows r.res r.day (if env.balance then none else some r.task) ≤ capMid σ.res r.res r.day

theorem sum_nonneg_rat : ∀ (l : List Rat), (∀ x ∈ l, 0 ≤ x) → 0 ≤ l.sum
  | [], _ => by simp
  | x :: l, h => by
    have h1 := h x (by simp)
    have h2 := sum_nonneg_rat l (fun y hy => h y (List.mem_cons_of_mem _ hy))
    simp only [List.sum_cons]
    grind

theorem reserved_append (a b : List Row) (r : Option Nat) (d : Int) (tf : Option Uid) :
    reserved (a ++ b) r d tf = reserved a r d tf + reserved b r d tf := by
  simp [reserved, List.filter_append, List.sum_append]

theorem reserved_nonneg (rows : List Row) (hpos : ∀ r ∈ rows, 0 < r.units) (r : Option Nat) (d : Int)
    (tf : Option Uid) : 0 ≤ reserved rows r d tf := by
  unfold reserved
  apply sum_nonneg_rat
  intro x hx
  obtain ⟨y, hy, rfl⟩ := List.mem_map.1 hx
  exact Rat.le_of_lt (hpos y (List.mem_filter.1 hy).1)

/-- units a list of `(day, units)` pairs puts on one day -/
def daySum (new : List (Int × Rat)) (d : Int) : Rat := ((new.filter (fun p => p.1 == d)).map (·.2)).sum

theorem reserved_mk (key : Option Nat) (t : Uid) (new : List (Int × Rat)) (k : Option Nat) (d : Int)
    (tf : Option Uid) :
    reserved (new.map (mkRow key t)) k d tf =
      if key = k ∧ (∀ t', tf = some t' → t = t') then daySum new d else 0 := by
  unfold reserved daySum
  rw [List.filter_map, List.map_map]
  by_cases hk : key = k
  · cases tf with
    | none => simp [mkRow, hk, Function.comp_def]
    | some t' =>
      by_cases ht : t = t'
      · simp [mkRow, hk, ht, Function.comp_def]
      · have hb : (t == t') = false := by simpa using ht
        simp [mkRow, hk, ht, hb, Function.comp_def]
        rw [List.filter_eq_nil_iff.2 (by simp)]; rfl
  · have hb : (key == k) = false := by simpa using hk
    simp [mkRow, hk, hb, Function.comp_def]
    rw [List.filter_eq_nil_iff.2 (by simp)]; rfl

theorem daySum_not_mem (new : List (Int × Rat)) (d : Int) (h : ∀ p ∈ new, p.1 ≠ d) : daySum new d = 0 := by
  unfold daySum
  rw [List.filter_eq_nil_iff.2 (fun p hp => by simpa using h p hp)]
  simp

theorem daySum_mem : ∀ (new : List (Int × Rat)) (d : Int) (u : Rat),
    (new.map (·.1)).Pairwise (· ≠ ·) → (d, u) ∈ new → daySum new d = u
  | [], _, _, _, h => by cases h
  | p :: l, d, u, hp, h => by
    simp only [List.map_cons, List.pairwise_cons] at hp
    rcases List.mem_cons.1 h with rfl | h
    · have : daySum l d = 0 := daySum_not_mem l d (fun q hq hc =>
        hp.1 q.1 (List.mem_map_of_mem hq) hc.symm)
      unfold daySum at this ⊢
      simp only [List.filter_cons, beq_self_eq_true, if_true, List.map_cons, List.sum_cons, this]
      grind
    · have hne : p.1 ≠ d := hp.1 d (by simpa using List.mem_map_of_mem (f := (·.1)) h)
      have ih := daySum_mem l d u hp.2 h
      unfold daySum at ih ⊢
      rw [List.filter_cons_of_neg (by simpa using hne)]
      exact ih


theorem LedgerOK.markDone {env : Env} {σ : SS} (h : LedgerOK env σ) (t : Uid) : LedgerOK env (markDone σ t) :=
  ⟨h.pos, h.own, h.present, h.capDay, h.noOver⟩

/-- the ledger invariant survives one placement: the new rows fit into what the days still offered -/
theorem place_ledger_of_stage (env : Env) (σ σm : SS) (t : Uid) (new : List (Int × Rat)) (hl : LedgerOK env σ)
    (hs : Stage env t new { σ with res := (resLookup σ.res (env.info t).resource).1 } σm)
    (hg : GoodNew (resLookup σ.res (env.info t).resource).2 (usedBy env σ.rows (env.info t).resource t) new) :
    LedgerOK env (Pj.markDone σm t) := by
  apply LedgerOK.markDone
  obtain ⟨⟨r, hr, _⟩, hcal, hcont⟩ := resLookup_spec σ.res (env.info t).resource
  have hu : ∀ d, 0 ≤ usedBy env σ.rows (env.info t).resource t d := fun d => reserved_nonneg _ hl.pos _ _ _
  obtain ⟨hfit, hpw⟩ := hg hu
  have hres : σm.res = σ.res ++ r := hs.res.trans hr
  have hrows := hs.rows
  have hcap : ∀ p ∈ new, 0 < p.2 ∧
      usedBy env σ.rows (env.info t).resource t p.1 + p.2 ≤ capMid σm.res (env.info t).resource p.1 := by
    intro p hp
    obtain ⟨c, hc, h0, h1⟩ := hfit p hp
    have : capMid σm.res (env.info t).resource p.1 = c := by
      unfold capMid
      rw [hs.res]
      show (match capR (calOf (resLookup σ.res (env.info t).resource).1 (env.info t).resource) _ with
        | .ok v => v | .error _ => 0) = c
      rw [hcal, hc]
    rw [this]; exact ⟨h0, by grind⟩
  have hold : ∀ x ∈ σ.rows, capMid σm.res x.res x.day = capMid σ.res x.res x.day := fun x hx => by
    rw [hres]; exact capMid_append _ _ _ _ (hl.present x hx)
  have hkeyin : (σm.res.map (·.1)).contains (env.info t).resource = true := by
    rw [hs.res]; exact hcont
  refine ⟨?_, ?_, ?_, ?_, ?_⟩
  · intro x hx
    rw [hrows] at hx
    rcases List.mem_append.1 hx with hx | hx
    · exact hl.pos x hx
    · obtain ⟨p, hp, rfl⟩ := List.mem_map.1 hx
      exact (hcap p hp).1
  · intro x hx
    rw [hrows] at hx
    rcases List.mem_append.1 hx with hx | hx
    · exact hl.own x hx
    · obtain ⟨p, hp, rfl⟩ := List.mem_map.1 hx
      rfl
  · intro x hx
    rw [hrows] at hx
    rcases List.mem_append.1 hx with hx | hx
    · rw [hres]; exact contains_append_left _ _ _ (hl.present x hx)
    · obtain ⟨p, hp, rfl⟩ := List.mem_map.1 hx
      exact hkeyin
  · intro x hx
    rw [hrows] at hx
    rcases List.mem_append.1 hx with hx | hx
    · rw [hold x hx]; exact hl.capDay x hx
    · obtain ⟨p, hp, rfl⟩ := List.mem_map.1 hx
      have := hcap p hp
      have := hu p.1
      show 0 < capMid σm.res (env.info t).resource p.1
      grind
  · intro x hx
    rw [hrows, reserved_append, reserved_mk]
    rw [hrows] at hx
    by_cases hc : (env.info t).resource = x.res ∧
        ∀ t', (if env.balance then none else some x.task) = some t' → t = t'
    · rw [if_pos hc]
      obtain ⟨hk, htf⟩ := hc
      have huse : reserved σ.rows x.res x.day (if env.balance then none else some x.task) =
          usedBy env σ.rows (env.info t).resource t x.day := by
        unfold usedBy
        rw [← hk]
        by_cases hb : env.balance = true
        · simp [hb]
        · simp only [hb] at htf ⊢
          rw [htf x.task rfl]
      by_cases hday : ∃ p ∈ new, p.1 = x.day
      · obtain ⟨p, hp, hpd⟩ := hday
        rw [huse, ← hk, ← hpd, daySum_mem new p.1 p.2 hpw hp]
        exact (hcap p hp).2
      · have hz : daySum new x.day = 0 := daySum_not_mem new x.day (fun p hp hc => hday ⟨p, hp, hc⟩)
        rcases List.mem_append.1 hx with hx | hx
        · rw [hz, hold x hx]
          have := hl.noOver x hx
          grind
        · obtain ⟨p, hp, rfl⟩ := List.mem_map.1 hx
          exact absurd ⟨p, hp, rfl⟩ hday
    · rw [if_neg hc]
      rcases List.mem_append.1 hx with hx | hx
      · rw [hold x hx]
        have := hl.noOver x hx
        grind
      · obtain ⟨p, hp, rfl⟩ := List.mem_map.1 hx
        exfalso
        apply hc
        refine ⟨rfl, ?_⟩
        intro t' ht'
        by_cases hb : env.balance = true
        · simp [hb] at ht'
        · simpa [hb, mkRow] using ht'

theorem fwdPlace_ledger (env : Env) (σ σ' : SS) (t : Uid) (m : Time) (hl : LedgerOK env σ)
    (h : fwdPlace env σ t m = .ok σ') : LedgerOK env σ' := by
  obtain ⟨new, σm, hs, rfl, hg⟩ := fwdPlace_stage env σ σ' t m h
  exact place_ledger_of_stage env σ σm t new hl hs hg

theorem bwdPlace_ledger (env : Env) (σ σ' : SS) (t : Uid) (m m' : Time) (hl : LedgerOK env σ)
    (h : bwdPlace env σ t m m' = .ok σ') : LedgerOK env σ' := by
  obtain ⟨new, σm, hs, rfl, hg⟩ := bwdPlace_stage env σ σ' t m m' h
  exact place_ledger_of_stage env σ σm t new hl hs hg

theorem fwdPass_ledger (env : Env) : ∀ (fuel : Nat) (stk : List Uid) (σ : SS) (t : Uid) (m : Time) (σ' : SS),
    LedgerOK env σ → fwdPass env fuel stk σ t m = .ok σ' → LedgerOK env σ' := by
  intro fuel stk σ t m σ' hl h
  exact fwdPass_inv env (LedgerOK env) (fun _ => True)
    (fun σ σ' t v _ hi _ _ h => fwdPlace_ledger env σ σ' t v hi h)
    (fun _ _ _ _ => trivial) (fun _ _ _ _ _ => trivial) fuel stk σ t m σ' trivial hl h

theorem bwdPass_ledger (env : Env) : ∀ (fuel : Nat) (stk : List Uid) (σ : SS) (t : Uid) (m : Time) (σ' : SS),
    LedgerOK env σ → bwdPass env fuel stk σ t m = .ok σ' → LedgerOK env σ' := by
  intro fuel stk σ t m σ' hl h
  exact bwdPass_inv env (LedgerOK env) (fun _ => True)
    (fun σ σ' t m v _ hi _ _ h => bwdPlace_ledger env σ σ' t m v hi h)
    (fun _ _ _ _ => trivial) (fun _ _ _ _ _ => trivial) fuel stk σ t m σ' trivial hl h


/-! ### from the final pass state to the C03 predicates -/

theorem fwdRun_ok (env : Env) (f0 : Uid → Fields) (res0 : List (Option Nat × Cal)) (o : Output)
    (h : fwdRun env f0 res0 = .ok o) :
    ∃ mem σ, members env = some mem ∧
      passList (fun σ r => fwdPass env (env.n + 1) [] σ r env.bound)
        { f := prepare env f0 mem, rows := [], done := [], res := res0, reads := 1 } env.roots = .ok σ ∧
      o = { f := σ.f, rows := σ.rows, res := σ.res } := by
  unfold fwdRun at h
  cases hm : members env with
  | none => simp [hm, bind, Except.bind, throw, throwThe, MonadExceptOf.throw] at h
  | some mem =>
    simp only [hm, bind, Except.bind, pure, Except.pure] at h
    split at h
    · cases h
    · rename_i σ hσ
      cases h
      exact ⟨mem, σ, rfl, hσ, rfl⟩

theorem bwdRun_ok (env : Env) (f0 : Uid → Fields) (res0 : List (Option Nat × Cal)) (o : Output)
    (h : bwdRun env f0 res0 = .ok o) :
    ∃ mem σ, members env = some mem ∧
      passList (fun σ r => bwdPass env (env.n + 1) [] σ r env.bound)
        { f := prepare env f0 mem, rows := [], done := [], res := res0, reads := 0 } env.roots.reverse = .ok σ ∧
      o = { f := σ.f, rows := σ.rows, res := σ.res } := by
  unfold bwdRun at h
  cases hm : members env with
  | none => simp [hm, bind, Except.bind, throw, throwThe, MonadExceptOf.throw] at h
  | some mem =>
    simp only [hm, bind, Except.bind, pure, Except.pure] at h
    split at h
    · cases h
    · rename_i σ hσ
      cases h
      exact ⟨mem, σ, rfl, hσ, rfl⟩

theorem forwardCalc_run (env : Env) (f0 : Uid → Fields) (res0 : List (Option Nat × Cal)) (o : Output)
    (h : forwardCalc env f0 res0 = .ok o) : fwdRun env f0 res0 = .ok o := by
  unfold forwardCalc at h
  simp only [bind, Except.bind] at h
  split at h
  · cases h
  · exact h

theorem backwardCalc_run (env : Env) (f0 : Uid → Fields) (res0 : List (Option Nat × Cal)) (o : Output)
    (h : backwardCalc env f0 res0 = .ok o) : bwdRun env f0 res0 = .ok o := by
  unfold backwardCalc at h
  simp only [bind, Except.bind] at h
  split at h
  · cases h
  · exact h

theorem LedgerOK.init (env : Env) (σ : SS) (h : σ.rows = []) : LedgerOK env σ := by
  refine ⟨?_, ?_, ?_, ?_, ?_⟩ <;> (intro r hr; rw [h] at hr; cases hr)

/-- the ledger invariant of the final state is what the four executable C03 predicates check -/
theorem c03_of_ledger (env : Env) (σ : SS) (hl : LedgerOK env σ) (o : Output)
    (ho : o = { f := σ.f, rows := σ.rows, res := σ.res }) :
    c03Positive o = true ∧ c03OwnResource env o = true ∧ c03CapacityDay o = true ∧ c03NoOverAlloc env o = true := by
  subst ho
  refine ⟨?_, ?_, ?_, ?_⟩
  · simp only [c03Positive, List.all_eq_true, decide_eq_true_eq]
    exact hl.pos
  · simp only [c03OwnResource, List.all_eq_true, beq_iff_eq]
    exact hl.own
  · simp only [c03CapacityDay, List.all_eq_true, decide_eq_true_eq]
    exact hl.capDay
  · simp only [c03NoOverAlloc, List.all_eq_true, decide_eq_true_eq]
    intro r hr
    have h := hl.noOver r hr
    have he : sumUnits (σ.rows.filter (fun x => x.res == r.res && x.day == r.day && (env.balance || x.task == r.task)))
        = reserved σ.rows r.res r.day (if env.balance then none else some r.task) := by
      unfold sumUnits reserved
      by_cases hb : env.balance = true
      · simp [hb]
      · simp [hb]
    rw [he]; exact h

theorem forwardCalc_c03 (env : Env) (f0 : Uid → Fields) (res0 : List (Option Nat × Cal)) (o : Output)
    (h : forwardCalc env f0 res0 = .ok o) :
    c03Positive o = true ∧ c03OwnResource env o = true ∧ c03CapacityDay o = true ∧ c03NoOverAlloc env o = true := by
  obtain ⟨mem, σ, _, hp, ho⟩ := fwdRun_ok env f0 res0 o (forwardCalc_run env f0 res0 o h)
  refine c03_of_ledger env σ ?_ o ho
  exact passList_inv (LedgerOK env) _ _ (fun a x b _ ha hh => fwdPass_ledger env _ _ _ _ _ _ ha hh) _ _
    (LedgerOK.init env _ rfl) hp

theorem backwardCalc_c03 (env : Env) (f0 : Uid → Fields) (res0 : List (Option Nat × Cal)) (o : Output)
    (h : backwardCalc env f0 res0 = .ok o) :
    c03Positive o = true ∧ c03OwnResource env o = true ∧ c03CapacityDay o = true ∧ c03NoOverAlloc env o = true := by
  obtain ⟨mem, σ, _, hp, ho⟩ := bwdRun_ok env f0 res0 o (backwardCalc_run env f0 res0 o h)
  refine c03_of_ledger env σ ?_ o ho
  exact passList_inv (LedgerOK env) _ _ (fun a x b _ ha hh => bwdPass_ledger env _ _ _ _ _ _ ha hh) _ _
    (LedgerOK.init env _ rfl) hp


/-! ### the resource table at the end (C03, resources clause) -/

/-- the table is the supplied one followed by entries for resources of member tasks, and every done task's
    resource is in it -/
structure ResOK (env : Env) (res0 : List (Option Nat × Cal)) (σ : SS) : Prop where
  ext : ∃ r, σ.res = res0 ++ r ∧ ∀ p ∈ r, ∃ t, (env.info t).member = true ∧ (env.info t).resource = p.1
  have_ : ∀ x ∈ σ.done, (σ.res.map (·.1)).contains (env.info x).resource = true

theorem place_resOK_of_stage (env : Env) (res0 : List (Option Nat × Cal)) (σ σm : SS) (t : Uid)
    (new : List (Int × Rat)) (hm : (env.info t).member = true) (hi : ResOK env res0 σ)
    (hs : Stage env t new { σ with res := (resLookup σ.res (env.info t).resource).1 } σm) :
    ResOK env res0 (markDone σm t) := by
  obtain ⟨⟨r, hr, hrk⟩, _, hcont⟩ := resLookup_spec σ.res (env.info t).resource
  obtain ⟨r0, hr0, hk0⟩ := hi.ext
  have hres : σm.res = σ.res ++ r := hs.res.trans hr
  have hd : (markDone σm t).done = σ.done ++ [t] := by simp [markDone, hs.done]
  refine ⟨⟨r0 ++ r, ?_, ?_⟩, ?_⟩
  · show σm.res = _
    rw [hres, hr0, List.append_assoc]
  · intro p hp
    rcases List.mem_append.1 hp with hp | hp
    · exact hk0 p hp
    · exact ⟨t, hm, (hrk p hp).1.symm⟩
  · intro x hx
    rw [hd] at hx
    show (σm.res.map (·.1)).contains _ = true
    rcases List.mem_append.1 hx with hx | hx
    · rw [hres]; exact contains_append_left _ _ _ (hi.have_ x hx)
    · simp only [List.mem_singleton] at hx
      subst hx
      rw [hs.res]; exact hcont

theorem fwdPlace_resOK (env : Env) (res0 : List (Option Nat × Cal)) (σ σ' : SS) (t : Uid) (m : Time)
    (hm : (env.info t).member = true) (hi : ResOK env res0 σ) (h : fwdPlace env σ t m = .ok σ') :
    ResOK env res0 σ' := by
  obtain ⟨new, σm, hs, rfl, _⟩ := fwdPlace_stage env σ σ' t m h
  exact place_resOK_of_stage env res0 σ σm t new hm hi hs

theorem bwdPlace_resOK (env : Env) (res0 : List (Option Nat × Cal)) (σ σ' : SS) (t : Uid) (m m' : Time)
    (hm : (env.info t).member = true) (hi : ResOK env res0 σ) (h : bwdPlace env σ t m m' = .ok σ') :
    ResOK env res0 σ' := by
  obtain ⟨new, σm, hs, rfl, _⟩ := bwdPlace_stage env σ σ' t m m' h
  exact place_resOK_of_stage env res0 σ σm t new hm hi hs

/-- what `members env = some mem` says: the roots' subtrees, flattened -/
theorem members_spec (env : Env) (mem : List Uid) (hm : members env = some mem) :
    (∀ r ∈ env.roots, ∃ l, subtreeF (fun u => (env.info u).children) (env.n + 1) r = some l ∧ ∀ x ∈ l, x ∈ mem) ∧
    (∀ x ∈ mem, ∃ r ∈ env.roots, ∃ l, subtreeF (fun u => (env.info u).children) (env.n + 1) r = some l ∧ x ∈ l) := by
  unfold members at hm
  simp only [Option.map_eq_some_iff] at hm
  obtain ⟨ll, hll, rfl⟩ := hm
  constructor
  · intro r hr
    obtain ⟨l, hl, hs⟩ := mapM_some_mem _ _ _ hll r hr
    exact ⟨l, hs, fun x hx => List.mem_flatten.2 ⟨l, hl, hx⟩⟩
  · intro x hx
    obtain ⟨l, hl, hxl⟩ := List.mem_flatten.1 hx
    obtain ⟨r, hr, hs⟩ := mapM_some_mem_inv _ _ _ hll l hl
    exact ⟨r, hr, l, hs, hxl⟩

theorem memberList_eq (env : Env) (mem : List Uid) (hm : members env = some mem) : memberList env = mem := by
  unfold memberList; rw [hm]; rfl

theorem members_root (env : Env) (mem : List Uid) (hm : members env = some mem) : ∀ r ∈ env.roots, r ∈ mem := by
  intro r hr
  obtain ⟨l, hl, hsub⟩ := (members_spec env mem hm).1 r hr
  simp only [subtreeF, Option.map_eq_some_iff] at hl
  obtain ⟨d, _, rfl⟩ := hl
  exact hsub r List.mem_cons_self

/-- the member list is closed under `children` -/
theorem members_children (env : Env) (mem : List Uid) (hm : members env = some mem) :
    ∀ x ∈ mem, ∀ c ∈ (env.info x).children, c ∈ mem := by
  intro x hx c hc
  obtain ⟨r, hr, l, hl, hxl⟩ := (members_spec env mem hm).2 x hx
  obtain ⟨l', hl', hsub⟩ := (members_spec env mem hm).1 r hr
  rw [hl] at hl'
  cases hl'
  apply hsub
  simp only [subtreeF, Option.map_eq_some_iff] at hl
  obtain ⟨d, hd, rfl⟩ := hl
  have hrc : TC (fun a b => b ∈ (env.info a).children) r c := by
    rcases List.mem_cons.1 hxl with rfl | hxd
    · exact TC.single hc
    · exact TC.tail (descF_sound _ _ _ _ hd x hxd) hc
  exact List.mem_cons_of_mem _ (descF_complete _ _ _ _ hd c hrc)

/-- the resources clause of C03, from what the passes guarantee about the final state -/
theorem c03Resources_of (env : Env) (res0 : List (Option Nat × Cal)) (σ : SS) (hf : env.flagsOK)
    (mem : List Uid) (hm : members env = some mem) (hcl : DoneClosed env σ)
    (hroots : ∀ r ∈ env.roots, r ∈ σ.done) (hres : ResOK env res0 σ) (o : Output)
    (ho : o = { f := σ.f, rows := σ.rows, res := σ.res }) : c03Resources env res0 o = true := by
  subst ho
  obtain ⟨r, hr, hk⟩ := hres.ext
  unfold c03Resources
  simp only [Bool.and_eq_true, List.all_eq_true, memberList_eq env mem hm]
  refine ⟨⟨?_, ?_⟩, ?_⟩
  · intro t ht
    obtain ⟨rt, hrt, l, hl, htl⟩ := (members_spec env mem hm).2 t ht
    exact hres.have_ t (hcl.subtree (hroots rt hrt) _ l hl t htl)
  · show ((σ.res.map (·.1)).take res0.length == res0.map (·.1)) = true
    rw [hr, List.map_append, List.take_left' (by simp)]
    simp
  · intro p hp
    have hp' : p ∈ r := by
      have : (σ.res.drop res0.length) = r := by rw [hr, List.drop_left' rfl]
      exact this ▸ hp
    obtain ⟨t, htm, htr⟩ := hk p hp'
    rw [List.any_eq_true]
    exact ⟨t, by rw [← memberList_eq env mem hm]; exact (hf t).1 htm, by simp [htr]⟩

theorem forwardCalc_c03Resources (env : Env) (f0 : Uid → Fields) (res0 : List (Option Nat × Cal)) (o : Output)
    (hf : env.flagsOK) (h : forwardCalc env f0 res0 = .ok o) : c03Resources env res0 o = true := by
  obtain ⟨mem, σ, hm, hp, ho⟩ := fwdRun_ok env f0 res0 o (forwardCalc_run env f0 res0 o h)
  have hmemb : ∀ t, (env.info t).member = true ↔ t ∈ mem := fun t => by rw [← memberList_eq env mem hm]; exact hf t
  have hI : DoneClosed env σ ∧ ResOK env res0 σ := by
    refine passList_inv (fun s => DoneClosed env s ∧ ResOK env res0 s) _ _ ?_ _ _ ⟨?_, ?_, ?_⟩ hp
    · intro a x b hx ha hh
      refine ⟨fwdPass_doneClosed env _ _ _ _ _ _ ha.1 hh, ?_⟩
      exact fwdPass_inv env (ResOK env res0) (fun t => (env.info t).member = true)
        (fun s s' t v hq hi _ _ h => fwdPlace_resOK env res0 s s' t v hq hi h)
        (fun t c hq hc => (hmemb c).2 (members_children env mem hm t ((hmemb t).1 hq) c hc))
        (fun t p hq _ he => he.trans hq) _ _ _ _ _ _ ((hmemb x).2 (members_root env mem hm x hx)) ha.2 hh
    · intro x hx; cases hx
    · exact ⟨[], by simp, by simp⟩
    · intro x hx; cases hx
  have hroots : ∀ r ∈ env.roots, r ∈ σ.done :=
    passList_all_done _ _ (fun a x b _ hh => fwdPass_ext env _ _ _ _ _ _ hh) _ _ hp
  exact c03Resources_of env res0 σ hf mem hm hI.1 hroots hI.2 o ho

theorem backwardCalc_c03Resources (env : Env) (f0 : Uid → Fields) (res0 : List (Option Nat × Cal)) (o : Output)
    (hf : env.flagsOK) (h : backwardCalc env f0 res0 = .ok o) : c03Resources env res0 o = true := by
  obtain ⟨mem, σ, hm, hp, ho⟩ := bwdRun_ok env f0 res0 o (backwardCalc_run env f0 res0 o h)
  have hmemb : ∀ t, (env.info t).member = true ↔ t ∈ mem := fun t => by rw [← memberList_eq env mem hm]; exact hf t
  have hI : DoneClosed env σ ∧ ResOK env res0 σ := by
    refine passList_inv (fun s => DoneClosed env s ∧ ResOK env res0 s) _ _ ?_ _ _ ⟨?_, ?_, ?_⟩ hp
    · intro a x b hx ha hh
      refine ⟨bwdPass_doneClosed env _ _ _ _ _ _ ha.1 hh, ?_⟩
      exact bwdPass_inv env (ResOK env res0) (fun t => (env.info t).member = true)
        (fun s s' t m v hq hi _ _ h => bwdPlace_resOK env res0 s s' t m v hq hi h)
        (fun t c hq hc => (hmemb c).2 (members_children env mem hm t ((hmemb t).1 hq) c hc))
        (fun t p hq _ he => he.trans hq) _ _ _ _ _ _
        ((hmemb x).2 (members_root env mem hm x (List.mem_reverse.1 hx))) ha.2 hh
    · intro x hx; cases hx
    · exact ⟨[], by simp, by simp⟩
    · intro x hx; cases hx
  have hroots : ∀ r ∈ env.roots, r ∈ σ.done := fun r hr =>
    passList_all_done _ _ (fun a x b _ hh => bwdPass_ext env _ _ _ _ _ _ hh) _ _ hp r (List.mem_reverse.2 hr)
  exact c03Resources_of env res0 σ hf mem hm hI.1 hroots hI.2 o ho

end Pj
