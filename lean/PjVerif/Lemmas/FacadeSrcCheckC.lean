/-
  Lemmas/FacadeSrcCheckC.lean — stage 3 of the translated tie for the list facades of task.py: kernel-checked concrete
  runs of `_ChildrenList.sort` (Extracted/FacadeSrc.lean) against `chSort` (Model/GraphOps.lean) for a concrete meaning of
  the library primitives.  `List.mergeSort` (in `sortBy`) does not reduce in the kernel (well-founded recursion), so the
  model's result is computed through `sortBy_eq_insSort` (Lemmas/FacadeSrcSort.lean): `chSort = chSortI`.
  See Lemmas/FacadeSrcCheck.lean / Lemmas/FacadeSrc.lean.
-/
import PjVerif.Lemmas.FacadeSrcCheckB
import PjVerif.Lemmas.FacadeSrcSort
namespace Pj.FacadeSrc
open Pj.PyLite Pj.Extracted Pj.Extracted.Facade Pj.TaskSrc Pj.TaskSrc.Check
namespace Check

/-- `chSort` with the insertion sort -/
def chSortI (s : G) (h : Uid) (key : Uid → Int) (rev : Bool) : G × Option Err :=
  let l := insSort (fun a b => if rev then decide (key b ≤ key a) else decide (key a ≤ key b)) (s.children h)
  ({ s with children := upd s.children h l }, none)

theorem chSort_eq (s : G) (h : Uid) (key : Uid → Int) (rev : Bool) : chSort s h key rev = chSortI s h key rev := by
  unfold chSort chSortI
  rw [sortBy_eq_insSort]

/-- the attributes of the tasks of `g6`: attribute 0 (`name`) a string, given by its rank; attribute 1 (`prio`) an `int`
    (two tasks share each value); attribute 2 (`note`) is `None` for some tasks -/
def attrOf (u k : Nat) : Atom :=
  match k with
  | 0 => .str ([9, 4, 2, 4, 7, 1, 3].getD u 0)
  | 1 => .num (([0, 3, 1, 3, 2, 1, 5] : List Int).getD u 0 : Rat)
  | _ => if u % 2 = 0 then .none else .str u

/-- `str(v)` of an `int` 0 … 9 is the digit, the string of rank 48 + v; of a string the string itself.
    `'-'.join([a, b])` for two strings of ranks < 100: the rank `100 * a + b` (the lexicographic order of the pairs) -/
def lib : Lib := fun name args =>
  if name = "__getattribute__" then
    match args with
    | [.ref u, .str k] => .ok (attrOf u k)
    | _ => .error stuck
  else if name = "str" then
    match args with
    | [.str k] => .ok (.str k)
    | [.num q] => if q.den = 1 then .ok (.str (48 + q.num.toNat)) else .error stuck
    | _ => .error stuck
  else if name = "join:-" then
    match args with
    | [.str a] => .ok (.str a)
    | [.str a, .str b] => .ok (.str (100 * a + b))
    | _ => .error stuck
  else .error stuck

def rank0 (u : Uid) : Int := ([9, 4, 2, 4, 7, 1, 3] : List Int).getD u 0
def rank1 (u : Uid) : Int := ([0, 3, 1, 3, 2, 1, 5] : List Int).getD u 0
def rank10 (u : Uid) : Int := 100 * (48 + rank1 u) + rank0 u

def agreeSort (s : G) (h : Uid) (keyV : Val) (key : Uid → Int) (rev : Bool) : Prop :=
  runE s (interpChSort lib FF h keyV rev) = expectR s.n noneV (chSortI s h key rev)
instance (s h keyV key rev) : Decidable (agreeSort s h keyV key rev) := by unfold agreeSort; infer_instance

def strV (k : Nat) : Val := .atom (.str k)

-- one attribute: a string / an `int`, ascending and descending (ties keep their order, with `reverse` too)
example : allU g6 (fun h => decide (agreeSort g6 h (strV 0) rank0 false) && decide (agreeSort g6 h (strV 0) rank0 true) &&
    decide (agreeSort g6 h (strV 1) rank1 false) && decide (agreeSort g6 h (strV 1) rank1 true)) = true := by decide +kernel
example : (chSortI g6 0 rank0 false).1.children 0 = [5, 2, 1, 3, 4] ∧ (chSortI g6 0 rank0 true).1.children 0 = [4, 1, 3, 2, 5] ∧
    (chSortI g6 0 rank1 false).1.children 0 = [2, 5, 4, 1, 3] ∧ (chSortI g6 0 rank1 true).1.children 0 = [1, 3, 4, 2, 5] := by
  decide +kernel
-- several attributes: `[prio, name]` (the string `str(prio) + '-' + name`), `[name]`
example : allU g6 (fun h => decide (agreeSort g6 h (.list [.str 1, .str 0]) rank10 false) &&
    decide (agreeSort g6 h (.list [.str 1, .str 0]) rank10 true) &&
    decide (agreeSort g6 h (.list [.str 0]) rank0 false)) = true := by decide +kernel
example : (chSortI g6 0 rank10 false).1.children 0 = [5, 2, 4, 1, 3] := by decide +kernel
-- the model's statement for these runs is about `chSort`
example : runE g6 (interpChSort lib FF 0 (strV 0) true) = expectR g6.n noneV (chSort g6 0 rank0 true) := by
  rw [chSort_eq]; decide +kernel
/-- a key that is neither a `str` nor a list: RuntimeError -/
example : runE g6 (interpChSort lib FF 0 noneV false) = .error .runtime := by decide +kernel
/-- keys that cannot be compared (`None` and a string: Python raises TypeError): outside the fragment, the run is stuck -/
example : runE g6 (interpChSort lib FF 0 (strV 2) false) = .error stuck := by decide +kernel
/-- an attribute the library does not know: stuck -/
example : runE g6 (interpChSort noLib FF 0 (strV 0) false) = .error stuck := by decide +kernel

end Check
end Pj.FacadeSrc
