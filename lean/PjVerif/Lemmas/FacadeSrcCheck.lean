/-
  Lemmas/FacadeSrcCheck.lean — stage 1 of the translated tie for the list facades of task.py: kernel-checked concrete
  runs of the translated source (Extracted/FacadeSrc.lean, run in the extended program `facadeFuns`) against the graph
  model (Model/GraphOps.lean).  The graphs `g1`, `g2`, `g3` and the comparison (`view`, `observe`) are those of
  Lemmas/TaskSrcCheck.lean; see Lemmas/FacadeSrc.lean for the setting.  This file: `_ChildrenList.remove / append`.
  FacadeSrcCheckI.lean: `insert`.  FacadeSrcCheckA.lean: the link facades.  FacadeSrcCheckA2.lean: the operators.  FacadeSrcCheckB.lean: `move`, `reorder`.
  FacadeSrcCheckC.lean: `sort`.  FacadeSrcCheckD.lean: the list-level operators.
-/
import PjVerif.Lemmas.FacadeSrc
import PjVerif.Lemmas.TaskSrcCheck
namespace Pj.FacadeSrc
open Pj.PyLite Pj.Extracted Pj.Extracted.Facade Pj.TaskSrc Pj.TaskSrc.Check
namespace Check

/-- what the run of a facade method is compared with: the returned value and the encoding of the model's new state, or
    the model's error -/
def expectR (n : Nat) (v : Val) (r : G × Option Err) : Res (Val × List PyLite.Env) :=
  match r with
  | (s', none) => .ok (v, view n (encHeap s'))
  | (_, some e) => .error e

def FF : Nat := 26

/-- run an entry point on the canonical encoding of `s` -/
def runE (s : G) (f : PState → Res (Val × PState)) : Res (Val × List PyLite.Env) := observe s.n (f (encSt s))

def noneV : Val := .atom .none

/-- `None` and every task -/
def anchorsOpt (s : G) : List (Option Uid) := none :: (List.range s.n).map some

/-! #### `_ChildrenList.remove(t)` = `chRemove`: returns whether `t` was a child -/

def agreeChRemove (s : G) (h t : Uid) : Prop :=
  runE s (interpChRemove FF h t) = expectR s.n (boolV ((s.children h).contains t)) (chRemove s h t)
instance (s h t) : Decidable (agreeChRemove s h t) := by unfold agreeChRemove; infer_instance

example : allU g1 (fun h => allU g1 (fun t => decide (agreeChRemove g1 h t))) = true := by decide +kernel
example : allU g2 (fun h => allU g2 (fun t => decide (agreeChRemove g2 h t))) = true := by decide +kernel
example : allU g3 (fun h => allU g3 (fun t => decide (agreeChRemove g3 h t))) = true := by decide +kernel
example : (chRemove g1 1 2).2 = none ∧ (chRemove g1 1 2).1.owner 2 = none ∧ (chRemove g1 1 2).1.children 1 = [] := by
  decide +kernel                                                              -- the removed task leaves the WBS
example : (chRemove g1 0 1).2 = none ∧ (chRemove g1 0 1).1.children 0 = [3] := by decide +kernel

/-! #### `_ChildrenList.append(t)` = `chAppend`, in the extended program -/

def agreeChAppend (s : G) (h t : Uid) : Prop :=
  runE s (interpF noLib FF fn_ChildrenList_append [refV h, refV t]) = expectR s.n noneV (chAppend s h t)
instance (s h t) : Decidable (agreeChAppend s h t) := by unfold agreeChAppend; infer_instance

example : runE g1 (interpF noLib FF fn_ChildrenList_append [refV 0, noneV]) = .error .runtime ∧
    runE g1 (interpF noLib FF fn_ChildrenList_remove [refV 0, noneV]) = .error .runtime := by decide +kernel
example : allU g2 (fun h => allU g2 (fun t => decide (agreeChAppend g2 h t))) = true := by decide +kernel
example : allU g1 (fun h => allU g1 (fun t => decide (agreeChAppend g1 h t))) = true := by decide +kernel

end Check
end Pj.FacadeSrc
