/-
  Lemmas/CalendarSrc.lean — the hand-written calendar model (Model/Calendar.lean) equals the interpretation of the
  CURRENT SOURCE of the `get_available_units` methods and of the availability search (Extracted/CalendarSrc.lean,
  regenerated from /repo/src/pjplan/calendar.py and resource.py by tools/extract_calendar.py on every check).

  `interp c t` runs the translated body of the class of the object `c` on the object's fields; calls on
  sub-calendars go recursively through `interp`.  Main results (no well-formedness hypotheses):
    interp_eq_eval          : interp c t = c.eval t
    interpResource_eq_capR  : interpResource c t = (capR c t).map some
    interpSearch_eq_search  : n < fuel → interpSearch fuel c dir n t = search c dir n t
  A semantic edit of a translated method makes the corresponding `run_*` / `search_*` lemma fail to compile.
-/
import PjVerif.Extracted.CalendarSrc
import PjVerif.Model.Calendar
import PjVerif.Lemmas.Calendar
namespace Pj.CalSrc
open Pj.PyLite Pj.Extracted

/-! ### objects as field environments -/

def optTime : Option Time → Val
  | none => .atom .none
  | some t => .atom (.time t)

/-- `self.__day_hours`: the constructor always fills the keys 0..6 (calendar.py `WeeklyCalendar.__init__`) -/
def weekDict (h : List Rat) : List (Atom × Atom) :=
  (List.range 7).map (fun i => (Atom.num ((i : Nat) : Rat), Atom.num (h.getD i 0)))

/-- `self.__units = {_day_start(k): v for ...}`: keys are midnights, inserted in order -/
def directDict (m : List (Int × Rat)) : List (Atom × Atom) :=
  Dict.ofList (m.map (fun p => (Atom.time ((p.1 : Int) : Rat), Atom.num p.2)))

/-- operator calendars: `self.__calendars` = the two operand objects (`ref 0` is the object itself) -/
def opFields : Env := [("calendars", .list [.ref 1, .ref 2])]

def weeklyFields (s e : Option Time) (h : List Rat) : Env :=
  [("start", optTime s), ("end", optTime e), ("day_hours", .dict (weekDict h))]

def directFields (m : List (Int × Rat)) : Env := [("units", .dict (directDict m))]

def fixedFields (u : Rat) (s e : Option Time) : Env :=
  [("units", .atom (.num u)), ("start", optTime s), ("end", optTime e)]

/-- `Resource`: `self.calendar` -/
def resourceFields : Env := [("calendar", .atom (.ref 1))]

/-- leaf calendars call no other object -/
def noSub : Nat → Time → Res (Option Rat) := fun _ _ => throw stuck

/-- the two operands of an operator calendar -/
def twoSubs (x y : Time → Res (Option Rat)) : Nat → Time → Res (Option Rat)
  | 1 => x
  | 2 => y
  | _ => fun _ => throw stuck

def oneSub (x : Time → Res (Option Rat)) : Nat → Time → Res (Option Rat)
  | 1 => x
  | _ => fun _ => throw stuck

/-- evaluate a calendar object by running the extracted source of its class -/
def interp : Cal → Time → Res (Option Rat)
  | .weekly s e h, t => run noSub src_WeeklyCalendar (weeklyFields s e h) t
  | .direct m, t => run noSub src_DirectCalendar (directFields m) t
  | .fixed u s e, t => run noSub src_FixedCalendar (fixedFields u s e) t
  | .sum a b, t => run (twoSubs (interp a) (interp b)) src_WorkCalendarSum opFields t
  | .sub a b, t => run (twoSubs (interp a) (interp b)) src_WorkCalendarSub opFields t
  | .mul a b, t => run (twoSubs (interp a) (interp b)) src_WorkCalendarsMul opFields t
  | .div a b, t => run (twoSubs (interp a) (interp b)) src_WorkCalendarDiv opFields t
  | .or a b, t => run (twoSubs (interp a) (interp b)) src_WorkCalendarDisjunction opFields t

/-- `Resource(name, calendar=c).get_available_units(t)` -/
def interpResource (c : Cal) (t : Time) : Res (Option Rat) :=
  run (oneSub (interp c)) src_Resource resourceFields t

/-! ### symbolic execution -/

/-- unfold the interpreter on a concrete program (extra simp lemmas: the program, the fields, facts about `sub`);
    `a ≤ b` on numbers is normalised to `¬ b < a`, the form the model uses -/
syntax "pylite_exec" (" [" Lean.Parser.Tactic.simpLemma,* "]")? : tactic
macro_rules
  | `(tactic| pylite_exec) => `(tactic| pylite_exec [])
  | `(tactic| pylite_exec [$ls,*]) => `(tactic|
      simp [run, runBody, execBlock, Stmt.exec, Expr.eval, forLoop, iterOf, Env.get?, Env.set, truth, arith, arithTime, PyLite.compare,
        cmpRat, Atom.asNum?, pure, Except.pure, bind, Except.bind, throw, throwThe, MonadExceptOf.throw,
        ← Rat.not_lt, $ls,*])

/-- to show `l = if c then a else b`, split on `c` -/
theorem eq_ite_of {α : Type} {c : Prop} [Decidable c] {l a b : α} (h1 : c → l = a) (h2 : ¬c → l = b) :
    l = ite c a b := by
  by_cases h : c <;> simp [h, h1, h2]

/-! ### dict lemmas -/

theorem pyEq_iff (a b : Atom) : a.pyEq b = true ↔ a.norm = b.norm := by
  simp [Atom.pyEq]

theorem get?_cons (p : Atom × Atom) (d : List (Atom × Atom)) (k : Atom) :
    Dict.get? (p :: d) k = if p.1.pyEq k then some p.2 else Dict.get? d k := by
  unfold Dict.get?
  rw [List.find?_cons]
  split <;> simp_all

theorem get?_insert (d : List (Atom × Atom)) (k v k' : Atom) :
    Dict.get? (Dict.insert d k v) k' = if k.pyEq k' then some v else Dict.get? d k' := by
  induction d with
  | nil => simp [Dict.insert, Dict.get?]
  | cons p d ih =>
    unfold Dict.insert
    by_cases hpk : p.1.pyEq k = true
    · rw [if_pos hpk, get?_cons, get?_cons]
      have h1 := (pyEq_iff _ _).1 hpk
      by_cases hkk : k.pyEq k' = true
      · have h2 := (pyEq_iff _ _).1 hkk
        have : p.1.pyEq k' = true := (pyEq_iff _ _).2 (h1.trans h2)
        simp [this, hkk]
      · have : ¬ p.1.pyEq k' = true := fun h => hkk ((pyEq_iff _ _).2 (h1.symm.trans ((pyEq_iff _ _).1 h)))
        simp [this, hkk]
    · rw [if_neg hpk, get?_cons, ih, get?_cons]
      by_cases hpk' : p.1.pyEq k' = true
      · have : ¬ k.pyEq k' = true := fun h =>
          hpk ((pyEq_iff _ _).2 (((pyEq_iff _ _).1 hpk').trans ((pyEq_iff _ _).1 h).symm))
        simp [this, hpk']
      · simp [hpk']

theorem get?_foldl_insert (kvs acc : List (Atom × Atom)) (k : Atom) :
    Dict.get? (kvs.foldl (fun d p => Dict.insert d p.1 p.2) acc) k =
      match kvs.reverse.find? (fun p => p.1.pyEq k) with
      | some p => some p.2
      | none => Dict.get? acc k := by
  induction kvs generalizing acc with
  | nil => simp
  | cons p kvs ih =>
    rw [List.foldl_cons, ih, List.reverse_cons, List.find?_append]
    cases hf : List.find? (fun p => p.1.pyEq k) kvs.reverse with
    | some q => simp
    | none =>
      rw [get?_insert]
      by_cases hp : p.1.pyEq k = true <;> simp [hp]

/-- a later item with the same key overrides -/
theorem get?_ofList (kvs : List (Atom × Atom)) (k : Atom) :
    Dict.get? (Dict.ofList kvs) k = (kvs.reverse.find? (fun p => p.1.pyEq k)).map (·.2) := by
  unfold Dict.ofList
  rw [get?_foldl_insert]
  cases List.find? (fun p => p.1.pyEq k) kvs.reverse <;> simp [Dict.get?]

theorem directDict_get? (m : List (Int × Rat)) (d : Int) :
    Dict.get? (directDict m) (.time ((d : Int) : Rat)) = (directLookup m d).map Atom.num := by
  unfold directDict directLookup
  rw [get?_ofList, ← List.map_reverse, List.find?_map]
  have : ((fun p : Atom × Atom => p.1.pyEq (.time ((d : Int) : Rat))) ∘
      fun p : Int × Rat => (Atom.time ((p.1 : Int) : Rat), Atom.num p.2)) = fun p => p.1 == d := by
    funext p
    simp [Atom.pyEq, Atom.norm, Rat.intCast_inj, BEq.beq]
  rw [this]
  cases List.find? (fun p => p.1 == d) m.reverse <;> simp

theorem weekDict_get? (h : List Rat) (n : Nat) (hn : n < 7) :
    Dict.get? (weekDict h) (.num ((n : Nat) : Rat)) = some (.num (h.getD n 0)) := by
  have hr : List.range 7 = [0, 1, 2, 3, 4, 5, 6] := by decide
  unfold weekDict
  rw [hr]
  match n, hn with
  | 0, _ | 1, _ | 2, _ | 3, _ | 4, _ | 5, _ | 6, _ =>
    simp [get?_cons, Atom.pyEq, Atom.norm]

/-! ### per-class lemmas: the extracted body, run on the object's fields, computes the model's clause -/

/-! ### per-class lemmas: the extracted body, run on the object's fields, computes the model's clause.
    Operator classes: for an arbitrary behaviour `sub` of the two operands (results `sub 1 t`, `sub 2 t`). -/

theorem run_Sum (sub : Nat → Time → Res (Option Rat)) (t : Time) :
    run sub src_WorkCalendarSum opFields t = (do
      let x ← sub 1 t
      let acc ← accum (fun u v => pure (u + v)) none x
      let y ← sub 2 t
      accum (fun u v => pure (u + v)) acc y) := by
  rcases hx : sub 1 t with _ | _ | u <;> rcases hy : sub 2 t with _ | _ | v <;>
    pylite_exec [src_WorkCalendarSum, opFields, hx, hy, accum]

theorem run_Mul (sub : Nat → Time → Res (Option Rat)) (t : Time) :
    run sub src_WorkCalendarsMul opFields t = (do
      let x ← sub 1 t
      let acc ← accum (fun u v => pure (u * v)) none x
      let y ← sub 2 t
      accum (fun u v => pure (u * v)) acc y) := by
  rcases hx : sub 1 t with _ | _ | u <;> rcases hy : sub 2 t with _ | _ | v <;>
    pylite_exec [src_WorkCalendarsMul, opFields, hx, hy, accum]

theorem run_Div (sub : Nat → Time → Res (Option Rat)) (t : Time) :
    run sub src_WorkCalendarDiv opFields t = (do
      let x ← sub 1 t
      let acc ← accum divOp none x
      let y ← sub 2 t
      accum divOp acc y) := by
  rcases hx : sub 1 t with _ | _ | u <;> rcases hy : sub 2 t with _ | _ | v <;>
    pylite_exec [src_WorkCalendarDiv, opFields, hx, hy, accum, divOp]
  by_cases hv : v = 0 <;> simp [hv]

theorem run_Sub (sub : Nat → Time → Res (Option Rat)) (t : Time) :
    run sub src_WorkCalendarSub opFields t = (do
      let x ← sub 1 t
      let acc ← accum (fun u v => pure (u - v)) none x
      let y ← sub 2 t
      let r ← accum (fun u v => pure (u - v)) acc y
      match r with
      | none => pure none
      | some u => if u < 0 then pure none else pure (some u)) := by
  rcases hx : sub 1 t with _ | _ | u <;> rcases hy : sub 2 t with _ | _ | v <;>
    pylite_exec [src_WorkCalendarSub, opFields, hx, hy, accum] <;>
    repeat (apply eq_ite_of <;> intro h <;> pylite_exec [hx, hy, h])

theorem run_Or (sub : Nat → Time → Res (Option Rat)) (t : Time) :
    run sub src_WorkCalendarDisjunction opFields t = (do
      let x ← sub 1 t
      match x with
      | some u => if 0 < u then pure (some u) else
          (do let y ← sub 2 t
              match y with
              | some v => if 0 < v then pure (some v) else pure none
              | none => pure none)
      | none =>
          (do let y ← sub 2 t
              match y with
              | some v => if 0 < v then pure (some v) else pure none
              | none => pure none)) := by
  rcases hx : sub 1 t with _ | _ | u <;> rcases hy : sub 2 t with _ | _ | v <;>
    pylite_exec [src_WorkCalendarDisjunction, opFields, hx, hy] <;>
    repeat (apply eq_ite_of <;> intro h <;> pylite_exec [hx, hy, h])

theorem run_Fixed (sub : Nat → Time → Res (Option Rat)) (u : Rat) (s e : Option Time) (t : Time) :
    run sub src_FixedCalendar (fixedFields u s e) t = (Cal.fixed u s e).eval t := by
  cases s <;> cases e <;>
    pylite_exec [src_FixedCalendar, fixedFields, optTime, Cal.eval] <;>
    repeat (apply eq_ite_of <;> intro h <;> pylite_exec [h])

theorem run_Weekly (sub : Nat → Time → Res (Option Rat)) (s e : Option Time) (h : List Rat) (t : Time) :
    run sub src_WeeklyCalendar (weeklyFields s e h) t = (Cal.weekly s e h).eval t := by
  cases s <;> cases e <;>
    pylite_exec [src_WeeklyCalendar, weeklyFields, optTime, Cal.eval, weekDict_get? h _ (weekday_lt t)] <;>
    repeat (apply eq_ite_of <;> intro h' <;> pylite_exec [h', weekDict_get? h _ (weekday_lt t)])

theorem run_Direct (sub : Nat → Time → Res (Option Rat)) (m : List (Int × Rat)) (t : Time) :
    run sub src_DirectCalendar (directFields m) t = (Cal.direct m).eval t := by
  cases hl : directLookup m (dayOf t) <;>
    pylite_exec [src_DirectCalendar, directFields, Cal.eval, midnight, directDict_get?, hl]

/-- `Resource.get_available_units`: `None` becomes 0 -/
theorem run_Resource (sub : Nat → Time → Res (Option Rat)) (t : Time) :
    run sub src_Resource resourceFields t = (do let v ← sub 1 t; pure (some (v.getD 0))) := by
  rcases hx : sub 1 t with _ | _ | u <;> pylite_exec [src_Resource, resourceFields, hx]

/-! ### the model is the meaning of the source -/

/-- running the current source of `get_available_units` on a calendar object = the hand-written model -/
theorem interp_eq_eval (c : Cal) (t : Time) : interp c t = c.eval t := by
  induction c generalizing t with
  | weekly s e h => exact run_Weekly _ s e h t
  | direct m => exact run_Direct _ m t
  | fixed u s e => exact run_Fixed _ u s e t
  | sum a b iha ihb => simp only [interp, run_Sum, twoSubs, iha, ihb, Cal.eval] <;> rfl
  | sub a b iha ihb => simp only [interp, run_Sub, twoSubs, iha, ihb, Cal.eval] <;> rfl
  | mul a b iha ihb => simp only [interp, run_Mul, twoSubs, iha, ihb, Cal.eval] <;> rfl
  | div a b iha ihb => simp only [interp, run_Div, twoSubs, iha, ihb, Cal.eval] <;> rfl
  | or a b iha ihb => simp only [interp, run_Or, twoSubs, iha, ihb, Cal.eval] <;> rfl

/-- `Resource.get_available_units` (resource.py) = `capR`: the result is always a number -/
theorem interpResource_eq_capR (c : Cal) (t : Time) : interpResource c t = (capR c t).map some := by
  unfold interpResource capR
  rw [run_Resource]
  simp only [oneSub, interp_eq_eval]
  cases c.eval t <;> rfl

/-! ### `IResource.get_nearest_availability_date` -/

/-- `self.get_available_units` of the resource the search runs on -/
def selfSub (x : Time → Res (Option Rat)) : Nat → Time → Res (Option Rat)
  | 0 => x
  | _ => fun _ => throw stuck

/-- the environment inside the loop: the parameters, then `step` -/
def searchEnv (dir : Int) (n k : Nat) (t : Time) : Env :=
  [("start_date", .atom (.time t)), ("direction", .atom (.num ((dir : Int) : Rat))),
   ("max_days", .atom (.num ((n : Nat) : Rat))), ("step", .atom (.num ((k : Nat) : Rat)))]

/-- `Resource(calendar=c).get_nearest_availability_date(t, dir, n)`; `fuel` bounds the `while` loop -/
def interpSearch (fuel : Nat) (c : Cal) (dir : Int) (n : Nat) (t : Time) : Res Time :=
  match runBody (selfSub (interpResource c)) [] fuel src_IResource ((searchEnv dir n 0 t).take 3) with
  | .ok (.atom (.time r)) => pure r
  | .ok _ => throw stuck
  | .error e => throw e

/-- condition and body of the `while` loop -/
def searchLoop : Expr × List Stmt :=
  match src_IResource with
  | [_, .while c b, _] => (c, b)
  | _ => (.none, [])

theorem src_IResource_shape :
    src_IResource = [.assign "step" (.num 0), .while searchLoop.1 searchLoop.2, .raiseRuntime] := rfl

theorem selfSub_resource (c : Cal) (t : Time) : selfSub (interpResource c) 0 t = (capR c t).map some := by
  simp only [selfSub, interpResource_eq_capR]

theorem search_cond (sub : Nat → Time → Res (Option Rat)) (dir : Int) (n k : Nat) (t : Time) :
    (do truth (← searchLoop.1.eval sub [] (searchEnv dir n k t))) = .ok (decide (k < n)) := by
  pylite_exec [searchLoop, src_IResource, searchEnv, Rat.natCast_lt_natCast]

theorem search_body (c : Cal) (F : Nat) (dir : Int) (n k : Nat) (t : Time) :
    execBlock (selfSub (interpResource c)) [] F searchLoop.2 (searchEnv dir n k t) =
      match (if dir < 0 then capR c (t - 1) else capR c t) with
      | .error e => .raise e
      | .ok u => if 0 < u then .ret (.atom (.time t)) else .normal (searchEnv dir n (k + 1) (t + (dir : Rat))) := by
  by_cases hd : dir < 0
  · rcases hu : capR c (t - 1) with _ | u <;>
      pylite_exec [searchLoop, src_IResource, searchEnv, selfSub_resource, Except.map, hu, hd, Rat.intCast_neg_iff] <;>
      repeat (apply eq_ite_of <;> intro h <;> pylite_exec [h])
  · rcases hu : capR c t with _ | u <;>
      pylite_exec [searchLoop, src_IResource, searchEnv, selfSub_resource, Except.map, hu, hd, Rat.intCast_neg_iff] <;>
      repeat (apply eq_ite_of <;> intro h <;> pylite_exec [h])

theorem search_succ (c : Cal) (dir : Int) (m : Nat) (t : Time) :
    search c dir (m + 1) t = (do
      let u ← (if dir < 0 then capR c (t - 1) else capR c t)
      if 0 < u then pure t else search c dir m (t + (dir : Rat))) := by
  rw [search]
  split <;> rfl

def outcomeOf : Res Time → Outcome
  | .ok r => .ret (.atom (.time r))
  | .error e => .raise e

theorem search_loop (c : Cal) (F : Nat) (dir : Int) (n : Nat) (m : Nat) :
    ∀ (k : Nat) (t : Time) (f : Nat), k + m = n → m < f →
    (match whileLoop (fun env' => do truth (← searchLoop.1.eval (selfSub (interpResource c)) [] env'))
        (fun env' => execBlock (selfSub (interpResource c)) [] F searchLoop.2 env') f (searchEnv dir n k t) with
      | .normal _ => .raise .runtime
      | r => r) = outcomeOf (search c dir m t) := by
  induction m with
  | zero =>
    intro k t f hk hf
    obtain ⟨f, rfl⟩ : ∃ f', f = f' + 1 := ⟨f - 1, by omega⟩
    have : ¬ k < n := by omega
    simp [whileLoop, search_cond, this, search, outcomeOf, throw, throwThe, MonadExceptOf.throw]
  | succ m ih =>
    intro k t f hk hf
    obtain ⟨f, rfl⟩ : ∃ f', f = f' + 1 := ⟨f - 1, by omega⟩
    have hlt : k < n := by omega
    have ih' := ih (k + 1) (t + (dir : Rat)) f (by omega) (by omega)
    simp only [whileLoop, search_cond, hlt, decide_true, search_body, search_succ]
    generalize (if dir < 0 then capR c (t - 1) else capR c t) = r
    rcases r with e | u
    · rfl
    · by_cases hu : 0 < u
      · simp [hu, outcomeOf, bind, Except.bind, pure, Except.pure]
      · simp only [hu, if_false, bind, Except.bind]
        exact ih'

theorem interpSearch_eq_search (fuel : Nat) (c : Cal) (dir : Int) (n : Nat) (t : Time) (hf : n < fuel) :
    interpSearch fuel c dir n t = search c dir n t := by
  have h := search_loop c fuel dir n n 0 t fuel (by omega) hf
  have henv : Env.set ((searchEnv dir n 0 t).take 3) "step" (.atom (.num 0)) = searchEnv dir n 0 t := by
    simp [searchEnv, Env.set]
  unfold interpSearch runBody
  rw [src_IResource_shape]
  simp only [execBlock, Stmt.exec, Expr.eval, pure, Except.pure, henv]
  generalize whileLoop _ _ fuel (searchEnv dir n 0 t) = w at h ⊢
  cases w <;> cases hs : search c dir n t <;>
    simp_all [outcomeOf, throw, throwThe, MonadExceptOf.throw]

/-
  NEGATIVE SANITY CHECK (not compiled; performed 2026-09-27 with scratch copies of calendar.py / resource.py under
  /tmp, the translator run on the mutated text, output written to Extracted/CalendarSrc.lean, then
  `lake build PjVerif.Lemmas.CalendarSrc`; afterwards the file was regenerated from the real source and the build
  succeeded again).  Every semantic mutation broke exactly the lemma of the mutated method:

    WorkCalendarSub          `units < 0` -> `units <= 0`                  run_Sub       FAILS (unsolved goals)
    WorkCalendarDisjunction  `units > 0` -> `units >= 0`                  run_Or        FAILS
    WorkCalendarSum          `units += c_units` -> `units -= c_units`     run_Sum       FAILS
    WorkCalendarsMul         `continue` -> `pass`                         run_Mul       FAILS
    WorkCalendarDiv          `units /= c_units` -> `units *= c_units`     run_Div       FAILS
    FixedCalendar            first `return 0` -> `return None`            run_Fixed     FAILS
    WeeklyCalendar           `date > self.__end` -> `date >= self.__end`  run_Weekly    FAILS
    DirectCalendar           `key = _day_start(date)` -> `key = date`     run_Direct    FAILS
    Resource                 `0 if units is None else units` -> `units`   run_Resource  FAILS
    IResource search         `> 0.0` -> `>= 0.0` (forward branch)         search_body   FAILS
                             `start_date - timedelta(days=1)` -> `start_date`  search_body   FAILS
                             `while step < max_days` -> `<=`              search_cond   FAILS
                             `step += 1` -> `step += 2`                   search_body   FAILS
                             final `raise RuntimeError(..)` -> `return None`   src_IResource_shape FAILS

  Harmless rewrites that still build (the proofs do not mention local variable names except `step`): renaming
  the locals of WorkCalendarSum; `units > 0` -> `0 < units`; nested `if c_units is not None:` instead of `continue`
  with `units = units + c_units`; `return d[k] if k in d else None`; the positive form
  `if units is not None and units >= 0: return units` / `return None` in WorkCalendarSub; `not (x is None)`, `elif`/
  `else`, a docstring; a local variable for `date.weekday()`; Resource with an `if` statement instead of the
  conditional expression; in the search `0 > direction`, `0 < self.get_available_units(start_date)`,
  `step = step + 1`.  A harmless rewrite that breaks the search proof: introducing a further local variable in the
  loop (the loop invariant `searchEnv` fixes the exact list of variables).
-/

end Pj.CalSrc
