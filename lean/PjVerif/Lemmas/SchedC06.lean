/-
  Lemmas/SchedC06.lean — helper lemmas for Props/C06.lean (pass-level reasoning on top of Lemmas/SchedPass.lean).
-/
import PjVerif.Lemmas.SchedPass
import PjVerif.Spec.Sched2
namespace Pj

end Pj
