/-
  Lemmas/SchedC06.lean — helper lemmas for Props/C06.lean (pass-level reasoning on top of Lemmas/SchedPass.lean).
-/
import PjVerif.Lemmas.SchedPass
import PjVerif.Lemmas.SchedC04
import PjVerif.Spec.Sched2
namespace Pj

/-- two results whose images under `g` are told apart by a Boolean projection are different -/
theorem map_ne_of_proj {α β γ : Type} [BEq γ] [ReflBEq γ] (a b : Res α) (g : α → β) (p : β → γ)
    (h : (match a, b with | .ok o, .ok o' => (p (g o) != p (g o')) | _, _ => false) = true) :
    a.map g ≠ b.map g := by
  intro he
  cases a with
  | error e => simp at h
  | ok o =>
    cases b with
    | error e => simp at h
    | ok o' =>
      simp only [Except.map] at he
      injection he with he
      simp only [he] at h
      simp [bne] at h

/-! ### what the stages of a placement do to the dates of the task being placed -/

theorem setF_f_same (σ : SS) (t : Uid) (g : Fields → Fields) : (setF σ t g).f t = g (σ.f t) := by
  simp [setF]

theorem now_f (env : Env) (σ : SS) : (now env σ).2.f = σ.f := rfl

/-- `fwdStart`: the end is untouched, a start is present afterwards, a start already there is kept -/
theorem fwdStart_res (env : Env) (cal : Cal) (used : Int → Rat) (t : Uid) (m : Time) (σ σ' : SS)
    (h : fwdStart env cal used t m σ = .ok σ') :
    (σ'.f t).end_ = (σ.f t).end_ ∧ (σ'.f t).start.isSome = true ∧
    (∀ s, (σ.f t).start = some s → σ' = σ) := by
  unfold fwdStart at h
  simp only at h
  split at h
  · rename_i s hs
    cases h
    exact ⟨rfl, by simp [hs], fun _ _ => rfl⟩
  · rename_i hs
    refine (fun (hh : (σ'.f t).end_ = (σ.f t).end_ ∧ (σ'.f t).start.isSome = true) =>
      ⟨hh.1, hh.2, fun s h' => by rw [hs] at h'; cases h'⟩) ?_
    split at h
    · simp only [bind, Except.bind] at h
      split at h
      · cases h
      · cases h
        simp [setF_f_same, now_f]
    · split at h
      · cases h; simp [setF_f_same]
      · cases h; simp [setF_f_same]

theorem fillEst_dates (env : Env) (t : Uid) (σ σ' : SS) (h : fillEst env t σ = .ok σ') :
    (σ'.f t).start = (σ.f t).start ∧ (σ'.f t).end_ = (σ.f t).end_ := by
  unfold fillEst at h
  simp only [bind, Except.bind] at h
  split at h
  · cases h
  · rename_i σ1 h1
    have s1 : (σ1.f t).start = (σ.f t).start ∧ (σ1.f t).end_ = (σ.f t).end_ := by
      split at h1
      · cases h1; exact ⟨rfl, rfl⟩
      · split at h1
        · cases h1; simp [setF_f_same]
        · split at h1
          · cases h1
          · cases h1; simp [setF_f_same]
    have s2 : (σ'.f t).start = (σ1.f t).start ∧ (σ'.f t).end_ = (σ1.f t).end_ := by
      split at h
      · cases h; exact ⟨rfl, rfl⟩
      · split at h
        · cases h; simp [setF_f_same]
        · split at h
          · cases h
          · cases h; simp [setF_f_same]
    exact ⟨s2.1.trans s1.1, s2.2.trans s1.2⟩

theorem fwdEnd_res (env : Env) (cal : Cal) (used : Int → Rat) (t : Uid) (σ σ' : SS)
    (h : fwdEnd env cal used t σ = .ok σ') :
    (σ'.f t).start = (σ.f t).start ∧ (σ'.f t).end_.isSome = true := by
  unfold fwdEnd at h
  simp only at h
  split at h
  · rename_i e he
    cases h; exact ⟨rfl, by simp [he]⟩
  · split at h
    · simp only [bind, Except.bind] at h
      split at h
      · cases h
      · rename_i v hv
        obtain ⟨e, rows⟩ := v
        cases h
        simp [setF_f_same, now_f, addRows]
    · split at h
      · cases h
      · cases h; simp [setF_f_same]

theorem bwdEnd_res (env : Env) (cal : Cal) (used : Int → Rat) (t : Uid) (m m' : Time) (σ σ' : SS)
    (h : bwdEnd env cal used t m m' σ = .ok σ') : (σ'.f t).end_.isSome = true := by
  unfold bwdEnd at h
  simp only at h
  split at h
  · rename_i e he
    cases h; simp [he]
  · split at h
    · simp only [bind, Except.bind] at h
      split at h
      · cases h
      · cases h; simp [setF_f_same]
    · split at h
      · cases h; simp [setF_f_same]
      · cases h; simp [setF_f_same]

theorem bwdStart_res (env : Env) (cal : Cal) (used : Int → Rat) (t : Uid) (m : Time) (σ σ' : SS)
    (h : bwdStart env cal used t m σ = .ok σ') :
    (σ'.f t).end_ = (σ.f t).end_ ∧ (σ'.f t).start.isSome = true := by
  unfold bwdStart at h
  simp only at h
  split at h
  · simp only [bind, Except.bind] at h
    split at h
    · cases h
    · rename_i v hv
      obtain ⟨s, rows⟩ := v
      cases h
      simp [setF_f_same, addRows]
  · split at h
    · cases h
    · cases h; simp [setF_f_same]

/-- both dates of a freshly placed task are set (forward) -/
theorem fwdPlace_dates (env : Env) (σ σ' : SS) (t : Uid) (m : Time) (h : fwdPlace env σ t m = .ok σ') :
    (σ'.f t).start.isSome = true ∧ (σ'.f t).end_.isSome = true := by
  unfold fwdPlace at h
  rcases hr : resLookup σ.res (env.info t).resource with ⟨res', cal⟩
  simp only [hr, bind, Except.bind, pure, Except.pure] at h
  split at h
  · cases h
    simp [markDone, setF_f_same]
  · split at h
    · cases h
    · rename_i σ1 h1
      split at h
      · cases h
      · rename_i σ2 h2
        split at h
        · cases h
        · rename_i σ3 h3
          cases h
          have a := fwdStart_res _ _ _ _ _ _ _ h1
          have b := fillEst_dates _ _ _ _ h2
          have c := fwdEnd_res _ _ _ _ _ _ h3
          show (σ3.f t).start.isSome = true ∧ (σ3.f t).end_.isSome = true
          exact ⟨by rw [c.1, b.1]; exact a.2.1, c.2⟩

theorem bwdPlace_dates (env : Env) (σ σ' : SS) (t : Uid) (m m' : Time) (h : bwdPlace env σ t m m' = .ok σ') :
    (σ'.f t).start.isSome = true ∧ (σ'.f t).end_.isSome = true := by
  unfold bwdPlace at h
  rcases hr : resLookup σ.res (env.info t).resource with ⟨res', cal⟩
  simp only [hr, bind, Except.bind, pure, Except.pure] at h
  split at h
  · cases h
    simp [markDone, setF_f_same]
  · split at h
    · cases h
    · rename_i σ1 h1
      split at h
      · cases h
      · rename_i σ2 h2
        split at h
        · cases h
        · rename_i σ3 h3
          cases h
          have a := bwdEnd_res _ _ _ _ _ _ _ _ h1
          have b := fillEst_dates _ _ _ _ h2
          have c := bwdStart_res _ _ _ _ _ _ _ h3
          show (σ3.f t).start.isSome = true ∧ (σ3.f t).end_.isSome = true
          exact ⟨c.2, by rw [c.1, b.2]; exact a⟩

/-- every done task has both dates -/
def DatesSet (σ : SS) : Prop := ∀ x ∈ σ.done, (σ.f x).start.isSome = true ∧ (σ.f x).end_.isSome = true

theorem place_datesSet (σ σ' : SS) (t : Uid) (hi : DatesSet σ) (he : Ext σ σ') (hd : σ'.done = σ.done ++ [t])
    (ht : (σ'.f t).start.isSome = true ∧ (σ'.f t).end_.isSome = true) : DatesSet σ' := by
  intro x hx
  rw [hd] at hx
  rcases List.mem_append.1 hx with hx | hx
  · rw [he.frozen x hx]; exact hi x hx
  · simp only [List.mem_singleton] at hx
    subst hx; exact ht

theorem fwdPass_datesSet (env : Env) (fuel : Nat) (stk : List Uid) (σ : SS) (t : Uid) (m : Time) (σ' : SS)
    (hi : DatesSet σ) (h : fwdPass env fuel stk σ t m = .ok σ') : DatesSet σ' :=
  fwdPass_inv env DatesSet (fun _ => True)
    (fun σ σ' t v _ hi ht _ h =>
      place_datesSet σ σ' t hi (fwdPlace_ext env σ σ' t v ht h).1 (fwdPlace_ext env σ σ' t v ht h).2
        (fwdPlace_dates env σ σ' t v h))
    (fun _ _ _ _ => trivial) (fun _ _ _ _ _ => trivial) fuel stk σ t m σ' trivial hi h

theorem bwdPass_datesSet (env : Env) (fuel : Nat) (stk : List Uid) (σ : SS) (t : Uid) (m : Time) (σ' : SS)
    (hi : DatesSet σ) (h : bwdPass env fuel stk σ t m = .ok σ') : DatesSet σ' :=
  bwdPass_inv env DatesSet (fun _ => True)
    (fun σ σ' t m v _ hi ht _ h =>
      place_datesSet σ σ' t hi (bwdPlace_ext env σ σ' t m v ht h).1 (bwdPlace_ext env σ σ' t m v ht h).2
        (bwdPlace_dates env σ σ' t m v h))
    (fun _ _ _ _ => trivial) (fun _ _ _ _ _ => trivial) fuel stk σ t m σ' trivial hi h

/-- all members are done once the roots have been passed -/
theorem members_done_c06 (env : Env) (σ : SS) (mem : List Uid) (hm : members env = some mem) (hcl : DoneClosed env σ)
    (hroots : ∀ r ∈ env.roots, r ∈ σ.done) : ∀ t ∈ mem, t ∈ σ.done := by
  intro t ht
  obtain ⟨rt, hrt, l, hl, htl⟩ := (members_spec env mem hm).2 t ht
  exact hcl.subtree (hroots rt hrt) _ l hl t htl

theorem forwardCalc_dates (env : Env) (f0 : Uid → Fields) (res0 : List (Option Nat × Cal)) (o : Output)
    (h : forwardCalc env f0 res0 = .ok o) :
    ∀ t ∈ memberList env, (o.f t).start.isSome = true ∧ (o.f t).end_.isSome = true := by
  obtain ⟨mem, σ, hm, hp, ho⟩ := fwdRun_ok env f0 res0 o (forwardCalc_run env f0 res0 o h)
  have hI : DoneClosed env σ ∧ DatesSet σ := by
    refine passList_inv (fun s => DoneClosed env s ∧ DatesSet s) _ _ ?_ _ _ ⟨?_, ?_⟩ hp
    · intro a x b _ ha hh
      exact ⟨fwdPass_doneClosed env _ _ _ _ _ _ ha.1 hh, fwdPass_datesSet env _ _ _ _ _ _ ha.2 hh⟩
    · intro x hx; cases hx
    · intro x hx; cases hx
  have hroots : ∀ r ∈ env.roots, r ∈ σ.done :=
    passList_all_done _ _ (fun a x b _ hh => fwdPass_ext env _ _ _ _ _ _ hh) _ _ hp
  intro t ht
  rw [memberList_eq env mem hm] at ht
  subst ho
  exact hI.2 t (members_done_c06 env σ mem hm hI.1 hroots t ht)

theorem backwardCalc_dates (env : Env) (f0 : Uid → Fields) (res0 : List (Option Nat × Cal)) (o : Output)
    (h : backwardCalc env f0 res0 = .ok o) :
    ∀ t ∈ memberList env, (o.f t).start.isSome = true ∧ (o.f t).end_.isSome = true := by
  obtain ⟨mem, σ, hm, hp, ho⟩ := bwdRun_ok env f0 res0 o (backwardCalc_run env f0 res0 o h)
  have hI : DoneClosed env σ ∧ DatesSet σ := by
    refine passList_inv (fun s => DoneClosed env s ∧ DatesSet s) _ _ ?_ _ _ ⟨?_, ?_⟩ hp
    · intro a x b _ ha hh
      exact ⟨bwdPass_doneClosed env _ _ _ _ _ _ ha.1 hh, bwdPass_datesSet env _ _ _ _ _ _ ha.2 hh⟩
    · intro x hx; cases hx
    · intro x hx; cases hx
  have hroots : ∀ r ∈ env.roots, r ∈ σ.done := fun r hr =>
    passList_all_done _ _ (fun a x b _ hh => bwdPass_ext env _ _ _ _ _ _ hh) _ _ hp r (List.mem_reverse.2 hr)
  intro t ht
  rw [memberList_eq env mem hm] at ht
  subst ho
  exact hI.2 t (members_done_c06 env σ mem hm hI.1 hroots t ht)

/-! ### congruence of loops and passes -/

/-- two step functions that agree on the states of an invariant (which the first keeps) give the same loop -/
theorem passList_congr (I : SS → Prop) (step step' : SS → Uid → Res SS) :
    ∀ (xs : List Uid),
      (∀ σ x σ', x ∈ xs → I σ → step σ x = .ok σ' → I σ') →
      (∀ σ x, x ∈ xs → I σ → step σ x = step' σ x) →
      ∀ σ, I σ → passList step σ xs = passList step' σ xs := by
  intro xs
  induction xs with
  | nil => intro _ _ σ _; rfl
  | cons x xs ih =>
    intro hinv heq σ hi
    simp only [passList]
    rw [← heq σ x List.mem_cons_self hi]
    cases h1 : step σ x with
    | error e => rfl
    | ok σ1 =>
      simp only [bind, Except.bind]
      exact ih (fun a y b hy => hinv a y b (List.mem_cons_of_mem _ hy))
        (fun a y hy => heq a y (List.mem_cons_of_mem _ hy)) σ1 (hinv σ x σ1 List.mem_cons_self hi h1)

theorem gPass_succ (env : Env) (links kids : Uid → List Uid) (agg : SS → List Uid → Time → Time)
    (place : SS → Uid → Time → Time → Res SS) (fuel : Nat) (stk : List Uid) (σ : SS) (t : Uid) (m : Time)
    (hd : t ∉ σ.done) (hs : t ∉ stk) :
    gPass env links kids agg place (fuel + 1) stk σ t m =
      (passList (fun σ p => if (env.info p).member == (env.info t).member
          then gPass env links kids agg place fuel (t :: stk) σ p m else pure σ) σ (links t)).bind (fun σ1 =>
        (passList (fun σ c => gPass env links kids agg place fuel (t :: stk) σ c (agg σ1 (links t) m)) σ1 (kids t)).bind
          (fun σ2 => place σ2 t m (agg σ1 (links t) m))) := by
  have h1 : σ.done.contains t = false := by simpa using hd
  have h2 : stk.contains t = false := by simpa using hs
  simp only [gPass, h1, h2]
  rfl

section congr
variable (env env' : Env) (links kids : Uid → List Uid) (agg : SS → List Uid → Time → Time)
  (place place' : SS → Uid → Time → Time → Res SS)
  (hplace_ext : ∀ σ σ' t m v, t ∉ σ.done → place σ t m v = .ok σ' → Ext σ σ' ∧ σ'.done = σ.done ++ [t])
  (hmem : ∀ p, (env.info p).member = (env'.info p).member)
include hplace_ext hmem

/-- two memoised traversals whose placements agree on the states of an invariant `I` (for tasks satisfying `Q`
    and dates satisfying `P`) are equal, errors included -/
theorem gPass_congr (I : SS → Prop) (Q : Uid → Prop) (P : Time → Prop)
    (hplace : ∀ σ σ' t m v, Q t → I σ → t ∉ σ.done → (∀ c ∈ kids t, c ∈ σ.done) → place σ t m v = .ok σ' → I σ')
    (hkids : ∀ t c, Q t → c ∈ kids t → Q c)
    (hlinks : ∀ t p, Q t → p ∈ links t → (env.info p).member = (env.info t).member → Q p)
    (hagg : ∀ σ l m, P m → P (agg σ l m))
    (heq : ∀ σ t m v, Q t → I σ → P m → P v → t ∉ σ.done → place σ t m v = place' σ t m v) :
    ∀ (fuel : Nat) (stk : List Uid) (σ : SS) (t : Uid) (m : Time), Q t → I σ → P m →
      gPass env links kids agg place fuel stk σ t m = gPass env' links kids agg place' fuel stk σ t m := by
  intro fuel
  induction fuel with
  | zero => intros; rfl
  | succ fuel ih =>
    intro stk σ t m hq hi hp
    by_cases hd : t ∈ σ.done
    · have h1 : σ.done.contains t = true := by simpa using hd
      simp only [gPass, h1, if_true]
    by_cases hs : t ∈ stk
    · have h1 : σ.done.contains t = false := by simpa using hd
      have h2 : stk.contains t = true := by simpa using hs
      simp only [gPass, h1, h2, if_true]
    rw [gPass_succ _ _ _ _ _ _ _ _ _ _ hd hs, gPass_succ _ _ _ _ _ _ _ _ _ _ hd hs]
    have hx := gPass_extS env links kids agg place hplace_ext fuel (t :: stk)
    have hinv := gPass_inv env links kids agg place hplace_ext I Q hplace hkids hlinks fuel (t :: stk)
    have e1 : passList (fun σ p => if (env.info p).member == (env.info t).member
          then gPass env links kids agg place fuel (t :: stk) σ p m else pure σ) σ (links t) =
        passList (fun σ p => if (env'.info p).member == (env'.info t).member
          then gPass env' links kids agg place' fuel (t :: stk) σ p m else pure σ) σ (links t) := by
      refine passList_congr I _ _ _ ?_ ?_ σ hi
      · intro a x b hxl ha hh
        split at hh
        · rename_i hm
          exact hinv _ _ _ _ (hlinks t x hq hxl (by simpa using hm)) ha hh
        · cases hh; exact ha
      · intro a x hxl ha
        rw [← hmem x, ← hmem t]
        split
        · rename_i hm
          exact ih _ _ _ _ (hlinks t x hq hxl (by simpa using hm)) ha hp
        · rfl
    rw [← e1]
    cases h1 : passList (fun σ p => if (env.info p).member == (env.info t).member
          then gPass env links kids agg place fuel (t :: stk) σ p m else pure σ) σ (links t) with
    | error e => rfl
    | ok σ1 =>
      simp only [Except.bind]
      have x1 : ExtS (t :: stk) σ σ1 := passList_extS _ _ _ (fun a x b _ hh => by
        split at hh
        · exact (hx _ _ _ _ hh).1
        · cases hh; exact ExtS.refl _ _) _ _ h1
      have i1 : I σ1 := passList_inv I _ _ (fun a x b hxl ha hh => by
        split at hh
        · rename_i hm
          exact hinv _ _ _ _ (hlinks t x hq hxl (by simpa using hm)) ha hh
        · cases hh; exact ha) _ _ hi h1
      have pv := hagg σ1 (links t) m hp
      have e2 : passList (fun σ c => gPass env links kids agg place fuel (t :: stk) σ c (agg σ1 (links t) m)) σ1 (kids t) =
          passList (fun σ c => gPass env' links kids agg place' fuel (t :: stk) σ c (agg σ1 (links t) m)) σ1 (kids t) := by
        refine passList_congr I _ _ _ ?_ ?_ σ1 i1
        · intro a x b hxl ha hh
          exact hinv _ _ _ _ (hkids t x hq hxl) ha hh
        · intro a x hxl ha
          exact ih _ _ _ _ (hkids t x hq hxl) ha pv
      rw [← e2]
      cases h2 : passList (fun σ c => gPass env links kids agg place fuel (t :: stk) σ c (agg σ1 (links t) m)) σ1 (kids t) with
      | error e => rfl
      | ok σ2 =>
        simp only []
        have x2 : ExtS (t :: stk) σ1 σ2 := passList_extS _ _ _ (fun a x b _ hh => (hx _ _ _ _ hh).1) _ _ h2
        have i2 : I σ2 := passList_inv I _ _ (fun a x b hxl ha hh => hinv _ _ _ _ (hkids t x hq hxl) ha hh) _ _ i1 h2
        have ht2 : t ∉ σ2.done := (x1.trans x2).2 t List.mem_cons_self hd
        exact heq σ2 t m _ hq i2 hp pv ht2

end congr

/-! ### clock independence (C06) -/

/-- the environment with another clock -/
def Env.setClock (env : Env) (clk : Nat → Time) : Env := { env with clock := clk }

@[simp] theorem Env.setClock_n (env : Env) (clk : Nat → Time) : (env.setClock clk).n = env.n := rfl
@[simp] theorem Env.setClock_info (env : Env) (clk : Nat → Time) : (env.setClock clk).info = env.info := rfl
@[simp] theorem Env.setClock_roots (env : Env) (clk : Nat → Time) : (env.setClock clk).roots = env.roots := rfl
@[simp] theorem Env.setClock_balance (env : Env) (clk : Nat → Time) : (env.setClock clk).balance = env.balance := rfl
@[simp] theorem Env.setClock_defaultEst (env : Env) (clk : Nat → Time) : (env.setClock clk).defaultEst = env.defaultEst := rfl
@[simp] theorem Env.setClock_bound (env : Env) (clk : Nat → Time) : (env.setClock clk).bound = env.bound := rfl
@[simp] theorem Env.setClock_clock (env : Env) (clk : Nat → Time) : (env.setClock clk).clock = clk := rfl

/-! ### order facts -/

theorem dayOf_mono {a b : Time} (h : a ≤ b) : dayOf a ≤ dayOf b := by
  unfold dayOf
  apply Rat.le_floor_iff.2
  have : (a.floor : Rat) ≤ a := Rat.floor_le a
  grind

theorem lt_of_dayOf_lt {a b : Time} (h : dayOf a < dayOf b) : a < b := by
  apply Rat.not_le.1
  intro hc
  have := dayOf_mono hc
  omega

theorem maxT_left {a b : Time} (h : b ≤ a) : maxT a b = a := by
  unfold maxT
  split <;> grind

theorem le_maxT_left (a b : Time) : a ≤ maxT a b := by
  unfold maxT
  split <;> grind

/-- a third date not above `st` does not matter for the final maximum -/
theorem maxT_drop {e nw st : Time} (h : nw ≤ st) : maxT (maxT e nw) st = maxT e st := by
  unfold maxT
  split <;> split <;> (try split) <;> grind

theorem foldl_maxT_ge (l : List Time) : ∀ (m : Time), m ≤ l.foldl maxT m := by
  induction l with
  | nil => intro m; exact Rat.le_refl
  | cons x l ih =>
    intro m
    simp only [List.foldl_cons]
    have := ih (maxT m x)
    have := le_maxT_left m x
    grind

theorem maxEnds_ge (σ : SS) (l : List Uid) (m : Time) : m ≤ maxEnds σ l m := foldl_maxT_ge _ m



theorem fwdStart_clock (env : Env) (clk clk' : Nat → Time) (cal : Cal) (used : Int → Rat) (t : Uid) (m : Time)
    (σ : SS) (h1 : ∀ k, clk k ≤ m) (h2 : ∀ k, clk' k ≤ m) :
    fwdStart (env.setClock clk) cal used t m σ = fwdStart (env.setClock clk') cal used t m σ := by
  unfold fwdStart
  simp only [now, Env.setClock_info, Env.setClock_clock, maxT_left (h1 _), maxT_left (h2 _)]

theorem fwdStart_leaf_day (env : Env) (cal : Cal) (used : Int → Rat) (t : Uid) (m : Time) (σ σ' : SS)
    (hu : ∀ d, 0 ≤ used d) (hn : (σ.f t).start = none) (hl : (env.info t).children.isEmpty = true)
    (h : fwdStart env cal used t m σ = .ok σ') : ∃ s, (σ'.f t).start = some s ∧ dayOf m ≤ dayOf s := by
  unfold fwdStart at h
  simp only [hn, hl, if_true, bind, Except.bind] at h
  split at h
  · cases h
  · rename_i s hs
    cases h
    refine ⟨s, by simp [setF_f_same], ?_⟩
    obtain ⟨d, c, g1, _, _, _, g5, _⟩ := nearestFwd_spec cal used _ s hu hs
    rw [g5]
    refine Int.le_trans (dayOf_mono ?_) g1
    exact Rat.le_trans (le_maxT_left _ _) (le_maxT_left _ _)

theorem shiftFwd_day (cal : Cal) (used : Int → Rat) (a b : Time) (left : Rat) (hl : left ≠ 0)
    (h : dayOf a = dayOf b) : shiftFwd cal used a left = shiftFwd cal used b left := by
  unfold shiftFwd
  rw [if_neg hl, if_neg hl, h]

theorem dayOf_maxT_of_le {a b : Time} (h : dayOf b ≤ dayOf a) : dayOf (maxT a b) = dayOf a := by
  unfold maxT
  split
  · rename_i hlt
    have := dayOf_mono (Rat.le_of_lt hlt)
    omega
  · rfl

/-- the end stage of a leaf whose start is known, when the second clock reading is not later than the project start:
    the fill from the later of start and clock, and the end is the later of the fill's date and the start -/
theorem fwdEnd_leaf_eq (env : Env) (cal : Cal) (used : Int → Rat) (t : Uid) (σ : SS) (s : Time)
    (he : (σ.f t).end_ = none) (hs : (σ.f t).start = some s)
    (hl : (env.info t).children.isEmpty = true) (hb : env.clock (σ.reads + 1) ≤ env.bound) :
    fwdEnd env cal used t σ = (shiftFwd cal used (maxT s (env.clock σ.reads)) (leftOf σ t)).map (fun p =>
      setF { (addRows { σ with reads := σ.reads + 1 } (env.info t).resource t p.2) with reads := σ.reads + 2 } t
        (fun g => { g with end_ := some (maxT p.1 s) })) := by
  have hL : ∀ r, leftOf { σ with reads := r } t = leftOf σ t := fun _ => rfl
  unfold fwdEnd
  simp only [he, hl, if_true, hs, Option.getD_some, bind, Except.bind, now, hL]
  rcases hsh : shiftFwd cal used (maxT s (env.clock σ.reads)) (leftOf σ t) with err | ⟨e, rows⟩
  · rfl
  · simp only [Except.map]
    show Except.ok (setF { (addRows { σ with reads := σ.reads + 1 } (env.info t).resource t rows) with
        reads := σ.reads + 2 } t (fun g => { g with end_ := some (maxT
          (if env.bound < env.clock (σ.reads + 1) then maxT e (env.clock (σ.reads + 1)) else e) s) })) = _
    rw [if_neg (Rat.not_lt.2 hb)]

/-- the end stage does not look at the clock when no reading is later than the project start, none lies on a later
    day than the start the task has, and - when there is no work left, so that the fill returns the date it is given -
    none is later than that start -/
theorem fwdEnd_clock (env : Env) (clk clk' : Nat → Time) (cal : Cal) (used : Int → Rat) (t : Uid) (σ : SS)
    (hb1 : ∀ k, clk k ≤ env.bound) (hb2 : ∀ k, clk' k ≤ env.bound)
    (h : (σ.f t).end_ = none → (env.info t).children.isEmpty = true →
      ∃ s, (σ.f t).start = some s ∧ (∀ k, dayOf (clk k) ≤ dayOf s) ∧ (∀ k, dayOf (clk' k) ≤ dayOf s) ∧
        (leftOf σ t = 0 → (∀ k, clk k ≤ s) ∧ (∀ k, clk' k ≤ s))) :
    fwdEnd (env.setClock clk) cal used t σ = fwdEnd (env.setClock clk') cal used t σ := by
  cases he : (σ.f t).end_ with
  | some e => unfold fwdEnd; simp only [he]
  | none =>
    by_cases hl : (env.info t).children.isEmpty = true
    · obtain ⟨s, hs, h1, h2, h0⟩ := h he hl
      have key : shiftFwd cal used (maxT s (clk σ.reads)) (leftOf σ t) =
          shiftFwd cal used (maxT s (clk' σ.reads)) (leftOf σ t) := by
        by_cases hz : leftOf σ t = 0
        · rw [maxT_left ((h0 hz).1 _), maxT_left ((h0 hz).2 _)]
        · rw [shiftFwd_day _ _ _ s _ hz (dayOf_maxT_of_le (h1 _)),
            shiftFwd_day _ _ _ s _ hz (dayOf_maxT_of_le (h2 _))]
      rw [fwdEnd_leaf_eq (env.setClock clk) cal used t σ s he hs hl (hb1 _),
        fwdEnd_leaf_eq (env.setClock clk') cal used t σ s he hs hl (hb2 _)]
      simp only [Env.setClock_clock, Env.setClock_info, key]
    · unfold fwdEnd
      simp only [he, Env.setClock_info, hl]
      rfl

theorem fillEst_setClock (env : Env) (clk : Nat → Time) (t : Uid) (σ : SS) :
    fillEst (env.setClock clk) t σ = fillEst env t σ := rfl

theorem usedBy_setClock (env : Env) (clk : Nat → Time) (rows : List Row) (r : Option Nat) (t : Uid) :
    usedBy (env.setClock clk) rows r t = usedBy env rows r t := rfl

/-- one placement does not look at the clock when no reading is later than the project start (which the lower bound
    `m` is not before), none is later than a start the task already has (and will keep, its end being open), and - for
    a task without work, whose end is the date handed to the fill - none is later than the midnight of the project
    start day -/
theorem fwdPlace_clock (env : Env) (clk clk' : Nat → Time) (σ : SS) (t : Uid) (m : Time)
    (hb1 : ∀ k, clk k ≤ env.bound) (hb2 : ∀ k, clk' k ≤ env.bound) (hm : env.bound ≤ m)
    (hpos : ∀ r ∈ σ.rows, 0 < r.units)
    (hfix : ∀ s, (σ.f t).start = some s → (σ.f t).end_ = none → (env.info t).children.isEmpty = true →
      (∀ k, clk k ≤ s) ∧ (∀ k, clk' k ≤ s))
    (hzero : (σ.f t).start = none → (σ.f t).end_ = none → (env.info t).children.isEmpty = true →
      (env.info t).milestone = false → remaining env σ.f t = 0 →
      (∀ k, clk k ≤ ((dayOf env.bound : Int) : Rat)) ∧ (∀ k, clk' k ≤ ((dayOf env.bound : Int) : Rat))) :
    fwdPlace (env.setClock clk) σ t m = fwdPlace (env.setClock clk') σ t m := by
  unfold fwdPlace
  simp only [Env.setClock_info, usedBy_setClock, fillEst_setClock]
  rcases hr : resLookup σ.res (env.info t).resource with ⟨res', cal⟩
  simp only
  by_cases hms : (env.info t).milestone = true
  · simp only [hms, if_true]
  · simp only [hms]
    have hu : ∀ d, 0 ≤ usedBy env σ.rows (env.info t).resource t d := fun d => reserved_nonneg _ hpos _ _ _
    rw [fwdStart_clock env clk clk' cal _ t m _ (fun k => Rat.le_trans (hb1 k) hm) (fun k => Rat.le_trans (hb2 k) hm)]
    cases h1 : fwdStart (env.setClock clk') cal (usedBy env σ.rows (env.info t).resource t) t m
        { σ with res := res' } with
    | error e => rfl
    | ok σ1 =>
      simp only [bind, Except.bind]
      cases h2 : fillEst env t σ1 with
      | error e => rfl
      | ok σ2 =>
        simp only
        rw [fwdEnd_clock env clk clk' cal _ t σ2 hb1 hb2 ?_]
        intro he hl
        have a := fwdStart_res _ _ _ _ _ _ _ h1
        have b := fillEst_dates _ _ _ _ h2
        cases hs : (σ.f t).start with
        | some s =>
          have : σ1 = { σ with res := res' } := a.2.2 s hs
          subst this
          have he' : (σ.f t).end_ = none := by rw [← he, b.2]
          have hx := hfix s hs he' hl
          exact ⟨s, by rw [b.1]; exact hs, fun k => dayOf_mono (hx.1 k), fun k => dayOf_mono (hx.2 k), fun _ => hx⟩
        | none =>
          obtain ⟨s, hs1, hd⟩ := fwdStart_leaf_day (env.setClock clk') _ _ _ _ { σ with res := res' } _ hu hs hl h1
          have hbm : dayOf env.bound ≤ dayOf s := Int.le_trans (dayOf_mono hm) hd
          refine ⟨s, by rw [b.1]; exact hs1, fun k => Int.le_trans (dayOf_mono (hb1 k)) hbm,
            fun k => Int.le_trans (dayOf_mono (hb2 k)) hbm, fun hz => ?_⟩
          have he' : (σ.f t).end_ = none := by rw [← he, b.2, a.1]
          obtain ⟨_, f1est, f1sp, _, _⟩ := C04.fwdStart_leaf_fields (env.setClock clk') cal _ t m { σ with res := res' } σ1 hl h1
          obtain ⟨e2, _⟩ := C04.fillEst_leaf env t σ1 σ2 hl h2
          have hrem : leftOf σ2 t = remaining env σ.f t :=
            C04.leftOf_eq_remaining env σ.f σ2 t (by rw [e2, f1est]) (by rw [e2, f1sp])
          have hz' := hzero hs he' hl (by simpa using hms) (hrem ▸ hz)
          have hsge : ((dayOf env.bound : Int) : Rat) ≤ s :=
            Rat.le_trans (C04.cast_le_cast hbm) (C04.dayOf_le_self s)
          exact ⟨fun k => Rat.le_trans (hz'.1 k) hsge, fun k => Rat.le_trans (hz'.2 k) hsge⟩


theorem members_setClock (env : Env) (clk : Nat → Time) : members (env.setClock clk) = members env := rfl

theorem memberList_setClock (env : Env) (clk : Nat → Time) : memberList (env.setClock clk) = memberList env := rfl

theorem isolationOk_setClock (env : Env) (clk : Nat → Time) (f : Uid → Fields) (mem : List Uid) :
    isolationOk (env.setClock clk) f mem = isolationOk env f mem := rfl

theorem ancestorsOf_setClock (env : Env) (clk : Nat → Time) : ∀ (k : Nat) (t : Uid),
    ancestorsOf (env.setClock clk) k t = ancestorsOf env k t := by
  intro k
  induction k with
  | zero => intro t; rfl
  | succ k ih =>
    intro t
    simp only [ancestorsOf, Env.setClock_info, ih]

theorem leavesOf_setClock (env : Env) (clk : Nat → Time) (t : Uid) :
    leavesOf (env.setClock clk) t = leavesOf env t := rfl

theorem waitsFor_setClock (env : Env) (clk : Nat → Time) : waitsFor (env.setClock clk) = waitsFor env := by
  funext t
  simp only [waitsFor, ancestorsOf_setClock, leavesOf_setClock, Env.setClock_info, Env.setClock_n]

theorem checkLoops_setClock (env : Env) (clk : Nat → Time) (mem : List Uid) :
    checkLoops (env.setClock clk) mem = checkLoops env mem := by
  simp only [checkLoops, waitsFor_setClock, Env.setClock_info, Env.setClock_n]

theorem prepare_setClock (env : Env) (clk : Nat → Time) (f : Uid → Fields) (mem : List Uid) :
    prepare (env.setClock clk) f mem = prepare env f mem := rfl

/-- the hypotheses of clock independence for one clock (the same as `ClockHyp` of Props/C06.lean) -/
def ClockBefore (env : Env) (f0 : Uid → Fields) (clk : Nat → Time) : Prop :=
  (∀ k, clk k ≤ env.bound) ∧
  (∀ t ∈ memberList env, ∀ s, (f0 t).start = some s → (f0 t).end_ = none → ∀ k, dayOf (clk k) < dayOf s) ∧
  (∀ t ∈ memberList env, ∀ e, (f0 t).end_ = some e → e ≤ clk 0) ∧
  (∀ t ∈ memberList env, works env f0 t = true → (f0 t).start = none → remaining env f0 t = 0 →
    ∀ k, clk k ≤ ((dayOf env.bound : Int) : Rat))

/-- without user-fixed ends after the first clock reading the forward pre-check is the clock-free backward one -/
theorem fwdPrecheck_eq_bwd (env : Env) (f0 : Uid → Fields)
    (h : ∀ t ∈ memberList env, ∀ e, (f0 t).end_ = some e → e ≤ env.clock 0) :
    fwdPrecheck env f0 = bwdPrecheck env f0 := by
  unfold fwdPrecheck bwdPrecheck
  cases hm : members env with
  | none => rfl
  | some mem =>
    have hml := memberList_eq env mem hm
    simp only [bind, Except.bind, pure, Except.pure]
    split
    · rfl
    · cases checkLoops env mem with
      | error e => rfl
      | ok u =>
        simp only
        rw [if_neg]
        intro hc
        rw [List.any_eq_true] at hc
        obtain ⟨t, ht, hc⟩ := hc
        split at hc
        · rename_i e he
          have := h t (hml ▸ ht) e he
          simp only [decide_eq_true_eq] at hc
          grind
        · cases hc

theorem bwdPrecheck_setClock (env : Env) (clk : Nat → Time) (f0 : Uid → Fields) :
    bwdPrecheck (env.setClock clk) f0 = bwdPrecheck env f0 := by
  unfold bwdPrecheck
  simp only [members_setClock, isolationOk_setClock, checkLoops_setClock]



/-- invariant of the simulation of two runs that differ in the clock only: the ledger is sound (so that "used" is
    never negative) and a task that is not done yet still has the fields `F` it started with -/
def ClockInv (env : Env) (F : Uid → Fields) (σ : SS) : Prop :=
  LedgerOK env σ ∧ ∀ x, x ∉ σ.done → σ.f x = F x

theorem fwdPlace_clockInv (env : Env) (F : Uid → Fields) (σ σ' : SS) (t : Uid) (v : Time)
    (hi : ClockInv env F σ) (ht : t ∉ σ.done) (h : fwdPlace env σ t v = .ok σ') : ClockInv env F σ' := by
  refine ⟨fwdPlace_ledger env σ σ' t v hi.1 h, ?_⟩
  intro x hx
  have he := (fwdPlace_ext env σ σ' t v ht h).1
  rw [he.untouched x hx]
  exact hi.2 x (fun hc => hx (he.done_sub hc))

theorem prepare_leaf (env : Env) (f0 : Uid → Fields) (mem : List Uid) (t : Uid)
    (hl : (env.info t).children.isEmpty = true) : prepare env f0 mem t = f0 t := by
  simp [prepare, hl]

/-- under the clock hypotheses two forward passes that differ in the clock only are the same function on the
    states the run goes through -/
theorem fwdPass_clock (env : Env) (f0 : Uid → Fields) (clk clk' : Nat → Time) (mem : List Uid)
    (hf : env.flagsOK) (hm : members env = some mem)
    (h1 : ClockBefore env f0 clk) (h2 : ClockBefore env f0 clk')
    (fuel : Nat) (stk : List Uid) (σ : SS) (t : Uid) (m : Time) (hq : t ∈ mem)
    (hi : ClockInv (env.setClock clk) (prepare env f0 mem) σ) (hp : env.bound ≤ m) :
    fwdPass (env.setClock clk) fuel stk σ t m = fwdPass (env.setClock clk') fuel stk σ t m := by
  have hml := memberList_eq env mem hm
  have hmemb : ∀ t, (env.info t).member = true ↔ t ∈ mem := fun t => by rw [← hml]; exact hf t
  rw [fwdPass_eq_gPass, fwdPass_eq_gPass]
  refine gPass_congr (env.setClock clk) (env.setClock clk') (fun u => (env.info u).preds)
    (fun u => (env.info u).children) maxEnds (fun σ t _ v => fwdPlace (env.setClock clk) σ t v)
    (fun σ t _ v => fwdPlace (env.setClock clk') σ t v) (fwdPlace_ext' _) (fun _ => rfl)
    (ClockInv (env.setClock clk) (prepare env f0 mem)) (fun t => t ∈ mem) (fun m => env.bound ≤ m)
    ?_ ?_ ?_ ?_ ?_ fuel stk σ t m hq hi hp
  · intro a b x _ v _ ha hx _ hh
    exact fwdPlace_clockInv _ _ a b x v ha hx hh
  · intro x c hx hc
    exact members_children env mem hm x hx c hc
  · intro x p hx _ he
    exact (hmemb p).1 (he.trans ((hmemb x).2 hx))
  · intro a l v hv
    exact Rat.le_trans hv (maxEnds_ge a l v)
  · intro a x _ v hx ha _ hv hxd
    refine fwdPlace_clock env clk clk' a x v h1.1 h2.1 hv ha.1.pos ?_ ?_
    · intro s hs he hl
      rw [ha.2 x hxd, prepare_leaf env f0 mem x hl] at hs he
      exact ⟨fun k => Rat.le_of_lt (lt_of_dayOf_lt (h1.2.1 x (hml ▸ hx) s hs he k)),
        fun k => Rat.le_of_lt (lt_of_dayOf_lt (h2.2.1 x (hml ▸ hx) s hs he k))⟩
    · intro hs he hl hms hrem
      have hfx : a.f x = f0 x := by rw [ha.2 x hxd, prepare_leaf env f0 mem x hl]
      have hr : remaining env a.f x = remaining env f0 x := by unfold remaining; rw [hfx]
      rw [hfx] at hs he
      rw [hr] at hrem
      have hw : works env f0 x = true := by simp [works, isLeaf, hl, hms, he]
      exact ⟨h1.2.2.2 x (hml ▸ hx) hw hs hrem, h2.2.2.2 x (hml ▸ hx) hw hs hrem⟩

theorem fwdRun_clock (env : Env) (f0 : Uid → Fields) (res0 : List (Option Nat × Cal)) (clk clk' : Nat → Time)
    (hf : env.flagsOK) (h1 : ClockBefore env f0 clk) (h2 : ClockBefore env f0 clk') :
    fwdRun (env.setClock clk) f0 res0 = fwdRun (env.setClock clk') f0 res0 := by
  unfold fwdRun
  simp only [members_setClock, prepare_setClock, Env.setClock_n, Env.setClock_roots, Env.setClock_bound]
  cases hm : members env with
  | none => simp only [bind, Except.bind, throw, throwThe, MonadExceptOf.throw]
  | some mem =>
    simp only [bind, Except.bind, pure, Except.pure]
    rw [passList_congr (ClockInv (env.setClock clk) (prepare env f0 mem))
      (fun σ r => fwdPass (env.setClock clk) (env.n + 1) [] σ r env.bound)
      (fun σ r => fwdPass (env.setClock clk') (env.n + 1) [] σ r env.bound) env.roots ?_ ?_ _ ?_]
    · intro a x b hx ha hh
      have hml := memberList_eq env mem hm
      have hmemb : ∀ t, (env.info t).member = true ↔ t ∈ mem := fun t => by rw [← hml]; exact hf t
      exact fwdPass_inv (env.setClock clk) (ClockInv (env.setClock clk) (prepare env f0 mem)) (fun t => t ∈ mem)
        (fun s s' t v _ hi ht _ h => fwdPlace_clockInv _ _ s s' t v hi ht h)
        (fun t c hq hc => members_children env mem hm t hq c hc)
        (fun t p hq _ he => (hmemb p).1 (he.trans ((hmemb t).2 hq))) _ _ _ _ _ _
        (members_root env mem hm x hx) ha hh
    · intro a x hx ha
      exact fwdPass_clock env f0 clk clk' mem hf hm h1 h2 _ _ a x _ (members_root env mem hm x hx) ha Rat.le_refl
    · exact ⟨LedgerOK.init _ _ rfl, fun _ _ => rfl⟩

/-- C06, clock independence: under the clock hypotheses the whole forward result is the same for both clocks -/
theorem forwardCalc_clock (env : Env) (f0 : Uid → Fields) (res0 : List (Option Nat × Cal)) (clk clk' : Nat → Time)
    (hf : env.flagsOK) (h1 : ClockBefore env f0 clk) (h2 : ClockBefore env f0 clk') :
    forwardCalc (env.setClock clk) f0 res0 = forwardCalc (env.setClock clk') f0 res0 := by
  unfold forwardCalc
  rw [fwdRun_clock env f0 res0 clk clk' hf h1 h2,
    fwdPrecheck_eq_bwd (env.setClock clk) f0 h1.2.2.1, fwdPrecheck_eq_bwd (env.setClock clk') f0 h2.2.2.1,
    bwdPrecheck_setClock, bwdPrecheck_setClock]

end Pj
