/-
  Lemmas/PrintSrcB.lean — further GENERAL theorems for the translated sheet printer (see Lemmas/PrintSrc.lean, PrintSrcA.lean).
  Every theorem: for every string library `S` with `S.OK`, every `pts`, theme `th`, state `st`.  No change to existing files.
  Part 1: `__get_field_value` = `fieldValue` for EVERY field name (the `__dict__` part: unknown names, `lower()`, None,
    datetimes, `str()`):  `field_value_dict` (field ∉ stdFields, fuel F+1), `field_value_spec` (every field, fuel F+3),
    `interpFieldValue_eq_all` (3 ≤ F).
  Part 2: `__print_task_subtree`: `subtree_spec` - with `ColOK S pts` (a `print_color`, when set, is None or `S.s c`: a
    datetime / number there makes the program hand a non-str colour to the table, outside the model) and, when
    `children`, `DepthOK pts (n+1) t` (the subtree is at most n+1 levels deep: the model's fuel suffices), the call at fuel
    `F + n + 4` on a state whose box `b` holds `log` returns None and leaves `log ++ logOfRows S (subtreeRows … (n+1) level t)`
    in the box (`putLog`), nothing else changed.  `interpSubtree_eq`: the entry point.  Level colour rule: `colorOf`
    (`print_color` override, `level_colors[level]`, GREY fallback) = the model's (`colorOf_model`).
  Part 3: `repr`: `repr_spec` (theme object not None, `ColOK`, `DepthOK` for every task of the list when `children`, fuel
    `F + n + 5`): a NEW box receives `logOfRows S (sheetRows …)` = header row + rows of every task, the value is
    `S.s (sheet …)`; uses `rowsOfLog_logOfRows` (reading the log back gives the rows, for rows whose cells carry the row
    colour: `RowOK`, `sheetRows_ok`).  `interpRepr_eq`: the entry point.
  Not done: part 4 (`__calc_max_title_len` = `titleLen`, `__max_field_len` = `maxFieldLen`): kernel-checked runs only.
-/
import PjVerif.Lemmas.PrintSrcA
namespace Pj.PrintSrc
open Pj.PyLite Pj.Print Pj.Extracted.Print
open Pj.TaskSrc (callPV_eq execBlockP_cons execBlockP_nil execP_forIn forLoopP_acc noRec)
set_option linter.unusedSimpArgs false
set_option linter.unusedVariables false

variable {S : Lib} (pts : Nat → PyTask) (th : PyTheme)

/-! ### blocks -/

theorem execBlockP_append (H : PHandlers) (self : PyLite.Env) (rec : List Atom → PState → Res (Val × PState))
    (a b : List Stmt) (ρ : PyLite.Env) (st : PState) :
    execBlockP H self rec (a ++ b) ρ st =
      match execBlockP H self rec a ρ st with
      | .normal ρ' st' => execBlockP H self rec b ρ' st'
      | r => r := by
  induction a generalizing ρ st with
  | nil => simp only [List.nil_append, execBlockP_nil]
  | cons s a ih =>
    simp only [List.cons_append, execBlockP_cons]
    cases s.execP H self rec ρ st <;> simp only [ih]

/-! ### `__dict__` -/

theorem any_dict (hS : S.OK) (d : List (Str × Atom)) (x : Str) :
    (d.map (fun p => S.s p.1)).any (fun v => v.pyEq (S.s x)) = (lookupA d x).isSome := by
  induction d with
  | nil => rfl
  | cons p d ih =>
    simp only [List.map_cons, List.any_cons, ih, pyEq_s hS, lookupA, List.find?_cons]
    by_cases h : p.1 = x
    · simp [h]
    · have h' : (p.1 == x) = false := by simpa using h
      simp [h, h']

/-- the text of a cell of `__dict__` -/
def cellText (S : Lib) (v : Atom) : Str := match valText S v with | some s => s | none => ['-']

/-- the model's `fieldValue` outside the six computed fields, in terms of the Python-level `__dict__` -/
theorem fieldValue_dict (t : Nat) (field : Str) (hf : field ∉ stdFields) :
    fieldValue (tsOf S pts) t field =
      match (match lookupA (pts t).dict field with
             | some v => some v
             | none => lookupA (pts t).dict (field.map asciiLower)) with
      | none => []
      | some v => cellText S v := by
  simp only [stdFields, List.map_cons, List.map_nil, List.mem_cons, List.not_mem_nil, or_false, not_or] at hf
  obtain ⟨h1, h2, h3, h4, h5, h6⟩ := hf
  have hfind : ∀ x : Str, List.find? (fun p => p.1 == x) ((pts t).dict.map (fun kv => (kv.1, valText S kv.2))) =
      ((pts t).dict.find? (fun p => p.1 == x)).map (fun kv => (kv.1, valText S kv.2)) := by
    intro x
    induction (pts t).dict with
    | nil => rfl
    | cons p d ih =>
      simp only [List.map_cons, List.find?_cons]
      cases p.1 == x <;> simp [ih]
  simp only [fieldValue, toPTask, beq_iff_eq, h1, h2, h3, h4, h5, h6, if_false, hfind, lookupA, cellText]
  cases (pts t).dict.find? (fun p => p.1 == field) with
  | some p => simp only [Option.map_some]; cases valText S p.2 <;> rfl
  | none =>
    cases (pts t).dict.find? (fun p => p.1 == field.map asciiLower) with
    | some p => simp only [Option.map_some, Option.map_none]; cases valText S p.2 <;> rfl
    | none => simp

/-! ### `__get_field_value`: the `__dict__` part -/

def fvHead : List Stmt := src_get_field_value.take 6
def fvLook : Stmt := match src_get_field_value.drop 6 with | s :: _ => s | _ => .pass
def fvVal : List Stmt := src_get_field_value.drop 7
theorem fv_shape : src_get_field_value = fvHead ++ (fvLook :: fvVal) := rfl

/-- the environment of `__get_field_value` -/
def FvEnv (S : Lib) (ρ : PyLite.Env) (t : Nat) (x : Str) : Prop :=
  ρ.get? "t" = some (.atom (.ref t)) ∧ ρ.get? "field" = some (.atom (S.s x))

/-- the six tests on the computed fields fall through -/
theorem fvHead_skip (hS : S.OK) (F t : Nat) (field : Str) (hf : field ∉ stdFields) (ρ : PyLite.Env) (st : PState)
    (hρ : FvEnv S ρ t field) :
    execBlockP (Hp S pts th F) [] noRec fvHead ρ st = .normal ρ st := by
  simp only [stdFields, List.map_cons, List.map_nil, List.mem_cons, List.not_mem_nil, or_false, not_or] at hf
  obtain ⟨h1, h2, h3, h4, h5, h6⟩ := hf
  simp at h1 h2 h3 h4 h5 h6
  obtain ⟨ht, hfd⟩ := hρ
  have e1 : ∀ a b : Str, (S.s a).pyEq (S.s b) = decide (a = b) := pyEq_s hS
  ppl [fvHead, src_get_field_value, hfd, e1, h1, h2, h3, h4, h5, h6]

/-- the last four statements: the text of the value found -/
theorem fvVal_spec (hS : S.OK) (F t : Nat) (x : Str) (v : Atom) (ρ : PyLite.Env) (st : PState)
    (hρ : FvEnv S ρ t x) (hv : lookupA (pts t).dict x = some v) :
    execBlockP (Hp S pts th F) [] noRec fvVal ρ st = .ret (.atom (S.s (cellText S v))) st := by
  obtain ⟨ht, hfd⟩ := hρ
  have hg := prim_getattr' pts th hS t x st
  rw [hv] at hg
  cases v <;>
    ppl [fvVal, src_get_field_value, hfd, ht, hg, cellText, valText, isTimeA]

/-- the lookup: the name as given is a key -/
theorem fvLook_hit (hS : S.OK) (F t : Nat) (x : Str) (ρ : PyLite.Env) (st : PState)
    (hρ : FvEnv S ρ t x) (hv : (lookupA (pts t).dict x).isSome = true) :
    fvLook.execP (Hp S pts th F) [] noRec ρ st = .normal ρ st := by
  obtain ⟨ht, hfd⟩ := hρ
  ppl [fvLook, src_get_field_value, hfd, ht, any_dict hS, hv]

/-- the lookup: the name is not a key, the lower-cased name is -/
theorem fvLook_lower (hS : S.OK) (F t : Nat) (x : Str) (ρ : PyLite.Env) (st : PState)
    (hρ : FvEnv S ρ t x) (hv : (lookupA (pts t).dict x).isSome = false)
    (hl : (lookupA (pts t).dict (x.map asciiLower)).isSome = true) :
    fvLook.execP (Hp S pts th F) [] noRec ρ st = .normal (ρ.set "field" (.atom (S.s (x.map asciiLower)))) st := by
  obtain ⟨ht, hfd⟩ := hρ
  ppl [fvLook, src_get_field_value, hfd, ht, any_dict hS, hv, hl, prim_lower' pts th hS]

/-- the lookup: neither is a key -/
theorem fvLook_miss (hS : S.OK) (F t : Nat) (x : Str) (ρ : PyLite.Env) (st : PState)
    (hρ : FvEnv S ρ t x) (hv : (lookupA (pts t).dict x).isSome = false)
    (hl : (lookupA (pts t).dict (x.map asciiLower)).isSome = false) :
    fvLook.execP (Hp S pts th F) [] noRec ρ st = .ret (.atom (S.s [])) st := by
  obtain ⟨ht, hfd⟩ := hρ
  ppl [fvLook, src_get_field_value, hfd, ht, any_dict hS, hv, hl, prim_lower' pts th hS]

theorem FvEnv_set (ρ : PyLite.Env) (t : Nat) (x y : Str) (h : FvEnv S ρ t x) :
    FvEnv S (ρ.set "field" (.atom (S.s y))) t y := by
  obtain ⟨ht, hfd⟩ := h
  constructor <;> simp [Pj.TaskSrc.Env.get?_set, ht]

/-- `__get_field_value` outside the six computed fields -/
theorem field_value_dict (hS : S.OK) (F t : Nat) (field : Str) (hf : field ∉ stdFields) (st : PState) :
    (Hp S pts th (F + 1)).fnV fn_get_field_value [.atom (.ref t), .atom (S.s field)] st =
      .ok (.atom (S.s (fieldValue (tsOf S pts) t field)), st) := by
  rw [pfnV_succ _ _ _ _ _ _ _ pf_field, fieldValue_dict pts t field hf, callPV_eq]
  have hb : bindParamsV src_get_field_value_params [.atom (.ref t), .atom (S.s field)] =
      .ok [("t", .atom (.ref t)), ("field", .atom (S.s field))] := rfl
  have hρ : FvEnv S [("t", .atom (.ref t)), ("field", .atom (S.s field))] t field := by
    constructor <;> simp [Pj.TaskSrc.Env.get?_cons]
  rw [hb]
  simp only [fv_shape, execBlockP_append, fvHead_skip pts th hS F t field hf _ st hρ, execBlockP_cons]
  cases h1 : lookupA (pts t).dict field with
  | some v =>
    rw [fvLook_hit pts th hS F t field _ st hρ (by simp [h1])]
    simp only [fvVal_spec pts th hS F t field v _ st hρ h1]
  | none =>
    cases h2 : lookupA (pts t).dict (field.map asciiLower) with
    | some v =>
      rw [fvLook_lower pts th hS F t field _ st hρ (by simp [h1]) (by simp [h2])]
      simp only [fvVal_spec pts th hS F t _ v _ st (FvEnv_set _ t field _ hρ) h2]
    | none =>
      rw [fvLook_miss pts th hS F t field _ st hρ (by simp [h1]) (by simp [h2])]

/-- `__get_field_value` = `fieldValue`, EVERY field name -/
theorem field_value_spec (hS : S.OK) (F t : Nat) (field : Str) (st : PState) :
    (Hp S pts th (F + 3)).fnV fn_get_field_value [.atom (.ref t), .atom (S.s field)] st =
      .ok (.atom (S.s (fieldValue (tsOf S pts) t field)), st) := by
  by_cases hf : field ∈ stdFields
  · exact field_value_std pts th hS F t field hf st
  · exact field_value_dict pts th hS (F + 2) t field hf st

theorem interpFieldValue_eq_all (hS : S.OK) (F t : Nat) (field : Str) (hF : 3 ≤ F) :
    interpFieldValue S pts F t field = .ok (.atom (S.s (fieldValue (tsOf S pts) t field))) := by
  obtain ⟨F, rfl⟩ : ∃ F', F = F' + 3 := ⟨F - 3, by omega⟩
  have := field_value_spec pts noTheme hS F t field st0
  simp only [interpFieldValue, interp, runProg]
  rw [this]; rfl

/-! ## Part 2: `__print_task_subtree` -/

/-! ### the table -/

/-- the state in which the box `b` holds `l` -/
def putLog (st : PState) (b : Nat) (l : List Atom) : PState := { st with boxes := st.boxes.set b l }

theorem putLog_get (st : PState) (b : Nat) (log l : List Atom) (h : st.boxes[b]? = some log) :
    (putLog st b l).boxes[b]? = some l := by
  obtain ⟨hb, -⟩ := List.getElem?_eq_some_iff.1 h
  simp [putLog, hb]

theorem putLog_putLog (st : PState) (b : Nat) (l l' : List Atom) : putLog (putLog st b l) b l' = putLog st b l' := by
  simp [putLog, List.set_set]

theorem putLog_self (st : PState) (b : Nat) (log : List Atom) (h : st.boxes[b]? = some log) : putLog st b log = st := by
  obtain ⟨hb, he⟩ := List.getElem?_eq_some_iff.1 h
  cases st
  simp only [putLog, PState.mk.injEq, true_and]
  simp only at he hb
  rw [← he]; exact List.set_getElem_self hb

/-! ### numbers -/

theorem asInt?_nat (n : Nat) : (Atom.num ((n : Nat) : Rat)).asInt? = some (n : Int) := by
  simp [Atom.asInt?]

theorem natCast_succ_rat (n : Nat) : ((n : Nat) : Rat) + 1 = ((n + 1 : Nat) : Rat) := by
  rw [Rat.natCast_add]; rfl

theorem flatten_replicate3 (n : Nat) : (List.replicate n [' ', ' ', ' ']).flatten = List.replicate (3 * n) ' ' := by
  induction n with
  | zero => rfl
  | succ n ih =>
    rw [List.replicate_succ, List.flatten_cons, ih]
    have : 3 * (n + 1) = (3 * n + 1 + 1) + 1 := by omega
    rw [this, List.replicate_succ, List.replicate_succ, List.replicate_succ]; rfl

/-! ### more primitives -/

theorem s_ne_none (x : Str) : (S.s x = Atom.none) = False := by simp [Lib.s]

theorem lit_3sp (st : PState) : printPrim S pts th "lit:   " [] st = .ok (.atom (S.s [' ', ' ', ' '])) := by litp
theorem lit_name (st : PState) : printPrim S pts th "lit:name" [] st = .ok (.atom (S.s "name".toList)) := by litp
/-- the keys (definitions, so that `simp` does not rewrite the texts) -/
def pcKey : Str := "print_color".toList
def lcKey : Str := "level_colors".toList
def hcKey : Str := "header_color".toList
theorem lit_pcolor (st : PState) : printPrim S pts th "lit:print_color" [] st = .ok (.atom (S.s pcKey)) := by litp
theorem lit_lcolors (st : PState) : printPrim S pts th "lit:level_colors" [] st = .ok (.atom (S.s lcKey)) := by litp
theorem lit_hcolor (st : PState) : printPrim S pts th "lit:header_color" [] st = .ok (.atom (S.s hcKey)) := by litp
theorem lit_grey (st : PState) : printPrim S pts th "lit:97m" [] st = .ok (.atom (S.s grey)) := by litp

theorem prim_repeat (hS : S.OK) (x : Str) (n : Nat) (st : PState) :
    printPrim S pts th "repeat" [S.s x, .num ((n : Nat) : Rat)] st = .ok (.atom (S.s (List.replicate n x).flatten)) := by
  unfold printPrim
  rw [if_neg (by decide +kernel)]
  simp [Lib.s, asInt?_nat, pure, Except.pure, hS x]

theorem prim_getitem_key (a : Atom) (k : Nat) (st : PState) (hk : S.D k = lcKey) :
    printPrim S pts th "getitem" [a, .str k] st = .ok (.list (th.levels.map S.s)) := by
  unfold printPrim
  rw [if_neg (by decide +kernel)]
  simp only [String.reduceEq, if_false, if_true]
  rw [hk, if_pos (show lcKey = "level_colors".toList from rfl)]
  rfl

theorem prim_getitem_levels (hS : S.OK) (a : Atom) (st : PState) :
    printPrim S pts th "getitem" [a, S.s lcKey] st = .ok (.list (th.levels.map S.s)) :=
  prim_getitem_key pts th a _ st (hS lcKey)

/-! ### the statements of `__print_task_subtree` -/

def stLoop : Stmt := src_print_task_subtree.getD 1 .pass
def stCol : List Stmt := (src_print_task_subtree.drop 2).take 2
def stApp1 : Stmt := src_print_task_subtree.getD 4 .pass
def stApp2 : Stmt := src_print_task_subtree.getD 5 .pass
def stCells : Stmt := src_print_task_subtree.getD 6 .pass
def stKids : Stmt := src_print_task_subtree.getD 7 .pass
theorem st_shape : src_print_task_subtree =
    [.assign "values" .listNil, stLoop] ++ (stCol ++ [stApp1, stApp2, stCells, stKids]) := rfl
def stLoopBody : List Stmt := match stLoop with | .forIn _ _ b => b | _ => []
theorem stLoop_eq : stLoop = .forIn "f" (.var "fields") stLoopBody := rfl
def stKidsLoop : Stmt := match stKids with | .ifElse _ [l] _ => l | _ => .pass
def stKidsBody : List Stmt := match stKidsLoop with | .forIn _ _ b => b | _ => []
theorem stKids_eq : stKids = .ifElse (.var "children") [stKidsLoop] [] := rfl
theorem stKidsLoop_eq : stKidsLoop = .forIn "ch" (.prim "children" (.listCons (.var "task") .listNil)) stKidsBody := rfl
theorem stCells_eq : stCells = .forIn "v" (.var "values") [.boxAppend (.var "table") (.var "v")] := rfl

/-- the environment of `__print_task_subtree` -/
structure StEnv (S : Lib) (ρ : PyLite.Env) (t : Nat) (fields : List Str) (level b : Nat) (children : Bool) (θ : Atom) : Prop where
  task : ρ.get? "task" = some (.atom (.ref t))
  fields : ρ.get? "fields" = some (.list (fields.map S.s))
  level : ρ.get? "level" = some (.atom (.num ((level : Nat) : Rat)))
  table : ρ.get? "table" = some (.atom (.box b))
  children : ρ.get? "children" = some (.atom (.bool children))
  theme : ρ.get? "theme" = some (.atom θ)

theorem StEnv.set {ρ : PyLite.Env} {t : Nat} {fields : List Str} {level b : Nat} {children : Bool} {θ : Atom}
    (h : StEnv S ρ t fields level b children θ) (x : String) (v : Val)
    (hx : x ≠ "task" ∧ x ≠ "fields" ∧ x ≠ "level" ∧ x ≠ "table" ∧ x ≠ "children" ∧ x ≠ "theme") :
    StEnv S (ρ.set x v) t fields level b children θ := by
  obtain ⟨h1, h2, h3, h4, h5, h6⟩ := hx
  constructor <;> simp only [Pj.TaskSrc.Env.get?_set, h1, h2, h3, h4, h5, h6, if_false]
  · exact h.task
  · exact h.fields
  · exact h.level
  · exact h.table
  · exact h.children
  · exact h.theme

/-- the text of the cell of the column `f` -/
def cellOf (S : Lib) (pts : Nat → PyTask) (t level : Nat) (f : Str) : Str :=
  if f = "name".toList then List.replicate (3 * level) ' ' ++ ((pts t).name.getD []) else fieldValue (tsOf S pts) t f

def cellG (S : Lib) (pts : Nat → PyTask) (t level : Nat) : Atom → List Atom
  | .str k => [S.s (cellOf S pts t level (S.D k))]
  | _ => []

theorem flatMap_cellG (hS : S.OK) (t level : Nat) (fields : List Str) :
    (fields.map S.s).flatMap (cellG S pts t level) = (fields.map (cellOf S pts t level)).map S.s := by
  induction fields with
  | nil => rfl
  | cons a l ih => simp [cellG, Lib.s, ih, hS a]

/-- one round of the loop over the fields -/
theorem stLoopBody_spec (hS : S.OK) (F t level b : Nat) (fields : List Str) (children : Bool) (θ : Atom) (f : Str)
    (ρ : PyLite.Env) (a : List Atom) (st : PState)
    (hρ : StEnv S ρ t fields level b children θ) (ha : ρ.get? "values" = some (.list a)) :
    execBlockP (Hp S pts th (F + 3)) [] noRec stLoopBody (ρ.set "f" (.atom (S.s f))) st =
      .normal ((ρ.set "f" (.atom (S.s f))).set "values" (.list (a ++ [S.s (cellOf S pts t level f)]))) st := by
  have e1 : ∀ a b : Str, (S.s a).pyEq (S.s b) = decide (a = b) := pyEq_s hS
  have hfv := field_value_spec pts th hS F t f st
  have ht := hρ.task
  have hl := hρ.level
  by_cases hn : f = "name".toList
  · subst hn
    cases hname : (pts t).name with
    | none =>
      ppl [stLoopBody, stLoop, src_print_task_subtree, ht, hl, ha, e1, cellOf, lit_3sp, lit_name, hname, Lib.os,
        prim_repeat pts th hS, prim_concat' pts th hS, flatten_replicate3]
    | some nm =>
      ppl [stLoopBody, stLoop, src_print_task_subtree, ht, hl, ha, e1, cellOf, lit_3sp, lit_name, hname, Lib.os,
        prim_repeat pts th hS, prim_concat' pts th hS, flatten_replicate3, s_ne_none]
  · have hn' := hn
    simp at hn'
    ppl [stLoopBody, stLoop, src_print_task_subtree, ht, hl, ha, e1, cellOf, lit_3sp, lit_name, hn, hn', hfv]

/-- the loop over the fields: the cell texts -/
theorem stVals_spec (hS : S.OK) (F t level b : Nat) (fields : List Str) (children : Bool) (θ : Atom)
    (ρ : PyLite.Env) (st : PState) (hρ : StEnv S ρ t fields level b children θ) :
    ∃ ρ', execBlockP (Hp S pts th (F + 3)) [] noRec [.assign "values" .listNil, stLoop] ρ st = .normal ρ' st ∧
      StEnv S ρ' t fields level b children θ ∧
      ρ'.get? "values" = some (.list ((fields.map (cellOf S pts t level)).map S.s)) := by
  have hρ0 : StEnv S (ρ.set "values" (.list [])) t fields level b children θ := hρ.set _ _ (by decide)
  obtain ⟨ρ', hP, hacc, hl⟩ := forLoopP_acc "f" "values"
    (fun ρ st => execBlockP (Hp S pts th (F + 3)) [] noRec stLoopBody ρ st)
    (fun ρ => StEnv S ρ t fields level b children θ) (cellG S pts t level) st (fields.map S.s)
    (by
      intro ρ a v hv hP ha
      obtain ⟨f, hf, rfl⟩ := List.mem_map.1 hv
      refine ⟨_, ?_, ?_, stLoopBody_spec pts th hS F t level b fields children θ f ρ a st hP ha⟩
      · exact (hP.set _ _ (by decide)).set _ _ (by decide)
      · simp [Pj.TaskSrc.Env.get?_set, cellG, Lib.s, hS f])
    (ρ.set "values" (.list [])) [] hρ0 (by simp [Pj.TaskSrc.Env.get?_set])
  rw [flatMap_cellG pts hS, List.nil_append] at hacc
  refine ⟨ρ', ?_, hP, hacc⟩
  have hf := hρ0.fields
  rw [execBlockP_cons]
  have h0 : (Stmt.assign "values" .listNil).execP (Hp S pts th (F + 3)) [] noRec ρ st =
      .normal (ρ.set "values" (.list [])) st := by ppl []
  rw [h0]
  simp only [execBlockP_cons, execBlockP_nil]
  rw [stLoop_eq, execP_forIn (vs := fields.map S.s) (st' := st) (hit := by ppl [hf]), hl]

/-- the colour of the row of `t` at `level` -/
def colorOf (S : Lib) (pts : Nat → PyTask) (th : PyTheme) (level t : Nat) : Str :=
  match (lookupA (pts t).dict pcKey).bind (valText S) with
  | some c => c
  | none => th.levels.getD level grey

/-- `print_color`, when set, is None or a str -/
def ColOK (S : Lib) (pts : Nat → PyTask) : Prop :=
  ∀ t v, lookupA (pts t).dict pcKey = some v → v = .none ∨ ∃ c : Str, v = S.s c

theorem getitem_levels_ok (level : Nat) :
    ∀ levels : List Str, level < levels.length →
      (levels.map S.s)[level]? = some (S.s (levels.getD level grey)) := by
  intro levels h
  simp [List.getD, h]

/-- the two statements that choose the colour -/
theorem stCol_spec (hS : S.OK) (hc : ColOK S pts) (F t level b : Nat) (fields : List Str) (children : Bool) (θ : Atom)
    (ρ : PyLite.Env) (st : PState) (hρ : StEnv S ρ t fields level b children θ) :
    ∃ ρ', execBlockP (Hp S pts th F) [] noRec stCol ρ st = .normal ρ' st ∧
      StEnv S ρ' t fields level b children θ ∧ ρ'.get? "values" = ρ.get? "values" ∧
      ρ'.get? "color" = some (.atom (S.s (colorOf S pts th level t))) := by
  have ht := hρ.task
  have hl := hρ.level
  have hth := hρ.theme
  have hg := prim_getattr' pts th hS t pcKey st
  have hlv := prim_getitem_levels pts th hS θ st
  have hfall : ∃ ρ', execBlockP (Hp S pts th F) [] noRec (stCol.drop 1) (ρ.set "color" (.atom .none)) st = .normal ρ' st ∧
      StEnv S ρ' t fields level b children θ ∧ ρ'.get? "values" = ρ.get? "values" ∧
      ρ'.get? "color" = some (.atom (S.s (th.levels.getD level grey))) := by
    by_cases hlt : level < th.levels.length
    · refine ⟨((ρ.set "color" (.atom .none)).set "colors" (.list (th.levels.map S.s))).set "color"
        (.atom (S.s (th.levels.getD level grey))), ?_, ?_, ?_, ?_⟩
      · have hi : th.levels[level]? = some th.levels[level] := List.getElem?_eq_getElem hlt
        have hnn : ((level : Int) < 0) = False := by simp
        ppl [stCol, src_print_task_subtree, hl, hth, lit_lcolors, lit_grey, hlv, Rat.natCast_lt_natCast, hlt, asInt?_nat, hi,
          hnn, Int.toNat_natCast]
      · exact ((hρ.set _ _ (by decide)).set _ _ (by decide)).set _ _ (by decide)
      · simp [Pj.TaskSrc.Env.get?_set]
      · simp [Pj.TaskSrc.Env.get?_set]
    · refine ⟨((ρ.set "color" (.atom .none)).set "colors" (.list (th.levels.map S.s))).set "color"
        (.atom (S.s (th.levels.getD level grey))), ?_, ?_, ?_, ?_⟩
      · have hd : th.levels.getD level grey = grey := by
          have : th.levels[level]? = none := List.getElem?_eq_none (by omega)
          simp [List.getD, this]
        rw [hd]
        ppl [stCol, src_print_task_subtree, hl, hth, lit_lcolors, lit_grey, hlv, Rat.natCast_lt_natCast, hlt]
      · exact ((hρ.set _ _ (by decide)).set _ _ (by decide)).set _ _ (by decide)
      · simp [Pj.TaskSrc.Env.get?_set]
      · simp [Pj.TaskSrc.Env.get?_set]
  have hshape : stCol = (stCol.take 1) ++ stCol.drop 1 := rfl
  cases hv : lookupA (pts t).dict pcKey with
  | none =>
    obtain ⟨ρ', hex, h1, h2, h3⟩ := hfall
    refine ⟨ρ', ?_, h1, h2, ?_⟩
    · rw [hshape, execBlockP_append]
      have h0 : execBlockP (Hp S pts th F) [] noRec (stCol.take 1) ρ st = .normal (ρ.set "color" (.atom .none)) st := by
        ppl [stCol, src_print_task_subtree, ht, lit_pcolor, any_dict hS, hv]
      rw [h0]; exact hex
    · rw [h3]; simp [colorOf, hv]
  | some v =>
    rw [hv] at hg
    rcases hc t v hv with rfl | ⟨c, rfl⟩
    · obtain ⟨ρ', hex, h1, h2, h3⟩ := hfall
      refine ⟨ρ', ?_, h1, h2, ?_⟩
      · rw [hshape, execBlockP_append]
        have h0 : execBlockP (Hp S pts th F) [] noRec (stCol.take 1) ρ st = .normal (ρ.set "color" (.atom .none)) st := by
          ppl [stCol, src_print_task_subtree, ht, lit_pcolor, any_dict hS, hv, hg]
        rw [h0]; exact hex
      · rw [h3]; simp [colorOf, hv, valText]
    · refine ⟨ρ.set "color" (.atom (S.s c)), ?_, hρ.set _ _ (by decide), ?_, ?_⟩
      · ppl [stCol, src_print_task_subtree, ht, lit_pcolor, any_dict hS, hv, hg, s_ne_none]
      · simp [Pj.TaskSrc.Env.get?_set]
      · simp [Pj.TaskSrc.Env.get?_set, colorOf, hv, valText, Lib.s, Lib.text, hS c]

/-! ### appending to the table -/

theorem boxAppend_var (H : PHandlers) (ρ : PyLite.Env) (st : PState) (b : Nat) (log : List Atom) (x : String) (a : Atom)
    (hx : ρ.get? x = some (.atom a)) (htab : ρ.get? "table" = some (.atom (.box b)))
    (hb : st.boxes[b]? = some log) (hnb : a.isBox = false) :
    (Stmt.boxAppend (.var "table") (.var x)).execP H [] noRec ρ st = .normal ρ (putLog st b (log ++ [a])) := by
  simp [Stmt.execP, Expr.evalP, hx, htab, hb, hnb, bind, Except.bind, pure, Except.pure, putLog]

theorem boxAppend_true (H : PHandlers) (ρ : PyLite.Env) (st : PState) (b : Nat) (log : List Atom)
    (htab : ρ.get? "table" = some (.atom (.box b))) (hb : st.boxes[b]? = some log) :
    (Stmt.boxAppend (.var "table") (.bool true)).execP H [] noRec ρ st = .normal ρ (putLog st b (log ++ [.bool true])) := by
  simp [Stmt.execP, Expr.evalP, htab, hb, bind, Except.bind, pure, Except.pure, putLog, Atom.isBox]

/-- a loop every round of which appends `g v` to the box `b` -/
theorem forLoopP_log (x : String) (body : PyLite.Env → PState → OutcomeP) (P : PyLite.Env → Prop) (b : Nat)
    (g : Atom → List Atom) :
    ∀ (vs : List Atom),
      (∀ ρ v st log, v ∈ vs → P ρ → st.boxes[b]? = some log →
        ∃ ρ', P ρ' ∧ body (ρ.set x v) st = .normal ρ' (putLog st b (log ++ g v))) →
      ∀ ρ st log, P ρ → st.boxes[b]? = some log →
        ∃ ρ', P ρ' ∧ forLoopP x body vs ρ st = .normal ρ' (putLog st b (log ++ vs.flatMap g)) := by
  intro vs
  induction vs with
  | nil =>
    intro _ ρ st log hP hb
    exact ⟨ρ, hP, by simp [forLoopP, putLog_self st b log hb]⟩
  | cons v vs ih =>
    intro hbody ρ st log hP hb
    obtain ⟨ρ1, hP1, h1⟩ := hbody ρ v st log List.mem_cons_self hP hb
    obtain ⟨ρ2, hP2, h2⟩ := ih (fun ρ v' st log hv => hbody ρ v' st log (List.mem_cons_of_mem _ hv)) ρ1
      (putLog st b (log ++ g v)) (log ++ g v) hP1 (putLog_get st b log _ hb)
    refine ⟨ρ2, hP2, ?_⟩
    simp only [forLoopP, h1, h2, putLog_putLog, List.flatMap_cons, List.append_assoc]

/-- the three statements that write the row -/
theorem stRow_spec (H : PHandlers) (t level b : Nat) (fields : List Str) (children : Bool) (θ : Atom)
    (ρ : PyLite.Env) (st : PState) (log : List Atom) (cells : List Str) (col : Str)
    (hρ : StEnv S ρ t fields level b children θ) (hv : ρ.get? "values" = some (.list (cells.map S.s)))
    (hc : ρ.get? "color" = some (.atom (S.s col))) (hb : st.boxes[b]? = some log) :
    ∃ ρ', StEnv S ρ' t fields level b children θ ∧
      execBlockP H [] noRec [stApp1, stApp2, stCells] ρ st =
        .normal ρ' (putLog st b (log ++ (.bool true :: S.s col :: cells.map S.s))) := by
  have h1 : stApp1.execP H [] noRec ρ st = .normal ρ (putLog st b (log ++ [.bool true])) :=
    boxAppend_true H ρ st b log hρ.table hb
  have hb1 := putLog_get st b log (log ++ [.bool true]) hb
  have h2 : stApp2.execP H [] noRec ρ (putLog st b (log ++ [.bool true])) =
      .normal ρ (putLog st b (log ++ [.bool true] ++ [S.s col])) := by
    have := boxAppend_var H ρ _ b _ "color" (S.s col) hc hρ.table hb1 rfl
    rw [putLog_putLog] at this
    exact this
  have hb2 := putLog_get st b log (log ++ [.bool true] ++ [S.s col]) hb
  obtain ⟨ρ', hP, h3⟩ := forLoopP_log "v" (fun ρ st => execBlockP H [] noRec [.boxAppend (.var "table") (.var "v")] ρ st)
    (fun ρ => StEnv S ρ t fields level b children θ) b (fun v => [v]) (cells.map S.s)
    (by
      intro ρ v st log hv hP hb
      obtain ⟨c, -, rfl⟩ := List.mem_map.1 hv
      have hP' : StEnv S (ρ.set "v" (.atom (S.s c))) t fields level b children θ := hP.set _ _ (by decide)
      refine ⟨_, hP', ?_⟩
      rw [execBlockP_cons, boxAppend_var H _ st b log "v" (S.s c) (by simp [Pj.TaskSrc.Env.get?_set]) hP'.table hb rfl]
      simp [execBlockP_nil])
    ρ _ _ hρ hb2
  refine ⟨ρ', hP, ?_⟩
  have hfm : ∀ l : List Atom, l.flatMap (fun v => [v]) = l := by
    intro l
    induction l with
    | nil => rfl
    | cons c cs ih => simp [ih]
  rw [putLog_putLog, hfm] at h3
  simp only [execBlockP_cons, execBlockP_nil, h1, h2]
  rw [stCells_eq, execP_forIn (vs := cells.map S.s) (st' := putLog st b (log ++ [.bool true] ++ [S.s col]))
    (hit := by ppl [hv]), h3]
  simp

/-! ### the model's rows as a log -/

theorem find?_map_val (S : Lib) (d : List (Str × Atom)) (x : Str) :
    List.find? (fun p => p.1 == x) (d.map (fun kv => (kv.1, valText S kv.2))) =
      (d.find? (fun p => p.1 == x)).map (fun kv => (kv.1, valText S kv.2)) := by
  induction d with
  | nil => rfl
  | cons p d ih =>
    simp only [List.map_cons, List.find?_cons]
    cases p.1 == x <;> simp [ih]

/-- the log of the row of `t` -/
def rowLog (S : Lib) (pts : Nat → PyTask) (th : PyTheme) (fields : List Str) (level t : Nat) : List Atom :=
  .bool true :: S.s (colorOf S pts th level t) :: (fields.map (cellOf S pts t level)).map S.s

/-- the log of the rows of the subtree of `t` (the model's `subtreeRows`) -/
def subLog (S : Lib) (pts : Nat → PyTask) (th : PyTheme) (fields : List Str) (children : Bool) (n level t : Nat) : List Atom :=
  logOfRows S (subtreeRows (tsOf S pts) fields children (toTheme th) n level t)

theorem logOfRows_cons (r : Option Str × List Cell) (rows : List (Option Str × List Cell)) :
    logOfRows S (r :: rows) = logOfRow S r ++ logOfRows S rows := by
  simp [logOfRows]

theorem logOfRows_flatten (l : List (List (Option Str × List Cell))) :
    logOfRows S l.flatten = l.flatMap (logOfRows S) := by
  induction l with
  | nil => rfl
  | cons a l ih =>
    simp only [List.flatten_cons, List.flatMap_cons, ← ih]
    simp [logOfRows]

theorem colorOf_model (level t : Nat) :
    (match (List.find? (fun p => p.1 == "print_color".toList) (tsOf S pts t).dict).bind (·.2) with
      | some c => c
      | none => (toTheme th).levels.getD level grey) = colorOf S pts th level t := by
  have h := find?_map_val S (pts t).dict pcKey
  unfold colorOf lookupA
  show (match (List.find? (fun p => p.1 == pcKey) ((pts t).dict.map (fun kv => (kv.1, valText S kv.2)))).bind (·.2) with
      | some c => c
      | none => th.levels.getD level grey) = _
  rw [h]
  cases List.find? (fun p => p.1 == pcKey) (pts t).dict <;> rfl

theorem subLog_succ (fields : List Str) (children : Bool) (n level t : Nat) :
    subLog S pts th fields children (n + 1) level t =
      rowLog S pts th fields level t ++
        (if children then (pts t).children.flatMap (subLog S pts th fields children n (level + 1)) else []) := by
  have hcol := colorOf_model (S := S) pts th level t
  simp only [subLog, subtreeRows, logOfRows_cons, hcol]
  congr 1
  · simp only [logOfRow, rowLog, Lib.os, List.map_map]
    refine congrArg (List.cons _) (congr (congrArg List.cons (congrArg S.s hcol)) ?_)
    apply List.map_congr_left
    intro f _
    by_cases hf : f = "name".toList
    · have hf' : (f == "name".toList) = true := by simpa using hf
      simp only [Function.comp_apply, cellOf, hf, hf', if_true]; rfl
    · have hf' : (f == "name".toList) = false := by simpa using hf
      simp only [Function.comp_apply, cellOf, hf, hf', if_false, Bool.false_eq_true]
  · cases children
    · simp [logOfRows]
    · simp only [if_true, logOfRows_flatten, List.flatMap_map]
      rfl

/-- the arguments of `__print_task_subtree` -/
def stArgs (S : Lib) (t : Nat) (fields : List Str) (level b : Nat) (children : Bool) (θ : Atom) : List Val :=
  [.atom (.ref t), .list (fields.map S.s), .atom (.num ((level : Nat) : Rat)), .atom (.box b), .atom (.bool children), .atom θ]

/-- what a call for a child does (the induction hypothesis) -/
def KidsOK (S : Lib) (pts : Nat → PyTask) (th : PyTheme) (F : Nat) (fields : List Str) (children : Bool) (θ : Atom)
    (b n level : Nat) (cs : List Nat) : Prop :=
  ∀ c ∈ cs, ∀ st' log', st'.boxes[b]? = some log' →
    (Hp S pts th F).fnV fn_print_task_subtree (stArgs S c fields (level + 1) b children θ) st' =
      .ok (.atom .none, putLog st' b (log' ++ subLog S pts th fields children n (level + 1) c))

def kidG (S : Lib) (pts : Nat → PyTask) (th : PyTheme) (fields : List Str) (children : Bool) (n level : Nat) : Atom → List Atom
  | .ref c => subLog S pts th fields children n (level + 1) c
  | _ => []

theorem flatMap_kidG (fields : List Str) (children : Bool) (n level : Nat) (cs : List Nat) :
    (cs.map Atom.ref).flatMap (kidG S pts th fields children n level) =
      cs.flatMap (subLog S pts th fields children n (level + 1)) := by
  induction cs with
  | nil => rfl
  | cons a l ih => simp [kidG, ih]

theorem stKids_spec (F t level b n : Nat) (fields : List Str) (children : Bool) (θ : Atom)
    (ρ : PyLite.Env) (st : PState) (log : List Atom) (hρ : StEnv S ρ t fields level b children θ)
    (hrec : children = true → KidsOK S pts th F fields children θ b n level (pts t).children)
    (hb : st.boxes[b]? = some log) :
    ∃ ρ', stKids.execP (Hp S pts th F) [] noRec ρ st =
      .normal ρ' (putLog st b (log ++
        (if children then (pts t).children.flatMap (subLog S pts th fields children n (level + 1)) else []))) := by
  have hch := hρ.children
  cases children with
  | false =>
    refine ⟨ρ, ?_⟩
    rw [stKids_eq]
    ppl [hch, putLog_self st b log hb]
  | true =>
    have hrec' := hrec rfl
    obtain ⟨ρ', hP, hl⟩ := forLoopP_log "ch" (fun ρ st => execBlockP (Hp S pts th F) [] noRec stKidsBody ρ st)
      (fun ρ => StEnv S ρ t fields level b true θ) b (kidG S pts th fields true n level) ((pts t).children.map Atom.ref)
      (by
        intro ρ v st log hv hP hb
        obtain ⟨c, hc, rfl⟩ := List.mem_map.1 hv
        have hcall := hrec' c hc st log hb
        have hP' : StEnv S (ρ.set "ch" (.atom (.ref c))) t fields level b true θ := hP.set _ _ (by decide)
        refine ⟨_, hP', ?_⟩
        have h1 := hP'.fields
        have h2 := hP'.level
        have h3 := hP'.table
        have h4 := hP'.children
        have h5 := hP'.theme
        have h0 : (ρ.set "ch" (.atom (.ref c))).get? "ch" = some (.atom (.ref c)) := by simp [Pj.TaskSrc.Env.get?_set]
        simp only [stArgs, ← natCast_succ_rat] at hcall
        generalize ρ.set "ch" (.atom (.ref c)) = ρ1 at *
        ppl [stKidsBody, stKidsLoop, stKids, src_print_task_subtree, h0, h1, h2, h3, h4, h5, hcall, kidG])
      ρ st log hρ hb
    rw [flatMap_kidG] at hl
    refine ⟨ρ', ?_⟩
    have ht := hρ.task
    rw [stKids_eq]
    simp only [Stmt.execP, Expr.evalP, hch, truthP, bind, Except.bind, pure, Except.pure, if_true, execBlockP_cons, execBlockP_nil]
    rw [stKidsLoop_eq, execP_forIn (vs := (pts t).children.map Atom.ref) (st' := st) (hit := by ppl [ht, refsA]), hl]

theorem pf_subtree : printFuns fn_print_task_subtree = some (src_print_task_subtree_params, src_print_task_subtree) := rfl

/-- the body of `__print_task_subtree`, given what the calls for the children do -/
theorem subtree_body (hS : S.OK) (hc : ColOK S pts) (F t level b n : Nat) (fields : List Str) (children : Bool) (θ : Atom)
    (st : PState) (log : List Atom)
    (hrec : children = true → KidsOK S pts th (F + 3) fields children θ b n level (pts t).children)
    (hb : st.boxes[b]? = some log) :
    callPV (Hp S pts th (F + 3)) src_print_task_subtree_params src_print_task_subtree
        (stArgs S t fields level b children θ) st =
      .ok (.atom .none, putLog st b (log ++ subLog S pts th fields children (n + 1) level t)) := by
  rw [callPV_eq]
  have hbind : bindParamsV src_print_task_subtree_params (stArgs S t fields level b children θ) =
      .ok [("task", .atom (.ref t)), ("fields", .list (fields.map S.s)), ("level", .atom (.num ((level : Nat) : Rat))),
        ("table", .atom (.box b)), ("children", .atom (.bool children)), ("theme", .atom θ)] := rfl
  rw [hbind]
  have hρ0 : StEnv S [("task", .atom (.ref t)), ("fields", .list (fields.map S.s)), ("level", .atom (.num ((level : Nat) : Rat))),
        ("table", .atom (.box b)), ("children", .atom (.bool children)), ("theme", .atom θ)] t fields level b children θ := by
    constructor <;> simp [Pj.TaskSrc.Env.get?_cons]
  obtain ⟨ρ1, h1, hρ1, hv1⟩ := stVals_spec pts th hS F t level b fields children θ _ st hρ0
  obtain ⟨ρ2, h2, hρ2, hv2, hc2⟩ := stCol_spec pts th hS hc (F + 3) t level b fields children θ ρ1 st hρ1
  rw [hv1] at hv2
  obtain ⟨ρ3, hρ3, h3⟩ := stRow_spec (Hp S pts th (F + 3)) t level b fields children θ ρ2 st log _ _ hρ2 hv2 hc2 hb
  obtain ⟨ρ4, h4⟩ := stKids_spec pts th (F + 3) t level b n fields children θ ρ3 _
    (log ++ (.bool true :: S.s (colorOf S pts th level t) :: (fields.map (cellOf S pts t level)).map S.s)) hρ3 hrec
    (putLog_get st b log _ hb)
  rw [putLog_putLog] at h4
  have hsplit : ∀ ρ st, execBlockP (Hp S pts th (F + 3)) [] noRec [stApp1, stApp2, stCells, stKids] ρ st =
      match execBlockP (Hp S pts th (F + 3)) [] noRec [stApp1, stApp2, stCells] ρ st with
      | .normal ρ' st' => execBlockP (Hp S pts th (F + 3)) [] noRec [stKids] ρ' st'
      | r => r := fun ρ st => execBlockP_append _ _ _ [stApp1, stApp2, stCells] [stKids] ρ st
  simp only [st_shape, execBlockP_append, h1, h2, hsplit, h3, execBlockP_cons, h4, execBlockP_nil]
  rw [subLog_succ]
  simp only [rowLog, List.append_assoc]

/-- the subtree of `t` is at most `n` levels deep -/
def DepthOK (pts : Nat → PyTask) : Nat → Nat → Prop
  | 0, _ => False
  | n + 1, t => ∀ c ∈ (pts t).children, DepthOK pts n c

/-- `__print_task_subtree` appends the model's rows of the subtree to the table -/
theorem subtree_spec (hS : S.OK) (hc : ColOK S pts) (fields : List Str) (children : Bool) (θ : Atom) (b : Nat) :
    ∀ (n F t level : Nat) (st : PState) (log : List Atom),
      (children = true → DepthOK pts (n + 1) t) → st.boxes[b]? = some log →
      (Hp S pts th (F + n + 4)).fnV fn_print_task_subtree (stArgs S t fields level b children θ) st =
        .ok (.atom .none, putLog st b (log ++ subLog S pts th fields children (n + 1) level t)) := by
  intro n
  induction n with
  | zero =>
    intro F t level st log hd hb
    rw [pfnV_succ _ _ _ _ _ _ _ pf_subtree]
    refine subtree_body pts th hS hc F t level b 0 fields children θ st log ?_ hb
    intro hch c hcm
    exact absurd (hd hch c hcm) (by simp [DepthOK])
  | succ n ih =>
    intro F t level st log hd hb
    rw [pfnV_succ _ _ _ _ _ _ _ pf_subtree]
    refine subtree_body pts th hS hc (F + (n + 1)) t level b (n + 1) fields children θ st log ?_ hb
    intro hch c hcm st' log' hb'
    have := ih F c (level + 1) st' log' (fun _ => hd hch c hcm) hb'
    have he : F + (n + 1) + 3 = F + n + 4 := by omega
    rw [he]; exact this

/-- the entry point -/
theorem interpSubtree_eq (hS : S.OK) (hc : ColOK S pts) (F n t level : Nat) (fields : List Str) (children : Bool)
    (log : List Atom) (hd : children = true → DepthOK pts (n + 1) t) (hF : n + 4 ≤ F) :
    interpSubtree S pts th F t fields level children log =
      .ok (log ++ logOfRows S (subtreeRows (tsOf S pts) fields children (toTheme th) (n + 1) level t)) := by
  obtain ⟨F, rfl⟩ : ∃ F', F = F' + n + 4 := ⟨F - (n + 4), by omega⟩
  have := subtree_spec pts th hS hc fields children (.ref 0) 0 n F t level (stLog log) log hd rfl
  simp only [stArgs] at this
  simp only [interpSubtree, interp, runProg]
  rw [this]; rfl

/-! ## Part 3: `repr` -/

theorem prim_upper' (hS : S.OK) (x : Str) (st : PState) :
    printPrim S pts th "upper" [S.s x] st = .ok (.atom (S.s (x.map asciiUpper))) := by
  have h : ∀ k, printPrim S pts th "upper" [.str k] st = .ok (.atom (S.s ((S.D k).map asciiUpper))) := by
    intro k; primp
  simp only [Lib.s, h, hS x]

theorem prim_contains_hc (hS : S.OK) (a : Atom) (st : PState) :
    printPrim S pts th "contains" [a, S.s hcKey] st = .ok (.atom (.bool th.header.isSome)) := by
  have h : ∀ k, S.D k = hcKey → printPrim S pts th "contains" [a, .str k] st = .ok (.atom (.bool th.header.isSome)) := by
    intro k hk
    unfold printPrim
    rw [if_neg (by decide +kernel)]
    simp only [String.reduceEq, if_false, if_true]
    rw [hk]
    have h1 : decide (hcKey = "level_colors".toList) = false := by decide +kernel
    have h2 : decide (hcKey = "header_color".toList) = true := by decide +kernel
    rw [h1, h2]
    simp [pure, Except.pure]
  exact h _ (hS hcKey)

theorem prim_getitem_hc (hS : S.OK) (a : Atom) (h : Option Str) (hh : th.header = some h) (st : PState) :
    printPrim S pts th "getitem" [a, S.s hcKey] st = .ok (.atom (S.os h)) := by
  have h : ∀ k, S.D k = hcKey → printPrim S pts th "getitem" [a, .str k] st = .ok (.atom (S.os h)) := by
    intro k hk
    unfold printPrim
    rw [if_neg (by decide +kernel)]
    simp only [String.reduceEq, if_false, if_true]
    rw [hk, if_neg (show ¬ hcKey = "level_colors".toList by decide +kernel),
      if_pos (show hcKey = "header_color".toList from rfl), hh]
    rfl
  exact h _ (hS hcKey)

def rpHead : List Stmt := src_repr.take 4
def rpHdr : Stmt := src_repr.getD 6 .pass
def rpTasks : Stmt := src_repr.getD 7 .pass
def rpTasksBody : List Stmt := match rpTasks with | .forIn _ _ b => b | _ => []
theorem rp_shape : src_repr = rpHead ++ [.boxAppend (.var "table") (.bool true), .boxAppend (.var "table") (.var "header_color"),
    rpHdr, rpTasks, .ret (.prim "text_repr" (.items (.var "table")))] := rfl
theorem rpHdr_eq : rpHdr = .forIn "s" (.var "fields") [.boxAppend (.var "table") (.prim "upper" (.listCons (.var "s") .listNil))] := rfl
theorem rpTasks_eq : rpTasks = .forIn "_task" (.var "tasks") rpTasksBody := rfl

/-- the environment of `repr` after the table has been made -/
structure RpEnv (S : Lib) (ρ : PyLite.Env) (tasks : List Nat) (fields : List Str) (b : Nat) (children : Bool) (θ : Atom) : Prop where
  tasks : ρ.get? "tasks" = some (refsA tasks)
  fields : ρ.get? "fields" = some (.list (fields.map S.s))
  table : ρ.get? "table" = some (.atom (.box b))
  children : ρ.get? "children" = some (.atom (.bool children))
  theme : ρ.get? "theme" = some (.atom θ)

theorem RpEnv.set {ρ : PyLite.Env} {tasks : List Nat} {fields : List Str} {b : Nat} {children : Bool} {θ : Atom}
    (h : RpEnv S ρ tasks fields b children θ) (x : String) (v : Val)
    (hx : x ≠ "tasks" ∧ x ≠ "fields" ∧ x ≠ "table" ∧ x ≠ "children" ∧ x ≠ "theme") :
    RpEnv S (ρ.set x v) tasks fields b children θ := by
  obtain ⟨h1, h2, h3, h4, h5⟩ := hx
  constructor <;> simp only [Pj.TaskSrc.Env.get?_set, h1, h2, h3, h4, h5, if_false]
  · exact h.tasks
  · exact h.fields
  · exact h.table
  · exact h.children
  · exact h.theme

/-- the first four statements: the header colour and the new table -/
theorem rpHead_spec (hS : S.OK) (F : Nat) (tasks : List Nat) (fields : List Str) (children : Bool) (θ : Atom)
    (hθ : θ ≠ .none) (st : PState) :
    ∃ ρ', execBlockP (Hp S pts th F) [] noRec rpHead
        [("tasks", refsA tasks), ("fields", .list (fields.map S.s)), ("children", .atom (.bool children)), ("theme", .atom θ)] st =
        .normal ρ' { st with boxes := st.boxes ++ [[]] } ∧
      RpEnv S ρ' tasks fields st.boxes.length children θ ∧
      ρ'.get? "header_color" = some (.atom (S.os (toTheme th).header)) := by
  have hθ' : (Val.atom θ = Val.atom Atom.none) = False := by simp [hθ]
  have hco := prim_contains_hc pts th hS θ st
  cases hh : th.header with
  | none =>
    refine ⟨(Env.set (Env.set [("tasks", refsA tasks), ("fields", .list (fields.map S.s)), ("children", .atom (.bool children)),
        ("theme", .atom θ)] "header_color" (.atom (S.s grey))) "table" (.atom (.box st.boxes.length))), ?_, ?_, ?_⟩
    · ppl [rpHead, src_repr, hθ', lit_hcolor, lit_grey, hco, hh]
    · constructor <;> simp [Pj.TaskSrc.Env.get?_set, Pj.TaskSrc.Env.get?_cons]
    · simp [Pj.TaskSrc.Env.get?_set, toTheme, hh, Lib.os]
  | some h =>
    have hg := prim_getitem_hc pts th hS θ h hh st
    refine ⟨(Env.set (Env.set [("tasks", refsA tasks), ("fields", .list (fields.map S.s)), ("children", .atom (.bool children)),
        ("theme", .atom θ)] "header_color" (.atom (S.os h))) "table" (.atom (.box st.boxes.length))), ?_, ?_, ?_⟩
    · ppl [rpHead, src_repr, hθ', lit_hcolor, lit_grey, hco, hh, hg]
    · constructor <;> simp [Pj.TaskSrc.Env.get?_set, Pj.TaskSrc.Env.get?_cons]
    · simp [Pj.TaskSrc.Env.get?_set, toTheme, hh]

theorem boxAppend_expr (H : PHandlers) (ρ : PyLite.Env) (st : PState) (b : Nat) (log : List Atom) (e : Expr) (a : Atom)
    (he : e.evalP H [] ρ st = .ok (.atom a, st)) (htab : ρ.get? "table" = some (.atom (.box b)))
    (hb : st.boxes[b]? = some log) (hnb : a.isBox = false) :
    (Stmt.boxAppend (.var "table") e).execP H [] noRec ρ st = .normal ρ (putLog st b (log ++ [a])) := by
  simp [Stmt.execP, Expr.evalP, he, htab, hb, hnb, bind, Except.bind, pure, Except.pure, putLog]

/-- the header row -/
def hdrLog (S : Lib) (th : PyTheme) (fields : List Str) : List Atom :=
  .bool true :: S.os (toTheme th).header :: (fields.map (fun f => f.map asciiUpper)).map S.s

def upG (S : Lib) : Atom → List Atom
  | .str k => [S.s ((S.D k).map asciiUpper)]
  | _ => []

theorem flatMap_upG (hS : S.OK) (fields : List Str) :
    (fields.map S.s).flatMap (upG S) = (fields.map (fun f => f.map asciiUpper)).map S.s := by
  induction fields with
  | nil => rfl
  | cons a l ih => simp [upG, Lib.s, ih, hS a]

theorem os_not_box (o : Option Str) : (S.os o).isBox = false := by cases o <;> rfl

/-- the three statements that write the header row -/
theorem rpHdr_spec (hS : S.OK) (F b : Nat) (tasks : List Nat) (fields : List Str) (children : Bool) (θ : Atom)
    (ρ : PyLite.Env) (st : PState) (log : List Atom)
    (hρ : RpEnv S ρ tasks fields b children θ) (hh : ρ.get? "header_color" = some (.atom (S.os (toTheme th).header)))
    (hb : st.boxes[b]? = some log) :
    ∃ ρ', RpEnv S ρ' tasks fields b children θ ∧
      execBlockP (Hp S pts th F) [] noRec
        [.boxAppend (.var "table") (.bool true), .boxAppend (.var "table") (.var "header_color"), rpHdr] ρ st =
        .normal ρ' (putLog st b (log ++ hdrLog S th fields)) := by
  have h1 := boxAppend_true (Hp S pts th F) ρ st b log hρ.table hb
  have hb1 := putLog_get st b log (log ++ [.bool true]) hb
  have h2 := boxAppend_var (Hp S pts th F) ρ _ b _ "header_color" _ hh hρ.table hb1 (os_not_box _)
  rw [putLog_putLog] at h2
  have hb2 := putLog_get st b log (log ++ [.bool true] ++ [S.os (toTheme th).header]) hb
  obtain ⟨ρ', hP, h3⟩ := forLoopP_log "s" (fun ρ st => execBlockP (Hp S pts th F) [] noRec
      [.boxAppend (.var "table") (.prim "upper" (.listCons (.var "s") .listNil))] ρ st)
    (fun ρ => RpEnv S ρ tasks fields b children θ) b (upG S) (fields.map S.s)
    (by
      intro ρ v st log hv hP hb
      obtain ⟨c, -, rfl⟩ := List.mem_map.1 hv
      have hP' : RpEnv S (ρ.set "s" (.atom (S.s c))) tasks fields b children θ := hP.set _ _ (by decide)
      refine ⟨_, hP', ?_⟩
      rw [execBlockP_cons, boxAppend_expr _ _ st b log _ (S.s (c.map asciiUpper))
        (by ppl [prim_upper' pts th hS]) hP'.table hb rfl]
      simp [execBlockP_nil, upG, Lib.s, hS c])
    ρ _ _ hρ hb2
  refine ⟨ρ', hP, ?_⟩
  rw [putLog_putLog, flatMap_upG hS] at h3
  have hf := hρ.fields
  simp only [execBlockP_cons, execBlockP_nil, h1, h2]
  rw [rpHdr_eq, execP_forIn (vs := fields.map S.s) (st' := putLog st b (log ++ [.bool true] ++ [S.os (toTheme th).header]))
    (hit := by ppl [hf]), h3]
  simp [hdrLog]

def taskG (S : Lib) (pts : Nat → PyTask) (th : PyTheme) (fields : List Str) (children : Bool) (n : Nat) : Atom → List Atom
  | .ref t => subLog S pts th fields children (n + 1) 0 t
  | _ => []

theorem flatMap_taskG (fields : List Str) (children : Bool) (n : Nat) (ts : List Nat) :
    (ts.map Atom.ref).flatMap (taskG S pts th fields children n) =
      ts.flatMap (subLog S pts th fields children (n + 1) 0) := by
  induction ts with
  | nil => rfl
  | cons a l ih => simp [taskG, ih]

/-- the loop over the tasks of the list -/
theorem rpTasks_spec (hS : S.OK) (hc : ColOK S pts) (F n b : Nat) (tasks : List Nat) (fields : List Str) (children : Bool)
    (θ : Atom) (ρ : PyLite.Env) (st : PState) (log : List Atom)
    (hd : children = true → ∀ t ∈ tasks, DepthOK pts (n + 1) t)
    (hρ : RpEnv S ρ tasks fields b children θ) (hb : st.boxes[b]? = some log) :
    ∃ ρ', RpEnv S ρ' tasks fields b children θ ∧
      rpTasks.execP (Hp S pts th (F + n + 4)) [] noRec ρ st =
        .normal ρ' (putLog st b (log ++ tasks.flatMap (subLog S pts th fields children (n + 1) 0))) := by
  obtain ⟨ρ', hP, hl⟩ := forLoopP_log "_task" (fun ρ st => execBlockP (Hp S pts th (F + n + 4)) [] noRec rpTasksBody ρ st)
    (fun ρ => RpEnv S ρ tasks fields b children θ) b (taskG S pts th fields children n) (tasks.map Atom.ref)
    (by
      intro ρ v st log hv hP hb
      obtain ⟨t, ht, rfl⟩ := List.mem_map.1 hv
      have hcall := subtree_spec pts th hS hc fields children θ b n F t 0 st log (fun h => hd h t ht) hb
      have hP' : RpEnv S (ρ.set "_task" (.atom (.ref t))) tasks fields b children θ := hP.set _ _ (by decide)
      refine ⟨_, hP', ?_⟩
      have h1 := hP'.fields
      have h3 := hP'.table
      have h4 := hP'.children
      have h5 := hP'.theme
      have h0 : (ρ.set "_task" (.atom (.ref t))).get? "_task" = some (.atom (.ref t)) := by simp [Pj.TaskSrc.Env.get?_set]
      have hz : ((0 : Nat) : Rat) = 0 := rfl
      simp only [stArgs, hz] at hcall
      generalize ρ.set "_task" (.atom (.ref t)) = ρ1 at *
      ppl [rpTasksBody, rpTasks, src_repr, h0, h1, h3, h4, h5, hcall, taskG])
    ρ st log hρ hb
  rw [flatMap_taskG] at hl
  refine ⟨ρ', hP, ?_⟩
  have ht := hρ.tasks
  rw [rpTasks_eq, execP_forIn (vs := tasks.map Atom.ref) (st' := st) (hit := by ppl [ht, refsA]), hl]

/-! ### reading the log back -/

/-- every cell of the row has the colour of the row -/
def RowOK (r : Option Str × List Cell) : Prop := ∀ c ∈ r.2, c.color = r.1

theorem parse_cells (cells : List Str) (L pend : List Atom) (rows : List (Option Str × List Cell))
    (h : parseLog S L = some (pend, rows)) :
    parseLog S (cells.map S.s ++ L) = some (cells.map S.s ++ pend, rows) := by
  induction cells with
  | nil => simpa using h
  | cons c cs ih => simp [parseLog, Lib.s] at ih ⊢; simp [ih]

theorem parse_row' (c : Atom) (cellsA L : List Atom) (rows : List (Option Str × List Cell))
    (hc : c = .none ∨ ∃ k, c = .str k) (h : parseLog S (cellsA ++ L) = some (cellsA, rows)) :
    parseLog S (.bool true :: c :: (cellsA ++ L)) = (mkRow S c cellsA).map (fun r => ([], r :: rows)) := by
  rcases hc with rfl | ⟨k, rfl⟩ <;> simp [parseLog, h]

theorem mkRow_os (hS : S.OK) (col : Option Str) (texts : List Str) :
    mkRow S (S.os col) (texts.map S.s) = some (col, texts.map (fun x => { text := x, color := col })) := by
  have hm : (texts.map S.I).map (fun k => ({ text := S.D k, color := col } : Cell)) =
      texts.map (fun x => { text := x, color := col }) := by
    rw [List.map_map]
    apply List.map_congr_left
    intro x _
    simp [hS x]
  cases col with
  | none => simp only [mkRow, keysOfStrs_map, Lib.os, hm]
  | some c => simp only [mkRow, keysOfStrs_map, Lib.os, Lib.s, hS c, hm]

theorem parse_row (hS : S.OK) (r : Option Str × List Cell) (hr : RowOK r) (L : List Atom)
    (rows : List (Option Str × List Cell)) (h : parseLog S L = some ([], rows)) :
    parseLog S (logOfRow S r ++ L) = some ([], r :: rows) := by
  obtain ⟨col, cells⟩ := r
  have h1 := parse_cells (S := S) (cells.map (·.text)) L [] rows h
  rw [List.append_nil] at h1
  have hcells : (cells.map (·.text)).map (fun x => ({ text := x, color := col } : Cell)) = cells := by
    rw [List.map_map]
    conv => rhs; rw [← List.map_id cells]
    apply List.map_congr_left
    intro c hc
    have := hr c hc
    simp only at this
    simp only [Function.comp_apply, id, ← this]
  have hos : S.os col = .none ∨ ∃ k, S.os col = .str k := by
    cases col
    · exact Or.inl rfl
    · exact Or.inr ⟨_, rfl⟩
  have h2 := parse_row' (S := S) (S.os col) _ L rows hos h1
  rw [mkRow_os hS, hcells] at h2
  simp only [List.map_map, Option.map_some] at h2
  simp only [logOfRow, List.cons_append]
  exact h2

theorem rowsOfLog_logOfRows (hS : S.OK) (rows : List (Option Str × List Cell)) (h : ∀ r ∈ rows, RowOK r) :
    rowsOfLog S (logOfRows S rows) = some rows := by
  have : parseLog S (logOfRows S rows) = some ([], rows) := by
    induction rows with
    | nil => rfl
    | cons r rows ih =>
      rw [logOfRows_cons]
      exact parse_row hS r (h r List.mem_cons_self) _ rows (ih (fun r hr => h r (List.mem_cons_of_mem _ hr)))
  simp [rowsOfLog, this]

theorem subtreeRows_ok (ts : Nat → PTask) (fields : List Str) (children : Bool) (theme : Theme) :
    ∀ n level t, ∀ r ∈ subtreeRows ts fields children theme n level t, RowOK r := by
  intro n
  induction n with
  | zero => intro level t r hr; simp [subtreeRows] at hr
  | succ n ih =>
    intro level t r hr
    simp only [subtreeRows, List.mem_cons] at hr
    rcases hr with rfl | hr
    · intro c hc
      simp only [List.mem_map] at hc
      obtain ⟨f, -, rfl⟩ := hc
      show (if (f == "name".toList) = true then _ else _ : Cell).color = _
      split <;> rfl
    · cases children with
      | false => simp at hr
      | true =>
        simp only [if_true, List.mem_flatten, List.mem_map] at hr
        obtain ⟨l, ⟨c, -, rfl⟩, hr⟩ := hr
        exact ih _ _ r hr

/-- the rows of a sheet -/
def sheetRows (ts : Nat → PTask) (n : Nat) (tasks : List Nat) (fields : List Str) (children : Bool) (theme : Theme) :
    List (Option Str × List Cell) :=
  (theme.header, fields.map (fun f => { text := f.map asciiUpper, color := theme.header })) ::
    (tasks.map (subtreeRows ts fields children theme (n + 1) 0)).flatten

theorem sheet_eq (ts : Nat → PTask) (n : Nat) (tasks : List Nat) (fields : List Str) (children : Bool) (theme : Theme) :
    sheet ts n tasks fields children theme = render (sheetRows ts n tasks fields children theme) := rfl

theorem sheetRows_ok (ts : Nat → PTask) (n : Nat) (tasks : List Nat) (fields : List Str) (children : Bool) (theme : Theme) :
    ∀ r ∈ sheetRows ts n tasks fields children theme, RowOK r := by
  intro r hr
  simp only [sheetRows, List.mem_cons, List.mem_flatten, List.mem_map] at hr
  rcases hr with rfl | ⟨l, ⟨t, -, rfl⟩, hr⟩
  · intro c hc
    simp only [List.mem_map] at hc
    obtain ⟨f, -, rfl⟩ := hc
    rfl
  · exact subtreeRows_ok ts fields children theme _ _ _ r hr

theorem sheetLog_eq (n : Nat) (tasks : List Nat) (fields : List Str) (children : Bool) :
    hdrLog S th fields ++ tasks.flatMap (subLog S pts th fields children (n + 1) 0) =
      logOfRows S (sheetRows (tsOf S pts) n tasks fields children (toTheme th)) := by
  simp only [sheetRows, logOfRows_cons, logOfRows_flatten, List.flatMap_map]
  congr 1
  simp [logOfRow, hdrLog, List.map_map, Function.comp_def]

theorem prim_text_repr (log : List Atom) (rows : List (Option Str × List Cell)) (h : rowsOfLog S log = some rows) (st : PState) :
    printPrim S pts th "text_repr" log st = .ok (.atom (S.s (render rows))) := by
  unfold printPrim
  rw [if_neg (by decide +kernel)]
  simp [h, pure, Except.pure]

theorem pf_repr : printFuns fn_repr = some (src_repr_params, src_repr) := rfl

/-- `repr`: the table receives the header row and the rows of every task of the list; the value is the model's sheet -/
theorem repr_spec (hS : S.OK) (hc : ColOK S pts) (F n : Nat) (tasks : List Nat) (fields : List Str) (children : Bool)
    (θ : Atom) (hθ : θ ≠ .none) (st : PState) (hd : children = true → ∀ t ∈ tasks, DepthOK pts (n + 1) t) :
    (Hp S pts th (F + n + 5)).fnV fn_repr [refsA tasks, .list (fields.map S.s), .atom (.bool children), .atom θ] st =
      .ok (.atom (S.s (sheet (tsOf S pts) n tasks fields children (toTheme th))),
        { st with boxes := st.boxes ++ [logOfRows S (sheetRows (tsOf S pts) n tasks fields children (toTheme th))] }) := by
  rw [pfnV_succ _ _ _ _ _ _ _ pf_repr, callPV_eq]
  have hbind : bindParamsV src_repr_params [refsA tasks, .list (fields.map S.s), .atom (.bool children), .atom θ] =
      .ok [("tasks", refsA tasks), ("fields", .list (fields.map S.s)), ("children", .atom (.bool children)),
        ("theme", .atom θ)] := rfl
  rw [hbind]
  obtain ⟨ρ1, h1, hρ1, hh1⟩ := rpHead_spec pts th hS (F + n + 4) tasks fields children θ hθ st
  have hb1 : ({ st with boxes := st.boxes ++ [[]] } : PState).boxes[st.boxes.length]? = some [] := by simp
  obtain ⟨ρ2, hρ2, h2⟩ := rpHdr_spec pts th hS (F + n + 4) _ tasks fields children θ ρ1 _ [] hρ1 hh1 hb1
  rw [List.nil_append] at h2
  obtain ⟨ρ3, hρ3, h3⟩ := rpTasks_spec pts th hS hc F n _ tasks fields children θ ρ2
    (putLog { st with boxes := st.boxes ++ [[]] } st.boxes.length (hdrLog S th fields)) (hdrLog S th fields)
    hd hρ2 (putLog_get _ _ _ _ hb1)
  rw [putLog_putLog, sheetLog_eq] at h3
  have hb3 := putLog_get _ _ _ (logOfRows S (sheetRows (tsOf S pts) n tasks fields children (toTheme th))) hb1
  have hpr := prim_text_repr pts th _ _ (rowsOfLog_logOfRows hS _ (sheetRows_ok (tsOf S pts) n tasks fields children (toTheme th)))
    (putLog { st with boxes := st.boxes ++ [[]] } st.boxes.length
      (logOfRows S (sheetRows (tsOf S pts) n tasks fields children (toTheme th))))
  have htab := hρ3.table
  have hret : (Stmt.ret (.prim "text_repr" (.items (.var "table")))).execP (Hp S pts th (F + n + 4)) [] noRec ρ3
      (putLog { st with boxes := st.boxes ++ [[]] } st.boxes.length
        (logOfRows S (sheetRows (tsOf S pts) n tasks fields children (toTheme th)))) =
      .ret (.atom (S.s (sheet (tsOf S pts) n tasks fields children (toTheme th))))
        (putLog { st with boxes := st.boxes ++ [[]] } st.boxes.length
          (logOfRows S (sheetRows (tsOf S pts) n tasks fields children (toTheme th)))) := by
    simp only [Stmt.execP, Expr.evalP, htab, hb3, bind, Except.bind, pure, Except.pure, Hp_prim, hpr, sheet_eq]
  have hsplit : ∀ ρ st, execBlockP (Hp S pts th (F + n + 4)) [] noRec
      (.boxAppend (.var "table") (.bool true) :: .boxAppend (.var "table") (.var "header_color") :: rpHdr ::
        [rpTasks, .ret (.prim "text_repr" (.items (.var "table")))]) ρ st =
      match execBlockP (Hp S pts th (F + n + 4)) [] noRec
        [.boxAppend (.var "table") (.bool true), .boxAppend (.var "table") (.var "header_color"), rpHdr] ρ st with
      | .normal ρ' st' => execBlockP (Hp S pts th (F + n + 4)) [] noRec
          [rpTasks, .ret (.prim "text_repr" (.items (.var "table")))] ρ' st'
      | r => r := fun ρ st => execBlockP_append _ _ _
        [.boxAppend (.var "table") (.bool true), .boxAppend (.var "table") (.var "header_color"), rpHdr] _ ρ st
  simp only [rp_shape, execBlockP_append, h1, hsplit, h2, execBlockP_cons, h3, hret]
  simp [putLog]

/-- the entry point -/
theorem interpRepr_eq (hS : S.OK) (hc : ColOK S pts) (F n : Nat) (tasks : List Nat) (fields : List Str) (children : Bool)
    (hd : children = true → ∀ t ∈ tasks, DepthOK pts (n + 1) t) (hF : n + 5 ≤ F) :
    interpRepr S pts th F tasks fields children =
      .ok (.atom (S.s (sheet (tsOf S pts) n tasks fields children (toTheme th))),
        logOfRows S (sheetRows (tsOf S pts) n tasks fields children (toTheme th))) := by
  obtain ⟨F, rfl⟩ : ∃ F', F = F' + n + 5 := ⟨F - (n + 5), by omega⟩
  have := repr_spec pts th hS hc F n tasks fields children (.ref 0) (by simp) st0 hd
  simp only [interpRepr, interp, runProg]
  rw [this]; rfl

/-! ## Part 4 (groundwork only): `pyMax` on naturals, a folding loop, the shape of `__calc_max_title_len` -/

theorem pyMax_nat (a b : Nat) :
    pyMax (.atom (.num ((a : Nat) : Rat))) (.atom (.num ((b : Nat) : Rat))) = .ok (.atom (.num ((max a b : Nat) : Rat))) := by
  by_cases h : a < b
  · have hm : max a b = b := by omega
    simp [pyMax, PyLite.compare, cmpRat, Atom.asNum?, bind, Except.bind, pure, Except.pure, Rat.natCast_lt_natCast, h, hm]
  · have hm : max a b = a := by omega
    simp [pyMax, PyLite.compare, cmpRat, Atom.asNum?, bind, Except.bind, pure, Except.pure, Rat.natCast_lt_natCast, h, hm]

/-- a loop that folds a number held by the variable `acc` -/
theorem forLoopP_foldN (x acc : String) (body : PyLite.Env → PState → OutcomeP) (P : PyLite.Env → Prop)
    (f : Nat → Atom → Nat) (st : PState) :
    ∀ (vs : List Atom),
      (∀ ρ m v, v ∈ vs → P ρ → ρ.get? acc = some (.atom (.num ((m : Nat) : Rat))) →
        ∃ ρ', P ρ' ∧ ρ'.get? acc = some (.atom (.num ((f m v : Nat) : Rat))) ∧ body (ρ.set x v) st = .normal ρ' st) →
      ∀ ρ m, P ρ → ρ.get? acc = some (.atom (.num ((m : Nat) : Rat))) →
        ∃ ρ', P ρ' ∧ ρ'.get? acc = some (.atom (.num ((vs.foldl f m : Nat) : Rat))) ∧
          forLoopP x body vs ρ st = .normal ρ' st := by
  intro vs
  induction vs with
  | nil => intro _ ρ m hP ha; exact ⟨ρ, hP, ha, rfl⟩
  | cons v vs ih =>
    intro hb ρ m hP ha
    obtain ⟨ρ1, hP1, ha1, h1⟩ := hb ρ m v List.mem_cons_self hP ha
    obtain ⟨ρ2, hP2, ha2, h2⟩ := ih (fun ρ m v' hv => hb ρ m v' (List.mem_cons_of_mem _ hv)) ρ1 _ hP1 ha1
    exact ⟨ρ2, hP2, ha2, by simp only [forLoopP, h1, h2]⟩

theorem pf_title : printFuns fn_calc_max_title_len = some (src_calc_max_title_len_params, src_calc_max_title_len) := rfl

def tlLoop : Stmt := src_calc_max_title_len.getD 2 .pass
def tlBody : List Stmt := match tlLoop with | .forIn _ _ b => b | _ => []
theorem tl_shape : src_calc_max_title_len = src_calc_max_title_len.take 2 ++ [tlLoop, .ret (.var "_current_max")] := rfl
theorem tlLoop_eq : tlLoop = .forIn "ch" (.prim "children" (.listCons (.var "task") .listNil)) tlBody := rfl

def tlG (S : Lib) (pts : Nat → PyTask) (n level : Nat) (m : Nat) : Atom → Nat
  | .ref c => titleLen (tsOf S pts) n (level + 1) c m
  | _ => m

theorem foldl_tlG (n level : Nat) (cs : List Nat) (m : Nat) :
    (cs.map Atom.ref).foldl (tlG S pts n level) m = cs.foldl (fun m ch => titleLen (tsOf S pts) n (level + 1) ch m) m := by
  induction cs generalizing m with
  | nil => rfl
  | cons a l ih => simp [tlG, ih]

end Pj.PrintSrc
