/-
  Lemmas/FacadeSrcC.lean — stage 3 of the translated tie for the list facades of task.py (general theorems):
  `_ChildrenList.sort` = `chSort` / `sortBy`.  Python's `sorted` is a primitive of PyLite (`sortedBy` / `pySorted`: a
  stable insertion sort by `keyLe`); this file shows that its meaning is the model's `sortBy` (`List.mergeSort`) whenever
  the model's integer keys order the tasks as the Python keys do, and ties what is around it: the test of the type of
  `key`, the attribute access, the multi-key string, the write-back.
  See Lemmas/FacadeSrc.lean for the setting and Lemmas/FacadeSrcD.lean for the list of results.
-/
import PjVerif.Lemmas.FacadeSrcB
import PjVerif.Lemmas.FacadeSrcSort
namespace Pj.FacadeSrc
open Pj.PyLite Pj.Extracted Pj.Extracted.Facade Pj.TaskSrc
set_option linter.unusedSimpArgs false
set_option linter.unusedVariables false

/-! ### `sorted(…)` on a list of tasks = `sortBy` -/

theorem some_beq_true (b : Bool) : (some b == some true) = b := by cases b <;> rfl

/-- the sort key of an item of a list of tasks -/
def keyOfA (val : Uid → Atom) : Atom → Atom
  | .ref u => val u
  | _ => .none

theorem zip_keys (l : List Uid) (val : Uid → Atom) :
    (l.map Atom.ref).zip ((l.map Atom.ref).map (keyOfA val)) = l.map (fun u => (Atom.ref u, val u)) := by
  induction l with
  | nil => rfl
  | cons a l ih => simp only [List.map_cons, List.zip_cons_cons, keyOfA, ih]

/-- PYTHON'S `sorted` IS THE MODEL'S `sortBy`: on a list of tasks whose Python keys `val u` are ordered (`keyLe`) as
    the model's integer keys `key u` -/
theorem pySorted_refs (l : List Uid) (val : Uid → Atom) (key : Uid → Int) (r : Bool)
    (hord : ∀ u ∈ l, ∀ v ∈ l, keyLe (val u) (val v) = some (decide (key u ≤ key v))) :
    pySorted r ((l.map Atom.ref).zip ((l.map Atom.ref).map (keyOfA val))) = .ok ((sortBy key r l).map Atom.ref) := by
  rw [zip_keys]
  unfold pySorted
  have hall : (l.map (fun u => (Atom.ref u, val u))).all (fun p =>
      (l.map (fun u => (Atom.ref u, val u))).all (fun q => (keyLe p.2 q.2).isSome)) = true := by
    simp only [List.all_eq_true, List.mem_map]
    rintro p ⟨u, hu, rfl⟩ q ⟨v, hv, rfl⟩
    simp [hord u hu v hv]
  rw [if_pos hall]
  have hins := insSort_map (fun u => (Atom.ref u, val u))
    (fun p q => if r then keyLe q.2 p.2 == some true else keyLe p.2 q.2 == some true)
    (fun a b => if r then decide (key b ≤ key a) else decide (key a ≤ key b)) l
    (by
      intro a ha b hb
      cases r
      · simp only [Bool.false_eq_true, if_false, hord a ha b hb, some_beq_true]
      · simp only [if_true, hord b hb a ha, some_beq_true])
  rw [hins]
  rw [← sortBy_eq_insSort]
  simp [pure, Except.pure, List.map_map]

/-- `sorted(l, key=lambda x: key, reverse=rev)` whose key function only reads -/
theorem evalP_sortedBy_pure (H : PHandlers) (self ρ : PyLite.Env) (st0 st1 st : PState) (key l rev : Expr) (x : String)
    (vs : List Atom) (r : Bool) (kf : Atom → Atom)
    (hl : l.evalP H self ρ st0 = .ok (.list vs, st1)) (hr : rev.evalP H self ρ st1 = .ok (.atom (.bool r), st))
    (hk : ∀ v ∈ vs, key.evalP H self (ρ.set x v) st = .ok (.atom (kf v), st)) :
    (Expr.sortedBy key x l rev).evalP H self ρ st0 =
      (pySorted r (vs.zip (vs.map kf))).map (fun out => (Val.list out, st)) := by
  simp only [Expr.evalP, hl, hr, bind, Except.bind, pure, Except.pure, iterOf, truthP]
  rw [compLoopP_pure (g := fun v => some (kf v))]
  · have : vs.filterMap (fun v => some (kf v)) = vs.map kf := by
      induction vs with
      | nil => rfl
      | cons v vs ih => simp
    simp only [this]
    cases pySorted r (vs.zip (vs.map kf)) <;> rfl
  · intro v hv
    simp only [hk v hv]

theorem Hf_prim (L : Lib) (F : Nat) : (Hf L F).prim = facPrim L := by cases F <;> rfl

/-! ### `_ChildrenList.sort` -/

theorem tf_ch_sort : facadeFuns fn_ChildrenList_sort = some (src_ChildrenList_sort_params, src_ChildrenList_sort) := rfl

def soLast : Stmt := .expr (.callFn fn_Task_set_children
    (.listCons (.var "_facade_parent") (.listCons (.attr (.var "_facade_parent") "children") .listNil)))

/-- `self._list[:] = <sorted list>` -/
theorem so_set (L : Lib) (s : G) (st : PState) (hh : st.heap = encHeap s) (h : Uid) (F : Nat) (ρ : PyLite.Env)
    (ho : ρ.get? "_facade_parent" = some (.atom (.ref h))) (e : Expr) (l2 : List Uid)
    (he : e.evalP (Hf L F) [] ρ st = .ok (.list (l2.map Atom.ref), st)) :
    (Stmt.setAttr (.var "_facade_parent") "children" e).execP (Hf L F) [] noRec ρ st =
      .normal ρ (withG st (sw s h l2)) := by
  have hset1 := heapSet_sw s h (s.children h) l2
  rw [sw_self] at hset1
  simp only [refs] at hset1
  rw [execP_setAttr (he := he) (ho := evalP_var _ _ _ _ _ _ ho), hh, hset1]
  rfl

/-- `self.__setter(self._list)` after the list was updated in place: nothing changes -/
theorem so_last (L : Lib) (s : G) (st : PState) (h : Uid) (F : Nat) (ρ : PyLite.Env)
    (ho : ρ.get? "_facade_parent" = some (.atom (.ref h))) (l2 : List Uid) :
    soLast.execP (Hf L (F + 1)) [] noRec ρ (withG st (sw s h l2)) = .normal ρ (withG st (sw s h l2)) := by
  have hset := set_children_spec L (sw s h l2) (withG st (sw s h l2)) rfl F h l2
  rw [sw_sw, withG_withG] at hset
  have hlist := evalP_attr_children (Hf L (F + 1)) [] ρ (sw s h l2) (withG st (sw s h l2)) rfl "_facade_parent" h ho
  rw [sw_children] at hlist
  rw [soLast, execP_expr (he := by
    rw [evalP_callFn2 (ha := evalP_var _ _ _ _ _ _ ho) (hb := hlist)]; exact hset)]

/-- STAGE 3, one attribute.  `h.children.sort(key, reverse)` for a `str` key `.str k` = `chSort` with the integer keys
    `key`, for EVERY state `s` and EVERY meaning `L` of `__getattribute__` such that the attribute values `val u` of the
    children are ordered as the model's keys -/
theorem ch_sort_str_spec (L : Lib) (s : G) (st : PState) (hh : st.heap = encHeap s) (h : Uid) (k : Nat) (rev : Bool)
    (key : Uid → Int) (val : Uid → Atom) (F : Nat) (hF : 2 ≤ F)
    (hval : ∀ u ∈ s.children h, L "__getattribute__" [.ref u, .str k] = .ok (val u))
    (hord : ∀ u ∈ s.children h, ∀ v ∈ s.children h, keyLe (val u) (val v) = some (decide (key u ≤ key v))) :
    (Hf L F).fnV fn_ChildrenList_sort [.atom (.ref h), .atom (.str k), .atom (.bool rev)] st =
      opResult st (.atom .none) (chSort s h key rev) := by
  obtain ⟨F, rfl⟩ : ∃ F', F = F' + 2 := ⟨F - 2, by omega⟩
  rw [fnVf_succ _ _ _ _ _ tf_ch_sort, callPV_eq]
  simp only [src_ChildrenList_sort_params, bindParamsV, pure, Except.pure, bind, Except.bind]
  have ho : Env.get? [("_facade_parent", Val.atom (Atom.ref h)), ("key", Val.atom (Atom.str k)),
      ("reverse", Val.atom (Atom.bool rev))] "_facade_parent" = some (.atom (.ref h)) := rfl
  have hkey : Env.get? [("_facade_parent", Val.atom (Atom.ref h)), ("key", Val.atom (Atom.str k)),
      ("reverse", Val.atom (Atom.bool rev))] "key" = some (.atom (.str k)) := rfl
  have hrev : Env.get? [("_facade_parent", Val.atom (Atom.ref h)), ("key", Val.atom (Atom.str k)),
      ("reverse", Val.atom (Atom.bool rev))] "reverse" = some (.atom (.bool rev)) := rfl
  generalize ([("_facade_parent", Val.atom (Atom.ref h)), ("key", Val.atom (Atom.str k)),
      ("reverse", Val.atom (Atom.bool rev))] : PyLite.Env) = ρ at ho hkey hrev
  have hsorted := evalP_sortedBy_pure (Hf L (F + 1)) [] ρ st st st
    (.prim "__getattribute__" (.listCons (.var "x") (.listCons (.var "key") .listNil))) (.attr (.var "_facade_parent") "children")
    (.var "reverse") "x" ((s.children h).map Atom.ref) rev (keyOfA val)
    (evalP_attr_children _ _ _ s st hh _ h ho) (evalP_var _ _ _ _ _ _ hrev)
    (by
      intro v hv
      obtain ⟨u, hu, rfl⟩ := List.mem_map.1 hv
      have hp := Hf_prim L (F + 1)
      simp [Expr.evalP, Env.get?_set, hkey, hp, facPrim, hval u hu, keyOfA, bind, Except.bind, pure, Except.pure,
        Except.map])
  rw [pySorted_refs _ val key rev hord] at hsorted
  simp only [Except.map] at hsorted
  unfold chSort
  simp only [src_ChildrenList_sort]
  rw [execBlockP_cons, execP_ifElse (hc := by
    show _ = Except.ok (Val.atom (Atom.bool true), st)
    simp [Expr.evalP, hkey, pyTypeIsS, bind, Except.bind, pure, Except.pure]) (hb := rfl)]
  simp only [if_true]
  rw [execBlockP_cons, so_set L s st hh h (F + 1) ρ ho _ _ hsorted]
  simp only [execBlockP_nil]
  rw [execBlockP_cons]
  change (match (match soLast.execP (Hf L (F + 1)) [] noRec ρ (withG st (sw s h (sortBy key rev (s.children h)))) with
    | .normal ρ' st' => execBlockP (Hf L (F + 1)) [] noRec [] ρ' st' | r => r) with
    | .normal _ st' => Except.ok (Val.atom Atom.none, st') | .cont _ st' => Except.ok (Val.atom Atom.none, st')
    | .ret v st' => Except.ok (v, st') | .raise e => Except.error e) = _
  rw [so_last L s st h F ρ ho]
  simp only [execBlockP_nil, opResult]
  rfl

theorem evalP_prim (H : PHandlers) (self ρ : PyLite.Env) (st st' : PState) (name : String) (args : Expr) (as : List Atom)
    (v : Val) (hargs : args.evalP H self ρ st = .ok (.list as, st')) (hp : H.prim name as st' = .ok v) :
    (Expr.prim name args).evalP H self ρ st = .ok (v, st') := by
  simp only [Expr.evalP, hargs, hp, bind, Except.bind, pure, Except.pure]

/-- the string of an item of the list `key` -/
def strOfA (strv : Nat → Atom) : Atom → Atom
  | .str k => strv k
  | _ => .none

/-- STAGE 3, several attributes.  `h.children.sort(key, reverse)` for a list `key` of `str`s = `chSort`: the sort key
    of the child `u` is `'-'.join([str(u.__getattribute__(k)) for k in key])`, whatever `__getattribute__`, `str` and
    `join` mean (`attr`, `strv`, `val`), provided these strings are ordered as the model's keys -/
theorem ch_sort_list_spec (L : Lib) (s : G) (st : PState) (hh : st.heap = encHeap s) (h : Uid) (ks : List Nat) (rev : Bool)
    (key : Uid → Int) (attr strv : Uid → Nat → Atom) (val : Uid → Atom) (F : Nat) (hF : 2 ≤ F)
    (hattr : ∀ u ∈ s.children h, ∀ k ∈ ks, L "__getattribute__" [.ref u, .str k] = .ok (attr u k))
    (hstr : ∀ u ∈ s.children h, ∀ k ∈ ks, L "str" [attr u k] = .ok (strv u k))
    (hjoin : ∀ u ∈ s.children h, L "join:-" (ks.map (strv u)) = .ok (val u))
    (hord : ∀ u ∈ s.children h, ∀ v ∈ s.children h, keyLe (val u) (val v) = some (decide (key u ≤ key v))) :
    (Hf L F).fnV fn_ChildrenList_sort [.atom (.ref h), .list (ks.map Atom.str), .atom (.bool rev)] st =
      opResult st (.atom .none) (chSort s h key rev) := by
  obtain ⟨F, rfl⟩ : ∃ F', F = F' + 2 := ⟨F - 2, by omega⟩
  rw [fnVf_succ _ _ _ _ _ tf_ch_sort, callPV_eq]
  simp only [src_ChildrenList_sort_params, bindParamsV, pure, Except.pure, bind, Except.bind]
  have ho : Env.get? [("_facade_parent", Val.atom (Atom.ref h)), ("key", Val.list (ks.map Atom.str)),
      ("reverse", Val.atom (Atom.bool rev))] "_facade_parent" = some (.atom (.ref h)) := rfl
  have hkey : Env.get? [("_facade_parent", Val.atom (Atom.ref h)), ("key", Val.list (ks.map Atom.str)),
      ("reverse", Val.atom (Atom.bool rev))] "key" = some (.list (ks.map Atom.str)) := rfl
  have hrev : Env.get? [("_facade_parent", Val.atom (Atom.ref h)), ("key", Val.list (ks.map Atom.str)),
      ("reverse", Val.atom (Atom.bool rev))] "reverse" = some (.atom (.bool rev)) := rfl
  generalize ([("_facade_parent", Val.atom (Atom.ref h)), ("key", Val.list (ks.map Atom.str)),
      ("reverse", Val.atom (Atom.bool rev))] : PyLite.Env) = ρ at ho hkey hrev
  have hp := Hf_prim L (F + 1)
  have hsorted := evalP_sortedBy_pure (Hf L (F + 1)) [] ρ st st st
    (.prim "join:-" (.listComp (.prim "str" (.listCons (.prim "__getattribute__" (.listCons (.var "x")
      (.listCons (.var "k") .listNil))) .listNil)) "k" (.var "key") (.bool true)))
    (.attr (.var "_facade_parent") "children") (.var "reverse") "x" ((s.children h).map Atom.ref) rev (keyOfA val)
    (evalP_attr_children _ _ _ s st hh _ h ho) (evalP_var _ _ _ _ _ _ hrev)
    (by
      intro v hv
      obtain ⟨u, hu, rfl⟩ := List.mem_map.1 hv
      have hkx : (Env.set ρ "x" (.atom (.ref u))).get? "key" = some (.list (ks.map Atom.str)) := by
        rw [Env.get?_set, if_neg (by decide)]; exact hkey
      have hcomp := evalP_listComp_pure (Hf L (F + 1)) [] (Env.set ρ "x" (.atom (.ref u))) st st
        (.prim "str" (.listCons (.prim "__getattribute__" (.listCons (.var "x") (.listCons (.var "k") .listNil))) .listNil))
        (.bool true) (.var "key") "k" (ks.map Atom.str) (fun _ => true) (strOfA (strv u))
        (evalP_var _ _ _ _ _ _ hkx)
        (by intro v _; simp [Expr.evalP, pure, Except.pure])
        (by
          intro v hv _
          obtain ⟨k, hk, rfl⟩ := List.mem_map.1 hv
          simp [Expr.evalP, Env.get?_set, hp, facPrim, hattr u hu k hk, hstr u hu k hk, strOfA, bind, Except.bind, pure,
            Except.pure, Except.map])
      have hfl : ∀ ks : List Nat, ((ks.map Atom.str).filter (fun _ => true)).map (strOfA (strv u)) = ks.map (strv u) := by
        intro ks
        induction ks with
        | nil => rfl
        | cons k ks ih => simp only [List.map_cons, List.filter_cons, if_true, strOfA, ih]
      rw [hfl] at hcomp
      rw [evalP_prim (hargs := hcomp) (hp := by
        rw [hp]; simp only [facPrim, hjoin u hu, Except.map]; rfl)]
      rfl)
  rw [pySorted_refs _ val key rev hord] at hsorted
  simp only [Except.map] at hsorted
  unfold chSort
  simp only [src_ChildrenList_sort]
  rw [execBlockP_cons, execP_ifElse (hc := by
    show _ = Except.ok (Val.atom (Atom.bool false), st)
    simp [Expr.evalP, hkey, pyTypeIsS, bind, Except.bind, pure, Except.pure]) (hb := rfl)]
  simp only [Bool.false_eq_true, if_false]
  rw [execBlockP_cons, execP_ifElse (hc := by
    show _ = Except.ok (Val.atom (Atom.bool true), st)
    simp [Expr.evalP, hkey, pyTypeIs, truthP, bind, Except.bind, pure, Except.pure]) (hb := rfl)]
  simp only [if_true]
  rw [execBlockP_cons, so_set L s st hh h (F + 1) ρ ho _ _ hsorted]
  simp only [execBlockP_nil]
  rw [execBlockP_cons]
  change (match (match soLast.execP (Hf L (F + 1)) [] noRec ρ (withG st (sw s h (sortBy key rev (s.children h)))) with
    | .normal ρ' st' => execBlockP (Hf L (F + 1)) [] noRec [] ρ' st' | r => r) with
    | .normal _ st' => Except.ok (Val.atom Atom.none, st') | .cont _ st' => Except.ok (Val.atom Atom.none, st')
    | .ret v st' => Except.ok (v, st') | .raise e => Except.error e) = _
  rw [so_last L s st h F ρ ho]
  simp only [execBlockP_nil, opResult]
  rfl

end Pj.FacadeSrc
