/-
  Lemmas/PrintSrcA.lean — stage 1 of the translated tie for the sheet printer (general theorems): the cell texts.
  `__get_linked_task_id` = `linkedId`, `__get_linked_tasks_id` = the comma-joined `linkedId`s, `__get_field_value` =
  `fieldValue`, for every task, field and string library.  See Lemmas/PrintSrc.lean for the setting.
-/
import PjVerif.Lemmas.PrintSrc
import PjVerif.Lemmas.TaskSrcA
namespace Pj.PrintSrc
open Pj.PyLite Pj.Print Pj.Extracted.Print
open Pj.TaskSrc (callPV_eq execBlockP_cons execBlockP_nil execP_forIn forLoopP_acc noRec)
set_option linter.unusedSimpArgs false
set_option linter.unusedVariables false

variable (S : Lib) (pts : Nat → PyTask) (th : PyTheme)

/-- the model's view of the tasks -/
abbrev tsOf (S : Lib) (pts : Nat → PyTask) : Nat → PTask := fun u => toPTask S (pts u)

theorem pfnV_succ (F k : Nat) (params : List String) (body : List Stmt) (h : printFuns k = some (params, body))
    (args : List Val) (st : PState) :
    (Hp S pts th (F + 1)).fnV k args st = callPV (Hp S pts th F) params body args st := by
  simp only [Hp, progH, h]

theorem Hp_prim (F : Nat) : (Hp S pts th F).prim = printPrim S pts th := by cases F <;> rfl

/-! ### the primitives -/

theorem prim_lit (name : String) (x : Str) (st : PState) (h1 : name.startsWith "lit:" = true)
    (h2 : (name.drop 4).toString.toList = x) : printPrim S pts th name [] st = .ok (.atom (S.s x)) := by
  simp only [printPrim, h1, if_true, h2]; rfl

theorem nl (name : String) (h : name.startsWith "lit:" = false) :
    (if name.startsWith "lit:" = true then (none : Option Nat) else some 0) = some 0 := by simp [h]

macro "litp" : tactic => `(tactic| exact prim_lit _ _ _ _ _ _ (by decide +kernel) (by decide +kernel))

theorem lit_empty (st : PState) : printPrim S pts th "lit:" [] st = .ok (.atom (S.s [])) := by litp
theorem lit_external (st : PState) : printPrim S pts th "lit:(external)" [] st = .ok (.atom (S.s "(external)".toList)) := by litp
theorem lit_lbr (st : PState) : printPrim S pts th "lit:[" [] st = .ok (.atom (S.s ['['])) := by litp
theorem lit_rbr (st : PState) : printPrim S pts th "lit:]" [] st = .ok (.atom (S.s [']'])) := by litp
theorem lit_dash (st : PState) : printPrim S pts th "lit:-" [] st = .ok (.atom (S.s ['-'])) := by litp
theorem lit_preds (st : PState) : printPrim S pts th "lit:predecessors" [] st = .ok (.atom (S.s "predecessors".toList)) := by litp
theorem lit_succs (st : PState) : printPrim S pts th "lit:successors" [] st = .ok (.atom (S.s "successors".toList)) := by litp
theorem lit_parent (st : PState) : printPrim S pts th "lit:parent" [] st = .ok (.atom (S.s "parent".toList)) := by litp
theorem lit_id (st : PState) : printPrim S pts th "lit:id" [] st = .ok (.atom (S.s "id".toList)) := by litp
theorem lit_estimate (st : PState) : printPrim S pts th "lit:estimate" [] st = .ok (.atom (S.s "estimate".toList)) := by litp
theorem lit_spent (st : PState) : printPrim S pts th "lit:spent" [] st = .ok (.atom (S.s "spent".toList)) := by litp

/-- a primitive whose name is not a literal: the dispatch on the name -/
macro "primp" : tactic => `(tactic|
  (unfold printPrim
   rw [if_neg (by decide +kernel)]
   simp [oneTask, oneStr, one, pure, Except.pure]))

theorem prim_empty (st : PState) : printPrim S pts th "EMPTY_TASK_ID" [] st = .ok (.atom S.emptyId) := by primp
theorem prim_name (t : Nat) (st : PState) : printPrim S pts th "name" [.ref t] st = .ok (.atom (S.os (pts t).name)) := by primp
theorem prim_id (t : Nat) (st : PState) : printPrim S pts th "id" [.ref t] st = .ok (.atom (pts t).id) := by primp
theorem prim_wbs (t : Nat) (st : PState) : printPrim S pts th "wbs" [.ref t] st = .ok (.atom (optRefA (pts t).wbs)) := by primp
theorem prim_parent (t : Nat) (st : PState) : printPrim S pts th "parent" [.ref t] st = .ok (.atom (optRefA (pts t).parent)) := by primp
theorem prim_children (t : Nat) (st : PState) : printPrim S pts th "children" [.ref t] st = .ok (refsA (pts t).children) := by primp
theorem prim_preds (t : Nat) (st : PState) : printPrim S pts th "predecessors" [.ref t] st = .ok (refsA (pts t).preds) := by primp
theorem prim_succs (t : Nat) (st : PState) : printPrim S pts th "successors" [.ref t] st = .ok (refsA (pts t).succs) := by primp
theorem prim_estimate (t : Nat) (st : PState) : printPrim S pts th "estimate" [.ref t] st = .ok (.atom (pts t).estimate) := by primp
theorem prim_spent (t : Nat) (st : PState) : printPrim S pts th "spent" [.ref t] st = .ok (.atom (pts t).spent) := by primp
theorem prim_dict (t : Nat) (st : PState) :
    printPrim S pts th "__dict__" [.ref t] st = .ok (.list ((pts t).dict.map (fun p => S.s p.1))) := by primp
theorem prim_getattr (t k : Nat) (st : PState) :
    printPrim S pts th "__getattribute__" [.ref t, .str k] st =
      (match lookupA (pts t).dict (S.D k) with
       | some v => .ok (.atom v)
       | none => .error (.crash .attribute)) := by
  primp
  cases lookupA (pts t).dict (S.D k) <;> rfl
theorem prim_str (a : Atom) (st : PState) : printPrim S pts th "str" [a] st = .ok (.atom (S.s (S.text a))) := by primp
theorem prim_strlen (k : Nat) (st : PState) :
    printPrim S pts th "strlen" [.str k] st = .ok (.atom (.num (((S.D k).length : Nat) : Rat))) := by primp
theorem prim_lower (k : Nat) (st : PState) :
    printPrim S pts th "lower" [.str k] st = .ok (.atom (S.s ((S.D k).map asciiLower))) := by primp
theorem prim_concat (a b : Nat) (st : PState) :
    printPrim S pts th "concat" [.str a, .str b] st = .ok (.atom (S.s (S.D a ++ S.D b))) := by primp
theorem prim_join (l : List Atom) (ks : List Nat) (h : keysOfStrs l = some ks) (st : PState) :
    printPrim S pts th "join:," l st = .ok (.atom (S.s (joinComma (ks.map S.D)))) := by
  unfold printPrim
  rw [if_neg (by decide +kernel)]
  simp [h, pure, Except.pure]
theorem prim_isdt (a : Atom) (st : PState) :
    printPrim S pts th "isinstance:datetime" [a] st = .ok (.atom (.bool (isTimeA a))) := by
  primp
theorem prim_strftime (t : Time) (st : PState) :
    printPrim S pts th "strftime:%d.%m.%Y %H:%M" [.time t] st = .ok (.atom (S.s (S.fmt t))) := by primp

/-! ### strings -/

variable {S}

theorem D_s (hS : S.OK) (x : Str) : S.D (S.I x) = x := hS x
theorem text_s (hS : S.OK) (x : Str) : S.text (S.s x) = x := hS x

theorem pyEq_s (hS : S.OK) (a b : Str) : (S.s a).pyEq (S.s b) = decide (a = b) := by
  simp only [Atom.pyEq, Lib.s, Atom.norm]
  by_cases h : a = b
  · simp [h]
  · have : S.I a ≠ S.I b := fun e => h (by rw [← hS a, ← hS b, e])
    simp [h, this]

theorem pyEq_optRefA (a b : Option Nat) : (optRefA a).pyEq (optRefA b) = decide (a = b) := by
  cases a <;> cases b <;> simp [optRefA, Atom.pyEq, Atom.norm]

theorem prim_concat' (hS : S.OK) (x y : Str) (st : PState) :
    printPrim S pts th "concat" [S.s x, S.s y] st = .ok (.atom (S.s (x ++ y))) := by
  simp only [Lib.s, prim_concat, hS x, hS y]
theorem prim_strlen' (hS : S.OK) (x : Str) (st : PState) :
    printPrim S pts th "strlen" [S.s x] st = .ok (.atom (.num ((x.length : Nat) : Rat))) := by
  simp only [Lib.s, prim_strlen, hS x]
theorem prim_lower' (hS : S.OK) (x : Str) (st : PState) :
    printPrim S pts th "lower" [S.s x] st = .ok (.atom (S.s (x.map asciiLower))) := by
  simp only [Lib.s, prim_lower, hS x]
theorem prim_getattr' (hS : S.OK) (t : Nat) (x : Str) (st : PState) :
    printPrim S pts th "__getattribute__" [.ref t, S.s x] st =
      (match lookupA (pts t).dict x with
       | some v => .ok (.atom v)
       | none => .error (.crash .attribute)) := by
  simp only [Lib.s, prim_getattr, hS x]

theorem keysOfStrs_map (l : List Str) : keysOfStrs (l.map S.s) = some (l.map S.I) := by
  induction l with
  | nil => rfl
  | cons a l ih => simp [keysOfStrs, Lib.s, ih]

theorem prim_join' (hS : S.OK) (l : List Str) (st : PState) :
    printPrim S pts th "join:," (l.map S.s) st = .ok (.atom (S.s (joinComma l))) := by
  rw [prim_join S pts th _ _ (keysOfStrs_map l)]
  congr 4
  rw [List.map_map]
  conv => rhs; rw [← List.map_id l]
  apply List.map_congr_left
  intro a _
  exact hS a

/-- symbolic execution of a translated body -/
syntax "ppl" (" [" Lean.Parser.Tactic.simpLemma,* "]")? : tactic
macro_rules
  | `(tactic| ppl) => `(tactic| ppl [])
  | `(tactic| ppl [$ls,*]) => `(tactic|
      simp [callPV_eq, bindParamsV, execBlockP, Stmt.execP, Expr.evalP, Expr.evalArgsP, iterOf, truthP, arithP, arith, arithTime,
        PyLite.compare, cmpRat, Atom.asNum?, pure, Except.pure, bind, Except.bind,
        throw, throwThe, MonadExceptOf.throw, Pj.TaskSrc.Env.get?_set, Pj.TaskSrc.Env.get?_cons, Pj.TaskSrc.Env.get?_nil,
        Hp_prim, lit_empty, lit_external, lit_lbr, lit_rbr, lit_dash, lit_preds, lit_succs, lit_parent, lit_id,
        lit_estimate, lit_spent, prim_empty, prim_name, prim_id, prim_wbs, prim_parent, prim_children, prim_preds,
        prim_succs, prim_estimate, prim_spent, prim_dict, prim_str, prim_isdt, prim_strftime, $ls,*])

/-! ### `__get_linked_task_id` -/

theorem pf_linked : printFuns fn_get_linked_task_id = some (src_get_linked_task_id_params, src_get_linked_task_id) := rfl

theorem linked_id_spec (hS : S.OK) (F t : Nat) (l : Option Nat) (st : PState) :
    (Hp S pts th (F + 1)).fnV fn_get_linked_task_id [.atom (.ref t), .atom (optRefA l)] st =
      .ok (.atom (S.s (match l with | none => [] | some l => linkedId (tsOf S pts) t l)), st) := by
  rw [pfnV_succ _ _ _ _ _ _ _ pf_linked]
  cases l with
  | none => ppl [src_get_linked_task_id_params, src_get_linked_task_id, optRefA]
  | some l =>
    have ho : optRefA (some l) = Atom.ref l := rfl
    rw [ho]
    by_cases hr : (pts l).id.pyEq S.emptyId = true
    · ppl [src_get_linked_task_id_params, src_get_linked_task_id, hr, linkedId, toPTask]
    · have hr' : (pts l).id.pyEq S.emptyId = false := by simpa using hr
      by_cases hw : (pts l).wbs = (pts t).wbs
      · ppl [src_get_linked_task_id_params, src_get_linked_task_id, hr', linkedId, toPTask, pyEq_optRefA, hw,
          prim_concat' pts th hS, text_s hS]
      · ppl [src_get_linked_task_id_params, src_get_linked_task_id, hr', linkedId, toPTask, pyEq_optRefA, hw,
          prim_concat' pts th hS, text_s hS]

/-! ### `__get_linked_tasks_id` -/

theorem pf_linkeds : printFuns fn_get_linked_tasks_id = some (src_get_linked_tasks_id_params, src_get_linked_tasks_id) := rfl

def ltLoop : Stmt := match src_get_linked_tasks_id with | [_, l, _] => l | _ => .pass
def ltBody : List Stmt := match ltLoop with | .forIn _ _ b => b | _ => []
theorem lt_shape : src_get_linked_tasks_id = [.assign "res" .listNil, ltLoop, .ret (.prim "join:," (.var "res"))] := rfl
theorem ltLoop_eq : ltLoop = .forIn "t" (.var "linked_tasks") ltBody := rfl

/-- the cell of one linked task -/
def linkG (S : Lib) (pts : Nat → PyTask) (t : Nat) : Atom → List Atom
  | .ref l => [S.s (linkedId (tsOf S pts) t l)]
  | _ => []

theorem flatMap_linkG (t : Nat) (ls : List Nat) :
    (ls.map Atom.ref).flatMap (linkG S pts t) = (ls.map (linkedId (tsOf S pts) t)).map S.s := by
  induction ls with
  | nil => rfl
  | cons a l ih => simp [linkG, ih]

theorem linked_ids_spec (hS : S.OK) (F t : Nat) (ls : List Nat) (st : PState) :
    (Hp S pts th (F + 2)).fnV fn_get_linked_tasks_id [.atom (.ref t), refsA ls] st =
      .ok (.atom (S.s (joinComma (ls.map (linkedId (tsOf S pts) t)))), st) := by
  rw [pfnV_succ _ _ _ _ _ _ _ pf_linkeds]
  obtain ⟨ρ', hacc, hfor⟩ : ∃ ρ', ρ'.get? "res" = some (.list ([] ++ (ls.map Atom.ref).flatMap (linkG S pts t))) ∧
      ltLoop.execP (Hp S pts th (F + 1)) [] noRec
        (Env.set [("task", .atom (.ref t)), ("linked_tasks", refsA ls)] "res" (.list [])) st = .normal ρ' st := by
    rw [ltLoop_eq, execP_forIn (vs := ls.map Atom.ref) (st' := st) (hit := by ppl [refsA])]
    obtain ⟨ρ', -, hacc, hl⟩ := forLoopP_acc "t" "res" (fun ρ st => execBlockP (Hp S pts th (F + 1)) [] noRec ltBody ρ st)
      (fun ρ => ρ.get? "task" = some (.atom (.ref t))) (linkG S pts t) st (ls.map Atom.ref)
      (by
        intro ρ a v hv hP ha
        obtain ⟨c, hc, rfl⟩ := List.mem_map.1 hv
        have hcall := linked_id_spec pts th hS F t (some c) st
        have ho : optRefA (some c) = Atom.ref c := rfl
        rw [ho] at hcall
        refine ⟨Env.set (Env.set ρ "t" (.atom (.ref c))) "res" (.list (a ++ linkG S pts t (.ref c))), ?_, ?_, ?_⟩
        · simp [Pj.TaskSrc.Env.get?_set, hP]
        · simp [Pj.TaskSrc.Env.get?_set]
        · ppl [ltBody, ltLoop, src_get_linked_tasks_id, ha, hP, hcall, linkG])
      (Env.set [("task", .atom (.ref t)), ("linked_tasks", refsA ls)] "res" (.list [])) []
      (by simp [Pj.TaskSrc.Env.get?_set, Pj.TaskSrc.Env.get?_cons]) (by simp [Pj.TaskSrc.Env.get?_set])
    exact ⟨ρ', hacc, hl⟩
  rw [flatMap_linkG] at hacc
  have hj := prim_join' pts th hS (ls.map (linkedId (tsOf S pts) t)) st
  rw [List.map_map] at hj
  ppl [src_get_linked_tasks_id_params, lt_shape, hfor, hacc, hj]

/-! ### `__get_field_value`: the six computed fields -/

theorem pf_field : printFuns fn_get_field_value = some (src_get_field_value_params, src_get_field_value) := rfl

def stdFields : List Str := ["predecessors", "successors", "parent", "id", "estimate", "spent"].map String.toList

theorem optText_none {a : Atom} (h : a = .none) : optText S a = none := by simp [optText, h]
theorem optText_some {a : Atom} (h : a ≠ .none) : optText S a = some (S.text a) := by simp [optText, h]

theorem field_value_std (hS : S.OK) (F t : Nat) (field : Str) (hf : field ∈ stdFields) (st : PState) :
    (Hp S pts th (F + 3)).fnV fn_get_field_value [.atom (.ref t), .atom (S.s field)] st =
      .ok (.atom (S.s (fieldValue (tsOf S pts) t field)), st) := by
  rw [pfnV_succ _ _ _ _ _ _ _ pf_field]
  have h1 := linked_ids_spec pts th hS F t (pts t).preds st
  have h2 := linked_ids_spec pts th hS F t (pts t).succs st
  have h3 := linked_id_spec pts th hS (F + 1) t (pts t).parent st
  have e1 : ∀ a b : Str, (S.s a).pyEq (S.s b) = decide (a = b) := pyEq_s hS
  simp only [stdFields, List.map_cons, List.map_nil, List.mem_cons, List.not_mem_nil, or_false] at hf
  rcases hf with rfl | rfl | rfl | rfl | rfl | rfl
  · ppl [src_get_field_value_params, src_get_field_value, e1, h1, fieldValue, toPTask, prim_concat' pts th hS]
  · ppl [src_get_field_value_params, src_get_field_value, e1, h2, fieldValue, toPTask, prim_concat' pts th hS]
  · cases hp : (pts t).parent <;>
      (rw [hp] at h3; ppl [src_get_field_value_params, src_get_field_value, e1, h3, hp, fieldValue, toPTask])
  · ppl [src_get_field_value_params, src_get_field_value, e1, fieldValue, toPTask]
  · by_cases he : (pts t).estimate = .none
    · ppl [src_get_field_value_params, src_get_field_value, e1, fieldValue, toPTask, he, optText]
    · ppl [src_get_field_value_params, src_get_field_value, e1, fieldValue, toPTask, he, optText]
  · by_cases he : (pts t).spent = .none
    · ppl [src_get_field_value_params, src_get_field_value, e1, fieldValue, toPTask, he, optText]
    · ppl [src_get_field_value_params, src_get_field_value, e1, fieldValue, toPTask, he, optText]

/-! ### the entry points -/

/-- STAGE 1 (the six computed fields; the entries of `__dict__` - custom attributes, unknown and differently-cased names,
    None values, datetimes - are covered by the kernel-checked runs of PrintSrcCheck.lean only) -/
theorem interpFieldValue_eq (hS : S.OK) (F t : Nat) (field : Str) (hf : field ∈ stdFields) (hF : 3 ≤ F) :
    interpFieldValue S pts F t field = .ok (.atom (S.s (fieldValue (tsOf S pts) t field))) := by
  obtain ⟨F, rfl⟩ : ∃ F', F = F' + 3 := ⟨F - 3, by omega⟩
  have := field_value_std pts noTheme hS F t field hf st0
  simp only [interpFieldValue, interp, runProg]
  rw [this]; rfl

theorem interpLinkedId_eq (hS : S.OK) (F t : Nat) (l : Option Nat) (hF : 1 ≤ F) :
    interpLinkedId S pts F t l = .ok (.atom (S.s (match l with | none => [] | some l => linkedId (tsOf S pts) t l))) := by
  obtain ⟨F, rfl⟩ : ∃ F', F = F' + 1 := ⟨F - 1, by omega⟩
  have := linked_id_spec pts noTheme hS F t l st0
  simp only [interpLinkedId, interp, runProg]
  rw [this]; rfl

theorem interpLinkedIds_eq (hS : S.OK) (F t : Nat) (ls : List Nat) (hF : 2 ≤ F) :
    interpLinkedIds S pts F t ls = .ok (.atom (S.s (joinComma (ls.map (linkedId (tsOf S pts) t))))) := by
  obtain ⟨F, rfl⟩ : ∃ F', F = F' + 2 := ⟨F - 2, by omega⟩
  have := linked_ids_spec pts noTheme hS F t ls st0
  simp only [interpLinkedIds, interp, runProg]
  rw [this]; rfl

/-
  RESULTS (axioms: propext, Classical.choice, Quot.sound; no change to Model/PyLite.lean).
  General theorems (every string library `S` with `S.OK`, every task description `pts`, theme, state, fuel):
    linked_id_spec     (Hp S pts th (F+1)).fnV fn_get_linked_task_id [ref t, optRefA l] st
                         = ok (S.s (match l with none => "" | some l => linkedId (tsOf S pts) t l), st)
    linked_ids_spec    (Hp S pts th (F+2)).fnV fn_get_linked_tasks_id [ref t, refsA ls] st
                         = ok (S.s (joinComma (ls.map (linkedId (tsOf S pts) t))), st)
    field_value_std    field ∈ stdFields (predecessors, successors, parent, id, estimate, spent) →
                       (Hp S pts th (F+3)).fnV fn_get_field_value [ref t, S.s field] st = ok (S.s (fieldValue (tsOf S pts) t field), st)
    interpLinkedId_eq (1 ≤ F), interpLinkedIds_eq (2 ≤ F), interpFieldValue_eq (field ∈ stdFields, 3 ≤ F): the entry points.
  Kernel-checked runs only (PrintSrcCheck.lean, PrintSrcCheckB.lean; WBS `w1`: nested tasks, a hidden root, None names, links
  inside / outside the WBS and to a task without WBS, an id that is a str, custom attributes (str, number, None, datetime,
  upper-case key), unknown / differently-cased / empty field names, a `print_color` (str and None), three themes (too few
  level colours, no level colours, header colour missing / None)):
    stage 1  `__get_field_value` = `fieldValue` for the entries of `__dict__` too (7 tasks x 17 fields), `linkedId` (7 x 7)
    stage 2  `__calc_max_title_len` = `titleLen`, `__max_field_len` = `maxFieldLen` (specifications of Lemmas/PrintSrc.lean)
    stage 3  the log of `__print_task_subtree` = `logOfRows (subtreeRows …)` appended to the log so far; `repr`: the log =
             header row + rows of `sheet`, the value = `sheet` (primitive "text_repr" = `render ∘ rowsOfLog`),
             `rowsOfLog (logOfRows rows) = rows`.
  Not done: the general theorems for the `__dict__` part of `__get_field_value` (a first proof attempt ran into the
  heartbeat limit), for stages 2 and 3, and stage 4 (`TextTable` / `colored_text` are the primitive "text_repr").
  Disagreements between the model and the translated source inside the model's domain: none found.

  NEGATIVE CHECK (scratch copies of task.py, translated by tools/extract_print.py, the four families of checks of the Check
  files evaluated on the mutant program: fv = field values, tl = title length, mf = max field length, sub = rows of a subtree):
    the external marker dropped                     fv, mf, sub FAIL        the marker keyed on `id` instead of `wbs`   fv, mf, sub FAIL
    `field.lower()` dropped                         fv, sub FAIL            '' instead of '-' for a None value          fv FAIL
    indentation by 2 blanks (rows)                  sub FAIL                indentation by 2 blanks (title length)      tl FAIL
    `max_len = len(field)` (no `+ 1`)               mf FAIL                 level colour index off by one               sub FAIL
    children printed when `children=False`          sub FAIL                row order reversed (`reversed(children)`)   MISS
    de-duplication of linked ids (`set(…)`)         MISS
  (the first two and `lower` / '-' also break `linked_id_spec` / `field_value_std`, whose proofs are about the unmutated term.)
  Harmless rewrites that still pass all four families: the conditional expression of `estimate` written the other way round
  (`str(e) if e is not None else '-'`), `name_len = 0 if task.name is None else len(task.name)`, the local `res` renamed (the
  last one changes the term: `lt_shape` names the local and has to be re-stated).
-/

end Pj.PrintSrc
