/-
  Lemmas/TaskSrcA.lean — stage A of the translated tie for task.py: the helpers (general theorems).
  (header to be completed)
-/
import PjVerif.Lemmas.TaskSrc
import PjVerif.Lemmas.GraphTasks
namespace Pj.TaskSrc
open Pj.PyLite Pj.Extracted
set_option linter.unusedSimpArgs false
set_option linter.unusedVariables false

/-! ### the program and its handlers -/

/-- the handlers of the program task.py with `F` units of fuel -/
abbrev Hd (F : Nat) : PHandlers := progH taskPrim taskFuns F

/-- `recurse` is not used by the translation -/
abbrev noRec : List Atom → PState → Res (Val × PState) := fun _ _ => .error stuck

theorem callPV_eq (H : PHandlers) (params : List String) (body : List Stmt) (args : List Val) (st : PState) :
    callPV H params body args st =
      match bindParamsV params args with
      | .error e => .error e
      | .ok env =>
        match execBlockP H [] noRec body env st with
        | .normal _ st' => .ok (.atom .none, st')
        | .cont _ st' => .ok (.atom .none, st')
        | .ret v st' => .ok (v, st')
        | .raise e => .error e := rfl

theorem execBlockP_cons (H : PHandlers) (self : PyLite.Env) (rec : List Atom → PState → Res (Val × PState))
    (s : Stmt) (ss : List Stmt) (ρ : PyLite.Env) (st : PState) :
    execBlockP H self rec (s :: ss) ρ st =
      match s.execP H self rec ρ st with
      | .normal ρ' st' => execBlockP H self rec ss ρ' st'
      | r => r := by
  simp only [execBlockP]
  cases s.execP H self rec ρ st <;> rfl

theorem execBlockP_nil (H : PHandlers) (self : PyLite.Env) (rec : List Atom → PState → Res (Val × PState))
    (ρ : PyLite.Env) (st : PState) : execBlockP H self rec [] ρ st = .normal ρ st := by
  rw [execBlockP]

theorem execP_forIn (H : PHandlers) (self : PyLite.Env) (rec : List Atom → PState → Res (Val × PState)) (x : String)
    (it : Expr) (body : List Stmt) (ρ : PyLite.Env) (st st' : PState) (vs : List Atom)
    (hit : it.evalP H self ρ st = .ok (.list vs, st')) :
    (Stmt.forIn x it body).execP H self rec ρ st =
      forLoopP x (fun ρ st => execBlockP H self rec body ρ st) vs ρ st' := by
  simp only [Stmt.execP, hit, bind, Except.bind, pure, Except.pure, iterOf]

theorem interp_eq (F k : Nat) (args : List Val) (st : PState) : interp F k args st = (Hd F).fnV k args st := rfl

theorem fnV_succ (F k : Nat) (params : List String) (body : List Stmt) (h : taskFuns k = some (params, body))
    (args : List Val) (st : PState) :
    (Hd (F + 1)).fnV k args st = callPV (Hd F) params body args st := by
  simp only [Hd, progH, h]

theorem fnV_zero (k : Nat) (args : List Val) (st : PState) : (Hd 0).fnV k args st = .error (.crash .recursion) := rfl

theorem Hd_prim (F : Nat) : (Hd F).prim = taskPrim := by cases F <;> rfl

/-! ### environments and encoded tasks -/

theorem Env.get?_cons (p : String × Val) (ρ : PyLite.Env) (y : String) :
    Env.get? (p :: ρ) y = if p.1 = y then some p.2 else Env.get? ρ y := by
  by_cases h : p.1 = y <;> simp [Env.get?, h]

theorem Env.get?_nil (y : String) : Env.get? [] y = none := rfl

theorem Env.get?_set (ρ : PyLite.Env) (x y : String) (v : Val) :
    (Env.set ρ x v).get? y = if x = y then some v else ρ.get? y := by
  induction ρ with
  | nil => by_cases h : x = y <;> simp [Env.set, Env.get?, h]
  | cons p ρ ih =>
    unfold Env.set
    by_cases hp : p.1 = x
    · simp only [hp, beq_self_eq_true, if_true, Env.get?_cons]
      by_cases h : x = y <;> simp [h]
    · have hp' : (p.1 == x) = false := by simpa using hp
      simp only [hp', Bool.false_eq_true, if_false, Env.get?_cons, ih]
      by_cases h : x = y
      · subst h; simp [hp]
      · simp [h]

@[simp] theorem optRef_none : optRef none = .none := rfl
@[simp] theorem optRef_some (u : Uid) : optRef (some u) = .ref u := rfl

section attrs
variable (s : G) (u : Uid)
theorem encHeap_apply : encHeap s u = encTask s u := rfl
theorem encTask_id : (encTask s u).get? "id" = some (.atom (idA (s.tid u))) := rfl
theorem encTask_parent : (encTask s u).get? "parent" = some (.atom (optRef (s.parent u))) := by
  simp [encTask, Env.get?]
theorem encTask_children : (encTask s u).get? "children" = some (refs (s.children u)) := by simp [encTask, Env.get?]
theorem encTask_preds : (encTask s u).get? "predecessors" = some (refs (s.preds u)) := by simp [encTask, Env.get?]
theorem encTask_succs : (encTask s u).get? "successors" = some (refs (s.succs u)) := by simp [encTask, Env.get?]
theorem encTask_wbs : (encTask s u).get? "wbs" = some (.atom (optRef (s.owner u))) := by simp [encTask, Env.get?]
end attrs

/-- symbolic execution of a translated body on an encoded store -/
syntax "pyl" (" [" Lean.Parser.Tactic.simpLemma,* "]")? : tactic
macro_rules
  | `(tactic| pyl) => `(tactic| pyl [])
  | `(tactic| pyl [$ls,*]) => `(tactic|
      simp [callPV_eq, bindParamsV, execBlockP, Stmt.execP, Expr.evalP, Expr.evalArgsP, iterOf, truthP, arithP, arith, arithTime,
        PyLite.compare, cmpRat, Atom.asNum?, pure, Except.pure, bind, Except.bind,
        throw, throwThe, MonadExceptOf.throw, Env.get?_set, Env.get?_cons, Env.get?_nil, encHeap_apply,
        encTask_id, encTask_parent, encTask_children, encTask_preds, encTask_succs, encTask_wbs, $ls,*])

/-! ### `for` loops -/

/-- a `for` loop simulated by a fold that may raise: `R a ρ st` relates the model's accumulator `a` to the local
    environment and the state -/
theorem forLoopP_foldM {σ : Type} (x : String) (body : PyLite.Env → PState → OutcomeP)
    (R : σ → PyLite.Env → PState → Prop) (m : σ → Atom → Except Err σ) :
    ∀ (vs : List Atom),
      (∀ a v ρ st, v ∈ vs → R a ρ st →
        match m a v with
        | .ok a' => ∃ ρ' st', body (ρ.set x v) st = .normal ρ' st' ∧ R a' ρ' st'
        | .error e => body (ρ.set x v) st = .raise e) →
      ∀ a ρ st, R a ρ st →
        match vs.foldlM m a with
        | .ok a' => ∃ ρ' st', forLoopP x body vs ρ st = .normal ρ' st' ∧ R a' ρ' st'
        | .error e => forLoopP x body vs ρ st = .raise e := by
  intro vs
  induction vs with
  | nil => intro _ a ρ st hR; exact ⟨ρ, st, rfl, hR⟩
  | cons v vs ih =>
    intro hb a ρ st hR
    have h1 := hb a v ρ st List.mem_cons_self hR
    simp only [List.foldlM_cons, bind, Except.bind]
    cases hm : m a v with
    | error e =>
      rw [hm] at h1
      simp only [forLoopP, h1]
    | ok a' =>
      rw [hm] at h1
      obtain ⟨ρ', st', hbody, hR'⟩ := h1
      have h2 := ih (fun a v ρ st hv => hb a v ρ st (List.mem_cons_of_mem _ hv)) a' ρ' st' hR'
      simp only [forLoopP, hbody]
      exact h2

/-- a loop that only checks: it raises what the first failing item raises (`findSome?`) and otherwise leaves the
    state alone -/
theorem forLoopP_check (x : String) (body : PyLite.Env → PState → OutcomeP) (P : PyLite.Env → Prop)
    (chk : Atom → Option Err) (st : PState) :
    ∀ (vs : List Atom),
      (∀ ρ v, v ∈ vs → P ρ →
        match chk v with
        | none => ∃ ρ', P ρ' ∧ body (ρ.set x v) st = .normal ρ' st
        | some e => body (ρ.set x v) st = .raise e) →
      ∀ ρ, P ρ →
        match vs.findSome? chk with
        | none => ∃ ρ', P ρ' ∧ forLoopP x body vs ρ st = .normal ρ' st
        | some e => forLoopP x body vs ρ st = .raise e := by
  intro vs
  induction vs with
  | nil => intro _ ρ hP; exact ⟨ρ, hP, rfl⟩
  | cons v vs ih =>
    intro hb ρ hP
    have h1 := hb ρ v List.mem_cons_self hP
    simp only [List.findSome?_cons]
    cases hc : chk v with
    | some e =>
      rw [hc] at h1
      simp only [forLoopP, h1]
    | none =>
      rw [hc] at h1
      obtain ⟨ρ', hP', hbody⟩ := h1
      have h2 := ih (fun ρ v hv => hb ρ v (List.mem_cons_of_mem _ hv)) ρ' hP'
      simp only [forLoopP, hbody]
      exact h2

/-- a loop that returns `val` at the first item satisfying `p` and otherwise leaves the state alone -/
theorem forLoopP_findRet (x : String) (body : PyLite.Env → PState → OutcomeP) (P : PyLite.Env → Prop)
    (p : Atom → Bool) (val : Val) (st : PState) :
    ∀ (vs : List Atom),
      (∀ ρ v, v ∈ vs → P ρ →
        if p v then body (ρ.set x v) st = .ret val st
        else ∃ ρ', P ρ' ∧ body (ρ.set x v) st = .normal ρ' st) →
      ∀ ρ, P ρ →
        if vs.any p then forLoopP x body vs ρ st = .ret val st
        else ∃ ρ', P ρ' ∧ forLoopP x body vs ρ st = .normal ρ' st := by
  intro vs
  induction vs with
  | nil => intro _ ρ hP; exact ⟨ρ, hP, rfl⟩
  | cons v vs ih =>
    intro hb ρ hP
    have h1 := hb ρ v List.mem_cons_self hP
    simp only [List.any_cons]
    by_cases hc : p v = true
    · rw [if_pos hc] at h1
      simp only [forLoopP, h1, hc, Bool.true_or, if_true]
    · rw [if_neg hc] at h1
      obtain ⟨ρ', hP', hbody⟩ := h1
      have h2 := ih (fun ρ v hv => hb ρ v (List.mem_cons_of_mem _ hv)) ρ' hP'
      have hc' : p v = false := by simpa using hc
      simp only [forLoopP, hbody, hc', Bool.false_or]
      exact h2

/-- a loop that appends `g v` to the list held by the local `acc` and leaves the state alone -/
theorem forLoopP_acc (x acc : String) (body : PyLite.Env → PState → OutcomeP) (P : PyLite.Env → Prop)
    (g : Atom → List Atom) (st : PState) :
    ∀ (vs : List Atom),
      (∀ ρ a v, v ∈ vs → P ρ → ρ.get? acc = some (.list a) →
        ∃ ρ', P ρ' ∧ ρ'.get? acc = some (.list (a ++ g v)) ∧ body (ρ.set x v) st = .normal ρ' st) →
      ∀ ρ a, P ρ → ρ.get? acc = some (.list a) →
        ∃ ρ', P ρ' ∧ ρ'.get? acc = some (.list (a ++ vs.flatMap g)) ∧ forLoopP x body vs ρ st = .normal ρ' st := by
  intro vs
  induction vs with
  | nil => intro _ ρ a hP ha; exact ⟨ρ, hP, by simpa using ha, rfl⟩
  | cons v vs ih =>
    intro hb ρ a hP ha
    obtain ⟨ρ', hP', ha', hbody⟩ := hb ρ a v List.mem_cons_self hP ha
    obtain ⟨ρ2, hP2, ha2, hl⟩ := ih (fun ρ a v hv => hb ρ a v (List.mem_cons_of_mem _ hv)) ρ' _ hP' ha'
    refine ⟨ρ2, hP2, ?_, ?_⟩
    · rw [ha2]; simp [List.append_assoc]
    · simp only [forLoopP, hbody]; exact hl

theorem flatMap_refs (l : List Uid) (g : Uid → List Uid) :
    (l.map Atom.ref).flatMap (fun v => match v with | .ref c => (g c).map Atom.ref | _ => []) =
      (l.flatMap g).map Atom.ref := by
  induction l with
  | nil => rfl
  | cons x l ih => simp [ih]

/-! ### comprehensions -/

theorem compLoopP_pure (f : Atom → PState → Res (Option Atom × PState)) (g : Atom → Option Atom) (st : PState)
    (vs : List Atom) (h : ∀ v ∈ vs, f v st = .ok (g v, st)) : compLoopP f vs st = .ok (vs.filterMap g, st) := by
  induction vs with
  | nil => rfl
  | cons v vs ih =>
    have h1 := h v (List.mem_cons_self)
    have h2 := ih (fun w hw => h w (List.mem_cons_of_mem _ hw))
    simp only [compLoopP, h1, h2, bind, Except.bind, pure, Except.pure, List.filterMap_cons]
    cases g v <;> rfl

/-- `[elt for x in it if cond]` whose condition and element only read: the condition is the bool `p v`, the element
    the scalar `e v` -/
theorem evalP_listComp_pure (H : PHandlers) (self ρ : PyLite.Env) (st0 st : PState) (elt cond it : Expr) (x : String)
    (vs : List Atom) (p : Atom → Bool) (e : Atom → Atom)
    (hit : it.evalP H self ρ st0 = .ok (.list vs, st))
    (hc : ∀ v ∈ vs, cond.evalP H self (ρ.set x v) st = .ok (.atom (.bool (p v)), st))
    (he : ∀ v ∈ vs, p v = true → elt.evalP H self (ρ.set x v) st = .ok (.atom (e v), st)) :
    (Expr.listComp elt x it cond).evalP H self ρ st0 = .ok (.list ((vs.filter p).map e), st) := by
  simp only [Expr.evalP, hit, bind, Except.bind, pure, Except.pure, iterOf]
  rw [compLoopP_pure (g := fun v => if p v then some (e v) else none)]
  · have key : vs.filterMap (fun v => if p v then some (e v) else none) = (vs.filter p).map e := by
      clear hc he hit
      induction vs with
      | nil => rfl
      | cons v vs ih => cases hp : p v <;> simp [hp, ih]
    simp [key]
  · intro v hv
    cases hp : p v with
    | false => simp [hc v hv, hp, truthP, pure, Except.pure]
    | true => simp [hc v hv, he v hv hp, hp, truthP, pure, Except.pure]

/-- `[x for x in it]` -/
theorem evalP_listComp_id (H : PHandlers) (self ρ : PyLite.Env) (st0 st : PState) (it : Expr) (x : String)
    (vs : List Atom) (hit : it.evalP H self ρ st0 = .ok (.list vs, st)) :
    (Expr.listComp (.var x) x it (.bool true)).evalP H self ρ st0 = .ok (.list vs, st) := by
  rw [evalP_listComp_pure H self ρ st0 st (.var x) (.bool true) it x vs (fun _ => true) (fun v => v) hit]
  · simp
  · intro v _; simp [Expr.evalP, pure, Except.pure]
  · intro v _ _; simp [Expr.evalP, Env.get?_set, pure, Except.pure]

/-! ### single steps -/

theorem execP_assign (H : PHandlers) (self : PyLite.Env) (rec : List Atom → PState → Res (Val × PState)) (x : String)
    (e : Expr) (ρ : PyLite.Env) (st st' : PState) (v : Val) (he : e.evalP H self ρ st = .ok (v, st')) :
    (Stmt.assign x e).execP H self rec ρ st = .normal (ρ.set x v) st' := by
  simp only [Stmt.execP, he]

theorem execP_ifElse (H : PHandlers) (self : PyLite.Env) (rec : List Atom → PState → Res (Val × PState))
    (c : Expr) (t e : List Stmt) (ρ : PyLite.Env) (st st' : PState) (v : Val) (b : Bool)
    (hc : c.evalP H self ρ st = .ok (v, st')) (hb : truthP v = .ok b) :
    (Stmt.ifElse c t e).execP H self rec ρ st =
      if b then execBlockP H self rec t ρ st' else execBlockP H self rec e ρ st' := by
  simp only [Stmt.execP, hc, hb, bind, Except.bind, pure, Except.pure]

theorem execP_ret (H : PHandlers) (self : PyLite.Env) (rec : List Atom → PState → Res (Val × PState))
    (e : Expr) (ρ : PyLite.Env) (st st' : PState) (v : Val) (he : e.evalP H self ρ st = .ok (v, st')) :
    (Stmt.ret e).execP H self rec ρ st = .ret v st' := by
  simp only [Stmt.execP, he]

theorem execP_expr (H : PHandlers) (self : PyLite.Env) (rec : List Atom → PState → Res (Val × PState))
    (e : Expr) (ρ : PyLite.Env) (st st' : PState) (v : Val) (he : e.evalP H self ρ st = .ok (v, st')) :
    (Stmt.expr e).execP H self rec ρ st = .normal ρ st' := by
  simp only [Stmt.execP, he]

theorem execP_expr_err (H : PHandlers) (self : PyLite.Env) (rec : List Atom → PState → Res (Val × PState))
    (e : Expr) (ρ : PyLite.Env) (st : PState) (err : Err) (he : e.evalP H self ρ st = .error err) :
    (Stmt.expr e).execP H self rec ρ st = .raise err := by
  simp only [Stmt.execP, he]

theorem execP_raise (H : PHandlers) (self : PyLite.Env) (rec : List Atom → PState → Res (Val × PState))
    (ρ : PyLite.Env) (st : PState) : Stmt.raiseRuntime.execP H self rec ρ st = .raise .runtime := by
  simp only [Stmt.execP]

/-- `f(a)` -/
theorem evalP_callFn1 (H : PHandlers) (self ρ : PyLite.Env) (st st' : PState) (k : Nat) (a : Expr) (v : Val)
    (ha : a.evalP H self ρ st = .ok (v, st')) :
    (Expr.callFn k (.listCons a .listNil)).evalP H self ρ st = H.fnV k [v] st' := by
  simp only [Expr.evalP, Expr.evalArgsP, ha, bind, Except.bind, pure, Except.pure]

/-- `f(a, b)` -/
theorem evalP_callFn2 (H : PHandlers) (self ρ : PyLite.Env) (st st' st'' : PState) (k : Nat) (a b : Expr) (v w : Val)
    (ha : a.evalP H self ρ st = .ok (v, st')) (hb : b.evalP H self ρ st' = .ok (w, st'')) :
    (Expr.callFn k (.listCons a (.listCons b .listNil))).evalP H self ρ st = H.fnV k [v, w] st'' := by
  simp only [Expr.evalP, Expr.evalArgsP, ha, hb, bind, Except.bind, pure, Except.pure]

theorem evalP_len (H : PHandlers) (self ρ : PyLite.Env) (st st' : PState) (l : Expr) (vs : List Atom)
    (h : l.evalP H self ρ st = .ok (.list vs, st')) :
    (Expr.len l).evalP H self ρ st = .ok (.atom (.num ((vs.length : Nat) : Rat)), st') := by
  simp only [Expr.evalP, h, bind, Except.bind, pure, Except.pure]

theorem evalP_cmp (H : PHandlers) (self ρ : PyLite.Env) (st st' st'' : PState) (op : CmpOp) (a b : Expr) (x y r : Val)
    (ha : a.evalP H self ρ st = .ok (x, st')) (hb : b.evalP H self ρ st' = .ok (y, st''))
    (hr : PyLite.compare op x y = .ok r) :
    (Expr.cmp op a b).evalP H self ρ st = .ok (r, st'') := by
  simp only [Expr.evalP, ha, hb, hr, bind, Except.bind, pure, Except.pure]

theorem evalP_setInter (H : PHandlers) (self ρ : PyLite.Env) (st st' st'' : PState) (a b : Expr) (xs ys : List Atom)
    (ha : a.evalP H self ρ st = .ok (.list xs, st')) (hb : b.evalP H self ρ st' = .ok (.list ys, st'')) :
    (Expr.setInter a b).evalP H self ρ st =
      .ok (.list (xs.filter (fun x => ys.any (fun y => y.pyEq x))), st'') := by
  simp only [Expr.evalP, ha, hb, bind, Except.bind, pure, Except.pure]

theorem pyEq_num (a b : Rat) : (Atom.num a).pyEq (Atom.num b) = decide (a = b) := by
  simp [Atom.pyEq, Atom.norm]

theorem tf_find_root : taskFuns fn_find_root = some (src_find_root_params, src_find_root) := rfl
theorem tf_raw_parent : taskFuns fn_Task_raw_parent = some (src_Task_raw_parent_params, src_Task_raw_parent) := rfl

/-! ### `_raw_parent`, `_find_root` -/

theorem raw_parent_spec (s : G) (st : PState) (hh : st.heap = encHeap s) (F : Nat) (t : Uid) :
    (Hd (F + 1)).fnV fn_Task_raw_parent [.atom (.ref t)] st = .ok (.atom (optRef (s.parent t)), st) := by
  rw [fnV_succ _ _ _ _ tf_raw_parent]
  pyl [src_Task_raw_parent_params, src_Task_raw_parent, hh]

theorem find_root_spec (s : G) (st : PState) (hh : st.heap = encHeap s) :
    ∀ (f : Nat) (t r : Uid), rootF s f t = some r → ∀ F, f + 1 ≤ F →
      (Hd F).fnV fn_find_root [.atom (.ref t)] st = .ok (.atom (.ref r), st) := by
  intro f
  induction f with
  | zero => intro t r h; simp [rootF] at h
  | succ f ih =>
    intro t r h F hF
    obtain ⟨F, rfl⟩ : ∃ F', F = F' + 2 := ⟨F - 2, by omega⟩
    rw [fnV_succ _ _ _ _ tf_find_root]
    have hrp := raw_parent_spec s st hh F t
    cases hp : s.parent t with
    | none =>
      simp only [rootF, hp] at h
      cases h
      pyl [src_find_root_params, src_find_root, hrp, hp, optRef_none, optRef_some]
    | some p =>
      simp only [rootF, hp] at h
      have := ih p r h (F + 1) (by omega)
      pyl [src_find_root_params, src_find_root, hrp, hp, optRef_none, optRef_some, this]

/-! ### `_collect_subtree`, the generators `get_children` / `get_predecessor` / `get_successor` -/

theorem tf_collect_subtree : taskFuns fn_collect_subtree = some (src_collect_subtree_params, src_collect_subtree) := rfl

def csLoop : Stmt := match src_collect_subtree with | [_, l, _] => l | _ => .pass
def csBody : List Stmt := match csLoop with | .forIn _ _ b => b | _ => []

theorem cs_shape : src_collect_subtree = [.assign "res" (.listCons (.var "task") .listNil), csLoop, .ret (.var "res")] := rfl
theorem csLoop_eq : csLoop = .forIn "ch" (.attr (.var "task") "children") csBody := rfl

/-- the items `_collect_subtree` adds for the child `v` -/
def subG (next : Uid → List Uid) (f : Nat) : Atom → List Atom
  | .ref c => (c :: dsc next f c).map Atom.ref
  | _ => []

theorem flatMap_subG (next : Uid → List Uid) (f : Nat) (l : List Uid) :
    (l.map Atom.ref).flatMap (subG next f) = ((l.map (fun c => c :: dsc next f c)).flatten).map Atom.ref := by
  induction l with
  | nil => rfl
  | cons x l ih => simp [ih, subG]

theorem collect_subtree_spec (s : G) (st : PState) (hh : st.heap = encHeap s) :
    ∀ (f : Nat) (t : Uid) (r : List Uid), descF s.children f t = some r → ∀ F, f ≤ F →
      (Hd F).fnV fn_collect_subtree [.atom (.ref t)] st = .ok (refs (t :: r), st) := by
  intro f
  induction f with
  | zero => intro t r h; simp [descF] at h
  | succ f ih =>
    intro t r h F hF
    obtain ⟨F, rfl⟩ : ∃ F', F = F' + 1 := ⟨F - 1, by omega⟩
    obtain ⟨hch, rfl⟩ := descF_succ_eq s.children f t r h
    rw [fnV_succ _ _ _ _ tf_collect_subtree]
    -- the loop
    obtain ⟨ρ', hacc, hfor⟩ : ∃ ρ', ρ'.get? "res" = some (.list ([.ref t] ++ ((s.children t).map Atom.ref).flatMap
          (subG s.children f))) ∧
        csLoop.execP (Hd F) [] noRec (Env.set [("task", .atom (.ref t))] "res" (.list [.ref t])) st = .normal ρ' st := by
      rw [csLoop_eq, execP_forIn (vs := (s.children t).map Atom.ref) (st' := st) (hit := by pyl [hh, refs])]
      obtain ⟨ρ', -, hacc, hl⟩ := forLoopP_acc "ch" "res" (fun ρ st => execBlockP (Hd F) [] noRec csBody ρ st)
        (fun _ => True) (subG s.children f) st ((s.children t).map Atom.ref)
        (by
          intro ρ a v hv _ ha
          obtain ⟨c, hc, rfl⟩ := List.mem_map.1 hv
          have hcall := ih c _ (hch c hc) F (by omega)
          refine ⟨Env.set (Env.set ρ "ch" (.atom (.ref c))) "res" (.list (a ++ subG s.children f (.ref c))),
            trivial, ?_, ?_⟩
          · simp [Env.get?_set]
          · pyl [csBody, csLoop, src_collect_subtree, ha, hcall, refs, subG])
        (Env.set [("task", .atom (.ref t))] "res" (.list [.ref t])) [.ref t] trivial (by simp [Env.get?_set])
      exact ⟨ρ', hacc, hl⟩
    pyl [src_collect_subtree_params, cs_shape, hfor, hacc, refs, flatMap_subG]

/-- the translated form of the three generators `get_children` / `get_predecessor` / `get_successor`: the list of
    everything reachable through the attribute `fld`, depth first (function number `k`, loop variable `x`) -/
def genLoopBody (k : Nat) (x : String) : List Stmt :=
  [.aug "_yielded" .add (.listCons (.var x) .listNil),
   .aug "_yielded" .add (.callFn k (.listCons (.var x) .listNil))]
def genLoop (k : Nat) (fld x : String) : Stmt := .forIn x (.attr (.var "t") fld) (genLoopBody k x)
def genBody (k : Nat) (fld x : String) : List Stmt :=
  [.assign "_yielded" .listNil, genLoop k fld x, .ret (.var "_yielded")]

theorem src_get_children_shape : src_Task_get_all_children_get_children =
    genBody fn_Task_get_all_children_get_children "children" "ch" := rfl
theorem src_get_predecessor_shape : src_Task_get_all_predecessors_get_predecessor =
    genBody fn_Task_get_all_predecessors_get_predecessor "predecessors" "pr" := rfl
theorem src_get_successor_shape : src_Task_get_all_successors_get_successor =
    genBody fn_Task_get_all_successors_get_successor "successors" "pr" := rfl

theorem generator_spec (s : G) (st : PState) (hh : st.heap = encHeap s) (k : Nat) (fld x : String)
    (next : Uid → List Uid) (htf : taskFuns k = some (["t"], genBody k fld x))
    (hfld : ∀ u, (encTask s u).get? fld = some (refs (next u))) (hx1 : x ≠ "_yielded") (hx2 : x ≠ "t") :
    ∀ (f : Nat) (t : Uid) (r : List Uid), descF next f t = some r → ∀ F, f ≤ F →
      (Hd F).fnV k [.atom (.ref t)] st = .ok (refs r, st) := by
  intro f
  induction f with
  | zero => intro t r h; simp [descF] at h
  | succ f ih =>
    intro t r h F hF
    obtain ⟨F, rfl⟩ : ∃ F', F = F' + 1 := ⟨F - 1, by omega⟩
    obtain ⟨hch, rfl⟩ := descF_succ_eq next f t r h
    rw [fnV_succ _ _ _ _ htf]
    have hx1' : ¬ "_yielded" = x := fun e => hx1 e.symm
    have hx2' : ¬ "t" = x := fun e => hx2 e.symm
    obtain ⟨ρ', hacc, hfor⟩ : ∃ ρ', ρ'.get? "_yielded" = some (.list ([] ++ ((next t).map Atom.ref).flatMap
          (subG next f))) ∧
        (genLoop k fld x).execP (Hd F) [] noRec
            (Env.set [("t", .atom (.ref t))] "_yielded" (.list [])) st = .normal ρ' st := by
      rw [genLoop]
      rw [execP_forIn (vs := (next t).map Atom.ref) (st' := st) (hit := by pyl [hh, hfld, refs])]
      obtain ⟨ρ', -, hacc, hl⟩ := forLoopP_acc x "_yielded" (fun ρ st => execBlockP (Hd F) [] noRec
          (genLoopBody k x) ρ st)
        (fun _ => True) (subG next f) st ((next t).map Atom.ref)
        (by
          intro ρ a v hv _ ha
          obtain ⟨c, hc, rfl⟩ := List.mem_map.1 hv
          have hcall := ih c _ (hch c hc) F (by omega)
          refine ⟨Env.set (Env.set (Env.set ρ x (.atom (.ref c))) "_yielded" (.list (a ++ [.ref c])))
            "_yielded" (.list (a ++ subG next f (.ref c))), trivial, ?_, ?_⟩
          · simp [Env.get?_set]
          · pyl [genLoopBody, ha, hcall, refs, subG, hx1, hx1', hx2, hx2', List.append_assoc])
        (Env.set [("t", .atom (.ref t))] "_yielded" (.list [])) [] trivial (by simp [Env.get?_set])
      exact ⟨ρ', hacc, hl⟩
    simp only [genBody]
    pyl [hfor, hacc, refs, flatMap_subG]

theorem tf_get_children : taskFuns fn_Task_get_all_children_get_children =
    some (["t"], genBody fn_Task_get_all_children_get_children "children" "ch") := rfl
theorem tf_get_predecessor : taskFuns fn_Task_get_all_predecessors_get_predecessor =
    some (["t"], genBody fn_Task_get_all_predecessors_get_predecessor "predecessors" "pr") := rfl
theorem tf_get_successor : taskFuns fn_Task_get_all_successors_get_successor =
    some (["t"], genBody fn_Task_get_all_successors_get_successor "successors" "pr") := rfl

/-- the generator `get_children` of `__get_all_children` = `descF s.children` -/
theorem get_children_spec (s : G) (st : PState) (hh : st.heap = encHeap s) (f : Nat) (t : Uid) (r : List Uid)
    (h : descF s.children f t = some r) (F : Nat) (hF : f ≤ F) :
    (Hd F).fnV fn_Task_get_all_children_get_children [.atom (.ref t)] st = .ok (refs r, st) :=
  generator_spec s st hh _ _ _ s.children tf_get_children (encTask_children s) (by decide) (by decide) f t r h F hF

theorem get_predecessor_spec (s : G) (st : PState) (hh : st.heap = encHeap s) (f : Nat) (t : Uid) (r : List Uid)
    (h : descF s.preds f t = some r) (F : Nat) (hF : f ≤ F) :
    (Hd F).fnV fn_Task_get_all_predecessors_get_predecessor [.atom (.ref t)] st = .ok (refs r, st) :=
  generator_spec s st hh _ _ _ s.preds tf_get_predecessor (encTask_preds s) (by decide) (by decide) f t r h F hF

theorem get_successor_spec (s : G) (st : PState) (hh : st.heap = encHeap s) (f : Nat) (t : Uid) (r : List Uid)
    (h : descF s.succs f t = some r) (F : Nat) (hF : f ≤ F) :
    (Hd F).fnV fn_Task_get_all_successors_get_successor [.atom (.ref t)] st = .ok (refs r, st) :=
  generator_spec s st hh _ _ _ s.succs tf_get_successor (encTask_succs s) (by decide) (by decide) f t r h F hF

theorem tf_get_all_children : taskFuns fn_Task_get_all_children =
    some (src_Task_get_all_children_params, src_Task_get_all_children) := rfl

/-- `__get_all_children` (the property `all_children`) = `descF s.children` -/
theorem get_all_children_spec (s : G) (st : PState) (hh : st.heap = encHeap s) (f : Nat) (t : Uid) (r : List Uid)
    (h : descF s.children f t = some r) (F : Nat) (hF : f + 1 ≤ F) :
    (Hd F).fnV fn_Task_get_all_children [.atom (.ref t)] st = .ok (refs r, st) := by
  obtain ⟨F, rfl⟩ : ∃ F', F = F' + 1 := ⟨F - 1, by omega⟩
  rw [fnV_succ _ _ _ _ tf_get_all_children, callPV_eq]
  have hg := get_children_spec s st hh f t r h F (by omega)
  simp only [src_Task_get_all_children_params, src_Task_get_all_children, bindParamsV, pure, Except.pure, bind,
    Except.bind, execBlockP, Stmt.execP]
  rw [evalP_listComp_id (vs := r.map Atom.ref) (st := st) (hit := by pyl [hg, refs])]
  pyl [refs]

/-! ### the `parent` getter, `__get_all_parents` -/

theorem idA_emptyId : idA emptyId = .num 9223372036854775807 := by
  unfold idA emptyId
  congr 1

theorem pyEq_idA (i j : Int) : (idA i).pyEq (idA j) = decide (i = j) := by
  unfold idA Atom.pyEq Atom.norm
  simp [Rat.intCast_inj]

theorem pyEq_idA_empty (i : Int) : (idA i).pyEq (.num 9223372036854775807) = (i == emptyId) := by
  rw [← idA_emptyId, pyEq_idA]
  rfl

theorem tf_parent_get : taskFuns fn_Task_parent_get = some (src_Task_parent_get_params, src_Task_parent_get) := rfl

/-- the public `parent` property = `pubParent` -/
theorem parent_get_spec (s : G) (st : PState) (hh : st.heap = encHeap s) (F : Nat) (t : Uid) :
    (Hd (F + 1)).fnV fn_Task_parent_get [.atom (.ref t)] st = .ok (.atom (optRef (s.pubParent t)), st) := by
  rw [fnV_succ _ _ _ _ tf_parent_get]
  unfold G.pubParent G.hidden
  cases hp : s.parent t with
  | none => pyl [src_Task_parent_get_params, src_Task_parent_get, hh, hp, optRef_none, optRef_some]
  | some p =>
    cases hid : (s.tid p == emptyId) <;>
      pyl [src_Task_parent_get_params, src_Task_parent_get, hh, hp, optRef_none, optRef_some, pyEq_idA_empty, hid]

theorem tf_get_parent : taskFuns fn_Task_get_all_parents_get_parent =
    some (src_Task_get_all_parents_get_parent_params, src_Task_get_all_parents_get_parent) := rfl

/-- the generator `get_parent` of `__get_all_parents` = `ancF` -/
theorem get_parent_spec (s : G) (st : PState) (hh : st.heap = encHeap s) :
    ∀ (f : Nat) (o : Option Uid) (r : List Uid), ancF s f o = some r → ∀ F, f + 1 ≤ F →
      (Hd F).fnV fn_Task_get_all_parents_get_parent [.atom (optRef o)] st = .ok (refs r, st) := by
  intro f
  induction f with
  | zero => intro o r h; simp [ancF] at h
  | succ f ih =>
    intro o r h F hF
    obtain ⟨F, rfl⟩ : ∃ F', F = F' + 2 := ⟨F - 2, by omega⟩
    rw [fnV_succ _ _ _ _ tf_get_parent]
    cases o with
    | none =>
      simp only [ancF, Option.some.injEq] at h
      subst h
      pyl [src_Task_get_all_parents_get_parent_params, src_Task_get_all_parents_get_parent, optRef_none, optRef_some, refs]
    | some p =>
      simp only [ancF, G.hidden] at h
      cases hid : (s.tid p == emptyId) with
      | true =>
        simp only [hid, if_true, Option.some.injEq] at h
        subst h
        pyl [src_Task_get_all_parents_get_parent_params, src_Task_get_all_parents_get_parent, optRef_none, optRef_some, refs, hh,
          pyEq_idA_empty, hid]
      | false =>
        simp only [hid, Bool.false_eq_true, if_false, Option.map_eq_some_iff] at h
        obtain ⟨r', hr', rfl⟩ := h
        have hpg := parent_get_spec s st hh F p
        have hrec := ih _ _ hr' (F + 1) (by omega)
        pyl [src_Task_get_all_parents_get_parent_params, src_Task_get_all_parents_get_parent, optRef_none, optRef_some, refs, hh,
          pyEq_idA_empty, hid, hpg, hrec]

theorem tf_get_all_parents : taskFuns fn_Task_get_all_parents =
    some (src_Task_get_all_parents_params, src_Task_get_all_parents) := rfl

/-- `__get_all_parents` (the property `all_parents`) = `ancF` from the raw parent -/
theorem get_all_parents_spec (s : G) (st : PState) (hh : st.heap = encHeap s) (f : Nat) (t : Uid) (r : List Uid)
    (h : ancF s f (s.parent t) = some r) (F : Nat) (hF : f + 2 ≤ F) :
    (Hd F).fnV fn_Task_get_all_parents [.atom (.ref t)] st = .ok (refs r, st) := by
  obtain ⟨F, rfl⟩ : ∃ F', F = F' + 1 := ⟨F - 1, by omega⟩
  rw [fnV_succ _ _ _ _ tf_get_all_parents, callPV_eq]
  have hg := get_parent_spec s st hh f _ r h F (by omega)
  simp only [src_Task_get_all_parents_params, src_Task_get_all_parents, bindParamsV, pure, Except.pure, bind,
    Except.bind, execBlockP, Stmt.execP]
  rw [evalP_listComp_id (vs := r.map Atom.ref) (st := st) (hit := by pyl [hg, hh, refs])]
  pyl [refs]

/-! ### `_unique_objects`, `__get_all_predecessors`, `__get_all_successors` -/

/-- `id(task)` of the task object `ref u` -/
def oidA (u : Uid) : Atom := .num ((u : Nat) : Rat)

theorem oidA_pyEq (a b : Uid) : (oidA a).pyEq (oidA b) = decide (a = b) := by
  unfold oidA Atom.pyEq Atom.norm
  simp [Rat.natCast_inj]

theorem any_oidA (l : List Uid) (p : Uid) : (l.map oidA).any (fun v => v.pyEq (oidA p)) = l.contains p := by
  induction l with
  | nil => rfl
  | cons a l ih =>
    simp only [List.map_cons, List.any_cons, ih, oidA_pyEq, List.contains_cons]
    congr 1
    by_cases h : a = p
    · subst h; simp
    · have h' : ¬ p = a := fun e => h e.symm
      simp [h, h']

theorem foldlM_ok {σ α : Type} (m : σ → α → σ) (l : List α) (a : σ) :
    l.foldlM (fun a v => (Except.ok (m a v) : Except Err σ)) a = .ok (l.foldl m a) := by
  induction l generalizing a with
  | nil => rfl
  | cons x l ih => simp only [List.foldlM_cons, bind, Except.bind, ih, List.foldl_cons]

/-- `eraseDups` as the fold `_unique_objects` performs: `bs` = the objects seen so far, last first -/
def uniqStep (bs : List Uid) (a : Uid) : List Uid := if bs.contains a then bs else a :: bs

theorem eraseDups_loop_eq (as bs : List Uid) :
    List.eraseDupsBy.loop (· == ·) as bs = (as.foldl uniqStep bs).reverse := by
  induction as generalizing bs with
  | nil => simp [List.eraseDupsBy.loop]
  | cons a as ih =>
    unfold List.eraseDupsBy.loop
    have hc : bs.any (fun x => a == x) = bs.contains a := List.contains_eq_any_beq.symm
    cases h : bs.contains a with
    | true => simp only [hc, h, List.foldl_cons, uniqStep, if_true]; exact ih bs
    | false => simp only [hc, h, List.foldl_cons, uniqStep, Bool.false_eq_true, if_false]; exact ih (a :: bs)

def uniqStepA (bs : List Uid) : Atom → List Uid
  | .ref a => uniqStep bs a
  | _ => bs

theorem foldl_uniqStepA (l : List Uid) (bs : List Uid) :
    (l.map Atom.ref).foldl uniqStepA bs = l.foldl uniqStep bs := by
  induction l generalizing bs with
  | nil => rfl
  | cons a l ih => simp [uniqStepA, ih]

theorem eraseDups_eq_fold (l : List Uid) : l.eraseDups = (l.foldl uniqStep []).reverse := by
  unfold List.eraseDups List.eraseDupsBy
  exact eraseDups_loop_eq l []

theorem tf_unique_objects : taskFuns fn_unique_objects = some (src_unique_objects_params, src_unique_objects) := rfl

def uoLoop : Stmt := match src_unique_objects with | [_, _, l, _] => l | _ => .pass
def uoBody : List Stmt := match uoLoop with | .forIn _ _ b => b | _ => []
theorem uo_shape : src_unique_objects = [.assign "seen" .listNil, .assign "res" .listNil, uoLoop, .ret (.var "res")] := rfl
theorem uoLoop_eq : uoLoop = .forIn "t" (.var "tasks") uoBody := rfl

/-- `_unique_objects(tasks)` = `eraseDups` (on object identities) -/
theorem unique_objects_spec (st : PState) (F : Nat) (l : List Uid) :
    (Hd (F + 1)).fnV fn_unique_objects [refs l] st = .ok (refs l.eraseDups, st) := by
  rw [fnV_succ _ _ _ _ tf_unique_objects]
  obtain ⟨ρ', hacc, hfor⟩ : ∃ ρ', ρ'.get? "res" = some (refs (l.foldl uniqStep []).reverse) ∧
      uoLoop.execP (Hd F) [] noRec (Env.set (Env.set [("tasks", refs l)] "seen" (.list [])) "res" (.list [])) st =
        .normal ρ' st := by
    rw [uoLoop_eq, execP_forIn (vs := l.map Atom.ref) (st' := st) (hit := by pyl [refs])]
    have := forLoopP_foldM "t" (fun ρ st => execBlockP (Hd F) [] noRec uoBody ρ st)
      (fun (bs : List Uid) ρ st' => st' = st ∧ ρ.get? "seen" = some (.list (bs.reverse.map oidA)) ∧
        ρ.get? "res" = some (refs bs.reverse))
      (fun bs v => .ok (uniqStepA bs v)) (l.map Atom.ref)
      (by
        intro bs v ρ st' hv hR
        obtain ⟨rfl, hseen, hres⟩ := hR
        obtain ⟨c, hc, rfl⟩ := List.mem_map.1 hv
        have hany : ((bs.reverse.map oidA).any fun v => v.pyEq (Atom.num ((c : Nat) : Rat))) = bs.contains c := by
          rw [← List.contains_reverse]; exact any_oidA bs.reverse c
        simp only [refs] at hres
        generalize hS : bs.reverse.map oidA = S at hseen hany
        generalize hRs : bs.reverse.map Atom.ref = Rs at hres
        cases hcon : bs.contains c with
        | true =>
          rw [hcon] at hany
          refine ⟨Env.set ρ "t" (.atom (.ref c)), st', ?_, rfl, ?_, ?_⟩
          · pyl [uoBody, uoLoop, src_unique_objects, hseen, hres, hany]
          · simp only [uniqStepA, uniqStep, hcon, if_true, Env.get?_set, hS]
            simpa using hseen
          · simp only [uniqStepA, uniqStep, hcon, if_true, Env.get?_set, refs, hRs]
            simpa using hres
        | false =>
          rw [hcon] at hany
          have hcon' : c ∉ bs := by simpa using hcon
          refine ⟨Env.set (Env.set (Env.set ρ "t" (.atom (.ref c))) "seen" (.list (S ++ [Atom.num ((c : Nat) : Rat)])))
            "res" (.list (Rs ++ [.ref c])), st', ?_, rfl, ?_, ?_⟩
          · pyl [uoBody, uoLoop, src_unique_objects, hseen, hres, hany]
          · simp [Env.get?_set, uniqStepA, uniqStep, hcon', ← hS, oidA]
          · simp [Env.get?_set, uniqStepA, uniqStep, hcon', refs, ← hRs])
      [] (Env.set (Env.set [("tasks", refs l)] "seen" (.list [])) "res" (.list [])) st
      ⟨rfl, by simp [Env.get?_set], by simp [Env.get?_set, refs]⟩
    rw [foldlM_ok uniqStepA, foldl_uniqStepA] at this
    obtain ⟨ρ', st', hl, rfl, -, hres⟩ := this
    exact ⟨ρ', hres, hl⟩
  pyl [src_unique_objects_params, uo_shape, hfor, hacc, eraseDups_eq_fold]

theorem tf_get_all_predecessors : taskFuns fn_Task_get_all_predecessors =
    some (src_Task_get_all_predecessors_params, src_Task_get_all_predecessors) := rfl
theorem tf_get_all_successors : taskFuns fn_Task_get_all_successors =
    some (src_Task_get_all_successors_params, src_Task_get_all_successors) := rfl

/-- `__get_all_predecessors` (the property `all_predecessors`) = `descF s.preds` without repetitions -/
theorem get_all_predecessors_spec (s : G) (st : PState) (hh : st.heap = encHeap s) (f : Nat) (t : Uid) (r : List Uid)
    (h : descF s.preds f t = some r) (F : Nat) (hF : f + 1 ≤ F) :
    (Hd F).fnV fn_Task_get_all_predecessors [.atom (.ref t)] st = .ok (refs r.eraseDups, st) := by
  obtain ⟨F, rfl⟩ : ∃ F', F = F' + 1 := ⟨F - 1, by omega⟩
  rw [fnV_succ _ _ _ _ tf_get_all_predecessors]
  have hg := get_predecessor_spec s st hh f t r h F (by omega)
  obtain ⟨F, rfl⟩ : ∃ F', F = F' + 1 := ⟨F - 1, by cases f <;> simp [descF] at h <;> omega⟩
  have hu := unique_objects_spec st F r
  pyl [src_Task_get_all_predecessors_params, src_Task_get_all_predecessors, hg, hu]

theorem get_all_successors_spec (s : G) (st : PState) (hh : st.heap = encHeap s) (f : Nat) (t : Uid) (r : List Uid)
    (h : descF s.succs f t = some r) (F : Nat) (hF : f + 1 ≤ F) :
    (Hd F).fnV fn_Task_get_all_successors [.atom (.ref t)] st = .ok (refs r.eraseDups, st) := by
  obtain ⟨F, rfl⟩ : ∃ F', F = F' + 1 := ⟨F - 1, by omega⟩
  rw [fnV_succ _ _ _ _ tf_get_all_successors]
  have hg := get_successor_spec s st hh f t r h F (by omega)
  obtain ⟨F, rfl⟩ : ∃ F', F = F' + 1 := ⟨F - 1, by cases f <;> simp [descF] at h <;> omega⟩
  have hu := unique_objects_spec st F r
  pyl [src_Task_get_all_successors_params, src_Task_get_all_successors, hg, hu]

/-! ### `set(...)` values -/

theorem eraseDupsBy_loop_map {α β : Type} (f : α → β) (r : β → β → Bool) (r' : α → α → Bool)
    (h : ∀ a b, r (f a) (f b) = r' a b) (l bs : List α) :
    List.eraseDupsBy.loop r (l.map f) (bs.map f) = (List.eraseDupsBy.loop r' l bs).map f := by
  induction l generalizing bs with
  | nil => simp [List.eraseDupsBy.loop]
  | cons a l ih =>
    simp only [List.map_cons]
    unfold List.eraseDupsBy.loop
    have : (bs.map f).any (r (f a)) = bs.any (r' a) := by
      rw [List.any_map]; congr 1; funext b; exact h a b
    rw [this]
    cases bs.any (r' a) with
    | true => exact ih bs
    | false => simpa using ih (a :: bs)

theorem eraseDupsBy_map {α β : Type} (f : α → β) (r : β → β → Bool) (r' : α → α → Bool)
    (h : ∀ a b, r (f a) (f b) = r' a b) (l : List α) :
    (l.map f).eraseDupsBy r = (l.eraseDupsBy r').map f := by
  simpa [List.eraseDupsBy] using eraseDupsBy_loop_map f r r' h l []

/-- `set([id(t) for t in l])` -/
theorem pyDedup_oidA (l : List Uid) : pyDedup (l.map oidA) = l.eraseDups.map oidA := by
  unfold pyDedup List.eraseDups
  exact eraseDupsBy_map oidA _ _ (fun a b => by rw [oidA_pyEq]; rfl) l

/-- `set([t.id for t in l])` -/
theorem pyDedup_idA (l : List Int) : pyDedup (l.map idA) = l.eraseDups.map idA := by
  unfold pyDedup List.eraseDups
  exact eraseDupsBy_map idA _ _ (fun a b => by rw [pyEq_idA]; rfl) l

theorem contains_eraseDups (l : List Uid) (a : Uid) : l.eraseDups.contains a = l.contains a := by
  rw [Bool.eq_iff_iff]; simp

theorem filter_const_true {α : Type} (l : List α) : l.filter (fun _ => true) = l := by
  induction l with
  | nil => rfl
  | cons a l ih => simp [ih]

theorem evalP_bool (H : PHandlers) (self ρ : PyLite.Env) (st : PState) (b : Bool) :
    (Expr.bool b).evalP H self ρ st = .ok (.atom (.bool b), st) := by
  simp only [Expr.evalP, pure, Except.pure]

theorem evalP_var (H : PHandlers) (self ρ : PyLite.Env) (st : PState) (x : String) (v : Val) (h : ρ.get? x = some v) :
    (Expr.var x).evalP H self ρ st = .ok (v, st) := by
  simp only [Expr.evalP, h, pure, Except.pure]

theorem evalP_setOf (H : PHandlers) (self ρ : PyLite.Env) (st st' : PState) (l : Expr) (vs : List Atom)
    (h : l.evalP H self ρ st = .ok (.list vs, st')) :
    (Expr.setOf l).evalP H self ρ st = .ok (.list (pyDedup vs), st') := by
  simp only [Expr.evalP, h, bind, Except.bind, pure, Except.pure]

/-- `[id(x) for x in <tasks>]` -/
theorem evalP_comp_oid (H : PHandlers) (self ρ : PyLite.Env) (st0 st : PState) (it : Expr) (x : String) (l : List Uid)
    (hit : it.evalP H self ρ st0 = .ok (refs l, st)) :
    (Expr.listComp (.idOf (.var x)) x it (.bool true)).evalP H self ρ st0 = .ok (.list (l.map oidA), st) := by
  rw [evalP_listComp_pure (vs := l.map Atom.ref) (st := st) (p := fun _ => true)
    (e := fun v => match v with | .ref c => oidA c | _ => .none)
    (hit := hit)
    (hc := by intro v _; simp [Expr.evalP, pure, Except.pure])
    (he := by
      intro v hv _
      obtain ⟨c, _, rfl⟩ := List.mem_map.1 hv
      simp [Expr.evalP, Env.get?_set, pure, Except.pure, bind, Except.bind, oidA])]
  rw [filter_const_true, List.map_map]
  have : ((fun v => match v with | .ref c => oidA c | _ => Atom.none) ∘ Atom.ref) = oidA := by funext c; rfl
  rw [this]

/-- `[x.id for x in <tasks>]` -/
theorem evalP_comp_tid (s : G) (H : PHandlers) (self ρ : PyLite.Env) (st0 st : PState) (hh : st.heap = encHeap s)
    (it : Expr) (x : String) (l : List Uid) (hit : it.evalP H self ρ st0 = .ok (refs l, st)) :
    (Expr.listComp (.attr (.var x) "id") x it (.bool true)).evalP H self ρ st0 =
      .ok (.list ((l.map s.tid).map idA), st) := by
  rw [evalP_listComp_pure (vs := l.map Atom.ref) (st := st) (p := fun _ => true)
    (e := fun v => match v with | .ref c => idA (s.tid c) | _ => .none)
    (hit := hit)
    (hc := by intro v _; simp [Expr.evalP, pure, Except.pure])
    (he := by
      intro v hv _
      obtain ⟨c, _, rfl⟩ := List.mem_map.1 hv
      simp [Expr.evalP, Env.get?_set, pure, Except.pure, bind, Except.bind, hh, encHeap_apply, encTask_id])]
  rw [filter_const_true, List.map_map, List.map_map]
  have : ((fun v => match v with | .ref c => idA (s.tid c) | _ => Atom.none) ∘ Atom.ref) = idA ∘ s.tid := by
    funext c; rfl
  rw [this]

/-! ### `_linked_with_any` -/

theorem tf_linked_with_any : taskFuns fn_linked_with_any = some (src_linked_with_any_params, src_linked_with_any) := rfl

def lwOuter : Stmt := match src_linked_with_any with | [_, l, _] => l | _ => .pass
def lwInner : Stmt := match lwOuter with | .forIn _ _ [l] => l | _ => .pass
def lwBody : List Stmt := match lwInner with | .forIn _ _ b => b | _ => []
theorem lw_shape : src_linked_with_any =
    [.assign "other_ids" (.setOf (.listComp (.idOf (.var "o")) "o" (.var "others") (.bool true))), lwOuter,
     .ret (.bool false)] := rfl
theorem lwOuter_eq : lwOuter = .forIn "t" (.var "tasks") [lwInner] := rfl
theorem lwInner_eq : lwInner = .forIn "linked"
    (.bin .add (.listOf (.attr (.var "t") "predecessors")) (.listOf (.attr (.var "t") "successors"))) lwBody := rfl

def isRefIn (os : List Uid) : Atom → Bool
  | .ref l => os.contains l
  | _ => false

def linkedTo (s : G) (os : List Uid) : Atom → Bool
  | .ref t => (s.preds t ++ s.succs t).any (fun l => os.contains l)
  | _ => false

theorem any_isRefIn (os l : List Uid) : (l.map Atom.ref).any (isRefIn os) = l.any (fun x => os.contains x) := by
  induction l with
  | nil => rfl
  | cons a l ih => simp [isRefIn, ih]

theorem any_linkedTo (s : G) (os ts : List Uid) : (ts.map Atom.ref).any (linkedTo s os) = linkedWithAny s ts os := by
  unfold linkedWithAny
  induction ts with
  | nil => rfl
  | cons a l ih => simp only [List.map_cons, List.any_cons, linkedTo, ih]

/-- `_linked_with_any(tasks, others)` = `linkedWithAny` -/
theorem linked_with_any_spec (s : G) (st : PState) (hh : st.heap = encHeap s) (F : Nat) (ts os : List Uid) :
    (Hd (F + 1)).fnV fn_linked_with_any [refs ts, refs os] st = .ok (.atom (.bool (linkedWithAny s ts os)), st) := by
  rw [fnV_succ _ _ _ _ tf_linked_with_any]
  -- other_ids
  have hids : (Expr.setOf (.listComp (.idOf (.var "o")) "o" (.var "others") (.bool true))).evalP (Hd F) []
      [("tasks", refs ts), ("others", refs os)] st = .ok (.list (os.eraseDups.map oidA), st) := by
    rw [evalP_setOf (vs := os.map oidA) (st' := st) (h := evalP_comp_oid _ _ _ _ _ _ _ _ (by pyl [])), pyDedup_oidA]
  generalize hO : os.eraseDups.map oidA = O at hids
  have hOany : ∀ c : Uid, O.any (fun v => v.pyEq (Atom.num ((c : Nat) : Rat))) = os.contains c := by
    intro c; rw [← hO]; exact (any_oidA os.eraseDups c).trans (contains_eraseDups os c)
  -- the inner loop
  have inner : ∀ (ρ : PyLite.Env) (t : Uid), ρ.get? "other_ids" = some (.list O) →
      if linkedTo s os (.ref t) then
        lwInner.execP (Hd F) [] noRec (ρ.set "t" (.atom (.ref t))) st = .ret (.atom (.bool true)) st
      else ∃ ρ', ρ'.get? "other_ids" = some (.list O) ∧
        lwInner.execP (Hd F) [] noRec (ρ.set "t" (.atom (.ref t))) st = .normal ρ' st := by
    intro ρ t hρ
    rw [lwInner_eq, execP_forIn (vs := (s.preds t ++ s.succs t).map Atom.ref) (st' := st)
      (hit := by pyl [hh, refs])]
    have := forLoopP_findRet "linked" (fun ρ st => execBlockP (Hd F) [] noRec lwBody ρ st)
      (fun ρ => ρ.get? "other_ids" = some (.list O)) (isRefIn os) (.atom (.bool true)) st
      ((s.preds t ++ s.succs t).map Atom.ref)
      (by
        intro ρ v hv hP
        obtain ⟨c, _, rfl⟩ := List.mem_map.1 hv
        have h1 := hOany c
        cases hc : os.contains c with
        | true =>
          rw [hc] at h1
          simp only [isRefIn, hc, if_true]
          pyl [lwBody, lwInner, lwOuter, src_linked_with_any, hP, h1]
        | false =>
          rw [hc] at h1
          simp only [isRefIn, hc, Bool.false_eq_true, if_false]
          refine ⟨Env.set ρ "linked" (.atom (.ref c)), ?_, ?_⟩
          · rw [Env.get?_set, if_neg (by decide)]; exact hP
          · pyl [lwBody, lwInner, lwOuter, src_linked_with_any, hP, h1])
      (ρ.set "t" (.atom (.ref t))) (by rw [Env.get?_set, if_neg (by decide)]; exact hρ)
    rw [any_isRefIn] at this
    exact this
  -- the outer loop
  have outer := forLoopP_findRet "t" (fun ρ st => execBlockP (Hd F) [] noRec [lwInner] ρ st)
    (fun ρ => ρ.get? "other_ids" = some (.list O)) (linkedTo s os) (.atom (.bool true)) st (ts.map Atom.ref)
    (by
      intro ρ v hv hP
      obtain ⟨t, _, rfl⟩ := List.mem_map.1 hv
      have hi := inner ρ t hP
      by_cases hl : linkedTo s os (.ref t) = true
      · rw [if_pos hl] at hi
        rw [if_pos hl, execBlockP_cons, hi]
      · rw [if_neg hl] at hi
        obtain ⟨ρ', hP', hi⟩ := hi
        rw [if_neg hl]
        exact ⟨ρ', hP', by rw [execBlockP_cons, hi]; simp only [execBlockP_nil]⟩)
    (Env.set [("tasks", refs ts), ("others", refs os)] "other_ids" (.list O))
    (by rw [Env.get?_set, if_pos rfl])
  rw [any_linkedTo] at outer
  have hfor : lwOuter.execP (Hd F) [] noRec (Env.set [("tasks", refs ts), ("others", refs os)] "other_ids" (.list O)) st =
      forLoopP "t" (fun ρ st => execBlockP (Hd F) [] noRec [lwInner] ρ st) (ts.map Atom.ref)
        (Env.set [("tasks", refs ts), ("others", refs os)] "other_ids" (.list O)) st := by
    rw [lwOuter_eq, execP_forIn (vs := ts.map Atom.ref) (st' := st) (hit := by pyl [refs])]
  cases hl : linkedWithAny s ts os with
  | true =>
    rw [hl, if_pos rfl] at outer
    rw [outer] at hfor
    simp only [callPV_eq, src_linked_with_any_params, bindParamsV, pure, Except.pure, bind, Except.bind, lw_shape,
      execBlockP, Stmt.execP, hids, hfor]
  | false =>
    rw [hl, if_neg (by decide)] at outer
    obtain ⟨ρ', -, outer⟩ := outer
    rw [outer] at hfor
    simp only [callPV_eq, src_linked_with_any_params, bindParamsV, pure, Except.pure, bind, Except.bind, lw_shape,
      execBlockP, Stmt.execP, hids, hfor, evalP_bool]


theorem evalP_num (H : PHandlers) (self ρ : PyLite.Env) (st : PState) (q : Rat) :
    (Expr.num q).evalP H self ρ st = .ok (.atom (.num q), st) := by
  simp only [Expr.evalP, pure, Except.pure]

/-! ### `_has_id_intersection` -/

/-- the part of `hasIdIntersection` after the three enumerations -/
def idClash (s : G) (tree all : List Uid) : Bool :=
  let new := (all.filter (fun t => !tree.contains t)).eraseDups
  if new.isEmpty then false
  else
    let newIds := new.map s.tid
    if newIds.eraseDups.length != newIds.length then true
    else newIds.any (fun i => (tree.map s.tid).contains i)

theorem hasIdIntersection_eq (s : G) (parent : Uid) (chs : List Uid) :
    hasIdIntersection s parent chs = (do
      let root ← rootF s s.fuel parent
      let tree ← subtreeF s.children s.fuel root
      let subs ← chs.mapM (subtreeF s.children s.fuel)
      pure (idClash s tree subs.flatten)) := by
  unfold hasIdIntersection idClash
  congr 1; funext root; congr 1; funext tree; congr 1; funext subs
  dsimp only
  split
  · rfl
  · split <;> rfl

theorem inter_pos (A B : List Int) :
    decide (0 < ((A.eraseDups.map idA).filter (fun x => (B.eraseDups.map idA).any (fun y => y.pyEq x))).length) =
      B.any (fun i => A.contains i) := by
  rw [Bool.eq_iff_iff]
  simp only [decide_eq_true_eq, List.length_pos_iff_exists_mem, List.mem_filter, List.mem_map, List.mem_eraseDups,
    List.any_eq_true, List.contains_iff_mem]
  constructor
  · rintro ⟨x, ⟨a, ha, rfl⟩, y, ⟨b, hb, rfl⟩, hxy⟩
    rw [pyEq_idA] at hxy
    have : b = a := by simpa using hxy
    exact ⟨b, hb, this ▸ ha⟩
  · rintro ⟨b, hb, ha⟩
    exact ⟨idA b, ⟨b, ha, rfl⟩, idA b, ⟨b, hb, rfl⟩, by rw [pyEq_idA]; simp⟩

/-- a predicate on tasks as a predicate on values -/
def refP (p : Uid → Bool) : Atom → Bool
  | .ref c => p c
  | _ => false

theorem filter_refP (p : Uid → Bool) (l : List Uid) :
    (l.map Atom.ref).filter (refP p) = (l.filter p).map Atom.ref := by
  induction l with
  | nil => rfl
  | cons a l ih => cases hp : p a <;> simp [List.filter_cons, refP, hp, ih]

theorem tf_has_id : taskFuns fn_has_id_intersection =
    some (src_has_id_intersection_params, src_has_id_intersection) := rfl

def hiLoop : Stmt := match src_has_id_intersection with | _ :: _ :: _ :: l :: _ => l | _ => .pass
def hiBody : List Stmt := match hiLoop with | .forIn _ _ b => b | _ => []
def hiTail : List Stmt := src_has_id_intersection.drop 4
theorem hi_shape : src_has_id_intersection =
    [.assign "parent_root" (.callFn fn_find_root (.listCons (.var "parent") .listNil)),
     .assign "parent_tree" (.callFn fn_collect_subtree (.listCons (.var "parent_root") .listNil)),
     .assign "all_children_tasks" .listNil, hiLoop] ++ hiTail := rfl
theorem hiLoop_eq : hiLoop = .forIn "ch" (.var "children") hiBody := rfl

theorem compare_eq_num (a b : Rat) : PyLite.compare .eq (.atom (.num a)) (.atom (.num b)) = .ok (.atom (.bool (decide (a = b)))) := by
  simp [PyLite.compare, pyEq_num, pure, Except.pure]
theorem compare_ne_num (a b : Rat) : PyLite.compare .ne (.atom (.num a)) (.atom (.num b)) = .ok (.atom (.bool (!decide (a = b)))) := by
  simp [PyLite.compare, pyEq_num, pure, Except.pure]
theorem compare_gt_num (a b : Rat) : PyLite.compare .gt (.atom (.num a)) (.atom (.num b)) = .ok (.atom (.bool (decide (b < a)))) := by
  simp [PyLite.compare, Atom.asNum?, cmpRat, pure, Except.pure]

/-- the statements of `_has_id_intersection` after the three enumerations -/
theorem hiTail_ok (s : G) (st : PState) (hh : st.heap = encHeap s) (F : Nat) (tree all : List Uid) (ρ : PyLite.Env)
    (h1 : ρ.get? "parent_tree" = some (refs tree)) (h2 : ρ.get? "all_children_tasks" = some (refs all)) :
    execBlockP (Hd (F + 1)) [] noRec hiTail ρ st = .ret (.atom (.bool (idClash s tree all))) st := by
  unfold hiTail
  simp only [src_has_id_intersection, List.drop]
  -- parent_tree_object_ids
  rw [execBlockP_cons, execP_assign (v := .list (tree.eraseDups.map oidA)) (st' := st)
    (he := by
      rw [evalP_setOf (vs := tree.map oidA) (st' := st) (h := evalP_comp_oid _ _ _ _ _ _ _ _ (evalP_var _ _ _ _ _ _ h1)),
        pyDedup_oidA])]
  simp only []
  generalize hO : tree.eraseDups.map oidA = O
  have hOany : ∀ c : Uid, O.any (fun v => v.pyEq (Atom.num ((c : Nat) : Rat))) = tree.contains c := by
    intro c; rw [← hO]; exact (any_oidA tree.eraseDups c).trans (contains_eraseDups tree c)
  -- new_tasks
  have hcomp : (Expr.listComp (.var "t") "t" (.var "all_children_tasks")
        (.not (.isIn (.idOf (.var "t")) (.var "parent_tree_object_ids")))).evalP (Hd (F + 1)) []
        (Env.set ρ "parent_tree_object_ids" (.list O)) st =
      .ok (refs (all.filter (fun t => !tree.contains t)), st) := by
    rw [evalP_listComp_pure (vs := all.map Atom.ref) (st := st)
      (p := refP (fun c => !tree.contains c)) (e := fun v => v)
      (hit := evalP_var _ _ _ _ _ _ (by rw [Env.get?_set, if_neg (by decide)]; exact h2))
      (hc := by
        intro v hv
        obtain ⟨c, _, rfl⟩ := List.mem_map.1 hv
        have := hOany c
        cases hc : tree.contains c with
        | true =>
          rw [hc] at this
          have hm : c ∈ tree := by simpa using hc
          pyl [this, refP, hm]
        | false =>
          rw [hc] at this
          have hm : c ∉ tree := by simpa using hc
          pyl [this, refP, hm])
      (he := by intro v _ _; simp [Expr.evalP, Env.get?_set, pure, Except.pure])]
    rw [List.map_id', filter_refP, refs]
  generalize hnew : (all.filter (fun t => !tree.contains t)).eraseDups = new
  rw [execBlockP_cons, execP_assign (v := refs new) (st' := st)
    (he := by
      rw [evalP_callFn1 (ha := hcomp), ← hnew]
      exact unique_objects_spec st F _)]
  simp only []
  generalize hρ3 : Env.set (Env.set ρ "parent_tree_object_ids" (.list O)) "new_tasks" (refs new) = ρ3
  have g1 : ρ3.get? "new_tasks" = some (refs new) := by rw [← hρ3, Env.get?_set, if_pos rfl]
  have g2 : ρ3.get? "parent_tree" = some (refs tree) := by
    rw [← hρ3, Env.get?_set, if_neg (by decide), Env.get?_set, if_neg (by decide)]; exact h1
  -- if len(new_tasks) == 0
  have hlen : (Expr.len (.var "new_tasks")).evalP (Hd (F + 1)) [] ρ3 st = .ok (.atom (.num ((new.length : Nat) : Rat)), st) := by
    rw [evalP_len (vs := new.map Atom.ref) (st' := st) (h := evalP_var _ _ _ _ _ _ g1), List.length_map]
  rw [execBlockP_cons, execP_ifElse (v := .atom (.bool (decide (((new.length : Nat) : Rat) = 0)))) (b := new.isEmpty)
    (st' := st)
    (hc := evalP_cmp _ _ _ _ _ _ _ _ _ _ _ _ hlen (evalP_num _ _ _ _ _)
      (compare_eq_num _ _))
    (hb := by
      simp only [truthP, pure, Except.pure]
      congr 1
      rw [Bool.eq_iff_iff]
      simp only [decide_eq_true_eq, Rat.natCast_eq_zero_iff, List.isEmpty_iff, List.length_eq_zero_iff])]
  unfold idClash
  simp only [hnew]
  cases hne : new.isEmpty with
  | true =>
    simp only [if_true]
    rw [execBlockP_cons, execP_ret (he := evalP_bool _ _ _ _ false)]
  | false =>
    simp only [Bool.false_eq_true, if_false]
    rw [execBlockP_nil]
    simp only []
    -- if len(set([t.id for t in new_tasks])) != len(new_tasks)
    have hids : (Expr.setOf (.listComp (.attr (.var "t") "id") "t" (.var "new_tasks") (.bool true))).evalP
        (Hd (F + 1)) [] ρ3 st = .ok (.list ((new.map s.tid).eraseDups.map idA), st) := by
      rw [evalP_setOf (vs := (new.map s.tid).map idA) (st' := st)
        (h := evalP_comp_tid s _ _ _ _ _ hh _ _ _ (evalP_var _ _ _ _ _ _ g1)), pyDedup_idA]
    have hlen2 := evalP_len _ _ _ _ _ _ _ hids
    rw [List.length_map] at hlen2
    rw [execBlockP_cons, execP_ifElse
      (v := .atom (.bool (!decide ((((new.map s.tid).eraseDups.length : Nat) : Rat) = ((new.length : Nat) : Rat)))))
      (b := (new.map s.tid).eraseDups.length != (new.map s.tid).length) (st' := st)
      (hc := evalP_cmp _ _ _ _ _ _ _ _ _ _ _ _ hlen2 hlen (compare_ne_num _ _))
      (hb := by
        simp only [truthP, pure, Except.pure, List.length_map]
        congr 1
        by_cases he : (new.map s.tid).eraseDups.length = new.length <;> simp [he, Rat.natCast_inj])]
    cases hdup : ((new.map s.tid).eraseDups.length != (new.map s.tid).length) with
    | true =>
      simp only [if_true]
      rw [execBlockP_cons, execP_ret (he := evalP_bool _ _ _ _ true)]
    | false =>
      simp only [Bool.false_eq_true, if_false]
      rw [execBlockP_nil]
      simp only []
      -- parent_tree_ids, new_task_ids
      have hpt : (Expr.setOf (.listComp (.attr (.var "t") "id") "t" (.var "parent_tree") (.bool true))).evalP
          (Hd (F + 1)) [] ρ3 st = .ok (.list ((tree.map s.tid).eraseDups.map idA), st) := by
        rw [evalP_setOf (vs := (tree.map s.tid).map idA) (st' := st)
          (h := evalP_comp_tid s _ _ _ _ _ hh _ _ _ (evalP_var _ _ _ _ _ _ g2)), pyDedup_idA]
      rw [execBlockP_cons, execP_assign (he := hpt)]
      simp only []
      have hnt : (Expr.setOf (.listComp (.attr (.var "t") "id") "t" (.var "new_tasks") (.bool true))).evalP
          (Hd (F + 1)) [] (Env.set ρ3 "parent_tree_ids" (.list ((tree.map s.tid).eraseDups.map idA))) st =
          .ok (.list ((new.map s.tid).eraseDups.map idA), st) := by
        rw [evalP_setOf (vs := (new.map s.tid).map idA) (st' := st)
          (h := evalP_comp_tid s _ _ _ _ _ hh _ _ _ (evalP_var _ _ _ _ _ _
            (by rw [Env.get?_set, if_neg (by decide)]; exact g1))), pyDedup_idA]
      rw [execBlockP_cons, execP_assign (he := hnt)]
      simp only []
      have hint := evalP_setInter (Hd (F + 1)) []
        (Env.set (Env.set ρ3 "parent_tree_ids" (.list ((tree.map s.tid).eraseDups.map idA))) "new_task_ids"
          (.list ((new.map s.tid).eraseDups.map idA))) st st st (.var "parent_tree_ids") (.var "new_task_ids") _ _
        (evalP_var _ _ _ _ _ _ (by rw [Env.get?_set, if_neg (by decide), Env.get?_set, if_pos rfl]))
        (evalP_var _ _ _ _ _ _ (by rw [Env.get?_set, if_pos rfl]))
      have hlen3 := evalP_len _ _ _ _ _ _ _ hint
      rw [execBlockP_cons, execP_ret (he := evalP_cmp _ _ _ _ _ _ _ _ _ _ _ _ hlen3
        (evalP_num _ _ _ _ _) (compare_gt_num _ _))]
      simp only []
      congr 3
      rw [← inter_pos (tree.map s.tid) (new.map s.tid)]
      congr 1
      exact propext Rat.natCast_pos

/-- `_has_id_intersection(parent, children)` = `hasIdIntersection` -/
theorem has_id_intersection_spec (s : G) (st : PState) (hh : st.heap = encHeap s) (p : Uid) (chs : List Uid) (b : Bool)
    (h : hasIdIntersection s p chs = some b) (F : Nat) (hF : s.fuel + 2 ≤ F) :
    (Hd F).fnV fn_has_id_intersection [.atom (.ref p), refs chs] st = .ok (.atom (.bool b), st) := by
  obtain ⟨F, rfl⟩ : ∃ F', F = F' + 2 := ⟨F - 2, by omega⟩
  rw [hasIdIntersection_eq] at h
  simp only [bind, Option.bind_eq_some_iff, pure, Option.some.injEq] at h
  obtain ⟨root, hroot, tree, htree, subs, hsubs, rfl⟩ := h
  simp only [subtreeF, Option.map_eq_some_iff] at htree
  obtain ⟨dr, hdr, rfl⟩ := htree
  rw [fnV_succ _ _ _ _ tf_has_id, callPV_eq]
  simp only [src_has_id_intersection_params, bindParamsV, pure, Except.pure, bind, Except.bind, hi_shape]
  have hfr := find_root_spec s st hh _ _ _ hroot (F + 1) (by omega)
  have hcs := collect_subtree_spec s st hh _ _ _ hdr (F + 1) (by omega)
  rw [List.cons_append, execBlockP_cons, execP_assign (he := by rw [evalP_callFn1 (ha := evalP_var _ _ _ _ _ _ rfl)]; exact hfr)]
  simp only []
  rw [List.cons_append, execBlockP_cons, execP_assign (he := by
    rw [evalP_callFn1 (ha := evalP_var _ _ _ _ _ _ (by rw [Env.get?_set, if_pos rfl]))]; exact hcs)]
  simp only []
  rw [List.cons_append, execBlockP_cons, execP_assign (v := .list []) (st' := st)
    (he := by simp only [Expr.evalP, pure, Except.pure])]
  simp only []
  -- the subtrees of the children
  have hsub : ∀ c ∈ chs, descF s.children s.fuel c = some (dsc s.children s.fuel c) := by
    intro c hc
    obtain ⟨b, _, hb⟩ := mapM_some_mem _ _ _ hsubs c hc
    simp only [subtreeF, Option.map_eq_some_iff] at hb
    obtain ⟨d, hd, _⟩ := hb
    simp [dsc, hd]
  have hsubs' : subs = chs.map (fun c => c :: dsc s.children s.fuel c) := by
    refine mapM_some_eq_map _ _ _ _ hsubs ?_
    intro c hc b hb
    simp only [subtreeF, hsub c hc, Option.map_some, Option.some.injEq] at hb
    exact hb.symm
  generalize hρ0 : Env.set (Env.set (Env.set [("parent", Val.atom (Atom.ref p)), ("children", refs chs)] "parent_root"
    (Val.atom (Atom.ref root))) "parent_tree" (refs (root :: dr))) "all_children_tasks" (Val.list []) = ρ0
  have k1 : ρ0.get? "parent_tree" = some (refs (root :: dr)) := by
    rw [← hρ0, Env.get?_set, if_neg (by decide), Env.get?_set, if_pos rfl]
  have k2 : ρ0.get? "all_children_tasks" = some (.list []) := by rw [← hρ0, Env.get?_set, if_pos rfl]
  have k3 : ρ0.get? "children" = some (refs chs) := by
    rw [← hρ0, Env.get?_set, if_neg (by decide), Env.get?_set, if_neg (by decide), Env.get?_set, if_neg (by decide)]
    rfl
  obtain ⟨ρ', hP, hacc, hl⟩ := forLoopP_acc "ch" "all_children_tasks"
    (fun ρ st => execBlockP (Hd (F + 1)) [] noRec hiBody ρ st)
    (fun ρ => ρ.get? "parent_tree" = some (refs (root :: dr))) (subG s.children s.fuel) st (chs.map Atom.ref)
    (by
      intro ρ a v hv hP ha
      obtain ⟨c, hc, rfl⟩ := List.mem_map.1 hv
      have hcall := collect_subtree_spec s st hh _ _ _ (hsub c hc) (F + 1) (by omega)
      refine ⟨Env.set (Env.set ρ "ch" (.atom (.ref c))) "all_children_tasks"
        (.list (a ++ subG s.children s.fuel (.ref c))), ?_, ?_, ?_⟩
      · rw [Env.get?_set, if_neg (by decide), Env.get?_set, if_neg (by decide)]; exact hP
      · simp [Env.get?_set]
      · pyl [hiBody, hiLoop, src_has_id_intersection, ha, hcall, refs, subG])
    ρ0 [] k1 k2
  rw [List.cons_append, execBlockP_cons, hiLoop_eq, execP_forIn (vs := chs.map Atom.ref) (st' := st)
    (hit := evalP_var _ _ _ _ _ _ k3), hl]
  simp only [List.nil_append]
  rw [List.nil_append, flatMap_subG, ← hsubs'] at hacc
  rw [hiTail_ok s st hh F (root :: dr) subs.flatten ρ' hP hacc]

/-! ### `_to_list`, `_check_not_none`, `_check_no_nones_in_list` -/

theorem tf_to_list : taskFuns fn_to_list = some (src_to_list_params, src_to_list) := rfl
theorem tf_check_not_none : taskFuns fn_check_not_none = some (src_check_not_none_params, src_check_not_none) := rfl
theorem tf_check_no_nones : taskFuns fn_check_no_nones_in_list =
    some (src_check_no_nones_in_list_params, src_check_no_nones_in_list) := rfl

theorem to_list_none (st : PState) (F : Nat) :
    (Hd (F + 1)).fnV fn_to_list [.atom .none] st = .ok (refs [], st) := by
  rw [fnV_succ _ _ _ _ tf_to_list]
  pyl [src_to_list_params, src_to_list, refs]

theorem to_list_task (st : PState) (F : Nat) (t : Uid) :
    (Hd (F + 1)).fnV fn_to_list [.atom (.ref t)] st = .ok (refs [t], st) := by
  rw [fnV_succ _ _ _ _ tf_to_list]
  pyl [src_to_list_params, src_to_list, refs, pyTypeIs]

def notNone (a : Atom) : Bool := !decide (a = .none)

/-- `_to_list` of a Python list: the items that are not `None` -/
theorem to_list_list (st : PState) (F : Nat) (vs : List Atom) :
    (Hd (F + 1)).fnV fn_to_list [.list vs] st = .ok (.list (vs.filter notNone), st) := by
  rw [fnV_succ _ _ _ _ tf_to_list, callPV_eq]
  have hcomp : (Expr.listComp (.var "t") "t" (.var "val") (.isNotNone (.var "t"))).evalP (Hd F) []
      [("val", .list vs)] st = .ok (.list (vs.filter notNone), st) := by
    rw [evalP_listComp_pure (vs := vs) (st := st) (p := notNone) (e := fun v => v) (hit := evalP_var _ _ _ _ _ _ rfl)
      (hc := by intro v _; simp [Expr.evalP, Env.get?_set, pure, Except.pure, bind, Except.bind, notNone])
      (he := by intro v _ _; simp [Expr.evalP, Env.get?_set, pure, Except.pure])]
    rw [List.map_id']
  simp only [src_to_list_params, src_to_list, bindParamsV, pure, Except.pure, bind, Except.bind]
  rw [execBlockP_cons, execP_ifElse (v := .atom (.bool false)) (b := false) (st' := st) (hc := by pyl []) (hb := rfl)]
  simp only [Bool.false_eq_true, if_false]
  rw [execBlockP_cons, execP_ifElse (v := .atom (.bool false)) (b := false) (st' := st) (hc := by pyl [pyTypeIs])
    (hb := rfl)]
  simp only [Bool.false_eq_true, if_false]
  rw [execBlockP_cons, execP_ifElse (v := .atom (.bool true)) (b := true) (st' := st) (hc := by pyl [pyTypeIs])
    (hb := rfl)]
  simp only [if_true]
  rw [execBlockP_cons, execP_ret (he := hcomp)]

theorem filter_notNone_refs (l : List Uid) : (l.map Atom.ref).filter notNone = l.map Atom.ref := by
  induction l with
  | nil => rfl
  | cons a l ih => simp [notNone, ih]

theorem to_list_refs (st : PState) (F : Nat) (l : List Uid) :
    (Hd (F + 1)).fnV fn_to_list [refs l] st = .ok (refs l, st) := by
  unfold refs
  rw [to_list_list, filter_notNone_refs]

/-- the Python value `v` is an admissible right-hand side of a relation setter and stands for the list of tasks `l`:
    `_to_list(v)` is `l` (see `valueOf_refs`, `valueOf_none`, `valueOf_task`, `valueOf_list`) -/
def ValueOf (v : Val) (l : List Uid) : Prop :=
  ∀ (st : PState) (F : Nat), (Hd (F + 1)).fnV fn_to_list [v] st = .ok (refs l, st)

theorem valueOf_refs (l : List Uid) : ValueOf (refs l) l := fun st F => to_list_refs st F l
theorem valueOf_none : ValueOf (.atom .none) [] := fun st F => to_list_none st F
theorem valueOf_task (t : Uid) : ValueOf (.atom (.ref t)) [t] := fun st F => to_list_task st F t
/-- a Python list whose items are tasks or `None` -/
theorem valueOf_list (os : List (Option Uid)) : ValueOf (.list (os.map optRef)) (os.filterMap id) := by
  intro st F
  rw [to_list_list]
  congr 2
  unfold refs
  congr 1
  induction os with
  | nil => rfl
  | cons o os ih => cases o <;> simp [notNone, ih, optRef]

theorem check_not_none_spec (st : PState) (F : Nat) (t : Uid) :
    (Hd (F + 1)).fnV fn_check_not_none [.atom (.ref t)] st = .ok (.atom .none, st) := by
  rw [fnV_succ _ _ _ _ tf_check_not_none]
  pyl [src_check_not_none_params, src_check_not_none]

theorem check_no_nones_spec (st : PState) (F : Nat) (l : List Uid) :
    (Hd (F + 1)).fnV fn_check_no_nones_in_list [refs l] st = .ok (.atom .none, st) := by
  rw [fnV_succ _ _ _ _ tf_check_no_nones, callPV_eq]
  simp only [src_check_no_nones_in_list_params, src_check_no_nones_in_list, bindParamsV, pure, Except.pure, bind,
    Except.bind]
  have := forLoopP_check "v" (fun ρ st => execBlockP (Hd F) [] noRec
      [.ifElse (.isNone (.var "v")) [.raiseRuntime] []] ρ st) (fun _ => True) (fun _ => none) st (l.map Atom.ref)
    (by
      intro ρ v hv _
      obtain ⟨c, _, rfl⟩ := List.mem_map.1 hv
      exact ⟨Env.set ρ "v" (.atom (.ref c)), trivial, by pyl []⟩)
    [("lst", refs l)] trivial
  have hnone : (l.map Atom.ref).findSome? (fun _ => (none : Option Err)) = none := by
    induction l with
    | nil => rfl
    | cons a l ih => simp [ih]
  rw [hnone] at this
  obtain ⟨ρ', -, hl⟩ := this
  rw [execBlockP_cons, execP_forIn (vs := l.map Atom.ref) (st' := st) (hit := evalP_var _ _ _ _ _ _ rfl), hl]
  simp only [execBlockP_nil]

/-! ### writing the store -/

/-- the Python state `st` with the store replaced by the encoding of `s` -/
def withG (st : PState) (s : G) : PState := { st with heap := encHeap s }

@[simp] theorem withG_heap (st : PState) (s : G) : (withG st s).heap = encHeap s := rfl
theorem withG_withG (st : PState) (s s' : G) : withG (withG st s) s' = withG st s' := rfl
theorem withG_self (st : PState) (s : G) (hh : st.heap = encHeap s) : withG st s = st := by
  cases st; simp only [withG] at *; simp [hh]

theorem setHeap_eq (st : PState) (h : Nat → PyLite.Env) (s : G) (e : h = encHeap s) :
    ({ st with heap := h } : PState) = withG st s := by rw [e]; rfl

section heapSet
variable (s : G) (t : Uid)

theorem heapSet_wbs (o : Option Uid) :
    heapSet (encHeap s) t "wbs" (.atom (optRef o)) = encHeap { s with owner := upd s.owner t o } := by
  funext u
  by_cases h : u = t
  · subst h; simp [heapSet, encHeap, encTask, Env.set, upd]
  · simp [heapSet, encHeap, encTask, upd, h]

theorem heapSet_parent (o : Option Uid) :
    heapSet (encHeap s) t "parent" (.atom (optRef o)) = encHeap { s with parent := upd s.parent t o } := by
  funext u
  by_cases h : u = t
  · subst h; simp [heapSet, encHeap, encTask, Env.set, upd]
  · simp [heapSet, encHeap, encTask, upd, h]

theorem heapSet_children (l : List Uid) :
    heapSet (encHeap s) t "children" (refs l) = encHeap { s with children := upd s.children t l } := by
  funext u
  by_cases h : u = t
  · subst h; simp [heapSet, encHeap, encTask, Env.set, upd]
  · simp [heapSet, encHeap, encTask, upd, h]

theorem heapSet_preds (l : List Uid) :
    heapSet (encHeap s) t "predecessors" (refs l) = encHeap { s with preds := upd s.preds t l } := by
  funext u
  by_cases h : u = t
  · subst h; simp [heapSet, encHeap, encTask, Env.set, upd]
  · simp [heapSet, encHeap, encTask, upd, h]

theorem heapSet_succs (l : List Uid) :
    heapSet (encHeap s) t "successors" (refs l) = encHeap { s with succs := upd s.succs t l } := by
  funext u
  by_cases h : u = t
  · subst h; simp [heapSet, encHeap, encTask, Env.set, upd]
  · simp [heapSet, encHeap, encTask, upd, h]
end heapSet

/-! ### `_attach`, `_detach` -/

theorem setOwners_setOwners (s : G) (A B : List Uid) (w : Option Uid) :
    setOwners (setOwners s A w) B w = setOwners s (A ++ B) w := by
  unfold setOwners
  congr 1
  funext x
  simp only [List.contains_append]
  cases hB : B.contains x <;> cases hA : A.contains x <;> simp

theorem setOwners_single (s : G) (t : Uid) (w : Option Uid) :
    ({ s with owner := upd s.owner t w } : G) = setOwners s [t] w := by
  unfold setOwners
  congr 1
  funext x
  by_cases h : x = t
  · subst h; simp [upd]
  · have h' : ¬ t = x := fun e => h e.symm
    simp [upd, h, h', List.contains_cons]

theorem setOwners_children (s : G) (A : List Uid) (w : Option Uid) : (setOwners s A w).children = s.children := rfl

/-- one iteration of the loop of `_attach` / `_detach` -/
def ownStepA (next : Uid → List Uid) (f : Nat) (w : Option Uid) (s : G) : Atom → G
  | .ref c => setOwners s (c :: dsc next f c) w
  | _ => s

theorem foldl_ownStepA (next : Uid → List Uid) (f : Nat) (w : Option Uid) (l : List Uid) (s : G) :
    (l.map Atom.ref).foldl (ownStepA next f w) s =
      setOwners s ((l.map (fun c => c :: dsc next f c)).flatten) w := by
  induction l generalizing s with
  | nil =>
    unfold setOwners
    simp
  | cons a l ih =>
    simp only [List.map_cons, List.foldl_cons, ownStepA, ih, setOwners_setOwners, List.flatten_cons]

theorem tf_attach : taskFuns fn_Task_attach = some (src_Task_attach_params, src_Task_attach) := rfl
theorem tf_detach : taskFuns fn_Task_detach = some (src_Task_detach_params, src_Task_detach) := rfl

def atLoop : Stmt := match src_Task_attach with | [_, _, l] => l | _ => .pass
def atBody : List Stmt := match atLoop with | .forIn _ _ b => b | _ => []
theorem at_shape : src_Task_attach =
    [.ifElse (.isNone (.var "wbs")) [.ret .none] [], .setAttr (.var "self") "wbs" (.var "wbs"), atLoop] := rfl
theorem atLoop_eq : atLoop = .forIn "ch" (.attr (.var "self") "children") atBody := rfl

/-- `_attach(None)` does nothing -/
theorem attach_none (st : PState) (F : Nat) (t : Uid) :
    (Hd (F + 1)).fnV fn_Task_attach [.atom (.ref t), .atom .none] st = .ok (.atom .none, st) := by
  rw [fnV_succ _ _ _ _ tf_attach]
  pyl [src_Task_attach_params, at_shape]

/-- `_attach(wbs)` = `setOwners` on the subtree -/
theorem attach_spec (w : Uid) :
    ∀ (f : Nat) (s : G) (st : PState), st.heap = encHeap s → ∀ (t : Uid) (r : List Uid),
      descF s.children f t = some r → ∀ F, f ≤ F →
      (Hd F).fnV fn_Task_attach [.atom (.ref t), .atom (.ref w)] st =
        .ok (.atom .none, withG st (setOwners s (t :: r) (some w))) := by
  intro f
  induction f with
  | zero => intro s st _ t r h; simp [descF] at h
  | succ f ih =>
    intro s st hh t r h F hF
    obtain ⟨F, rfl⟩ : ∃ F', F = F' + 1 := ⟨F - 1, by omega⟩
    obtain ⟨hch, rfl⟩ := descF_succ_eq s.children f t r h
    rw [fnV_succ _ _ _ _ tf_attach, callPV_eq]
    simp only [src_Task_attach_params, bindParamsV, pure, Except.pure, bind, Except.bind, at_shape]
    rw [execBlockP_cons, execP_ifElse (v := .atom (.bool false)) (b := false) (st' := st) (hc := by pyl []) (hb := rfl)]
    simp only [Bool.false_eq_true, if_false, execBlockP_nil]
    -- self.__wbs = wbs
    have hset : (Stmt.setAttr (.var "self") "wbs" (.var "wbs")).execP (Hd F) [] noRec
        [("self", .atom (.ref t)), ("wbs", .atom (.ref w))] st =
        .normal [("self", .atom (.ref t)), ("wbs", .atom (.ref w))] (withG st (setOwners s [t] (some w))) := by
      simp only [Stmt.execP, Expr.evalP, Env.get?_cons, Env.get?_nil, bind, Except.bind, pure, Except.pure]
      simp only [if_true, if_neg (show ¬ "self" = "wbs" by decide)]
      congr 1
      apply setHeap_eq
      rw [hh, ← setOwners_single]
      exact heapSet_wbs s t (some w)
    rw [execBlockP_cons, hset]
    simp only []
    -- the loop
    have := forLoopP_foldM "ch" (fun ρ st => execBlockP (Hd F) [] noRec atBody ρ st)
      (fun (s' : G) ρ st' => st' = withG st s' ∧ s'.children = s.children ∧
        ρ.get? "wbs" = some (.atom (.ref w)))
      (fun s' v => .ok (ownStepA s.children f (some w) s' v)) ((s.children t).map Atom.ref)
      (by
        intro s' v ρ st' hv hR
        obtain ⟨rfl, hc', hw⟩ := hR
        obtain ⟨c, hc, rfl⟩ := List.mem_map.1 hv
        have hcall := ih s' (withG st s') rfl c _ (by rw [hc']; exact hch c hc) F (by omega)
        refine ⟨Env.set ρ "ch" (.atom (.ref c)), _, ?_, rfl, ?_, ?_⟩
        · have hw' : (Env.set ρ "ch" (.atom (.ref c))).get? "wbs" = some (.atom (.ref w)) := by
            rw [Env.get?_set, if_neg (by decide)]; exact hw
          have hcv : (Env.set ρ "ch" (.atom (.ref c))).get? "ch" = some (.atom (.ref c)) := by
            rw [Env.get?_set, if_pos rfl]
          unfold atBody atLoop
          simp only [src_Task_attach]
          rw [execBlockP_cons, execP_expr (he := by
            rw [evalP_callFn2 (ha := evalP_var _ _ _ _ _ _ hcv) (hb := evalP_var _ _ _ _ _ _ hw')]
            exact hcall)]
          simp only [execBlockP_nil, withG_withG, ownStepA, hc']
        · simp only [ownStepA, setOwners_children]; exact hc'
        · rw [Env.get?_set, if_neg (by decide)]; exact hw)
      (setOwners s [t] (some w)) [("self", .atom (.ref t)), ("wbs", .atom (.ref w))] _ ⟨rfl, rfl, rfl⟩
    rw [foldlM_ok (ownStepA s.children f (some w)), foldl_ownStepA, setOwners_setOwners] at this
    obtain ⟨ρ', st', hl, rfl, -, -⟩ := this
    rw [execBlockP_cons, atLoop_eq, execP_forIn (vs := (s.children t).map Atom.ref) (st' := withG st (setOwners s [t] (some w)))
      (hit := by pyl [refs, setOwners_children]), hl]
    simp only [execBlockP_nil, List.singleton_append]

def dtLoop : Stmt := match src_Task_detach with | [_, l] => l | _ => .pass
def dtBody : List Stmt := match dtLoop with | .forIn _ _ b => b | _ => []
theorem dt_shape : src_Task_detach = [.setAttr (.var "self") "wbs" .none, dtLoop] := rfl
theorem dtLoop_eq : dtLoop = .forIn "ch" (.attr (.var "self") "children") dtBody := rfl

/-- `_detach()` = `setOwners … none` on the subtree -/
theorem detach_spec :
    ∀ (f : Nat) (s : G) (st : PState), st.heap = encHeap s → ∀ (t : Uid) (r : List Uid),
      descF s.children f t = some r → ∀ F, f ≤ F →
      (Hd F).fnV fn_Task_detach [.atom (.ref t)] st = .ok (.atom .none, withG st (setOwners s (t :: r) none)) := by
  intro f
  induction f with
  | zero => intro s st _ t r h; simp [descF] at h
  | succ f ih =>
    intro s st hh t r h F hF
    obtain ⟨F, rfl⟩ : ∃ F', F = F' + 1 := ⟨F - 1, by omega⟩
    obtain ⟨hch, rfl⟩ := descF_succ_eq s.children f t r h
    rw [fnV_succ _ _ _ _ tf_detach, callPV_eq]
    simp only [src_Task_detach_params, bindParamsV, pure, Except.pure, bind, Except.bind, dt_shape]
    have hset : (Stmt.setAttr (.var "self") "wbs" .none).execP (Hd F) [] noRec [("self", .atom (.ref t))] st =
        .normal [("self", .atom (.ref t))] (withG st (setOwners s [t] none)) := by
      simp only [Stmt.execP, Expr.evalP, Env.get?_cons, Env.get?_nil, bind, Except.bind, pure, Except.pure]
      simp only [if_true]
      congr 1
      apply setHeap_eq
      rw [hh, ← setOwners_single]
      exact heapSet_wbs s t none
    rw [execBlockP_cons, hset]
    simp only []
    have := forLoopP_foldM "ch" (fun ρ st => execBlockP (Hd F) [] noRec dtBody ρ st)
      (fun (s' : G) ρ st' => st' = withG st s' ∧ s'.children = s.children)
      (fun s' v => .ok (ownStepA s.children f none s' v)) ((s.children t).map Atom.ref)
      (by
        intro s' v ρ st' hv hR
        obtain ⟨rfl, hc'⟩ := hR
        obtain ⟨c, hc, rfl⟩ := List.mem_map.1 hv
        have hcall := ih s' (withG st s') rfl c _ (by rw [hc']; exact hch c hc) F (by omega)
        refine ⟨Env.set ρ "ch" (.atom (.ref c)), _, ?_, rfl, ?_⟩
        · have hcv : (Env.set ρ "ch" (.atom (.ref c))).get? "ch" = some (.atom (.ref c)) := by
            rw [Env.get?_set, if_pos rfl]
          unfold dtBody dtLoop
          simp only [src_Task_detach]
          rw [execBlockP_cons, execP_expr (he := by
            rw [evalP_callFn1 (ha := evalP_var _ _ _ _ _ _ hcv)]
            exact hcall)]
          simp only [execBlockP_nil, withG_withG, ownStepA, hc']
        · simp only [ownStepA, setOwners_children]; exact hc')
      (setOwners s [t] none) [("self", .atom (.ref t))] _ ⟨rfl, rfl⟩
    rw [foldlM_ok (ownStepA s.children f none), foldl_ownStepA, setOwners_setOwners] at this
    obtain ⟨ρ', st', hl, rfl, -⟩ := this
    rw [execBlockP_cons, dtLoop_eq, execP_forIn (vs := (s.children t).map Atom.ref) (st' := withG st (setOwners s [t] none))
      (hit := by pyl [refs, setOwners_children]), hl]
    simp only [execBlockP_nil, List.singleton_append]

end Pj.TaskSrc
