/-
  Lemmas/GraphPerm.lean — operations that only permute one children list (move / sort / reorder), the
  element-by-element and search combinators, and the assembly of the step theorem for C01.
-/
import PjVerif.Lemmas.GraphParent
import PjVerif.Lemmas.GraphLinks
namespace Pj

/-- L7: replacing one children list by a permutation of itself keeps the graph well-formed -/
theorem permChildren_WF (s : G) (h : Uid) (l : List Uid) (hw : WF s) (hp : l.Perm (s.children h)) :
    WF { s with children := upd s.children h l } := by
  have hmem : ∀ p x, x ∈ upd s.children h l p ↔ x ∈ s.children p := by
    intro p x
    by_cases hph : p = h
    · subst hph; simp [hp.mem_iff]
    · simp [upd, hph]
  constructor
  · intro t p
    show s.parent t = some p ↔ t ∈ upd s.children h l p
    rw [hmem]; exact hw.listed t p
  · intro p
    show (upd s.children h l p).Nodup
    by_cases hph : p = h
    · subst hph; simp only [upd_same]; exact hp.nodup_iff.2 (hw.once p)
    · simp only [upd, hph, if_false]; exact hw.once p
  · exact hw.forest
  · exact hw.rootsTop
  · exact hw.sym
  · exact hw.dag
  · exact hw.noAncDep

/-! ### move -/

theorem insertAt_perm (l1 : List Uid) (task : Uid) (i : Nat) :
    (l1.take i ++ [task] ++ l1.drop i).Perm (task :: l1) := by
  have h1 : (l1.take i ++ [task] ++ l1.drop i) = l1.take i ++ task :: l1.drop i := by simp
  rw [h1]
  have h2 := @List.perm_middle _ task (l1.take i) (l1.drop i)
  rw [List.take_append_drop] at h2
  exact h2

theorem moveOne_perm (l : List Uid) (task : Uid) (b a : Option Uid) (hin : task ∈ l)
    (hba : b.isSome = true ∨ a.isSome = true) : (moveOne l task b a).Perm l := by
  have he : (task :: l.erase task).Perm l := (List.perm_cons_erase hin).symm
  cases b with
  | some b => exact (insertAt_perm _ _ _).trans he
  | none =>
    cases a with
    | some a => exact (insertAt_perm _ _ _).trans he
    | none => simp at hba

theorem foldMove_perm (l : List Uid) (b a : Option Uid) (hba : b.isSome = true ∨ a.isSome = true) :
    ∀ (ts : List Uid) (l0 : List Uid), (∀ t ∈ ts, t ∈ l) → l0.Perm l →
      (ts.foldl (fun acc t => moveOne acc t b a) l0).Perm l := by
  intro ts
  induction ts with
  | nil => intro l0 _ hp; exact hp
  | cons t ts ih =>
    intro l0 hin hp
    simp only [List.foldl_cons]
    apply ih
    · intro t' ht'; exact hin t' (List.mem_cons_of_mem _ ht')
    · have : t ∈ l0 := hp.mem_iff.2 (hin t List.mem_cons_self)
      exact (moveOne_perm l0 t b a this hba).trans hp

theorem mem_of_not_any_not_contains (ts l : List Uid) (h : ¬ (ts.any fun t => !l.contains t) = true) :
    ∀ t ∈ ts, t ∈ l := by
  intro t ht
  simp only [List.any_eq_true, not_exists, not_and] at h
  simpa using h t ht

theorem chMove_WF (s : G) (h : Uid) (ts : List Uid) (b a : Option Uid) (hw : WF s) :
    WF (chMove s h ts b a).1 := by
  unfold chMove
  dsimp only
  by_cases c1 : (ts.any fun t => !(s.children h).contains t) = true
  · rw [if_pos c1]; exact hw
  · rw [if_neg c1]
    have hin := mem_of_not_any_not_contains _ _ c1
    cases b <;> cases a <;> simp only [] <;> (repeat' split) <;>
      first
      | exact hw
      | (apply permChildren_WF _ _ _ hw
         apply foldMove_perm
         · simp_all
         · exact hin
         · exact List.Perm.refl _)

/-! ### sort -/

theorem chSort_WF (s : G) (h : Uid) (key : Uid → Int) (rev : Bool) (hw : WF s) :
    WF (chSort s h key rev).1 := by
  unfold chSort
  apply permChildren_WF _ _ _ hw
  unfold sortBy
  split
  · exact List.mergeSort_perm _ _
  · exact List.mergeSort_perm _ _

/-! ### reorder -/

theorem reorderLoop_perm (s : G) (l : List Uid) :
    ∀ (ids : List Int) (new rest r : List Uid), reorderLoop s l ids new rest = .ok r →
      (new ++ rest).Perm l → r.Perm l := by
  intro ids
  induction ids with
  | nil =>
    intro new rest r hr hp
    simp only [reorderLoop, pure, Except.pure, Except.ok.injEq] at hr
    subst hr; exact hp
  | cons i ids ih =>
    intro new rest r hr hp
    simp only [reorderLoop] at hr
    split at hr
    · simp [throw, throwThe, MonadExceptOf.throw] at hr
    · rename_i ch _
      split at hr
      · rename_i hc
        apply ih _ _ _ hr
        have hc' : ch ∈ rest := by simpa using hc
        have h1 : (new ++ [ch] ++ rest.erase ch).Perm (new ++ ch :: rest.erase ch) := by simp
        refine h1.trans (List.Perm.trans ?_ hp)
        exact List.Perm.append_left new (List.perm_cons_erase hc').symm
      · simp [throw, throwThe, MonadExceptOf.throw] at hr

theorem chReorder_WF (s : G) (h : Uid) (ids : List Int) (hw : WF s) :
    WF (chReorder s h ids).1 := by
  unfold chReorder
  split
  · exact hw
  · rename_i l hl
    apply permChildren_WF _ _ _ hw
    exact reorderLoop_perm s _ ids [] _ l hl (by simp)

/-! ### element-by-element application -/

theorem forEach_preserves_mem (P : G → Prop) (f : G → Uid → G × Option Err) :
    ∀ (ts : List Uid) (s : G), (∀ s t, t ∈ ts → P s → P (f s t).1) → P s → P (forEach f s ts).1 := by
  intro ts
  induction ts with
  | nil => intro s _ hs; exact hs
  | cons t ts ih =>
    intro s hf hs
    have h1 := hf s t List.mem_cons_self hs
    simp only [forEach]
    split
    · rename_i s' e heq
      rw [heq] at h1; exact h1
    · rename_i s' heq
      rw [heq] at h1
      exact ih s' (fun s t ht => hf s t (List.mem_cons_of_mem _ ht)) h1

/-- L8: element-by-element application preserves any invariant its element operation preserves -/
theorem forEach_preserves (P : G → Prop) (f : G → Uid → G × Option Err)
    (hf : ∀ s t, P s → P (f s t).1) (ts : List Uid) (s : G) (hs : P s) : P (forEach f s ts).1 :=
  forEach_preserves_mem P f ts s (fun s t _ => hf s t) hs

/-! ### who is never hidden -/

theorem child_not_hidden (s : G) (hw : WF s) (h c : Uid) (hc : c ∈ s.children h) : s.hidden c = false := by
  cases hh : s.hidden c with
  | false => rfl
  | true =>
    have h1 := (hw.rootsTop c hh).1
    have h2 := (hw.listed c h).2 hc
    rw [h1] at h2; cases h2

theorem pred_not_hidden (s : G) (hw : WF s) (t a : Uid) (ha : a ∈ s.preds t) : s.hidden a = false := by
  cases hh : s.hidden a with
  | false => rfl
  | true =>
    have h1 := (hw.rootsTop a hh).2.2
    have h2 := (hw.sym a t).1 ha
    rw [h1] at h2; cases h2

theorem succ_not_hidden (s : G) (hw : WF s) (t b : Uid) (hb : b ∈ s.succs t) : s.hidden b = false := by
  cases hh : s.hidden b with
  | false => rfl
  | true =>
    have h1 := (hw.rootsTop b hh).2.1
    have h2 := (hw.sym t b).2 hb
    rw [h1] at h2; cases h2

theorem hidden_of_tid (s s' : G) (h : s'.tid = s.tid) (u : Uid) : s'.hidden u = s.hidden u := by
  simp [G.hidden, h]

theorem visible_of_tid (s s' : G) (h : s'.tid = s.tid) (op : Op) (hv : op.visible s) : op.visible s' := by
  intro u hu
  rw [hidden_of_tid s s' h]; exact hv u hu

theorem mem_pyInsert (l : List Uid) (i : Int) (t x : Uid) (hx : x ∈ pyInsert l i t) : x = t ∨ x ∈ l := by
  simp only [pyInsert, List.mem_append, List.mem_singleton] at hx
  rcases hx with (hx | hx) | hx
  · exact Or.inr (List.mem_of_mem_take hx)
  · exact Or.inl hx
  · exact Or.inr (List.mem_of_mem_drop hx)

/-! ### the façades -/

theorem chRemove_WF (s : G) (h t : Uid) (hw : WF s) : WF (chRemove s h t).1 := by
  unfold chRemove
  split
  · apply setChildren_WF _ _ _ hw
    intro v hv
    exact child_not_hidden s hw h v (List.mem_filter.1 hv).1
  · exact hw

theorem chRemove_tid (s : G) (h t : Uid) : (chRemove s h t).1.tid = s.tid := by
  unfold chRemove
  split
  · exact setChildren_tid _ _ _
  · rfl

theorem chInsert_WF (s : G) (h : Uid) (i : Int) (t : Uid) (hw : WF s) (ht : s.hidden t = false) :
    WF (chInsert s h i t).1 := by
  unfold chInsert
  apply setChildren_WF _ _ _ hw
  intro v hv
  rcases mem_pyInsert _ _ _ _ hv with rfl | hv
  · exact ht
  · exact child_not_hidden s hw h v (List.mem_filter.1 hv).1

theorem floordiv_WF (s : G) (h : Uid) (l : List Uid) (hw : WF s) (hl : ∀ v ∈ l, s.hidden v = false) :
    WF (floordiv s h l).1 := by
  unfold floordiv
  apply setChildren_WF _ _ _ hw
  intro v hv
  rcases List.mem_append.1 hv with hv | hv
  · exact child_not_hidden s hw h v hv
  · exact hl v hv

theorem lshift_WF (s : G) (t : Uid) (l : List Uid) (hw : WF s) (ht : s.hidden t = false)
    (hl : ∀ v ∈ l, s.hidden v = false) : WF (lshift s t l).1 := by
  unfold lshift
  apply setPreds_WF _ _ _ hw ht
  intro v hv
  rcases List.mem_append.1 hv with hv | hv
  · exact pred_not_hidden s hw t v hv
  · exact hl v hv

theorem rshift_WF (s : G) (t : Uid) (l : List Uid) (hw : WF s) (ht : s.hidden t = false)
    (hl : ∀ v ∈ l, s.hidden v = false) : WF (rshift s t l).1 := by
  unfold rshift
  apply setSuccs_WF _ _ _ hw ht
  intro v hv
  rcases List.mem_append.1 hv with hv | hv
  · exact succ_not_hidden s hw t v hv
  · exact hl v hv

theorem prRemove_WF (s : G) (t x : Uid) (hw : WF s) (ht : s.hidden t = false) : WF (prRemove s t x).1 := by
  unfold prRemove
  split
  · apply setPreds_WF _ _ _ hw ht
    intro v hv
    exact pred_not_hidden s hw t v (List.mem_filter.1 hv).1
  · exact hw

theorem suRemove_WF (s : G) (t x : Uid) (hw : WF s) (ht : s.hidden t = false) : WF (suRemove s t x).1 := by
  unfold suRemove
  split
  · apply setSuccs_WF _ _ _ hw ht
    intro v hv
    exact succ_not_hidden s hw t v (List.mem_filter.1 hv).1
  · exact hw

theorem prRemove_tid (s : G) (t x : Uid) : (prRemove s t x).1.tid = s.tid := by
  unfold prRemove
  split
  · exact setPreds_tid _ _ _
  · rfl

theorem suRemove_tid (s : G) (t x : Uid) : (suRemove s t x).1.tid = s.tid := by
  unfold suRemove
  split
  · exact setSuccs_tid _ _ _
  · rfl

theorem chMove_tid (s : G) (h : Uid) (ts : List Uid) (b a : Option Uid) : (chMove s h ts b a).1.tid = s.tid := by
  unfold chMove
  dsimp only
  repeat (first | rfl | split)

theorem chReorder_tid (s : G) (h : Uid) (ids : List Int) : (chReorder s h ids).1.tid = s.tid := by
  unfold chReorder
  split <;> rfl

/-! ### `WBS.remove` -/

theorem removeRec_preserves (P : G → Prop) (t : Uid) (hc : ∀ s cur, P s → P (chRemove s cur t).1) :
    ∀ (f : Nat) (s : G) (cur : Uid) (r : G × Option Err × Bool), P s → removeRec t f s cur = some r → P r.1 := by
  intro f
  induction f with
  | zero => intro s cur r _ h; rw [removeRec.eq_1] at h; cases h
  | succ f ih =>
    intro s cur r hs h
    rw [removeRec.eq_2] at h
    split at h
    · cases h; exact hc s cur hs
    · have hgo : ∀ (cs : List Uid) (r : G × Option Err × Bool), removeRec.go t f s cs = some r → P r.1 := by
        intro cs
        induction cs with
        | nil => intro r h; rw [removeRec.go.eq_1] at h; cases h; exact hs
        | cons c cs ihc =>
          intro r h
          rw [removeRec.go.eq_2] at h
          split at h
          · cases h
          · rename_i heq; cases h; exact ih s c _ hs heq
          · rename_i heq; cases h; exact ih s c _ hs heq
          · exact ihc r h
      exact hgo _ r h

theorem wbsRemove_preserves (P : G → Prop) (t : Uid) (hc : ∀ s cur, P s → P (chRemove s cur t).1)
    (s : G) (w : Uid) (hs : P s) : P (wbsRemove s w t).1 := by
  unfold wbsRemove
  split
  · exact hs
  · rename_i heq
    exact removeRec_preserves P t hc _ s w _ hs heq

/-- L9: `WBS.remove` -/
theorem wbsRemove_WF (s : G) (w t : Uid) (hw : WF s) : WF (wbsRemove s w t).1 :=
  wbsRemove_preserves WF t (fun s cur hs => chRemove_WF s cur t hs) s w hw

theorem wbsRemove_tid (s : G) (w t : Uid) : (wbsRemove s w t).1.tid = s.tid :=
  wbsRemove_preserves (fun s' => s'.tid = s.tid) t
    (fun s' cur hs => (chRemove_tid s' cur t).trans hs) s w rfl

theorem forEach_tid (f : G → Uid → G × Option Err) (hf : ∀ s t, (f s t).1.tid = s.tid) (s : G) (ts : List Uid) :
    (forEach f s ts).1.tid = s.tid :=
  forEach_preserves (fun s' => s'.tid = s.tid) f (fun s' t hs => (hf s' t).trans hs) ts s rfl

theorem step_tid (s : G) (op : Op) : (step s op).1.tid = s.tid := by
  cases op with
  | setParent t p => exact setParent_tid s t p
  | setChildren h l => exact setChildren_tid s h l
  | chAppend h t => exact setParent_tid s t (some h)
  | chRemove h t => exact chRemove_tid s h t
  | chInsert h i t => exact setChildren_tid s h _
  | chMove h ts b a => exact chMove_tid s h ts b a
  | chSort h keys rev => rfl
  | chReorder h ids => exact chReorder_tid s h ids
  | setPreds t l => exact setPreds_tid s t l
  | setSuccs t l => exact setSuccs_tid s t l
  | prAppend t x => exact setPreds_tid s t _
  | prRemove t x => exact prRemove_tid s t x
  | suAppend t x => exact setSuccs_tid s t _
  | suRemove t x => exact suRemove_tid s t x
  | floordiv h l => exact setChildren_tid s h _
  | lshift t l => exact setPreds_tid s t _
  | rshift t l => exact setSuccs_tid s t _
  | listLshift ts l => exact forEach_tid _ (fun s t => setPreds_tid s t _) s ts
  | listRshift ts l => exact forEach_tid _ (fun s t => setSuccs_tid s t _) s ts
  | listSetParent ts p => exact forEach_tid _ (fun s t => setParent_tid s t p) s ts
  | wbsRemove w t => exact wbsRemove_tid s w t
  | wbsRemoveAll w ts => exact forEach_tid _ (fun s t => wbsRemove_tid s w t) s ts
  | chRemoveAll h ts => exact forEach_tid _ (fun s t => chRemove_tid s h t) s ts

/-- `forEach` with an element operation that needs its element (and some fixed others) not to be hidden -/
theorem forEach_WF (f : G → Uid → G × Option Err) (s : G) (ts : List Uid) (hw : WF s)
    (htid : ∀ s t, (f s t).1.tid = s.tid)
    (hf : ∀ s' t, t ∈ ts → WF s' → s'.tid = s.tid → WF (f s' t).1) : WF (forEach f s ts).1 := by
  have := forEach_preserves_mem (fun s' => WF s' ∧ s'.tid = s.tid) f ts s
    (fun s' t ht hs => ⟨hf s' t ht hs.1 hs.2, (htid s' t).trans hs.2⟩) ⟨hw, rfl⟩
  exact this.1

/-- C01, one step: every public mutator keeps the graph well-formed, whether the call returns or raises -/
theorem step_WF (s : G) (op : Op) (hw : WF s) (hv : op.visible s) : WF (step s op).1 := by
  cases op with
  | setParent t p => exact setParent_WF s t p hw (hv t (by simp [Op.taskArgs]))
  | setChildren h l => exact setChildren_WF s h l hw (fun v hvl => hv v (by simpa [Op.taskArgs] using hvl))
  | chAppend h t => exact setParent_WF s t (some h) hw (hv t (by simp [Op.taskArgs]))
  | chRemove h t => exact chRemove_WF s h t hw
  | chInsert h i t => exact chInsert_WF s h i t hw (hv t (by simp [Op.taskArgs]))
  | chMove h ts b a => exact chMove_WF s h ts b a hw
  | chSort h keys rev => exact chSort_WF s h _ rev hw
  | chReorder h ids => exact chReorder_WF s h ids hw
  | setPreds t l =>
    exact setPreds_WF s t l hw (hv t (by simp [Op.taskArgs])) (fun v hvl => hv v (by simp [Op.taskArgs, hvl]))
  | setSuccs t l =>
    exact setSuccs_WF s t l hw (hv t (by simp [Op.taskArgs])) (fun v hvl => hv v (by simp [Op.taskArgs, hvl]))
  | prAppend t x =>
    exact lshift_WF s t [x] hw (hv t (by simp [Op.taskArgs]))
      (fun v hvl => hv v (by simp only [List.mem_singleton] at hvl; simp [Op.taskArgs, hvl]))
  | prRemove t x => exact prRemove_WF s t x hw (hv t (by simp [Op.taskArgs]))
  | suAppend t x =>
    exact rshift_WF s t [x] hw (hv t (by simp [Op.taskArgs]))
      (fun v hvl => hv v (by simp only [List.mem_singleton] at hvl; simp [Op.taskArgs, hvl]))
  | suRemove t x => exact suRemove_WF s t x hw (hv t (by simp [Op.taskArgs]))
  | floordiv h l => exact floordiv_WF s h l hw (fun v hvl => hv v (by simpa [Op.taskArgs] using hvl))
  | lshift t l =>
    exact lshift_WF s t l hw (hv t (by simp [Op.taskArgs])) (fun v hvl => hv v (by simp [Op.taskArgs, hvl]))
  | rshift t l =>
    exact rshift_WF s t l hw (hv t (by simp [Op.taskArgs])) (fun v hvl => hv v (by simp [Op.taskArgs, hvl]))
  | listLshift ts l =>
    apply forEach_WF _ s ts hw (fun s t => setPreds_tid s t _)
    intro s' t ht hw' htid
    apply lshift_WF s' t l hw'
    · rw [hidden_of_tid s s' htid]; exact hv t (by simp [Op.taskArgs, ht])
    · intro v hvl; rw [hidden_of_tid s s' htid]; exact hv v (by simp [Op.taskArgs, hvl])
  | listRshift ts l =>
    apply forEach_WF _ s ts hw (fun s t => setSuccs_tid s t _)
    intro s' t ht hw' htid
    apply rshift_WF s' t l hw'
    · rw [hidden_of_tid s s' htid]; exact hv t (by simp [Op.taskArgs, ht])
    · intro v hvl; rw [hidden_of_tid s s' htid]; exact hv v (by simp [Op.taskArgs, hvl])
  | listSetParent ts p =>
    apply forEach_WF _ s ts hw (fun s t => setParent_tid s t p)
    intro s' t ht hw' htid
    apply setParent_WF s' t p hw'
    rw [hidden_of_tid s s' htid]; exact hv t (by simp [Op.taskArgs, ht])
  | wbsRemove w t => exact wbsRemove_WF s w t hw
  | wbsRemoveAll w ts =>
    exact forEach_WF _ s ts hw (fun s t => wbsRemove_tid s w t) (fun s' t _ hw' _ => wbsRemove_WF s' w t hw')
  | chRemoveAll h ts =>
    exact forEach_WF _ s ts hw (fun s t => chRemove_tid s h t) (fun s' t _ hw' _ => chRemove_WF s' h t hw')

end Pj
