import PjVerif.Model.Basic
import PjVerif.Model.Calendar
import PjVerif.Extracted.Sched
import PjVerif.Spec.Calendar
import PjVerif.Lemmas.Calendar
import PjVerif.Props.C17
