-- This module serves as the root of the `PjVerif` library.
-- Import modules here that should be built as part of the library.
import PjVerif.Basic
