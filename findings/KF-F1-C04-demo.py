import sys
sys.path.insert(0,'/repo/src')
import pjplan.schedule as S
import datetime as _dt
class FakeDT(_dt.datetime):
    @classmethod
    def now(cls, tz=None): return cls(2024,1,1,9,0)
S.datetime = FakeDT
from pjplan import WBS, Task, ForwardScheduler, BackwardScheduler
w = WBS()
w // Task(1,'a',estimate=0.1+0.2, spent=0.3)
w // Task(2,'b',estimate=16, spent=16-1e-12)
w // Task(3,'c',estimate=8)
for cls,kw in ((ForwardScheduler,{'start':_dt.datetime(2024,1,1)}),(BackwardScheduler,{'end':_dt.datetime(2024,2,1)})):
    r = cls(**kw).calc(w)
    for t in r.schedule.tasks: print(cls.__name__, t.id, t.start, t.end)
    for row in r.resource_usage.rows(): print('  ', row.task.id, row.date, row.units)
