#!/bin/sh
# offline build of the Lean model, theorems and the compiled driver
set -e
cd "$(dirname "$0")"
exec ./check --setup
