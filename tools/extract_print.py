"""extract_print: translate the sheet printer of task.py - class `_Repr` - into a PROGRAM of PyLite
(lean/PjVerif/Model/PyLite.lean, pass layer; `progH`).  No construct is added to PyLite: strings are atoms `.str` and every
string operation is a library PRIMITIVE ["prim", name, args] whose meaning is stated on the Lean side
(Lemmas/PrintSrc.lean, `printPrim`).

  _Repr.__calc_max_title_len(task, level, _current_max)              key calc_max_title_len
  _Repr.__get_linked_task_id(task, linked_task)                      key get_linked_task_id
  _Repr.__get_linked_tasks_id(task, linked_tasks)                    key get_linked_tasks_id
  _Repr.__get_field_value(t, field)                                  key get_field_value
  _Repr.__max_field_len(tasks, field)                                key max_field_len
  _Repr.__print_task_subtree(task, fields, level, table, children, theme)   key print_task_subtree
  _Repr.repr(tasks, fields, children, theme)                         key repr

Terms are s-expressions (lists); anything outside the subset raises Miss.  Checked: `_Repr` has no base class, every
method is a `@staticmethod` with plain positional parameters (`repr` has the defaults None / True / None: the entry point
passes all four arguments), `_Repr.__f(args)` is the call of the function of that name with that many arguments.

Strings.
  'text'                     ["prim", "lit:text", []]          (a constant; also the constants GREY, … of utils.py)
  a + b, one side a str      ["prim", "concat", [a, b]]        ('   ' * n: ["prim", "repeat", ['   ', n]])
  f"{a}{b}text"              concat of ["prim", "str", [a]], …  (no conversion, no format spec: format(x, '') = str(x))
  len(s), s a str            ["prim", "strlen", [s]]           (str-typed: constants, f-strings, `+` / `*` on them, `field:
                                                               str`, `task.name`, calls of functions annotated `-> str`)
  str(x)  s.lower()  s.upper()  ','.join(l)  v.strftime('fmt')  isinstance(v, datetime)
                             ["prim", "str" / "lower" / "upper", [x]], ["prim", "join:,", l], ["prim", "strftime:fmt", [v]],
                             ["prim", "isinstance:datetime", [v]]
Tasks.  `x.f` for f in TASK_ATTRS is ["prim", f, [x]] (read-only library attributes; `x.__dict__` = the list of its keys,
only used with `in` / `not in`); `x.__getattribute__(k)` and the dynamic attribute `x.print_color` are
["prim", "__getattribute__", [x, k]].  EMPTY_TASK_ID is ["prim", "EMPTY_TASK_ID", []].
Theme.  `theme[k]` is ["prim", "getitem", [theme, k]], `k in theme` ["prim", "contains", [theme, k]],
`_Repr.__DEFAULT_THEME` ["prim", "default_theme", []] (a primitive WITHOUT meaning: the entry point passes a theme).
`colors[i]` on a local is ["listIndex", colors, i].
Lists.  A local assigned `[]` once and only appended to / iterated / joined is a list VALUE: `x.append(e)` is
`x = x + [e]` (as in extract_critpath).
Table.  `TextTable` is NOT translated here (stage 4): the table object is the LOG of the calls made on it, a box:
`TextTable()` = ["newBox", []], `table.new_row(c)` appends the marker True and then `c`, `table.new_cell(v)` appends `v`
(one argument each; checked), `table.text_repr()` = ["prim", "text_repr", ["items", table]]."""
import ast

from extract_calendar import Miss, miss, is_none, lean_str, CMP, BIN

FUNS = ['calc_max_title_len', 'get_linked_task_id', 'get_linked_tasks_id', 'get_field_value', 'max_field_len',
        'print_task_subtree', 'repr']
METHODS = {'__calc_max_title_len': 'calc_max_title_len', '__get_linked_task_id': 'get_linked_task_id',
           '__get_linked_tasks_id': 'get_linked_tasks_id', '__get_field_value': 'get_field_value',
           '__max_field_len': 'max_field_len', '__print_task_subtree': 'print_task_subtree', 'repr': 'repr'}
TASK_ATTRS = {'name', 'id', 'wbs', 'parent', 'children', 'predecessors', 'successors', 'estimate', 'spent', '__dict__'}
STR_ATTRS = {'name'}
DYN_ATTRS = {'print_color'}
REPR_DEFAULTS = ['None', 'True', 'None']


def strip_doc(body):
    if body and isinstance(body[0], ast.Expr) and isinstance(body[0].value, ast.Constant) \
            and isinstance(body[0].value.value, str):
        return body[1:]
    return body


def arg_list(items):
    e = ['listNil']
    for a in reversed(items):
        e = ['listCons', a, e]
    return e


def lit(s):
    return ['prim', 'lit:' + s, ['listNil']]


class Tr:
    def __init__(self, mod, key, node, params):
        self.mod, self.key, self.node, self.params = mod, key, node, params
        self.known = set(params)
        self.str_names = {a.arg for a in node.args.args if a.annotation is not None and ast.unparse(a.annotation) == 'str'}
        self.tables = {a.arg for a in node.args.args
                       if a.annotation is not None and ast.unparse(a.annotation) == 'TextTable'}
        self.fresh = set()
        body = strip_doc(node.body)
        for n in (m for s in body for m in ast.walk(s)):
            if isinstance(n, (ast.Lambda, ast.Global, ast.Nonlocal, ast.With, ast.While, ast.Delete, ast.NamedExpr,
                              ast.Await, ast.AsyncFor, ast.AsyncWith, ast.Starred, ast.Yield, ast.YieldFrom, ast.Try,
                              ast.ClassDef, ast.FunctionDef, ast.AugAssign, ast.Break, ast.Continue, ast.ListComp,
                              ast.GeneratorExp, ast.DictComp, ast.SetComp)):
                raise Miss(f'{key}: {type(n).__name__}')
            if isinstance(n, ast.Assign) and len(n.targets) == 1 and isinstance(n.targets[0], ast.Name):
                x = n.targets[0].id
                if isinstance(n.value, ast.List) and not n.value.elts:
                    if x in self.params or x in self.fresh:
                        raise Miss(f'{key}: the list {x}')
                    self.fresh.add(x)
                if isinstance(n.value, ast.Call) and isinstance(n.value.func, ast.Name) and n.value.func.id == 'TextTable':
                    self.tables.add(x)
        # a fresh list is assigned once
        for n in (m for s in body for m in ast.walk(s)):
            if isinstance(n, ast.Assign):
                for t in n.targets:
                    if isinstance(t, ast.Name) and t.id in self.fresh and not (isinstance(n.value, ast.List)
                                                                              and not n.value.elts):
                        raise Miss(f'{key}: assignment to the list {t.id}')
                    if isinstance(t, ast.Name) and t.id in self.tables and t.id in self.params:
                        raise Miss(f'{key}: assignment to the table')
            if isinstance(n, ast.For) and isinstance(n.iter, ast.Name) and n.iter.id in self.fresh:
                for m in ast.walk(n):
                    if isinstance(m, ast.Attribute) and m.attr == 'append' and isinstance(m.value, ast.Name) \
                            and m.value.id == n.iter.id:
                        raise Miss(f'{key}: {n.iter.id} changes while it is iterated')
        self.body = self.block(body)

    # ---- types
    def is_str(self, n):
        if isinstance(n, ast.Constant):
            return isinstance(n.value, str)
        if isinstance(n, ast.JoinedStr):
            return True
        if isinstance(n, ast.Name):
            return n.id in self.str_names
        if isinstance(n, ast.BinOp) and isinstance(n.op, ast.Add):
            return self.is_str(n.left) or self.is_str(n.right)
        if isinstance(n, ast.BinOp) and isinstance(n.op, ast.Mult):
            return isinstance(n.left, ast.Constant) and isinstance(n.left.value, str)
        if isinstance(n, ast.IfExp):
            return self.is_str(n.body) or self.is_str(n.orelse)
        if isinstance(n, ast.Attribute):
            return n.attr in STR_ATTRS
        if isinstance(n, ast.Call):
            k = self.repr_call(n)
            if k is not None:
                return self.mod.returns_str[k]
            return isinstance(n.func, ast.Name) and n.func.id == 'str'
        return False

    def repr_call(self, n):
        f = n.func
        if isinstance(f, ast.Attribute) and isinstance(f.value, ast.Name) and f.value.id == '_Repr' and f.attr in METHODS:
            return METHODS[f.attr]
        return None

    # ---- expressions
    def expr(self, n):
        if isinstance(n, ast.Constant):
            v = n.value
            if v is None:
                return ['none']
            if isinstance(v, bool):
                return ['bool', v]
            if isinstance(v, int):
                return ['num', str(v)]
            if isinstance(v, str):
                return lit(v)
            miss(n, 'constant')
        if isinstance(n, ast.Name) and isinstance(n.ctx, ast.Load):
            if n.id in self.known:
                return ['var', n.id]
            if n.id in self.mod.consts:
                return lit(self.mod.consts[n.id])
            if n.id == 'EMPTY_TASK_ID':
                return ['prim', 'EMPTY_TASK_ID', ['listNil']]
            miss(n, 'unknown name')
        if isinstance(n, ast.Attribute) and isinstance(n.ctx, ast.Load):
            if isinstance(n.value, ast.Name) and n.value.id == '_Repr' and n.attr == '__DEFAULT_THEME':
                return ['prim', 'default_theme', ['listNil']]
            if n.attr in TASK_ATTRS:
                return ['prim', n.attr, arg_list([self.expr(n.value)])]
            if n.attr in DYN_ATTRS:
                return ['prim', '__getattribute__', arg_list([self.expr(n.value), lit(n.attr)])]
            miss(n, 'attribute')
        if isinstance(n, ast.Compare):
            if len(n.ops) != 1:
                miss(n, 'comparison chain')
            l, op, r = n.left, n.ops[0], n.comparators[0]
            if isinstance(op, ast.Is) and is_none(r):
                return ['isNone', self.expr(l)]
            if isinstance(op, ast.IsNot) and is_none(r):
                return ['isNotNone', self.expr(l)]
            if isinstance(op, (ast.In, ast.NotIn)):
                if isinstance(r, ast.Attribute) and r.attr == '__dict__':
                    e = ['isIn', self.expr(l), self.expr(r)]
                elif isinstance(r, ast.Name) and r.id == 'theme' and r.id in self.known:
                    e = ['prim', 'contains', arg_list([self.expr(r), self.expr(l)])]
                else:
                    miss(n, 'membership')
                return e if isinstance(op, ast.In) else ['not', e]
            if type(op) in CMP:
                return ['cmp', CMP[type(op)], self.expr(l), self.expr(r)]
            miss(n, 'comparison')
        if isinstance(n, ast.BoolOp):
            k = 'and' if isinstance(n.op, ast.And) else 'or'
            vals = [self.expr(v) for v in n.values]
            e = vals[-1]
            for v in reversed(vals[:-1]):
                e = [k, v, e]
            return e
        if isinstance(n, ast.UnaryOp) and isinstance(n.op, ast.Not):
            return ['not', self.expr(n.operand)]
        if isinstance(n, ast.BinOp):
            if isinstance(n.op, ast.Add) and self.is_str(n):
                return ['prim', 'concat', arg_list([self.expr(n.left), self.expr(n.right)])]
            if isinstance(n.op, ast.Mult) and self.is_str(n):
                return ['prim', 'repeat', arg_list([self.expr(n.left), self.expr(n.right)])]
            if type(n.op) in BIN and not self.is_str(n.left) and not self.is_str(n.right):
                return ['bin', BIN[type(n.op)], self.expr(n.left), self.expr(n.right)]
            miss(n, 'operator')
        if isinstance(n, ast.IfExp):
            return ['ite', self.expr(n.test), self.expr(n.body), self.expr(n.orelse)]
        if isinstance(n, ast.JoinedStr):
            parts = []
            for p in n.values:
                if isinstance(p, ast.Constant) and isinstance(p.value, str):
                    parts.append(lit(p.value))
                elif isinstance(p, ast.FormattedValue) and p.conversion == -1 and p.format_spec is None:
                    parts.append(['prim', 'str', arg_list([self.expr(p.value)])])
                else:
                    miss(n, 'f-string')
            if not parts:
                return lit('')
            e = parts[0]
            for p in parts[1:]:
                e = ['prim', 'concat', arg_list([e, p])]
            return e
        if isinstance(n, ast.List):
            return arg_list([self.expr(x) for x in n.elts])
        if isinstance(n, ast.Subscript) and isinstance(n.ctx, ast.Load) and isinstance(n.value, ast.Name) \
                and n.value.id in self.known:
            if n.value.id == 'theme':
                return ['prim', 'getitem', arg_list([self.expr(n.value), self.expr(n.slice)])]
            if n.value.id in self.fresh or n.value.id in self.tables or n.value.id in self.str_names:
                miss(n, 'subscript')
            return ['listIndex', self.expr(n.value), self.expr(n.slice)]
        if isinstance(n, ast.Call):
            return self.call(n)
        miss(n, 'expression')

    def call(self, n):
        if n.keywords:
            miss(n, 'keyword arguments')
        f, args = n.func, n.args
        k = self.repr_call(n)
        if k is not None:
            if len(args) != len(self.mod.params[k]):
                miss(n, 'number of arguments')
            return ['callFn', FUNS.index(k), arg_list([self.expr(a) for a in args])]
        if isinstance(f, ast.Name):
            if f.id == 'len' and len(args) == 1:
                if self.is_str(args[0]):
                    return ['prim', 'strlen', arg_list([self.expr(args[0])])]
                return ['len', self.expr(args[0])]
            if f.id == 'max' and len(args) == 2:
                return ['max', self.expr(args[0]), self.expr(args[1])]
            if f.id == 'str' and len(args) == 1:
                return ['prim', 'str', arg_list([self.expr(args[0])])]
            if f.id == 'isinstance' and len(args) == 2 and isinstance(args[1], ast.Name) and args[1].id == 'datetime' \
                    and self.mod.datetime_ok:
                return ['prim', 'isinstance:datetime', arg_list([self.expr(args[0])])]
            if f.id == 'TextTable' and not args and self.mod.table_ok:
                return ['newBox', ['listNil']]
            miss(n, 'call')
        if isinstance(f, ast.Attribute):
            o = f.value
            if f.attr in ('lower', 'upper') and not args:
                return ['prim', f.attr, arg_list([self.expr(o)])]
            if f.attr == 'join' and len(args) == 1 and isinstance(o, ast.Constant) and isinstance(o.value, str):
                return ['prim', 'join:' + o.value, self.expr(args[0])]
            if f.attr == 'strftime' and len(args) == 1 and isinstance(args[0], ast.Constant) \
                    and isinstance(args[0].value, str):
                return ['prim', 'strftime:' + args[0].value, arg_list([self.expr(o)])]
            if f.attr == '__getattribute__' and len(args) == 1:
                return ['prim', '__getattribute__', arg_list([self.expr(o), self.expr(args[0])])]
            if f.attr == 'text_repr' and not args and isinstance(o, ast.Name) and o.id in self.tables:
                return ['prim', 'text_repr', ['items', self.expr(o)]]
        miss(n, 'call')

    # ---- statements
    def block(self, stmts):
        out = []
        for s in stmts:
            out += self.stmt(s)
        return out

    def stmt(self, s):
        if isinstance(s, ast.Pass):
            return [['pass']]
        if isinstance(s, ast.Return):
            return [['ret', ['none'] if s.value is None else self.expr(s.value)]]
        if isinstance(s, ast.Assign):
            if len(s.targets) != 1 or not isinstance(s.targets[0], ast.Name):
                miss(s, 'assignment')
            x = s.targets[0].id
            e = self.expr(s.value)
            if x in self.str_names and not (self.is_str(s.value) or (isinstance(s.value, ast.Call)
                                                                     and isinstance(s.value.func, ast.Attribute)
                                                                     and s.value.func.attr in ('lower', 'upper'))):
                miss(s, 'a str-typed name is assigned something else')
            self.known.add(x)
            return [['assign', x, e]]
        if isinstance(s, ast.If):
            return [['ifElse', self.expr(s.test), self.block(s.body), self.block(s.orelse)]]
        if isinstance(s, ast.For):
            if s.orelse or not isinstance(s.target, ast.Name) or s.target.id in self.params \
                    or s.target.id in self.fresh or s.target.id in self.tables:
                miss(s, 'for')
            e = self.expr(s.iter)
            self.known.add(s.target.id)
            return [['forIn', s.target.id, e, self.block(s.body)]]
        if isinstance(s, ast.Expr):
            v = s.value
            if isinstance(v, ast.Constant) and isinstance(v.value, str):
                return []
            if isinstance(v, ast.Call) and isinstance(v.func, ast.Attribute) and isinstance(v.func.value, ast.Name) \
                    and not v.keywords and len(v.args) == 1:
                recv, m = v.func.value.id, v.func.attr
                if recv in self.fresh and recv in self.known and m == 'append':
                    return [['assign', recv, ['bin', 'add', ['var', recv], arg_list([self.expr(v.args[0])])]]]
                if recv in self.tables and recv in self.known and m == 'new_row':
                    return [['boxAppend', ['var', recv], ['bool', True]],
                            ['boxAppend', ['var', recv], self.expr(v.args[0])]]
                if recv in self.tables and recv in self.known and m == 'new_cell':
                    return [['boxAppend', ['var', recv], self.expr(v.args[0])]]
            if isinstance(v, ast.Call) and self.repr_call(v) is not None:
                return [['expr', self.call(v)]]
        miss(s, 'statement')


class Mod:
    pass


def extract(task_src, utils_src):
    tree = ast.parse(task_src)
    utree = ast.parse(utils_src)
    mod = Mod()
    # the colour constants of utils.py that task.py imports
    uconst = {}
    for n in utree.body:
        if isinstance(n, ast.Assign) and len(n.targets) == 1 and isinstance(n.targets[0], ast.Name) \
                and isinstance(n.value, ast.Constant) and isinstance(n.value.value, str):
            if n.targets[0].id in uconst:
                raise Miss(f'utils.py: {n.targets[0].id} assigned twice')
            uconst[n.targets[0].id] = n.value.value
    mod.consts, mod.table_ok, mod.datetime_ok = {}, False, False
    top_names = set()
    for n in tree.body:
        if isinstance(n, ast.ImportFrom) and n.module == 'pjplan.utils':
            for a in n.names:
                if a.asname is None and a.name in uconst:
                    mod.consts[a.name] = uconst[a.name]
                if a.asname is None and a.name == 'TextTable':
                    mod.table_ok = True
        if isinstance(n, ast.ImportFrom) and n.module == 'datetime':
            mod.datetime_ok = any(a.name == 'datetime' and a.asname is None for a in n.names)
        if isinstance(n, ast.Assign):
            for t in n.targets:
                if isinstance(t, ast.Name):
                    top_names.add(t.id)
        if isinstance(n, (ast.FunctionDef, ast.ClassDef)):
            top_names.add(n.name)
    if top_names & (set(mod.consts) | {'TextTable', 'datetime', 'len', 'max', 'str', 'isinstance'}):
        raise Miss('task.py rebinds an imported / builtin name')
    e = [n for n in tree.body if isinstance(n, ast.Assign) and any(isinstance(t, ast.Name) and t.id == 'EMPTY_TASK_ID'
                                                                   for t in n.targets)]
    if len(e) != 1 or ast.unparse(e[0].value) != 'sys.maxsize':
        raise Miss('EMPTY_TASK_ID')
    cls = [n for n in tree.body if isinstance(n, ast.ClassDef) and n.name == '_Repr']
    if len(cls) != 1 or cls[0].bases or cls[0].keywords or cls[0].decorator_list:
        raise Miss('class _Repr')
    nodes = {}
    for b in strip_doc(cls[0].body):
        if isinstance(b, ast.Assign) and len(b.targets) == 1 and isinstance(b.targets[0], ast.Name) \
                and b.targets[0].id == '__DEFAULT_THEME':
            continue
        if not isinstance(b, ast.FunctionDef) or b.name not in METHODS or METHODS[b.name] in nodes:
            raise Miss('_Repr: class-level statement')
        if [ast.unparse(d) for d in b.decorator_list] != ['staticmethod']:
            raise Miss(f'_Repr.{b.name}: decorators')
        a = b.args
        defaults = [ast.unparse(d) for d in a.defaults]
        if a.vararg or a.kwonlyargs or a.posonlyargs or a.kwarg or defaults != (REPR_DEFAULTS if b.name == 'repr' else []):
            raise Miss(f'_Repr.{b.name}: signature')
        nodes[METHODS[b.name]] = b
    if set(nodes) != set(FUNS):
        raise Miss(f'_Repr: methods {sorted(set(FUNS) - set(nodes))} not found')
    mod.params = {k: [x.arg for x in f.args.args] for k, f in nodes.items()}
    mod.returns_str = {k: f.returns is not None and ast.unparse(f.returns) == 'str' for k, f in nodes.items()}
    d = {}
    for k in FUNS:
        tr = Tr(mod, k, nodes[k], mod.params[k])
        d[k] = {'origin': '_Repr.' + nodes[k].name, 'params': mod.params[k], 'body': tr.body}
    d['funs'] = list(FUNS)
    return d


# ---- Lean output

def lean_qstr(s):
    if not all(32 <= ord(c) < 127 and c not in '"\\' for c in s):
        raise Miss(f'string {s!r}')
    return '"' + s + '"'


def lean_expr(e):
    k = e[0]
    if k in ('none', 'listNil'):
        return f'.{k}'
    if k == 'num':
        return f'(.num {e[1]})' if e[1].isdigit() else f'(.num ({e[1]}))'
    if k == 'bool':
        return f'(.bool {"true" if e[1] else "false"})'
    if k == 'var':
        return f'(.var {lean_str(e[1])})'
    if k == 'callFn':
        return f'(.callFn fn_{FUNS[e[1]]} {lean_expr(e[2])})'
    if k == 'prim':
        return f'(.prim {lean_qstr(e[1])} {lean_expr(e[2])})'
    if k in ('cmp', 'bin'):
        return f'(.{k} .{e[1]} {lean_expr(e[2])} {lean_expr(e[3])})'
    if k in ('isNone', 'isNotNone', 'not', 'and', 'or', 'isIn', 'listCons', 'len', 'ite', 'max', 'listIndex', 'newBox',
             'items'):
        return f'(.{k} ' + ' '.join(lean_expr(x) for x in e[1:]) + ')'
    raise Miss(f'lean_expr {e!r}')


def lean_block(b, ind):
    if not b:
        return '[]'
    pad = ' ' * (ind + 1)
    return '[' + (',\n' + pad).join(lean_stmt(s, ind + 1) for s in b) + ']'


def lean_stmt(s, ind):
    k = s[0]
    pad = ' ' * (ind + 2)
    if k == 'assign':
        return f'.assign {lean_str(s[1])} {lean_expr(s[2])}'
    if k == 'ifElse':
        return f'.ifElse {lean_expr(s[1])}\n{pad}{lean_block(s[2], ind + 2)}\n{pad}{lean_block(s[3], ind + 2)}'
    if k == 'forIn':
        return f'.forIn {lean_str(s[1])} {lean_expr(s[2])}\n{pad}{lean_block(s[3], ind + 2)}'
    if k in ('ret', 'expr'):
        return f'.{k} {lean_expr(s[1])}'
    if k == 'boxAppend':
        return f'.boxAppend {lean_expr(s[1])} {lean_expr(s[2])}'
    if k == 'pass':
        return '.pass'
    raise Miss(f'lean_stmt {s!r}')


def to_lean(d):
    out = ('/- GENERATED by tools/extract.py (extract_print) from /repo/src/pjplan/task.py (class _Repr) and utils.py — '
           'do not edit.  Re-checked by `lake build`. -/\n'
           'import PjVerif.Model.PyLite\nnamespace Pj.Extracted.Print\nopen Pj\n\n'
           '/-! the function table of the sheet printer: `callFn k` calls the k-th function below -/\n')
    for i, key in enumerate(d['funs']):
        out += f'def fn_{key} : Nat := {i}\n'
    out += '\n'
    for key in d['funs']:
        m = d[key]
        params = ', '.join('"' + p + '"' for p in m['params'])
        out += (f'/-- `{m["origin"]}`, parameters ({", ".join(m["params"])}) -/\n'
                f'def src_{key} : List PyLite.Stmt :=\n  {lean_block(m["body"], 2)}\n\n'
                f'def src_{key}_params : List String := [{params}]\n\n')
    out += ('/-- the program: function number ↦ parameters and body -/\n'
            'def printFuns : PyLite.FunTable := fun k =>\n')
    for i, key in enumerate(d['funs']):
        out += f'  {"if" if i == 0 else "else if"} k = fn_{key} then some (src_{key}_params, src_{key})\n'
    out += '  else none\n\n'
    return out + 'end Pj.Extracted.Print\n'


# the translation of the source as of the last successful check (fallback when extract() raises Miss)
PINNED = {'calc_max_title_len': {'body': [['assign', 'name_len',
                                  ['ite', ['isNotNone', ['prim', 'name', ['listCons', ['var', 'task'], ['listNil']]]],
                                   ['prim', 'strlen',
                                    ['listCons', ['prim', 'name', ['listCons', ['var', 'task'], ['listNil']]],
                                     ['listNil']]],
                                   ['num', '0']]],
                                 ['assign', '_current_max',
                                  ['max', ['var', '_current_max'],
                                   ['bin', 'add',
                                    ['prim', 'strlen',
                                     ['listCons',
                                      ['prim', 'repeat',
                                       ['listCons', ['prim', 'lit:   ', ['listNil']],
                                        ['listCons', ['var', 'level'], ['listNil']]]],
                                      ['listNil']]],
                                    ['var', 'name_len']]]],
                                 ['forIn', 'ch', ['prim', 'children', ['listCons', ['var', 'task'], ['listNil']]],
                                  [['assign', '_current_max',
                                    ['callFn', 0,
                                     ['listCons', ['var', 'ch'],
                                      ['listCons', ['bin', 'add', ['var', 'level'], ['num', '1']],
                                       ['listCons', ['var', '_current_max'], ['listNil']]]]]]]],
                                 ['ret', ['var', '_current_max']]],
                        'origin': '_Repr.__calc_max_title_len',
                        'params': ['task', 'level', '_current_max']},
 'funs': ['calc_max_title_len', 'get_linked_task_id', 'get_linked_tasks_id', 'get_field_value', 'max_field_len',
          'print_task_subtree', 'repr'],
 'get_field_value': {'body': [['ifElse', ['cmp', 'eq', ['var', 'field'], ['prim', 'lit:predecessors', ['listNil']]],
                               [['ret',
                                 ['prim', 'concat',
                                  ['listCons',
                                   ['prim', 'concat',
                                    ['listCons', ['prim', 'lit:[', ['listNil']],
                                     ['listCons',
                                      ['callFn', 2,
                                       ['listCons', ['var', 't'],
                                        ['listCons',
                                         ['prim', 'predecessors', ['listCons', ['var', 't'], ['listNil']]],
                                         ['listNil']]]],
                                      ['listNil']]]],
                                   ['listCons', ['prim', 'lit:]', ['listNil']], ['listNil']]]]]],
                               []],
                              ['ifElse', ['cmp', 'eq', ['var', 'field'], ['prim', 'lit:successors', ['listNil']]],
                               [['ret',
                                 ['prim', 'concat',
                                  ['listCons',
                                   ['prim', 'concat',
                                    ['listCons', ['prim', 'lit:[', ['listNil']],
                                     ['listCons',
                                      ['callFn', 2,
                                       ['listCons', ['var', 't'],
                                        ['listCons', ['prim', 'successors', ['listCons', ['var', 't'], ['listNil']]],
                                         ['listNil']]]],
                                      ['listNil']]]],
                                   ['listCons', ['prim', 'lit:]', ['listNil']], ['listNil']]]]]],
                               []],
                              ['ifElse', ['cmp', 'eq', ['var', 'field'], ['prim', 'lit:parent', ['listNil']]],
                               [['ret',
                                 ['callFn', 1,
                                  ['listCons', ['var', 't'],
                                   ['listCons', ['prim', 'parent', ['listCons', ['var', 't'], ['listNil']]],
                                    ['listNil']]]]]],
                               []],
                              ['ifElse', ['cmp', 'eq', ['var', 'field'], ['prim', 'lit:id', ['listNil']]],
                               [['ret',
                                 ['prim', 'str',
                                  ['listCons', ['prim', 'id', ['listCons', ['var', 't'], ['listNil']]],
                                   ['listNil']]]]],
                               []],
                              ['ifElse', ['cmp', 'eq', ['var', 'field'], ['prim', 'lit:estimate', ['listNil']]],
                               [['ret',
                                 ['ite', ['isNone', ['prim', 'estimate', ['listCons', ['var', 't'], ['listNil']]]],
                                  ['prim', 'lit:-', ['listNil']],
                                  ['prim', 'str',
                                   ['listCons', ['prim', 'estimate', ['listCons', ['var', 't'], ['listNil']]],
                                    ['listNil']]]]]],
                               []],
                              ['ifElse', ['cmp', 'eq', ['var', 'field'], ['prim', 'lit:spent', ['listNil']]],
                               [['ret',
                                 ['ite', ['isNone', ['prim', 'spent', ['listCons', ['var', 't'], ['listNil']]]],
                                  ['prim', 'lit:-', ['listNil']],
                                  ['prim', 'str',
                                   ['listCons', ['prim', 'spent', ['listCons', ['var', 't'], ['listNil']]],
                                    ['listNil']]]]]],
                               []],
                              ['ifElse',
                               ['not',
                                ['isIn', ['var', 'field'],
                                 ['prim', '__dict__', ['listCons', ['var', 't'], ['listNil']]]]],
                               [['assign', 'field', ['prim', 'lower', ['listCons', ['var', 'field'], ['listNil']]]],
                                ['ifElse',
                                 ['not',
                                  ['isIn', ['var', 'field'],
                                   ['prim', '__dict__', ['listCons', ['var', 't'], ['listNil']]]]],
                                 [['ret', ['prim', 'lit:', ['listNil']]]], []]],
                               []],
                              ['assign', 'v',
                               ['prim', '__getattribute__',
                                ['listCons', ['var', 't'], ['listCons', ['var', 'field'], ['listNil']]]]],
                              ['ifElse', ['prim', 'isinstance:datetime', ['listCons', ['var', 'v'], ['listNil']]],
                               [['ret',
                                 ['prim', 'strftime:%d.%m.%Y %H:%M', ['listCons', ['var', 'v'], ['listNil']]]]],
                               []],
                              ['ifElse', ['isNone', ['var', 'v']], [['ret', ['prim', 'lit:-', ['listNil']]]], []],
                              ['ret', ['prim', 'str', ['listCons', ['var', 'v'], ['listNil']]]]],
                     'origin': '_Repr.__get_field_value',
                     'params': ['t', 'field']},
 'get_linked_task_id': {'body': [['ifElse',
                                  ['or', ['isNone', ['var', 'linked_task']],
                                   ['cmp', 'eq', ['prim', 'id', ['listCons', ['var', 'linked_task'], ['listNil']]],
                                    ['prim', 'EMPTY_TASK_ID', ['listNil']]]],
                                  [['ret', ['prim', 'lit:', ['listNil']]]], []],
                                 ['assign', 'external',
                                  ['cmp', 'ne', ['prim', 'wbs', ['listCons', ['var', 'linked_task'], ['listNil']]],
                                   ['prim', 'wbs', ['listCons', ['var', 'task'], ['listNil']]]]],
                                 ['ret',
                                  ['prim', 'concat',
                                   ['listCons',
                                    ['prim', 'str',
                                     ['listCons', ['prim', 'id', ['listCons', ['var', 'linked_task'], ['listNil']]],
                                      ['listNil']]],
                                    ['listCons',
                                     ['prim', 'str',
                                      ['listCons',
                                       ['ite', ['var', 'external'], ['prim', 'lit:(external)', ['listNil']],
                                        ['prim', 'lit:', ['listNil']]],
                                       ['listNil']]],
                                     ['listNil']]]]]],
                        'origin': '_Repr.__get_linked_task_id',
                        'params': ['task', 'linked_task']},
 'get_linked_tasks_id': {'body': [['assign', 'res', ['listNil']],
                                  ['forIn', 't', ['var', 'linked_tasks'],
                                   [['assign', 'res',
                                     ['bin', 'add', ['var', 'res'],
                                      ['listCons',
                                       ['callFn', 1,
                                        ['listCons', ['var', 'task'], ['listCons', ['var', 't'], ['listNil']]]],
                                       ['listNil']]]]]],
                                  ['ret', ['prim', 'join:,', ['var', 'res']]]],
                         'origin': '_Repr.__get_linked_tasks_id',
                         'params': ['task', 'linked_tasks']},
 'max_field_len': {'body': [['assign', 'max_len',
                             ['bin', 'add', ['prim', 'strlen', ['listCons', ['var', 'field'], ['listNil']]],
                              ['num', '1']]],
                            ['forIn', 't', ['var', 'tasks'],
                             [['assign', 'max_len',
                               ['max', ['var', 'max_len'],
                                ['prim', 'strlen',
                                 ['listCons',
                                  ['callFn', 3,
                                   ['listCons', ['var', 't'], ['listCons', ['var', 'field'], ['listNil']]]],
                                  ['listNil']]]]],
                              ['assign', 'max_len',
                               ['max', ['var', 'max_len'],
                                ['callFn', 4,
                                 ['listCons', ['prim', 'children', ['listCons', ['var', 't'], ['listNil']]],
                                  ['listCons', ['var', 'field'], ['listNil']]]]]]]],
                            ['ret', ['var', 'max_len']]],
                   'origin': '_Repr.__max_field_len',
                   'params': ['tasks', 'field']},
 'print_task_subtree': {'body': [['assign', 'values', ['listNil']],
                                 ['forIn', 'f', ['var', 'fields'],
                                  [['ifElse', ['cmp', 'eq', ['var', 'f'], ['prim', 'lit:name', ['listNil']]],
                                    [['assign', 'values',
                                      ['bin', 'add', ['var', 'values'],
                                       ['listCons',
                                        ['prim', 'concat',
                                         ['listCons',
                                          ['prim', 'repeat',
                                           ['listCons', ['prim', 'lit:   ', ['listNil']],
                                            ['listCons', ['var', 'level'], ['listNil']]]],
                                          ['listCons',
                                           ['ite',
                                            ['isNotNone',
                                             ['prim', 'name', ['listCons', ['var', 'task'], ['listNil']]]],
                                            ['prim', 'name', ['listCons', ['var', 'task'], ['listNil']]],
                                            ['prim', 'lit:', ['listNil']]],
                                           ['listNil']]]],
                                        ['listNil']]]]],
                                    [['assign', 'values',
                                      ['bin', 'add', ['var', 'values'],
                                       ['listCons',
                                        ['callFn', 3,
                                         ['listCons', ['var', 'task'], ['listCons', ['var', 'f'], ['listNil']]]],
                                        ['listNil']]]]]]]],
                                 ['ifElse',
                                  ['isIn', ['prim', 'lit:print_color', ['listNil']],
                                   ['prim', '__dict__', ['listCons', ['var', 'task'], ['listNil']]]],
                                  [['assign', 'color',
                                    ['prim', '__getattribute__',
                                     ['listCons', ['var', 'task'],
                                      ['listCons', ['prim', 'lit:print_color', ['listNil']], ['listNil']]]]]],
                                  [['assign', 'color', ['none']]]],
                                 ['ifElse', ['isNone', ['var', 'color']],
                                  [['assign', 'colors',
                                    ['prim', 'getitem',
                                     ['listCons', ['var', 'theme'],
                                      ['listCons', ['prim', 'lit:level_colors', ['listNil']], ['listNil']]]]],
                                   ['assign', 'color',
                                    ['ite', ['cmp', 'lt', ['var', 'level'], ['len', ['var', 'colors']]],
                                     ['listIndex', ['var', 'colors'], ['var', 'level']],
                                     ['prim', 'lit:97m', ['listNil']]]]],
                                  []],
                                 ['boxAppend', ['var', 'table'], ['bool', True]],
                                 ['boxAppend', ['var', 'table'], ['var', 'color']],
                                 ['forIn', 'v', ['var', 'values'], [['boxAppend', ['var', 'table'], ['var', 'v']]]],
                                 ['ifElse', ['var', 'children'],
                                  [['forIn', 'ch', ['prim', 'children', ['listCons', ['var', 'task'], ['listNil']]],
                                    [['expr',
                                      ['callFn', 5,
                                       ['listCons', ['var', 'ch'],
                                        ['listCons', ['var', 'fields'],
                                         ['listCons', ['bin', 'add', ['var', 'level'], ['num', '1']],
                                          ['listCons', ['var', 'table'],
                                           ['listCons', ['var', 'children'],
                                            ['listCons', ['var', 'theme'], ['listNil']]]]]]]]]]]],
                                  []]],
                        'origin': '_Repr.__print_task_subtree',
                        'params': ['task', 'fields', 'level', 'table', 'children', 'theme']},
 'repr': {'body': [['ifElse', ['isNone', ['var', 'fields']],
                    [['assign', 'fields',
                      ['listCons', ['prim', 'lit:id', ['listNil']],
                       ['listCons', ['prim', 'lit:name', ['listNil']],
                        ['listCons', ['prim', 'lit:resource', ['listNil']],
                         ['listCons', ['prim', 'lit:estimate', ['listNil']],
                          ['listCons', ['prim', 'lit:spent', ['listNil']],
                           ['listCons', ['prim', 'lit:start', ['listNil']],
                            ['listCons', ['prim', 'lit:end', ['listNil']],
                             ['listCons', ['prim', 'lit:predecessors', ['listNil']], ['listNil']]]]]]]]]]],
                    []],
                   ['ifElse', ['isNone', ['var', 'theme']],
                    [['assign', 'theme', ['prim', 'default_theme', ['listNil']]]], []],
                   ['assign', 'header_color',
                    ['ite',
                     ['prim', 'contains',
                      ['listCons', ['var', 'theme'],
                       ['listCons', ['prim', 'lit:header_color', ['listNil']], ['listNil']]]],
                     ['prim', 'getitem',
                      ['listCons', ['var', 'theme'],
                       ['listCons', ['prim', 'lit:header_color', ['listNil']], ['listNil']]]],
                     ['prim', 'lit:97m', ['listNil']]]],
                   ['assign', 'table', ['newBox', ['listNil']]], ['boxAppend', ['var', 'table'], ['bool', True]],
                   ['boxAppend', ['var', 'table'], ['var', 'header_color']],
                   ['forIn', 's', ['var', 'fields'],
                    [['boxAppend', ['var', 'table'], ['prim', 'upper', ['listCons', ['var', 's'], ['listNil']]]]]],
                   ['forIn', '_task', ['var', 'tasks'],
                    [['expr',
                      ['callFn', 5,
                       ['listCons', ['var', '_task'],
                        ['listCons', ['var', 'fields'],
                         ['listCons', ['num', '0'],
                          ['listCons', ['var', 'table'],
                           ['listCons', ['var', 'children'], ['listCons', ['var', 'theme'], ['listNil']]]]]]]]]]],
                   ['ret', ['prim', 'text_repr', ['items', ['var', 'table']]]]],
          'origin': '_Repr.repr',
          'params': ['tasks', 'fields', 'children', 'theme']}}


if __name__ == '__main__':
    # python3 extract_print.py <task.py> <utils.py> [<out.lean> | --pinned]: translate (no pinned fallback)
    import sys
    d = extract(open(sys.argv[1]).read(), open(sys.argv[2]).read())
    if len(sys.argv) > 3 and sys.argv[3] == '--pinned':
        import pprint
        sys.stdout.write('PINNED = ' + pprint.pformat(d, width=118, compact=True) + '\n')
        sys.exit(0)
    text = to_lean(d)
    if len(sys.argv) > 3:
        with open(sys.argv[3], 'w') as f:
            f.write(text)
    else:
        sys.stdout.write(text)
