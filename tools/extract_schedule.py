"""extract_schedule: translate the inner loops of schedule.py into terms of PyLite (lean/PjVerif/Model/PyLite.lean,
scheduler layer):

  _ResourceUsage.__get_key / reserve / reserved                                   (the usage ledger)
  ForwardScheduler.__get_resource_nearest_available_date / __shift_by_resource_usage_and_calendar
  BackwardScheduler.__get_resource_nearest_available_date / __shift_by_resource_usage_and_calendar

Same conventions as extract_calendar (whose expression/statement translator is reused): terms are s-expressions,
anything outside the subset raises Miss - the translator never guesses.  Forms added here:

  expressions  ["dayStart", ["var", d]]      for exactly `datetime(d.year, d.month, d.day, 0, 0, 0, 0)`, `d` a variable
               ["timedeltaHours", e]         `timedelta(hours=e)`
               ["min", a, b]                 `min(a, b)`
               ["sum", l, s]                 `sum(l, s)`
               ["listComp", elt, x, it, c]   `[elt for x in it if c]` (one generator; several `if`s are and-ed)
               ["attr", e, f]                `e.f` where `e` is a local variable (a ResourceUsageRow)
               ["rows"]                      `self.rows` inside _ResourceUsage
               ["app", p, body, arg]         `self.__get_key(arg)` inside _ResourceUsage: __get_key is a @staticmethod
                                             with the single parameter `p` and the body `return body`
               ["mkRow", r, d, t, u]         `ResourceUsageRow(r, d, t, u)` (field order checked against the dataclass)
               ["units", ["var", c], d]      `c.get_available_units(d, <parameter>)`: the second argument is ignored by
                                             resource.py (checked by extract_calendar: `task` is never read)
               ["nearest", c, d, dir]        `c.get_nearest_availability_date(d, dir)` (default max_days)
               ["reserved", r, d, t]         `<ledger>.reserved(r, d[, t])`, `t` = None when omitted (the default, checked)
  statements   ["forRange", x, lo, hi, body] `for x in range([lo,] hi): body`
               ["rowsAppend", e]             `self.rows.append(e)` inside _ResourceUsage
               ["resReserve", c, d, t, u]    `c.reserve(d, t, u)` as a statement, `c` a parameter annotated IResource
               ["augReserve", x, op, r, d, t, u]   `x op= <ledger>.reserve(r, d, t, u)`
`<ledger>` is the parameter annotated `_ResourceUsage`; it may only occur as the receiver of these two calls (no
aliasing, no assignment), which is what lets PyLite keep the ledger as interpreter state.  A boolean position may also
hold `self.<field>` (PyLite's `truth` is stuck on non-bools, so this is safe).  `raise RuntimeError(...)`: the message
may use string constants, variables, `<variable>.<attr>`, f-strings of variables and `<variable>.strftime('<fmt>')`.

The default of `max_steps` is emitted next to each scheduler method (`*_maxSteps`)."""
import ast

import extract_calendar as ec
from extract_calendar import sym_key, Miss, miss, is_none, strip_docstring, no_nested_scope

LEDGER_CLASS = '_ResourceUsage'
ROW_CLASS = 'ResourceUsageRow'
ROW_FIELDS = ['resource', 'date', 'task', 'units']
RESOURCE_CLASS = 'IResource'
NEAREST = '__get_resource_nearest_available_date'
SHIFT = '__shift_by_resource_usage_and_calendar'
NEAREST_PARAMS = ['resource', 'resource_usage', 'start_date', 'task', 'max_steps']
SHIFT_PARAMS = ['resource', 'resource_usage', 'start_date', 'task', 'left_hours', 'max_steps']
KEYS = ['ResourceUsage_get_key', 'ResourceUsage_reserve', 'ResourceUsage_reserved',
        'Fwd_nearest', 'Fwd_shift', 'Bwd_nearest', 'Bwd_shift']


def ann_name(a):
    return a.annotation.id if a is not None and isinstance(a.annotation, ast.Name) else None


class STr(ec.Tr):
    """`ledger`: name of the parameter holding the _ResourceUsage object (scheduler methods);
    `ledger_self`: translating a method of _ResourceUsage itself; `get_key`: (param, body term) of its __get_key;
    `resources`: parameters annotated IResource"""

    def __init__(self, self_name, params, ledger=None, ledger_self=False, get_key=None, resources=()):
        super().__init__(self_name, params)
        self.ledger = ledger
        self.ledger_self = ledger_self
        self.get_key = get_key
        self.resources = set(resources)
        self.scoped = []        # comprehension variables currently in scope

    def known(self, name):
        return name in self.params or name in self.assigned

    def var(self, n):
        """a plain readable variable"""
        if not (isinstance(n, ast.Name) and isinstance(n.ctx, ast.Load)) or n.id == self.self_name \
                or n.id == self.ledger or not self.known(n.id):
            miss(n, 'variable expected')
        return ['var', n.id]

    def cond(self, n):
        if isinstance(n, ast.Attribute) and isinstance(n.value, ast.Name) and n.value.id == self.self_name \
                and self.self_name is not None and not self.ledger_self:
            return self.expr(n)
        if isinstance(n, ast.BoolOp):
            k = 'and' if isinstance(n.op, ast.And) else 'or'
            vals = [self.cond(v) for v in n.values]
            e = vals[-1]
            for v in reversed(vals[:-1]):
                e = [k, v, e]
            return e
        if isinstance(n, ast.UnaryOp) and isinstance(n.op, ast.Not):
            return ['not', self.cond(n.operand)]
        return super().cond(n)

    def is_self_attr(self, n, attr):
        return isinstance(n, ast.Attribute) and n.attr == attr and isinstance(n.value, ast.Name) \
            and self.self_name is not None and n.value.id == self.self_name

    def is_ledger_call(self, n, method, nargs):
        return isinstance(n, ast.Call) and not n.keywords and isinstance(n.func, ast.Attribute) \
            and n.func.attr == method and isinstance(n.func.value, ast.Name) and self.ledger is not None \
            and n.func.value.id == self.ledger and len(n.args) in nargs

    def expr(self, n):
        if isinstance(n, ast.Name) and n.id == self.ledger:
            miss(n, 'the ledger object may only be the receiver of reserved()/reserve()')
        if isinstance(n, ast.BoolOp) or (isinstance(n, ast.UnaryOp) and isinstance(n.op, ast.Not)):
            return self.cond(n)
        if isinstance(n, ast.IfExp):
            return ['ite', self.cond(n.test), self.expr(n.body), self.expr(n.orelse)]
        if isinstance(n, ast.Call) and isinstance(n.func, ast.Name) and not self.known(n.func.id):
            f = n.func.id
            if f == 'datetime':
                # exactly `datetime(d.year, d.month, d.day, 0, 0, 0, 0)` with a variable `d`: midnight of d
                a = n.args
                if n.keywords or len(a) != 7 or not (isinstance(a[0], ast.Attribute)
                                                      and isinstance(a[0].value, ast.Name)):
                    miss(n, 'datetime(...)')
                for x, attr in zip(a[:3], ['year', 'month', 'day']):
                    if not (isinstance(x, ast.Attribute) and x.attr == attr and isinstance(x.value, ast.Name)
                            and x.value.id == a[0].value.id):
                        miss(n, 'datetime(...)')
                for x in a[3:]:
                    if not (isinstance(x, ast.Constant) and type(x.value) is int and x.value == 0):
                        miss(n, 'datetime(...)')
                return ['dayStart', self.var(a[0].value)]
            if f == 'timedelta' and not n.args and len(n.keywords) == 1 and n.keywords[0].arg == 'hours':
                return ['timedeltaHours', self.expr(n.keywords[0].value)]
            if f == 'min' and not n.keywords and len(n.args) == 2:
                a0, a1 = sorted(n.args, key=sym_key)        # min(a, b) and min(b, a) are one term
                return ['min', self.expr(a0), self.expr(a1)]
            if f == 'sum' and not n.keywords and len(n.args) == 2:
                return ['sum', self.expr(n.args[0]), self.expr(n.args[1])]
            if f == ROW_CLASS and not n.keywords and len(n.args) == 4:
                return ['mkRow'] + [self.expr(x) for x in n.args]
            if f == '_day_start':
                miss(n, 'not defined in schedule.py')
        if isinstance(n, ast.ListComp):
            if len(n.generators) != 1:
                miss(n, 'comprehension')
            g = n.generators[0]
            if g.is_async or not isinstance(g.target, ast.Name):
                miss(n, 'comprehension')
            x = g.target.id
            if x == self.self_name or x == self.ledger or self.known(x):
                miss(n, 'comprehension variable shadows a name')
            it = self.expr(g.iter)              # evaluated in the enclosing scope
            self.params = set(self.params) | {x}
            self.scoped.append(x)
            try:
                conds = [self.cond(c) for c in g.ifs] or [['bool', True]]
                c = conds[-1]
                for v in reversed(conds[:-1]):
                    c = ['and', v, c]
                elt = self.expr(n.elt)
            finally:
                self.scoped.pop()
                self.params = set(self.params) - {x}
            return ['listComp', elt, x, it, c]
        if self.ledger_self and self.is_self_attr(n, 'rows') and isinstance(n.ctx, ast.Load):
            return ['rows']
        if self.ledger_self and isinstance(n, ast.Attribute) and isinstance(n.value, ast.Name) \
                and n.value.id == self.self_name:
            miss(n, 'field of the ledger object')
        if isinstance(n, ast.Attribute) and isinstance(n.ctx, ast.Load) and isinstance(n.value, ast.Name) \
                and n.value.id in self.scoped:
            return ['attr', ['var', n.value.id], n.attr]
        if isinstance(n, ast.Call) and not n.keywords and isinstance(n.func, ast.Attribute):
            f = n.func
            if self.ledger_self and self.is_self_attr(f, '__get_key') and len(n.args) == 1 and self.get_key:
                return ['app', self.get_key[0], self.get_key[1], self.expr(n.args[0])]
            if self.is_ledger_call(n, 'reserved', (2, 3)):
                a = [self.expr(x) for x in n.args]
                return ['reserved', a[0], a[1], a[2] if len(a) == 3 else ['none']]
            if isinstance(f.value, ast.Name) and f.value.id in self.resources:
                if f.attr == ec.METHOD and len(n.args) == 2:
                    self.var(n.args[1])         # evaluated and ignored
                    return ['units', self.var(f.value), self.expr(n.args[0])]
                if f.attr == ec.SEARCH and len(n.args) == 2:
                    return ['nearest', self.var(f.value), self.expr(n.args[0]), self.expr(n.args[1])]
                miss(n, 'call on a resource')
        return super().expr(n)

    def harmless(self, n):
        if isinstance(n, ast.Constant) and isinstance(n.value, (str, int, float)):
            return True
        if isinstance(n, ast.Name):
            return self.known(n.id)
        if isinstance(n, ast.Attribute) and isinstance(n.value, ast.Name) and n.value.id in self.resources \
                and n.attr == 'name':
            return True
        if isinstance(n, ast.JoinedStr):
            return all(self.harmless(v) for v in n.values)
        if isinstance(n, ast.FormattedValue):
            return n.conversion == -1 and n.format_spec is None and isinstance(n.value, ast.Name) \
                and self.known(n.value.id)
        if isinstance(n, ast.Call) and isinstance(n.func, ast.Attribute) and n.func.attr == 'strftime' \
                and isinstance(n.func.value, ast.Name) and self.known(n.func.value.id) and not n.keywords \
                and len(n.args) == 1 and isinstance(n.args[0], ast.Constant) and isinstance(n.args[0].value, str):
            return True
        return False

    def target(self, t):
        x = super().target(t)
        if x == self.ledger or x in self.scoped:
            miss(t, 'assignment to the ledger parameter')
        return x

    def stmt(self, s, in_loop):
        if isinstance(s, ast.For) and isinstance(s.iter, ast.Call) and isinstance(s.iter.func, ast.Name) \
                and s.iter.func.id == 'range' and not self.known('range'):
            if s.orelse or s.iter.keywords or len(s.iter.args) not in (1, 2):
                miss(s, 'for-range')
            a = [self.expr(x) for x in s.iter.args]
            lo, hi = (['num', '0'], a[0]) if len(a) == 1 else a
            x = self.target(s.target)
            self.assigned.add(x)
            return ['forRange', x, lo, hi, self.block(s.body, True)]
        if isinstance(s, ast.Expr) and isinstance(s.value, ast.Call) and not s.value.keywords \
                and isinstance(s.value.func, ast.Attribute):
            c = s.value
            f = c.func
            if self.ledger_self and f.attr == 'append' and self.is_self_attr(f.value, 'rows') and len(c.args) == 1:
                return ['rowsAppend', self.expr(c.args[0])]
            if f.attr == 'reserve' and isinstance(f.value, ast.Name) and f.value.id in self.resources \
                    and len(c.args) == 3:
                return ['resReserve', self.var(f.value)] + [self.expr(x) for x in c.args]
            miss(s, 'expression statement')
        if isinstance(s, ast.AugAssign) and type(s.op) in ec.BIN and self.is_ledger_call(s.value, 'reserve', (4,)):
            x = self.target(s.target)
            if not self.known(x):
                miss(s, 'unknown name')
            return ['augReserve', x, ec.BIN[type(s.op)]] + [self.expr(a) for a in s.value.args]
        return super().stmt(s, in_loop)


def class_of(tree, cls):
    found = [c for c in tree.body if isinstance(c, ast.ClassDef) and c.name == cls]
    if len(found) != 1:
        raise Miss(f'class {cls}: {len(found)} definitions')
    return found[0]


def plain_signature(fn, static=False):
    a = fn.args
    decos = [d.id for d in fn.decorator_list if isinstance(d, ast.Name)]
    if len(decos) != len(fn.decorator_list) or decos != (['staticmethod'] if static else []):
        raise Miss(f'{fn.name}: decorators')
    if a.vararg or a.kwarg or a.kwonlyargs or a.posonlyargs:
        raise Miss(f'{fn.name}: signature')
    no_nested_scope(fn)
    return a


def check_module(tree):
    """the names the translation gives a fixed meaning must be the imported / built-in ones"""
    imported = set()
    for n in tree.body:
        if isinstance(n, ast.ImportFrom) and n.module == 'datetime' and n.level == 0:
            imported |= {(a.name, a.asname or a.name) for a in n.names}
    if not {('datetime', 'datetime'), ('timedelta', 'timedelta')} <= imported:
        raise Miss('from datetime import datetime, timedelta')
    fixed = {'datetime', 'timedelta', 'min', 'sum', 'range', 'RuntimeError'}
    for n in ast.walk(tree):
        if isinstance(n, (ast.FunctionDef, ast.ClassDef, ast.AsyncFunctionDef)) and n.name in fixed:
            raise Miss(f'{n.name} is redefined')
        if isinstance(n, ast.Name) and isinstance(n.ctx, (ast.Store, ast.Del)) and n.id in fixed:
            raise Miss(f'{n.id} is redefined')
        if isinstance(n, ast.alias) and (n.asname or n.name) in fixed - {'datetime', 'timedelta'}:
            raise Miss(f'{n.name} is imported')
        if isinstance(n, ast.arg) and n.arg in fixed:
            raise Miss(f'{n.arg} is a parameter')
    # ResourceUsageRow: a frozen dataclass with exactly the fields resource, date, task, units (in this order)
    row = class_of(tree, ROW_CLASS)
    fields = [s.target.id for s in row.body if isinstance(s, ast.AnnAssign) and isinstance(s.target, ast.Name)]
    other = [s for s in row.body if not isinstance(s, ast.AnnAssign)
             and not (isinstance(s, ast.Expr) and isinstance(s.value, ast.Constant) and isinstance(s.value.value, str))]
    if fields != ROW_FIELDS or other or row.bases or len(row.decorator_list) != 1 \
            or ast.unparse(row.decorator_list[0]).replace(' ', '') != 'dataclass(frozen=True)':
        raise Miss(f'{ROW_CLASS}: not the expected dataclass')


def translate_ledger(tree):
    cls = class_of(tree, LEDGER_CLASS)
    if cls.bases or cls.decorator_list:
        raise Miss(f'{LEDGER_CLASS}: bases/decorators')
    names = [f.name for f in cls.body if isinstance(f, (ast.FunctionDef, ast.AsyncFunctionDef))]
    if sorted(names) != sorted(['__init__', '__get_key', 'reserve', 'reserved']) or len(names) != len(cls.body):
        raise Miss(f'{LEDGER_CLASS}: members {names}')
    # __init__: `self.rows = []` is the whole state of the object
    init = ec.method_of(tree, LEDGER_CLASS, '__init__')
    a = plain_signature(init)
    body = strip_docstring(init.body)
    ok = len(a.args) == 1 and len(body) == 1 and isinstance(body[0], (ast.Assign, ast.AnnAssign))
    if ok:
        tgt = body[0].target if isinstance(body[0], ast.AnnAssign) else \
            (body[0].targets[0] if len(body[0].targets) == 1 else None)
        val = body[0].value
        ok = isinstance(tgt, ast.Attribute) and tgt.attr == 'rows' and isinstance(tgt.value, ast.Name) \
            and tgt.value.id == a.args[0].arg and isinstance(val, ast.List) and not val.elts
    if not ok:
        raise Miss(f'{LEDGER_CLASS}.__init__')
    out = {}
    # __get_key(date): a static method whose body is one `return`
    gk = ec.method_of(tree, LEDGER_CLASS, '__get_key')
    a = plain_signature(gk, static=True)
    if len(a.args) != 1 or a.defaults:
        raise Miss('__get_key: parameters')
    p = a.args[0].arg
    body = strip_docstring(gk.body)
    if len(body) != 1 or not isinstance(body[0], ast.Return) or body[0].value is None:
        raise Miss('__get_key: body')
    key_body = STr(None, {p}).expr(body[0].value)
    out['ResourceUsage_get_key'] = {'params': [p], 'body': [['ret', key_body]]}
    # reserve(self, resource, date, task, units)
    fn = ec.method_of(tree, LEDGER_CLASS, 'reserve')
    a = plain_signature(fn)
    names = [x.arg for x in a.args]
    if names[1:] != ['resource', 'date', 'task', 'units'] or a.defaults or ann_name(a.args[1]) != RESOURCE_CLASS:
        raise Miss(f'reserve: parameters {names}')
    tr = STr(names[0], set(names[1:]), ledger_self=True, get_key=(p, key_body), resources=['resource'])
    out['ResourceUsage_reserve'] = {'params': names[1:], 'body': tr.block(strip_docstring(fn.body), False)}
    # reserved(self, resource, date, task=None)
    fn = ec.method_of(tree, LEDGER_CLASS, 'reserved')
    a = plain_signature(fn)
    names = [x.arg for x in a.args]
    if names[1:] != ['resource', 'date', 'task'] or len(a.defaults) != 1 or not is_none(a.defaults[0]):
        raise Miss(f'reserved: parameters {names}')
    tr = STr(names[0], set(names[1:]), ledger_self=True, get_key=(p, key_body))
    out['ResourceUsage_reserved'] = {'params': names[1:], 'body': tr.block(strip_docstring(fn.body), False)}
    return out


def translate_scheduler_method(tree, cls, method, params):
    fn = ec.method_of(tree, cls, method)
    a = plain_signature(fn)
    names = [x.arg for x in a.args]
    if names[1:] != params:
        raise Miss(f'{cls}.{method}: parameters {names}')
    if ann_name(a.args[1]) != RESOURCE_CLASS or ann_name(a.args[2]) != LEDGER_CLASS:
        raise Miss(f'{cls}.{method}: annotations')
    d = a.defaults
    if len(d) != 1 or not isinstance(d[0], ast.Constant) or type(d[0].value) is not int or d[0].value < 0:
        raise Miss(f'{cls}.{method}: default of max_steps')
    readable = set(params) - {'resource_usage'}
    tr = STr(names[0], readable, ledger='resource_usage', resources=['resource'])
    return {'params': params, 'body': tr.block(strip_docstring(fn.body), False), 'maxSteps': d[0].value}


def check_resource(resource_src):
    """`IResource.reserve` is `pass` and `Resource` does not override it"""
    tree = ast.parse(resource_src)
    fn = ec.method_of(tree, RESOURCE_CLASS, 'reserve')
    a = plain_signature(fn)
    body = strip_docstring(fn.body)
    if [x.arg for x in a.args][1:] != ['date', 'task', 'units'] or a.defaults \
            or len(body) != 1 or not isinstance(body[0], ast.Pass):
        raise Miss('IResource.reserve is not `pass`')
    res = class_of(tree, 'Resource')
    if any(isinstance(f, (ast.FunctionDef, ast.AsyncFunctionDef)) and f.name == 'reserve' for f in res.body):
        raise Miss('Resource overrides reserve')


def extract(schedule_src, resource_src=None):
    tree = ast.parse(schedule_src)
    check_module(tree)
    if resource_src is not None:
        check_resource(resource_src)
    out = translate_ledger(tree)
    out['Fwd_nearest'] = translate_scheduler_method(tree, 'ForwardScheduler', NEAREST, NEAREST_PARAMS)
    out['Fwd_shift'] = translate_scheduler_method(tree, 'ForwardScheduler', SHIFT, SHIFT_PARAMS)
    out['Bwd_nearest'] = translate_scheduler_method(tree, 'BackwardScheduler', NEAREST, NEAREST_PARAMS)
    out['Bwd_shift'] = translate_scheduler_method(tree, 'BackwardScheduler', SHIFT, SHIFT_PARAMS)
    return out


# ---- Lean output

def lean_expr(e):
    k = e[0]
    if k == 'rows':
        return '.rows'
    if k == 'attr':
        return f'(.attr {lean_expr(e[1])} {ec.lean_str(e[2])})'
    if k == 'listComp':
        return f'(.listComp {lean_expr(e[1])} {ec.lean_str(e[2])} {lean_expr(e[3])} {lean_expr(e[4])})'
    if k == 'app':
        return f'(.app {ec.lean_str(e[1])} {lean_expr(e[2])} {lean_expr(e[3])})'
    if k in ('min', 'timedeltaHours', 'sum', 'mkRow', 'nearest', 'reserved',
             'isNone', 'isNotNone', 'not', 'dayStart', 'timedelta', 'weekday', 'and', 'or', 'ite', 'units', 'index',
             'isIn'):
        return f'(.{k} ' + ' '.join(lean_expr(x) for x in e[1:]) + ')'
    if k in ('cmp', 'bin'):
        return f'(.{k} .{e[1]} {lean_expr(e[2])} {lean_expr(e[3])})'
    return ec.lean_expr(e)


def lean_block(b, ind):
    if not b:
        return '[]'
    pad = ' ' * (ind + 1)
    return '[' + (',\n' + pad).join(lean_stmt(s, ind + 1) for s in b) + ']'


def lean_stmt(s, ind):
    k = s[0]
    pad = ' ' * (ind + 2)
    if k == 'assign':
        return f'.assign {ec.lean_str(s[1])} {lean_expr(s[2])}'
    if k == 'aug':
        return f'.aug {ec.lean_str(s[1])} .{s[2]} {lean_expr(s[3])}'
    if k == 'ifElse':
        return f'.ifElse {lean_expr(s[1])}\n{pad}{lean_block(s[2], ind + 2)}\n{pad}{lean_block(s[3], ind + 2)}'
    if k == 'forIn':
        return f'.forIn {ec.lean_str(s[1])} {lean_expr(s[2])}\n{pad}{lean_block(s[3], ind + 2)}'
    if k == 'while':
        return f'.while {lean_expr(s[1])}\n{pad}{lean_block(s[2], ind + 2)}'
    if k == 'ret':
        return f'.ret {lean_expr(s[1])}'
    if k == 'forRange':
        return f'.forRange {ec.lean_str(s[1])} {lean_expr(s[2])} {lean_expr(s[3])}\n{pad}{lean_block(s[4], ind + 2)}'
    if k == 'rowsAppend':
        return f'.rowsAppend {lean_expr(s[1])}'
    if k == 'resReserve':
        return '.resReserve ' + ' '.join(lean_expr(x) for x in s[1:])
    if k == 'augReserve':
        return f'.augReserve {ec.lean_str(s[1])} .{s[2]} ' + ' '.join(lean_expr(x) for x in s[3:])
    return ec.lean_stmt(s, ind)


ORIGIN = {
    'ResourceUsage_get_key': '_ResourceUsage.__get_key',
    'ResourceUsage_reserve': '_ResourceUsage.reserve',
    'ResourceUsage_reserved': '_ResourceUsage.reserved',
    'Fwd_nearest': 'ForwardScheduler.' + NEAREST,
    'Fwd_shift': 'ForwardScheduler.' + SHIFT,
    'Bwd_nearest': 'BackwardScheduler.' + NEAREST,
    'Bwd_shift': 'BackwardScheduler.' + SHIFT,
}


def to_lean(d):
    defs = []
    for k in KEYS:
        m = d[k]
        params = ', '.join(m['params'])
        defs.append(f'/-- schedule.py: `{ORIGIN[k]}({params})` -/\n'
                    f'def src_{k} : List PyLite.Stmt :=\n  {lean_block(m["body"], 2)}\n')
        if 'maxSteps' in m:
            defs.append(f'/-- default of `max_steps` of `{ORIGIN[k]}` -/\n'
                        f'def src_{k}_maxSteps : Nat := {m["maxSteps"]}\n')
    return ('/- GENERATED by tools/extract.py (extract_schedule) from /repo/src/pjplan/schedule.py — '
            'do not edit.  Re-checked by `lake build`. -/\n'
            'import PjVerif.Model.PyLite\nnamespace Pj.Extracted\n\n' + '\n'.join(defs) + '\nend Pj.Extracted\n')


# the translation of the source as of the last successful check (fallback when extract() raises Miss)
PINNED = {'ResourceUsage_get_key': {'params': ['date'], 'body': [['ret', ['dayStart', ['var', 'date']]]]},
 'ResourceUsage_reserve': {'params': ['resource', 'date', 'task', 'units'],
                           'body': [['rowsAppend',
                                     ['mkRow', ['var', 'resource'],
                                      ['app', 'date', ['dayStart', ['var', 'date']], ['var', 'date']],
                                      ['var', 'task'], ['var', 'units']]],
                                    ['resReserve', ['var', 'resource'], ['var', 'date'], ['var', 'task'],
                                     ['var', 'units']],
                                    ['ret', ['var', 'units']]]},
 'ResourceUsage_reserved': {'params': ['resource', 'date', 'task'],
                            'body': [['ifElse', ['isNone', ['var', 'task']],
                                      [['assign', 'units',
                                        ['listComp', ['attr', ['var', 'item'], 'units'], 'item', ['rows'],
                                         ['and',
                                          ['cmp', 'eq', ['attr', ['var', 'item'], 'resource'], ['var', 'resource']],
                                          ['cmp', 'eq', ['attr', ['var', 'item'], 'date'],
                                           ['app', 'date', ['dayStart', ['var', 'date']], ['var', 'date']]]]]]],
                                      [['assign', 'units',
                                        ['listComp', ['attr', ['var', 'item'], 'units'], 'item', ['rows'],
                                         ['and',
                                          ['cmp', 'eq', ['attr', ['var', 'item'], 'resource'], ['var', 'resource']],
                                          ['and',
                                           ['cmp', 'eq', ['attr', ['var', 'item'], 'date'],
                                            ['app', 'date', ['dayStart', ['var', 'date']], ['var', 'date']]],
                                           ['cmp', 'eq', ['attr', ['var', 'item'], 'task'], ['var', 'task']]]]]]]],
                                     ['ret', ['sum', ['var', 'units'], ['num', '0']]]]},
 'Fwd_nearest': {'params': ['resource', 'resource_usage', 'start_date', 'task', 'max_steps'],
                 'body': [['assign', 'start_date', ['dayStart', ['var', 'start_date']]],
                          ['assign', 'd', ['nearest', ['var', 'resource'], ['var', 'start_date'], ['num', '1']]],
                          ['forRange', 'i', ['num', '0'], ['var', 'max_steps'],
                           [['assign', 'reserved',
                             ['ite', ['field', 'balance_resources'],
                              ['reserved', ['var', 'resource'], ['var', 'd'], ['none']],
                              ['reserved', ['var', 'resource'], ['var', 'd'], ['var', 'task']]]],
                            ['assign', 'available',
                             ['bin', 'sub', ['units', ['var', 'resource'], ['var', 'd']], ['var', 'reserved']]],
                            ['ifElse', ['cmp', 'gt', ['var', 'available'], ['num', '0']],
                             [['assign', 'percent',
                               ['bin', 'sub', ['num', '1'],
                                ['bin', 'div', ['var', 'available'], ['units', ['var', 'resource'], ['var', 'd']]]]],
                              ['assign', 'd',
                               ['bin', 'add', ['dayStart', ['var', 'd']],
                                ['timedeltaHours', ['bin', 'mul', ['num', '24'], ['var', 'percent']]]]],
                              ['ret', ['var', 'd']]],
                             []],
                            ['aug', 'd', 'add', ['timedelta', ['num', '1']]]]],
                          ['raiseRuntime']],
                 'maxSteps': 100000},
 'Fwd_shift': {'params': ['resource', 'resource_usage', 'start_date', 'task', 'left_hours', 'max_steps'],
               'body': [['ifElse', ['cmp', 'eq', ['var', 'left_hours'], ['num', '0']],
                         [['ret', ['var', 'start_date']]], []],
                        ['assign', 'date',
                         ['bin', 'sub', ['dayStart', ['var', 'start_date']], ['timedelta', ['num', '1']]]],
                        ['assign', 'days', ['num', '0']], ['assign', 'date_available_units', ['num', '0']],
                        ['while', ['cmp', 'gt', ['var', 'left_hours'], ['num', '0']],
                         [['aug', 'date', 'add', ['timedelta', ['num', '1']]],
                          ['assign', 'reserved',
                           ['ite', ['field', 'balance_resources'],
                            ['reserved', ['var', 'resource'], ['var', 'date'], ['none']],
                            ['reserved', ['var', 'resource'], ['var', 'date'], ['var', 'task']]]],
                          ['assign', 'date_available_units', ['units', ['var', 'resource'], ['var', 'date']]],
                          ['assign', 'max_available',
                           ['bin', 'sub', ['var', 'date_available_units'], ['var', 'reserved']]],
                          ['ifElse', ['cmp', 'gt', ['var', 'max_available'], ['num', '0']],
                           [['augReserve', 'left_hours', 'sub', ['var', 'resource'], ['var', 'date'], ['var', 'task'],
                             ['min', ['var', 'left_hours'], ['var', 'max_available']]]],
                           []],
                          ['aug', 'days', 'add', ['num', '1']],
                          ['ifElse', ['cmp', 'gt', ['var', 'days'], ['var', 'max_steps']], [['raiseRuntime']], []]]],
                        ['assign', 'reserved',
                         ['ite', ['field', 'balance_resources'],
                          ['reserved', ['var', 'resource'], ['var', 'date'], ['none']],
                          ['reserved', ['var', 'resource'], ['var', 'date'], ['var', 'task']]]],
                        ['assign', 'percent', ['bin', 'div', ['var', 'reserved'], ['var', 'date_available_units']]],
                        ['ret',
                         ['bin', 'add', ['var', 'date'],
                          ['timedeltaHours', ['bin', 'mul', ['num', '24'], ['var', 'percent']]]]]],
               'maxSteps': 100000},
 'Bwd_nearest': {'params': ['resource', 'resource_usage', 'start_date', 'task', 'max_steps'],
                 'body': [['assign', 'start_date', ['dayStart', ['var', 'start_date']]],
                          ['assign', 'd',
                           ['bin', 'sub', ['nearest', ['var', 'resource'], ['var', 'start_date'], ['num', '-1']],
                            ['timedelta', ['num', '1']]]],
                          ['forRange', 'i', ['num', '0'], ['var', 'max_steps'],
                           [['assign', 'reserved',
                             ['ite', ['field', 'balance_resources'],
                              ['reserved', ['var', 'resource'], ['var', 'd'], ['none']],
                              ['reserved', ['var', 'resource'], ['var', 'd'], ['var', 'task']]]],
                            ['assign', 'available',
                             ['bin', 'sub', ['units', ['var', 'resource'], ['var', 'd']], ['var', 'reserved']]],
                            ['ifElse', ['cmp', 'gt', ['var', 'available'], ['num', '0']],
                             [['assign', 'percent',
                               ['bin', 'sub', ['num', '1'],
                                ['bin', 'div', ['var', 'available'], ['units', ['var', 'resource'], ['var', 'd']]]]],
                              ['assign', 'd',
                               ['bin', 'sub', ['dayStart', ['var', 'd']],
                                ['timedeltaHours', ['bin', 'mul', ['num', '24'], ['var', 'percent']]]]],
                              ['ret', ['var', 'd']]],
                             []],
                            ['aug', 'd', 'add', ['timedelta', ['num', '-1']]]]],
                          ['raiseRuntime']],
                 'maxSteps': 1000},
 'Bwd_shift': {'params': ['resource', 'resource_usage', 'start_date', 'task', 'left_hours', 'max_steps'],
               'body': [['ifElse', ['cmp', 'eq', ['var', 'left_hours'], ['num', '0']],
                         [['ret', ['var', 'start_date']]], []],
                        ['assign', 'date', ['dayStart', ['var', 'start_date']]], ['assign', 'days', ['num', '0']],
                        ['while', ['cmp', 'gt', ['var', 'left_hours'], ['num', '0']],
                         [['aug', 'date', 'add', ['timedelta', ['num', '-1']]],
                          ['assign', 'reserved',
                           ['ite', ['field', 'balance_resources'],
                            ['reserved', ['var', 'resource'], ['var', 'date'], ['none']],
                            ['reserved', ['var', 'resource'], ['var', 'date'], ['var', 'task']]]],
                          ['assign', 'max_available',
                           ['bin', 'sub', ['units', ['var', 'resource'], ['var', 'date']], ['var', 'reserved']]],
                          ['ifElse', ['cmp', 'gt', ['var', 'max_available'], ['num', '0']],
                           [['augReserve', 'left_hours', 'sub', ['var', 'resource'], ['var', 'date'], ['var', 'task'],
                             ['min', ['var', 'left_hours'], ['var', 'max_available']]]],
                           []],
                          ['aug', 'days', 'add', ['num', '1']],
                          ['ifElse', ['cmp', 'gt', ['var', 'days'], ['var', 'max_steps']], [['raiseRuntime']], []]]],
                        ['assign', 'reserved',
                         ['ite', ['field', 'balance_resources'],
                          ['reserved', ['var', 'resource'], ['var', 'date'], ['none']],
                          ['reserved', ['var', 'resource'], ['var', 'date'], ['var', 'task']]]],
                        ['assign', 'percent',
                         ['bin', 'div', ['var', 'reserved'], ['units', ['var', 'resource'], ['var', 'date']]]],
                        ['ret',
                         ['bin', 'sub', ['bin', 'add', ['var', 'date'], ['timedelta', ['num', '1']]],
                          ['timedeltaHours', ['bin', 'mul', ['num', '24'], ['var', 'percent']]]]]],
               'maxSteps': 100000}}


if __name__ == '__main__':
    # python3 extract_schedule.py <schedule.py> [<resource.py> | -] [<out.lean>]: translate (no pinned fallback)
    import sys
    rs = open(sys.argv[2]).read() if len(sys.argv) > 2 and sys.argv[2] != '-' else None
    d = extract(open(sys.argv[1]).read(), rs)
    text = to_lean(d)
    if len(sys.argv) > 3:
        with open(sys.argv[3], 'w') as f:
            f.write(text)
    else:
        sys.stdout.write(text)
