"""extract_pass: translate the recursive passes of schedule.py

  ForwardScheduler.__forward_pass(self, _task, min_date, resource_usage, calculated)
  BackwardScheduler.__backward_pass(self, _task, min_date, resource_usage, calculated)

and the two (textually identical) static methods

  ForwardScheduler.__prepare_tasks(project) / BackwardScheduler.__prepare_tasks(project)

into terms of PyLite (lean/PjVerif/Model/PyLite.lean, pass layer: `Expr.evalP` / `Stmt.execP` / `callP`).

Same conventions as extract_calendar / extract_schedule (whose translators are reused): terms are s-expressions,
anything outside the subset raises Miss - the translator never guesses.  Forms added here:

  expressions  ["attr", ["var", v], f]       `v.f`, `v` a variable holding a task, `f` one of TASK_ATTRS
               ["datetime", days]            `datetime(y, m, d)` with integer literals, as days since 1970-01-01
               ["now"]                       `datetime.now()`
               ["listNil"] ["listCons", a, l]   list displays `[a, b, ...]` (and the argument lists of the calls below)
               ["len", l]                    `len(l)`
               ["max", a, b] ["max3", a, b, c] ["maxList", l] ["minList", l]
                                             `max(a, b)`, `max(a, b, c)`, `max(l)`, `min(l)`
               ["sum", l, ["num", "0"]]      `sum(l)`
               ["isSame", a, b]              `a is b`, both sides `<task variable>.wbs`
               ["calcHas", e]                `id(e) in calculated`, `e` a task variable
               ["resSetdefault", k]          exactly `self.__resources.setdefault(k, Resource(k))`, `k` = `<task variable>.resource`
               ["callSelf", m, args]         `self.__get_resource_nearest_available_date(r, resource_usage, s, t)` and
                                             `self.__shift_by_resource_usage_and_calendar(r, resource_usage, s, t, h)`:
                                             `args` = the arguments without the ledger (max_steps is left to its default);
                                             the signatures are those checked by extract_schedule
               ["field", f]                  `self.__f` for f in SELF_FIELDS and, in the forward pass only, for
                                             f = `start` (FWD_SELF_FIELDS: the project start of ForwardScheduler;
                                             BackwardScheduler has no such attribute); read-only
               ["ite", c, a, b]              `a if c else b` (inherited from extract_schedule): the test first, then
                                             the chosen branch only - as used by the end computation of the forward
                                             pass, `max(end, now, s) if now > self.__start else max(end, s)`, whose
                                             locals `end` / `now` are plain assignments (["assign", x, e])
               ["min", a, b]                 `min(a, b)`, the arguments in source order (they may change the state)
               ["timedelta", e]              `timedelta(days=e)`
               ["reversed", l]               `reversed(l)`, only as the iterable of a `for` statement and only for
                                             `l` = `<task variable>.<task list>` (the pass never changes these lists, so
                                             Python's reverse iterator yields the items of the list, last first)
               `x or y` / `x and y` / conditions may be any translated expression (PyLite's `truthP` is stuck outside
               bool / None / number / datetime)
  statements   ["setAttr", ["var", v], f, e] `v.f = e`, `f` one of TASK_WRITABLE
               `a = b = e` is emitted as `<tmp> = e; a = <tmp>; b = <tmp>` (Python evaluates `e` once and assigns
               left to right); <tmp> is CHAIN_TMP, a name that does not occur in the method
               `v.f op= e` (`f` one of TASK_WRITABLE) is emitted as `v.f = v.f op e`, i.e.
               ["setAttr", ["var", v], f, ["bin", op, ["attr", ["var", v], f], e]]: Python reads `v.f`, then
               evaluates `e`, applies the operator and stores - the order `setAttr` uses; the slots hold immutable
               values (datetimes, numbers, None), for which `op=` is `op`
               ["calcAppend", e]             `calculated.append(id(e))`, `e` a task variable
               ["recurse", args]             `self.<the method itself>(a, b, resource_usage, calculated)` as a statement:
                                             `args` = [a, b]; the ledger and `calculated` must be passed on unchanged
In `__prepare_tasks` the parameter `project` (annotated `WBS`) may only occur as the iterable `project.tasks` of a `for`
statement, emitted as ["attr", ["var", "project"], "tasks"]: the WBS object is an object of the heap whose attribute
`tasks` holds the list of its member tasks (`WBS.tasks` is a property that builds this list; it is read once, when the
loop starts); the loop variable is a task variable.
A comprehension variable may shadow a local of the method (Python 3: a comprehension has its own scope; PyLite binds
the variable for the element/condition only and evaluates the iterable outside).  `resource_usage` and `calculated`
may only occur in the forms above (no aliasing), task variables are never assigned."""
import ast
from datetime import datetime as _dt

import extract_calendar as ec
import extract_schedule as es
from extract_calendar import Miss, miss, strip_docstring

# key of the generated term -> (class, method)
METHODS = {'Fwd_pass': ('ForwardScheduler', '__forward_pass'),
           'Bwd_pass': ('BackwardScheduler', '__backward_pass')}
PREPARE = '__prepare_tasks'
PREPARES = {'Fwd_prepare': 'ForwardScheduler', 'Bwd_prepare': 'BackwardScheduler'}
WBS_CLASS = 'WBS'
WBS_TASKS = 'tasks'
PARAMS = ['_task', 'min_date', 'resource_usage', 'calculated']
LEDGER = 'resource_usage'
CALC = 'calculated'
TASK_LISTS = {'predecessors', 'children', 'successors'}
TASK_WRITABLE = {'start', 'end', 'estimate', 'spent'}
TASK_ATTRS = TASK_LISTS | TASK_WRITABLE | {'wbs', 'milestone', 'resource', 'min_start'}
SELF_FIELDS = {'default_estimate', 'balance_resources'}
# readable fields of `self` per class: the forward scheduler also reads its project start (`self.__start`)
FWD_SELF_FIELDS = SELF_FIELDS | {'start'}
SELF_FIELDS_OF = {'ForwardScheduler': FWD_SELF_FIELDS, 'BackwardScheduler': SELF_FIELDS}
CHAIN_TMP = '_chain_value'
CALLS = {es.NEAREST: es.NEAREST_PARAMS, es.SHIFT: es.SHIFT_PARAMS}


def unmangle(name):
    return name[2:] if name.startswith('__') and not name.endswith('__') else name


class PTr(es.STr):
    def __init__(self, self_name, readable, task_vars, used_names, method, wbs_vars=(), self_fields=SELF_FIELDS):
        super().__init__(self_name, set(readable), ledger=LEDGER, resources=())
        self.self_fields = set(self_fields)  # the fields of `self` the method may read
        self.task_vars = set(task_vars)
        self.used_names = used_names
        self.method = method            # the method being translated (the target of `recurse`); None: no recursion
        self.wbs_vars = set(wbs_vars)   # parameters holding a WBS object: only `<v>.tasks` as a `for` iterable

    # ---- helpers
    def task_var(self, n):
        return isinstance(n, ast.Name) and isinstance(n.ctx, ast.Load) and n.id in self.task_vars \
            and n.id != self.self_name

    def task_attr(self, n, attrs=TASK_ATTRS):
        return isinstance(n, ast.Attribute) and isinstance(n.ctx, ast.Load) and self.task_var(n.value) \
            and n.attr in attrs

    def wbs_tasks(self, n):
        return isinstance(n, ast.Attribute) and isinstance(n.ctx, ast.Load) and isinstance(n.value, ast.Name) \
            and isinstance(n.value.ctx, ast.Load) and n.value.id in self.wbs_vars and n.attr == WBS_TASKS

    def reversed_task_list(self, n):
        """`reversed(<task variable>.<task list>)`: the argument, else None"""
        if isinstance(n, ast.Call) and isinstance(n.func, ast.Name) and n.func.id == 'reversed' and not n.keywords \
                and len(n.args) == 1 and not self.known('reversed') and self.task_attr(n.args[0], TASK_LISTS):
            return n.args[0]
        return None

    def is_id_of_task(self, n):
        return isinstance(n, ast.Call) and isinstance(n.func, ast.Name) and n.func.id == 'id' and not n.keywords \
            and len(n.args) == 1 and self.task_var(n.args[0]) and not self.known('id')

    def self_method(self, n, name):
        return isinstance(n, ast.Call) and isinstance(n.func, ast.Attribute) and n.func.attr == name \
            and isinstance(n.func.value, ast.Name) and n.func.value.id == self.self_name and not n.keywords

    def arg_list(self, items):
        e = ['listNil']
        for x in reversed(items):
            e = ['listCons', x, e]
        return e

    def cond(self, n):
        if isinstance(n, ast.BoolOp):
            k = 'and' if isinstance(n.op, ast.And) else 'or'
            vals = [self.cond(v) for v in n.values]
            e = vals[-1]
            for v in reversed(vals[:-1]):
                e = [k, v, e]
            return e
        if isinstance(n, ast.UnaryOp) and isinstance(n.op, ast.Not):
            return ['not', self.cond(n.operand)]
        return self.expr(n)

    # ---- expressions
    def expr(self, n):
        if isinstance(n, ast.Name) and n.id == CALC:
            miss(n, '`calculated` may only occur as `id(x) in calculated` / `calculated.append(id(x))`')
        if isinstance(n, ast.Name) and n.id in self.wbs_vars:
            miss(n, 'the WBS parameter may only occur as `<wbs>.tasks`, the iterable of a `for`')
        if isinstance(n, ast.Attribute) and isinstance(n.value, ast.Name) and n.value.id == self.self_name:
            f = unmangle(n.attr)
            if not isinstance(n.ctx, ast.Load) or f not in self.self_fields:
                miss(n, 'field of the scheduler')
            return ['field', f]
        if isinstance(n, ast.Attribute):
            if self.task_attr(n):
                return ['attr', ['var', n.value.id], n.attr]
            miss(n, 'attribute')
        if isinstance(n, ast.Compare) and len(n.ops) == 1:
            l, op, r = n.left, n.ops[0], n.comparators[0]
            if isinstance(op, ast.In) and isinstance(r, ast.Name) and r.id == CALC and self.is_id_of_task(l):
                return ['calcHas', ['var', l.args[0].id]]
            if isinstance(op, ast.Is) and not ec.is_none(r):
                if self.task_attr(l, {'wbs'}) and self.task_attr(r, {'wbs'}):
                    return ['isSame', self.expr(l), self.expr(r)]
                miss(n, '`is`')
        if isinstance(n, ast.List) and isinstance(n.ctx, ast.Load):
            if any(isinstance(x, ast.Starred) for x in n.elts):
                miss(n, 'list display')
            return self.arg_list([self.expr(x) for x in n.elts])
        if isinstance(n, ast.ListComp):
            return self.list_comp(n)
        if isinstance(n, ast.Call) and isinstance(n.func, ast.Name) and not self.known(n.func.id) and not n.keywords:
            f, a = n.func.id, n.args
            if any(isinstance(x, ast.Starred) for x in a):
                miss(n, 'starred argument')
            if f == 'datetime' and len(a) == 3 and all(isinstance(x, ast.Constant) and type(x.value) is int for x in a):
                try:
                    d = _dt(*[x.value for x in a]) - _dt(1970, 1, 1)
                except ValueError:
                    miss(n, 'datetime(...)')
                return ['datetime', str(d.days)]
            if f == 'len' and len(a) == 1:
                return ['len', self.expr(a[0])]
            if f == 'max' and len(a) in (1, 2, 3):
                return [{1: 'maxList', 2: 'max', 3: 'max3'}[len(a)]] + [self.expr(x) for x in a]
            if f == 'min' and len(a) == 1:
                return ['minList', self.expr(a[0])]
            if f == 'min' and len(a) == 2:
                return ['min', self.expr(a[0]), self.expr(a[1])]
            if f == 'sum' and len(a) == 1:
                return ['sum', self.expr(a[0]), ['num', '0']]
            if f in ('id', 'Resource', 'len', 'max', 'min', 'reversed'):
                miss(n, f'call of {f}')
        if isinstance(n, ast.Call) and isinstance(n.func, ast.Attribute) and not n.keywords:
            f = n.func
            # datetime.now()
            if f.attr == 'now' and isinstance(f.value, ast.Name) and f.value.id == 'datetime' \
                    and not self.known('datetime') and not n.args:
                return ['now']
            # self.__resources.setdefault(k, Resource(k))
            if f.attr == 'setdefault' and isinstance(f.value, ast.Attribute) and isinstance(f.value.value, ast.Name) \
                    and f.value.value.id == self.self_name and unmangle(f.value.attr) == 'resources':
                if len(n.args) != 2:
                    miss(n, 'setdefault')
                k, dflt = n.args
                ok = self.task_attr(k, {'resource'}) and isinstance(dflt, ast.Call) and not dflt.keywords \
                    and isinstance(dflt.func, ast.Name) and dflt.func.id == 'Resource' and not self.known('Resource') \
                    and len(dflt.args) == 1 and ast.dump(dflt.args[0]) == ast.dump(k)
                if not ok:
                    miss(n, 'setdefault')
                return ['resSetdefault', self.expr(k)]
            # the two inner loops
            for name, params in CALLS.items():
                if self.self_method(n, name):
                    want = params[:-1]              # max_steps keeps its default
                    if len(n.args) != len(want):
                        miss(n, f'arguments of {name}')
                    i = want.index('resource_usage')
                    if not (isinstance(n.args[i], ast.Name) and n.args[i].id == LEDGER):
                        miss(n, f'ledger argument of {name}')
                    args = [self.expr(x) for j, x in enumerate(n.args) if j != i]
                    return ['callSelf', unmangle(name), self.arg_list(args)]
            if isinstance(f.value, ast.Name) and f.value.id == self.self_name:
                miss(n, 'call on self')
        return super().expr(n)

    def list_comp(self, n):
        if len(n.generators) != 1:
            miss(n, 'comprehension')
        g = n.generators[0]
        if g.is_async or not isinstance(g.target, ast.Name):
            miss(n, 'comprehension')
        x = g.target.id
        if x in (self.self_name, LEDGER, CALC) or x in self.scoped:
            miss(n, 'comprehension variable')
        it = self.expr(g.iter)                  # evaluated in the enclosing scope
        over_tasks = self.task_attr(g.iter, TASK_LISTS)
        saved = (set(self.params), set(self.task_vars))
        self.params = set(self.params) | {x}
        self.task_vars = (self.task_vars | {x}) if over_tasks else (self.task_vars - {x})
        self.scoped.append(x)
        try:
            conds = [self.cond(c) for c in g.ifs] or [['bool', True]]
            c = conds[-1]
            for v in reversed(conds[:-1]):
                c = ['and', v, c]
            elt = self.expr(n.elt)
        finally:
            self.scoped.pop()
            self.params, self.task_vars = saved
        return ['listComp', elt, x, it, c]

    # ---- statements
    def target(self, t):
        x = super().target(t)
        if x in (CALC, LEDGER) or x in self.task_vars or x in self.wbs_vars or x == CHAIN_TMP:
            miss(t, 'assignment to a task variable / to a state parameter')
        return x

    def attr_target(self, t):
        if isinstance(t, ast.Attribute) and isinstance(t.ctx, ast.Store) and isinstance(t.value, ast.Name) \
                and t.value.id in self.task_vars and t.value.id not in self.scoped and t.attr in TASK_WRITABLE:
            return ['var', t.value.id], t.attr
        miss(t, 'assignment target')

    def block(self, stmts, in_loop):
        out = []
        for s in stmts:
            r = self.stmt(s, in_loop)
            if r and r[0] == 'seq':
                out.extend(r[1])
            else:
                out.append(r)
        return out

    def stmt(self, s, in_loop):
        if isinstance(s, ast.Assign) and all(isinstance(t, ast.Attribute) for t in s.targets):
            e = self.expr(s.value)
            tg = [self.attr_target(t) for t in s.targets]
            if len(tg) == 1:
                return ['setAttr', tg[0][0], tg[0][1], e]
            if CHAIN_TMP in self.used_names:
                miss(s, f'{CHAIN_TMP} is used')
            self.assigned.add(CHAIN_TMP)
            return ['seq', [['assign', CHAIN_TMP, e]] + [['setAttr', o, f, ['var', CHAIN_TMP]] for o, f in tg]]
        if isinstance(s, ast.Assign) and len(s.targets) > 1:
            miss(s, 'chained assignment')
        if isinstance(s, ast.For):
            if s.orelse:
                miss(s, 'for-else')
            rev = self.reversed_task_list(s.iter)
            wbs = self.wbs_tasks(s.iter)
            it = ['reversed', self.expr(rev)] if rev is not None else \
                ['attr', ['var', s.iter.value.id], WBS_TASKS] if wbs else self.expr(s.iter)
            if not (isinstance(s.target, ast.Name) and isinstance(s.target.ctx, ast.Store)):
                miss(s, 'for target')
            x = s.target.id
            if x in (self.self_name, CALC, LEDGER, CHAIN_TMP) or x in self.params or x in self.wbs_vars:
                miss(s, 'for target')
            if rev is not None or wbs or self.task_attr(s.iter, TASK_LISTS):
                self.task_vars.add(x)
            elif x in self.task_vars:
                miss(s, 'for target')
            self.assigned.add(x)
            return ['forIn', x, it, self.block(s.body, True)]
        if isinstance(s, ast.Expr) and isinstance(s.value, ast.Call):
            c = s.value
            if self.self_method(c, self.method):
                if len(c.args) != len(PARAMS) or any(isinstance(x, ast.Starred) for x in c.args):
                    miss(s, 'recursive call')
                for i, p in enumerate(PARAMS):
                    if p in (LEDGER, CALC) and not (isinstance(c.args[i], ast.Name) and c.args[i].id == p):
                        miss(s, 'recursive call: the ledger and `calculated` must be passed on')
                args = [self.expr(x) for i, x in enumerate(c.args) if PARAMS[i] not in (LEDGER, CALC)]
                return ['recurse', self.arg_list(args)]
            f = c.func
            if isinstance(f, ast.Attribute) and f.attr == 'append' and isinstance(f.value, ast.Name) \
                    and f.value.id == CALC and not c.keywords and len(c.args) == 1 and self.is_id_of_task(c.args[0]):
                return ['calcAppend', ['var', c.args[0].args[0].id]]
            miss(s, 'expression statement')
        if isinstance(s, ast.AugAssign) and isinstance(s.target, ast.Attribute) and type(s.op) in ec.BIN:
            # `v.f op= e` = `v.f = v.f op e` (slots of immutable values)
            o, f = self.attr_target(s.target)
            return ['setAttr', o, f, ['bin', ec.BIN[type(s.op)], ['attr', o, f], self.expr(s.value)]]
        if isinstance(s, (ast.While, ast.AugAssign)):
            miss(s, 'statement')
        return super().stmt(s, in_loop)


def check_module(tree):
    es.check_module(tree)
    fixed = {'max', 'len', 'id', 'Resource', 'Task', 'reversed', WBS_CLASS}
    for n in ast.walk(tree):
        if isinstance(n, (ast.FunctionDef, ast.ClassDef, ast.AsyncFunctionDef)) and n.name in fixed:
            raise Miss(f'{n.name} is redefined')
        if isinstance(n, ast.Name) and isinstance(n.ctx, (ast.Store, ast.Del)) and n.id in fixed:
            raise Miss(f'{n.id} is redefined')
        if isinstance(n, ast.arg) and n.arg in fixed:
            raise Miss(f'{n.arg} is a parameter')
    imported = set()
    for n in tree.body:
        if isinstance(n, ast.ImportFrom) and n.module == 'pjplan' and n.level == 0:
            imported |= {a.name for a in n.names if a.asname is None}
        elif isinstance(n, (ast.Import, ast.ImportFrom)):
            for a in n.names:
                if (a.asname or a.name) in fixed:
                    raise Miss(f'{a.name} is imported')
    if not {'Task', 'Resource', WBS_CLASS} <= imported:
        raise Miss('from pjplan import Task, WBS, Resource')


def extract_method(tree, cls, method):
    # the callees: signatures as extract_schedule expects them
    for name, params in CALLS.items():
        es.translate_scheduler_method(tree, cls, name, params)
    fn = ec.method_of(tree, cls, method)
    a = es.plain_signature(fn)
    names = [x.arg for x in a.args]
    if names[1:] != PARAMS or a.defaults:
        raise Miss(f'{cls}.{method}: parameters {names}')
    if es.ann_name(a.args[1]) != 'Task' or es.ann_name(a.args[3]) != es.LEDGER_CLASS:
        raise Miss(f'{cls}.{method}: annotations')
    if fn.returns is not None:
        raise Miss(f'{cls}.{method}: return annotation')
    used = {n.id for n in ast.walk(fn) if isinstance(n, ast.Name)} | {x.arg for x in a.args}
    tr = PTr(names[0], {'_task', 'min_date'}, {'_task'}, used, method, self_fields=SELF_FIELDS_OF.get(cls, SELF_FIELDS))
    body = tr.block(strip_docstring(fn.body), False)
    return {'params': ['_task', 'min_date'], 'body': body}


def extract_prepare(tree, cls):
    """`@staticmethod def __prepare_tasks(project: WBS)`"""
    fn = ec.method_of(tree, cls, PREPARE)
    a = es.plain_signature(fn, static=True)
    names = [x.arg for x in a.args]
    if len(names) != 1 or a.defaults or es.ann_name(a.args[0]) != WBS_CLASS or fn.returns is not None:
        raise Miss(f'{cls}.{PREPARE}: signature')
    used = {n.id for n in ast.walk(fn) if isinstance(n, ast.Name)} | set(names)
    if names[0] in (LEDGER, CALC, CHAIN_TMP):
        raise Miss(f'{cls}.{PREPARE}: parameter name')
    tr = PTr(None, set(), set(), used, None, wbs_vars=names)
    body = tr.block(strip_docstring(fn.body), False)
    return {'params': names, 'body': body}


def extract(schedule_src):
    """both passes and both `__prepare_tasks`; a Miss in any of them is a Miss of the whole (the caller then falls back
    to PINNED for all)"""
    tree = ast.parse(schedule_src)
    check_module(tree)
    d = {key: extract_method(tree, cls, method) for key, (cls, method) in METHODS.items()}
    d.update({key: extract_prepare(tree, cls) for key, cls in PREPARES.items()})
    return d


# ---- Lean output

def lean_expr(e):
    k = e[0]
    if k in ('now', 'listNil'):
        return f'.{k}'
    if k == 'datetime':
        return f'(.datetime {e[1]})' if e[1].isdigit() else f'(.datetime ({e[1]}))'
    if k == 'callSelf':
        return f'(.callSelf {ec.lean_str(e[1])} {lean_expr(e[2])})'
    if k in ('listCons', 'len', 'max', 'max3', 'maxList', 'minList', 'isSame', 'calcHas', 'resSetdefault', 'reversed',
             'timedelta'):
        return f'(.{k} ' + ' '.join(lean_expr(x) for x in e[1:]) + ')'
    if k == 'attr':
        return f'(.attr {lean_expr(e[1])} {ec.lean_str(e[2])})'
    if k == 'listComp':
        return f'(.listComp {lean_expr(e[1])} {ec.lean_str(e[2])} {lean_expr(e[3])} {lean_expr(e[4])})'
    if k in ('min', 'sum', 'isNone', 'isNotNone', 'not', 'and', 'or', 'ite', 'isIn'):
        return f'(.{k} ' + ' '.join(lean_expr(x) for x in e[1:]) + ')'
    if k in ('cmp', 'bin'):
        return f'(.{k} .{e[1]} {lean_expr(e[2])} {lean_expr(e[3])})'
    if k in ('none', 'num', 'bool', 'var', 'field'):
        return ec.lean_expr(e)
    raise Miss(f'lean_expr {e!r}')


def lean_block(b, ind):
    if not b:
        return '[]'
    pad = ' ' * (ind + 1)
    return '[' + (',\n' + pad).join(lean_stmt(s, ind + 1) for s in b) + ']'


def lean_stmt(s, ind):
    k = s[0]
    pad = ' ' * (ind + 2)
    if k == 'assign':
        return f'.assign {ec.lean_str(s[1])} {lean_expr(s[2])}'
    if k == 'ifElse':
        return f'.ifElse {lean_expr(s[1])}\n{pad}{lean_block(s[2], ind + 2)}\n{pad}{lean_block(s[3], ind + 2)}'
    if k == 'forIn':
        return f'.forIn {ec.lean_str(s[1])} {lean_expr(s[2])}\n{pad}{lean_block(s[3], ind + 2)}'
    if k == 'ret':
        return f'.ret {lean_expr(s[1])}'
    if k == 'setAttr':
        return f'.setAttr {lean_expr(s[1])} {ec.lean_str(s[2])} {lean_expr(s[3])}'
    if k == 'calcAppend':
        return f'.calcAppend {lean_expr(s[1])}'
    if k == 'recurse':
        return f'.recurse {lean_expr(s[1])}'
    if k in ('raiseRuntime', 'continue', 'pass'):
        return f'.{k}'
    raise Miss(f'lean_stmt {s!r}')


def to_lean(d):
    out = ('/- GENERATED by tools/extract.py (extract_pass) from /repo/src/pjplan/schedule.py — '
           'do not edit.  Re-checked by `lake build`. -/\n'
           'import PjVerif.Model.PyLite\nnamespace Pj.Extracted\n\n')
    for key, (cls, method) in METHODS.items():
        m = d[key]
        params = ', '.join('"' + p + '"' for p in m['params'])
        out += (f'/-- schedule.py: `{cls}.{method}(_task, min_date, resource_usage, calculated)`; the ledger\n'
                '    `resource_usage` and the list `calculated` are the interpreter\'s state -/\n'
                f'def src_{key} : List PyLite.Stmt :=\n  {lean_block(m["body"], 2)}\n\n'
                f'/-- the positional parameters bound by a (recursive) call -/\n'
                f'def src_{key}_params : List String := [{params}]\n\n')
    for key, cls in PREPARES.items():
        m = d[key]
        params = ', '.join('"' + p + '"' for p in m['params'])
        out += (f'/-- schedule.py: the static method `{cls}.{PREPARE}({", ".join(m["params"])})`; the parameter is the\n'
                '    WBS object, whose attribute `tasks` is the list of its member tasks -/\n'
                f'def src_{key} : List PyLite.Stmt :=\n  {lean_block(m["body"], 2)}\n\n'
                f'def src_{key}_params : List String := [{params}]\n\n')
    return out + 'end Pj.Extracted\n'


# the translation of the source as of the last successful check (fallback when extract() raises Miss)
PINNED = {'Bwd_pass': {'body': [['ifElse', ['calcHas', ['var', '_task']], [['ret', ['none']]], []],
                                ['forIn', 'pred', ['attr', ['var', '_task'], 'successors'],
                                 [['ifElse', ['isSame', ['attr', ['var', 'pred'], 'wbs'], ['attr', ['var', '_task'], 'wbs']],
                                   [['recurse',
                                     ['listCons', ['var', 'pred'], ['listCons', ['var', 'min_date'], ['listNil']]]]],
                                   []]]],
                                ['assign', 'min_successor_starts',
                                 ['minList',
                                  ['bin', 'add',
                                   ['listComp', ['attr', ['var', 't'], 'start'], 't', ['attr', ['var', '_task'], 'successors'],
                                    ['isNotNone', ['attr', ['var', 't'], 'start']]],
                                   ['listCons', ['var', 'min_date'], ['listNil']]]]],
                                ['forIn', 'ch', ['reversed', ['attr', ['var', '_task'], 'children']],
                                 [['recurse',
                                   ['listCons', ['var', 'ch'], ['listCons', ['var', 'min_successor_starts'], ['listNil']]]]]],
                                ['assign', 'resource', ['resSetdefault', ['attr', ['var', '_task'], 'resource']]],
                                ['assign', 'is_leaf',
                                 ['cmp', 'eq', ['len', ['attr', ['var', '_task'], 'children']], ['num', '0']]],
                                ['ifElse', ['and', ['attr', ['var', '_task'], 'milestone'], ['var', 'is_leaf']],
                                 [['assign', '_chain_value', ['var', 'min_successor_starts']],
                                  ['setAttr', ['var', '_task'], 'start', ['var', '_chain_value']],
                                  ['setAttr', ['var', '_task'], 'end', ['var', '_chain_value']],
                                  ['setAttr', ['var', '_task'], 'estimate', ['num', '0']],
                                  ['setAttr', ['var', '_task'], 'spent', ['num', '0']]],
                                 [['ifElse', ['isNone', ['attr', ['var', '_task'], 'end']],
                                   [['ifElse', ['var', 'is_leaf'],
                                     [['setAttr', ['var', '_task'], 'end', ['var', 'min_successor_starts']],
                                      ['setAttr', ['var', '_task'], 'end',
                                       ['callSelf', 'get_resource_nearest_available_date',
                                        ['listCons', ['var', 'resource'],
                                         ['listCons', ['attr', ['var', '_task'], 'end'],
                                          ['listCons', ['var', '_task'], ['listNil']]]]]],
                                      ['setAttr', ['var', '_task'], 'end',
                                       ['bin', 'add', ['attr', ['var', '_task'], 'end'], ['timedelta', ['num', '1']]]]],
                                     [['assign', 'children_ends',
                                       ['listComp', ['attr', ['var', 't'], 'end'], 't', ['attr', ['var', '_task'], 'children'],
                                        ['isNotNone', ['attr', ['var', 't'], 'end']]]],
                                      ['ifElse', ['cmp', 'eq', ['len', ['var', 'children_ends']], ['num', '0']],
                                       [['setAttr', ['var', '_task'], 'end', ['var', 'min_date']]],
                                       [['setAttr', ['var', '_task'], 'end', ['maxList', ['var', 'children_ends']]]]]]]],
                                   []],
                                  ['ifElse', ['isNone', ['attr', ['var', '_task'], 'estimate']],
                                   [['ifElse', ['var', 'is_leaf'],
                                     [['setAttr', ['var', '_task'], 'estimate', ['field', 'default_estimate']]],
                                     [['setAttr', ['var', '_task'], 'estimate',
                                       ['sum',
                                        ['listComp', ['attr', ['var', 'ch'], 'estimate'], 'ch',
                                         ['attr', ['var', '_task'], 'children'], ['bool', True]],
                                        ['num', '0']]]]]],
                                   []],
                                  ['ifElse', ['isNone', ['attr', ['var', '_task'], 'spent']],
                                   [['ifElse', ['var', 'is_leaf'], [['setAttr', ['var', '_task'], 'spent', ['num', '0']]],
                                     [['setAttr', ['var', '_task'], 'spent',
                                       ['sum',
                                        ['listComp', ['attr', ['var', 'ch'], 'spent'], 'ch',
                                         ['attr', ['var', '_task'], 'children'], ['bool', True]],
                                        ['num', '0']]]]]],
                                   []],
                                  ['ifElse', ['var', 'is_leaf'],
                                   [['assign', 'left_hours',
                                     ['max',
                                      ['bin', 'sub', ['attr', ['var', '_task'], 'estimate'],
                                       ['attr', ['var', '_task'], 'spent']],
                                      ['num', '0']]],
                                    ['assign', 'end', ['min', ['attr', ['var', '_task'], 'end'], ['var', 'min_date']]],
                                    ['assign', 'start',
                                     ['callSelf', 'shift_by_resource_usage_and_calendar',
                                      ['listCons', ['var', 'resource'],
                                       ['listCons', ['var', 'end'],
                                        ['listCons', ['var', '_task'], ['listCons', ['var', 'left_hours'], ['listNil']]]]]]],
                                    ['ifElse', ['isNotNone', ['attr', ['var', '_task'], 'start']],
                                     [['assign', 'start', ['min', ['attr', ['var', '_task'], 'start'], ['var', 'start']]]],
                                     []],
                                    ['setAttr', ['var', '_task'], 'start', ['var', 'start']]],
                                   [['setAttr', ['var', '_task'], 'start',
                                     ['minList',
                                      ['listComp', ['attr', ['var', 't'], 'start'], 't',
                                       ['attr', ['var', '_task'], 'children'],
                                       ['isNotNone', ['attr', ['var', 't'], 'start']]]]]]]]],
                                ['calcAppend', ['var', '_task']]],
                       'params': ['_task', 'min_date']},
          'Bwd_prepare': {'body': [['forIn', 't', ['attr', ['var', 'project'], 'tasks'],
                                    [['ifElse', ['cmp', 'gt', ['len', ['attr', ['var', 't'], 'children']], ['num', '0']],
                                      [['assign', '_chain_value', ['none']],
                                       ['setAttr', ['var', 't'], 'start', ['var', '_chain_value']],
                                       ['setAttr', ['var', 't'], 'end', ['var', '_chain_value']],
                                       ['setAttr', ['var', 't'], 'estimate', ['var', '_chain_value']],
                                       ['setAttr', ['var', 't'], 'spent', ['var', '_chain_value']]],
                                      []]]]],
                          'params': ['project']},
          'Fwd_pass': {'body': [['ifElse', ['calcHas', ['var', '_task']], [['ret', ['none']]], []],
                                ['forIn', 'pred', ['attr', ['var', '_task'], 'predecessors'],
                                 [['ifElse', ['isSame', ['attr', ['var', 'pred'], 'wbs'], ['attr', ['var', '_task'], 'wbs']],
                                   [['recurse',
                                     ['listCons', ['var', 'pred'], ['listCons', ['var', 'min_date'], ['listNil']]]]],
                                   []]]],
                                ['assign', 'max_predecessor_ends',
                                 ['maxList',
                                  ['bin', 'add',
                                   ['listComp', ['attr', ['var', 't'], 'end'], 't', ['attr', ['var', '_task'], 'predecessors'],
                                    ['isNotNone', ['attr', ['var', 't'], 'end']]],
                                   ['listCons', ['var', 'min_date'], ['listNil']]]]],
                                ['forIn', 'ch', ['attr', ['var', '_task'], 'children'],
                                 [['recurse',
                                   ['listCons', ['var', 'ch'], ['listCons', ['var', 'max_predecessor_ends'], ['listNil']]]]]],
                                ['assign', 'resource', ['resSetdefault', ['attr', ['var', '_task'], 'resource']]],
                                ['assign', 'is_leaf',
                                 ['cmp', 'eq', ['len', ['attr', ['var', '_task'], 'children']], ['num', '0']]],
                                ['ifElse', ['and', ['attr', ['var', '_task'], 'milestone'], ['var', 'is_leaf']],
                                 [['assign', '_chain_value', ['var', 'max_predecessor_ends']],
                                  ['setAttr', ['var', '_task'], 'start', ['var', '_chain_value']],
                                  ['setAttr', ['var', '_task'], 'end', ['var', '_chain_value']],
                                  ['setAttr', ['var', '_task'], 'estimate', ['num', '0']],
                                  ['setAttr', ['var', '_task'], 'spent', ['num', '0']]],
                                 [['ifElse', ['isNone', ['attr', ['var', '_task'], 'start']],
                                   [['ifElse', ['var', 'is_leaf'],
                                     [['assign', 'task_min_start',
                                       ['or', ['attr', ['var', '_task'], 'min_start'], ['datetime', '0']]],
                                      ['setAttr', ['var', '_task'], 'start',
                                       ['max3', ['var', 'max_predecessor_ends'], ['now'], ['var', 'task_min_start']]],
                                      ['setAttr', ['var', '_task'], 'start',
                                       ['callSelf', 'get_resource_nearest_available_date',
                                        ['listCons', ['var', 'resource'],
                                         ['listCons', ['attr', ['var', '_task'], 'start'],
                                          ['listCons', ['var', '_task'], ['listNil']]]]]]],
                                     [['assign', 'children_starts',
                                       ['listComp', ['attr', ['var', 't'], 'start'], 't',
                                        ['attr', ['var', '_task'], 'children'],
                                        ['isNotNone', ['attr', ['var', 't'], 'start']]]],
                                      ['ifElse', ['cmp', 'eq', ['len', ['var', 'children_starts']], ['num', '0']],
                                       [['assign', 'children_starts', ['listCons', ['datetime', '0'], ['listNil']]]], []],
                                      ['setAttr', ['var', '_task'], 'start', ['minList', ['var', 'children_starts']]]]]],
                                   []],
                                  ['ifElse', ['isNone', ['attr', ['var', '_task'], 'estimate']],
                                   [['ifElse', ['var', 'is_leaf'],
                                     [['setAttr', ['var', '_task'], 'estimate', ['field', 'default_estimate']]],
                                     [['setAttr', ['var', '_task'], 'estimate',
                                       ['sum',
                                        ['listComp', ['attr', ['var', 'ch'], 'estimate'], 'ch',
                                         ['attr', ['var', '_task'], 'children'], ['bool', True]],
                                        ['num', '0']]]]]],
                                   []],
                                  ['ifElse', ['isNone', ['attr', ['var', '_task'], 'spent']],
                                   [['ifElse', ['var', 'is_leaf'], [['setAttr', ['var', '_task'], 'spent', ['num', '0']]],
                                     [['setAttr', ['var', '_task'], 'spent',
                                       ['sum',
                                        ['listComp', ['attr', ['var', 'ch'], 'spent'], 'ch',
                                         ['attr', ['var', '_task'], 'children'], ['bool', True]],
                                        ['num', '0']]]]]],
                                   []],
                                  ['ifElse', ['isNone', ['attr', ['var', '_task'], 'end']],
                                   [['ifElse', ['var', 'is_leaf'],
                                     [['assign', 'left_hours',
                                       ['max',
                                        ['bin', 'sub', ['attr', ['var', '_task'], 'estimate'],
                                         ['attr', ['var', '_task'], 'spent']],
                                        ['num', '0']]],
                                      ['assign', 'start', ['max', ['attr', ['var', '_task'], 'start'], ['now']]],
                                      ['assign', 'end',
                                       ['callSelf', 'shift_by_resource_usage_and_calendar',
                                        ['listCons', ['var', 'resource'],
                                         ['listCons', ['var', 'start'],
                                          ['listCons', ['var', '_task'], ['listCons', ['var', 'left_hours'], ['listNil']]]]]]],
                                      ['assign', 'now', ['now']],
                                      ['setAttr', ['var', '_task'], 'end',
                                       ['ite', ['cmp', 'gt', ['var', 'now'], ['field', 'start']],
                                        ['max3', ['var', 'end'], ['var', 'now'], ['attr', ['var', '_task'], 'start']],
                                        ['max', ['var', 'end'], ['attr', ['var', '_task'], 'start']]]]],
                                     [['setAttr', ['var', '_task'], 'end',
                                       ['maxList',
                                        ['listComp', ['attr', ['var', 't'], 'end'], 't',
                                         ['attr', ['var', '_task'], 'children'],
                                         ['isNotNone', ['attr', ['var', 't'], 'end']]]]]]]],
                                   []]]],
                                ['calcAppend', ['var', '_task']]],
                       'params': ['_task', 'min_date']},
          'Fwd_prepare': {'body': [['forIn', 't', ['attr', ['var', 'project'], 'tasks'],
                                    [['ifElse', ['cmp', 'gt', ['len', ['attr', ['var', 't'], 'children']], ['num', '0']],
                                      [['assign', '_chain_value', ['none']],
                                       ['setAttr', ['var', 't'], 'start', ['var', '_chain_value']],
                                       ['setAttr', ['var', 't'], 'end', ['var', '_chain_value']],
                                       ['setAttr', ['var', 't'], 'estimate', ['var', '_chain_value']],
                                       ['setAttr', ['var', 't'], 'spent', ['var', '_chain_value']]],
                                      []]]]],
                          'params': ['project']}}


if __name__ == '__main__':
    # python3 extract_pass.py <schedule.py> [<out.lean>]: translate (no pinned fallback)
    import sys
    d = extract(open(sys.argv[1]).read())
    if len(sys.argv) > 2 and sys.argv[2] == '--pinned':
        import pprint
        pprint.pprint(d, width=118, compact=True)
        sys.exit(0)
    text = to_lean(d)
    if len(sys.argv) > 2:
        with open(sys.argv[2], 'w') as f:
            f.write(text)
    else:
        sys.stdout.write(text)
