"""extract_dhtmlx: translate `DhtmlxGantt.__data` (viz/dhtmlx/gantt.py) - the entries and the links, up to but excluding
`json.dumps` - into a PROGRAM of PyLite (lean/PjVerif/Model/PyLite.lean, `progH`).  No construct is added to PyLite; strings
are atoms `.str`, string / task / WBS attributes are library PRIMITIVES (meaning: Lemmas/DhtmlxSrc.lean, `dhtmlxPrim`).
Anything outside the subset raises Miss.  `__columns`, `__task_classes`, `to_html`, the templates are NOT translated.

  function 0  cell_init(self, v)           SYNTHETIC: `self.v = v` - a dict that becomes an ITEM of a list is held by a new
                                           object of the store (PyLite lists hold atoms only): `l.append(d)` is
                                           `l = l + [construct cell_init (d)]`
  function 1  data(self, task_classes)     `DhtmlxGantt.__data`; returns the ARGUMENT of the final
                                           `json.dumps({"data": data, "links": links}, ensure_ascii=False, indent=2)`: the
                                           dict (temporary local `json_arg`) whose two values are objects holding the lists
                                           (dict values are atoms in PyLite: a list as a value of a dict is held by a cell too)

Checked: the class has no base / decorator; `__init__` stores its parameters and no other method assigns an attribute of
`self`; `__data` is a plain method (self, task_classes).
Locals.  `x = []` is a list VALUE; it may only be used as `x.append(e)` (= `x = x + [e]`) and in the final return (no
alias).  `x = {k: v, …}` (distinct constant keys, the values do not mention x) is `x = {}; x[k] = v; …` in source order - a
dict VALUE; `x[k] = e` is `x = dictSet x k e`; `k in x` is `dictHas`; after `l.append(x)` x is not used before it is
assigned again.  `l.append({…})` uses the temporary local `l_item` (a name the source does not use).  `p.get(k)` on the parameter annotated `dict[…]` is
`dictGet`.
`for k, v in t.__dict__.items():` is `for k in <keys of t.__dict__>: v = t.__dict__[k]` (prims `__dict__`,
`__getattribute__`).  `t.a` for a in TASK_ATTRS is ["prim", a, [t]]; `t.gantt_open` is `__getattribute__`.
Truth: comparisons, `in`, `is None`, `t.milestone`, `s.startswith('lit')` are bools; `t.parent` (a Task, no `__bool__` /
`__len__`, or None) is tested by PyLite's truth of a reference / None.
`a + [b]` is list concatenation (`_ImmutableTaskList.__add__` = list + list); `- /` and `max(a, b)` on numbers."""
import ast

from extract_calendar import Miss, miss, is_none, lean_str, CMP
from extract_render import arg_list, lit, lean_qstr

FUNS = ['cell_init', 'data']
TASK_ATTRS = {'name', 'id', 'predecessors', 'milestone', 'start', 'end', '__dict__', 'resource', 'estimate', 'spent',
              'parent', 'all_children'}
BOOL_ATTRS = {'milestone'}
OBJ_ATTRS = {'parent'}
DYN_ATTRS = {'gantt_open'}
INIT = {'wbs': 'wbs', 'height': 'height', 'row_height': 'row_height', 'today_marker': 'today_marker',
        'columns': 'columns', 'scale': 'scale'}
CELL = {'origin': 'synthetic: a dict as an item of a list', 'params': ['self', 'v'],
        'body': [['setAttr', ['var', 'self'], 'v', ['var', 'v']]]}


class Tr:
    def __init__(self, node, datetime_ok):
        self.node, self.datetime_ok = node, datetime_ok
        self.params = [a.arg for a in node.args.args]
        self.known = set(self.params)
        self.kind = {}
        for a in node.args.args:
            if a.annotation is not None and ast.unparse(a.annotation).startswith('dict['):
                self.kind[a.arg] = 'dictparam'
        for n in ast.walk(node):
            if isinstance(n, (ast.Lambda, ast.Global, ast.Nonlocal, ast.With, ast.While, ast.Delete, ast.NamedExpr,
                              ast.Await, ast.AsyncFor, ast.AsyncWith, ast.Starred, ast.Yield, ast.YieldFrom, ast.Try,
                              ast.ClassDef, ast.Break, ast.Continue, ast.GeneratorExp, ast.DictComp, ast.SetComp,
                              ast.ListComp)):
                raise Miss(f'data: {type(n).__name__}')
            if isinstance(n, ast.FunctionDef) and n is not node:
                raise Miss('data: nested def')
        self.dead = set()       # dict locals that were appended and not assigned since
        self.returned = False
        self.body = self.block(node.body)
        if not self.returned:
            raise Miss('data: no final return')

    def set_kind(self, x, k):
        old = self.kind.get(x)
        if old is not None and old != k:
            raise Miss(f'data: the local {x} changes its kind ({old} / {k})')
        self.kind[x] = k

    def is_wbs(self, n):
        return isinstance(n, ast.Attribute) and n.attr == 'wbs' and isinstance(n.value, ast.Name) \
            and n.value.id == 'self' and 'self' in self.params

    def is_str(self, n):
        if isinstance(n, ast.Constant):
            return isinstance(n.value, str)
        if isinstance(n, ast.Call):
            f = n.func
            return (isinstance(f, ast.Name) and f.id == 'str') or (isinstance(f, ast.Attribute) and f.attr == 'strftime')
        return False

    # ---- boolean position
    def test(self, n):
        if isinstance(n, (ast.Compare, ast.BoolOp)) or (isinstance(n, ast.UnaryOp) and isinstance(n.op, ast.Not)):
            return self.expr(n)
        if isinstance(n, ast.Attribute) and n.attr in (BOOL_ATTRS | OBJ_ATTRS) and not self.is_wbs(n):
            return self.expr(n)
        if isinstance(n, ast.Call) and isinstance(n.func, ast.Attribute) and n.func.attr == 'startswith':
            return self.expr(n)
        miss(n, 'truth value')

    def use(self, x, n):
        if x in self.dead:
            miss(n, f'{x} is used after it was appended')
        if self.kind.get(x) == 'list':
            miss(n, f'the list {x} is used as a value')

    # ---- expressions
    def expr(self, n):
        if isinstance(n, ast.Constant):
            v = n.value
            if v is None:
                return ['none']
            if isinstance(v, bool):
                return ['bool', v]
            if isinstance(v, int):
                return ['num', str(v)]
            if isinstance(v, str):
                return lit(v)
            miss(n, 'constant')
        if isinstance(n, ast.Name) and isinstance(n.ctx, ast.Load):
            if n.id in self.known:
                self.use(n.id, n)
                return ['var', n.id]
            miss(n, 'unknown name')
        if isinstance(n, ast.Attribute) and isinstance(n.ctx, ast.Load):
            if self.is_wbs(n):
                return ['prim', 'self.wbs', arg_list([['var', 'self']])]
            if isinstance(n.value, ast.Name) and n.value.id == 'self':
                miss(n, 'attribute of self')
            if n.attr in ('tasks', 'roots') and self.is_wbs(n.value):
                return ['prim', n.attr, arg_list([self.expr(n.value)])]
            if n.attr in TASK_ATTRS:
                return ['prim', n.attr, arg_list([self.expr(n.value)])]
            if n.attr in DYN_ATTRS:
                return ['prim', '__getattribute__', arg_list([self.expr(n.value), lit(n.attr)])]
            miss(n, 'attribute')
        if isinstance(n, ast.Compare):
            if len(n.ops) != 1:
                miss(n, 'comparison chain')
            l, op, r = n.left, n.ops[0], n.comparators[0]
            if isinstance(op, ast.Is) and is_none(r):
                return ['isNone', self.expr(l)]
            if isinstance(op, ast.IsNot) and is_none(r):
                return ['isNotNone', self.expr(l)]
            if isinstance(op, (ast.In, ast.NotIn)):
                if isinstance(r, ast.Attribute) and (r.attr == '__dict__' or (r.attr == 'tasks' and self.is_wbs(r.value))):
                    e = ['isIn', self.expr(l), self.expr(r)]
                elif isinstance(r, ast.Name) and self.kind.get(r.id) == 'dict':
                    e = ['dictHas', self.expr(l), self.expr(r)]
                else:
                    miss(n, 'membership')
                return e if isinstance(op, ast.In) else ['not', e]
            if type(op) in CMP:
                return ['cmp', CMP[type(op)], self.expr(l), self.expr(r)]
            miss(n, 'comparison')
        if isinstance(n, ast.BoolOp):
            k = 'and' if isinstance(n.op, ast.And) else 'or'
            vals = [self.test(v) for v in n.values]
            e = vals[-1]
            for v in reversed(vals[:-1]):
                e = [k, v, e]
            return e
        if isinstance(n, ast.UnaryOp) and isinstance(n.op, ast.Not):
            return ['not', self.test(n.operand)]
        if isinstance(n, ast.BinOp):
            if self.is_str(n.left) or self.is_str(n.right):
                miss(n, 'operator on a str')
            if isinstance(n.op, ast.Add) and isinstance(n.right, ast.List) and isinstance(n.left, ast.Attribute) \
                    and n.left.attr == 'all_children':
                return ['bin', 'add', self.expr(n.left), arg_list([self.expr(x) for x in n.right.elts])]
            if isinstance(n.op, (ast.Sub, ast.Div)) and not isinstance(n.left, ast.List) and not isinstance(n.right, ast.List):
                return ['bin', 'sub' if isinstance(n.op, ast.Sub) else 'div', self.expr(n.left), self.expr(n.right)]
            miss(n, 'operator')
        if isinstance(n, ast.IfExp):
            return ['ite', self.test(n.test), self.expr(n.body), self.expr(n.orelse)]
        if isinstance(n, ast.Call):
            return self.call(n)
        miss(n, 'expression')

    def call(self, n):
        if n.keywords:
            miss(n, 'keyword arguments')
        f, args = n.func, n.args
        if isinstance(f, ast.Name):
            if f.id == 'str' and len(args) == 1:
                return ['prim', 'str', arg_list([self.expr(args[0])])]
            if f.id == 'max' and len(args) == 2:
                return ['max', self.expr(args[0]), self.expr(args[1])]
            miss(n, 'call')
        if isinstance(f, ast.Attribute):
            o = f.value
            if f.attr == 'now' and not args and isinstance(o, ast.Name) and o.id == 'datetime' \
                    and self.datetime_ok and 'datetime' not in self.known:
                return ['prim', 'datetime.now', ['listNil']]
            if f.attr == 'strftime' and len(args) == 1 and isinstance(args[0], ast.Constant) \
                    and isinstance(args[0].value, str):
                return ['prim', 'strftime:' + args[0].value, arg_list([self.expr(o)])]
            if f.attr == 'startswith' and len(args) == 1 and isinstance(args[0], ast.Constant) \
                    and isinstance(args[0].value, str):
                return ['prim', 'startswith:' + args[0].value, arg_list([self.expr(o)])]
            if f.attr == 'get' and len(args) == 1 and isinstance(o, ast.Name) and self.kind.get(o.id) == 'dictparam':
                return ['dictGet', ['var', o.id], self.expr(args[0])]
        miss(n, 'call')

    # ---- statements
    def block(self, stmts):
        out = []
        for s in stmts:
            if self.returned:
                miss(s, 'statement after the return')
            out += self.stmt(s)
        return out

    def dict_display(self, x, v):
        """x = {}; x[k] = v; ... in source order"""
        keys = []
        out = [['assign', x, ['dictNil']]]
        for k, e in zip(v.keys, v.values):
            if not (isinstance(k, ast.Constant) and isinstance(k.value, str)) or k.value in keys:
                miss(v, 'dict display keys')
            keys.append(k.value)
            if any(isinstance(m, ast.Name) and m.id == x for m in ast.walk(e)):
                miss(v, 'dict display mentions its target')
            out.append(['assign', x, ['dictSet', ['var', x], lit(k.value), self.expr(e)]])
        return out

    def stmt(self, s):
        if isinstance(s, ast.Pass):
            return [['pass']]
        if isinstance(s, ast.Return):
            v = s.value
            if self.loop_depth or not (isinstance(v, ast.Call) and ast.unparse(v.func) == 'json.dumps' and len(v.args) == 1
                    and sorted((k.arg, ast.unparse(k.value)) for k in v.keywords) ==
                    [('ensure_ascii', 'False'), ('indent', '2')] and isinstance(v.args[0], ast.Dict)):
                miss(s, 'return')
            d = v.args[0]
            if [k.value if isinstance(k, ast.Constant) else None for k in d.keys] != ['data', 'links'] \
                    or not all(isinstance(e, ast.Name) and self.kind.get(e.id) == 'list' for e in d.values):
                miss(s, 'return')
            self.returned = True
            tmp = 'json_arg'
            if any(isinstance(m, (ast.Name, ast.arg)) and (getattr(m, 'id', None) == tmp or getattr(m, 'arg', None) == tmp)
                   for m in ast.walk(self.node)):
                miss(s, 'the temporary name is taken')
            out = [['assign', tmp, ['dictNil']]]
            for k, e in zip(d.keys, d.values):
                cell = ['construct', FUNS.index('cell_init'), arg_list([['var', e.id]])]
                out.append(['assign', tmp, ['dictSet', ['var', tmp], lit(k.value), cell]])
            return out + [['ret', ['var', tmp]]]
        if isinstance(s, ast.Assign):
            if len(s.targets) != 1:
                miss(s, 'assignment')
            tg, v = s.targets[0], s.value
            if isinstance(tg, ast.Subscript) and isinstance(tg.value, ast.Name) and self.kind.get(tg.value.id) == 'dict':
                x = tg.value.id
                self.use(x, s)
                return [['assign', x, ['dictSet', ['var', x], self.expr(tg.slice), self.expr(v)]]]
            if not isinstance(tg, ast.Name) or tg.id in self.params or self.kind.get(tg.id) == 'loop':
                miss(s, 'assignment')
            x = tg.id
            if isinstance(v, ast.List) and not v.elts:
                if self.loop_depth or x in self.kind:
                    miss(s, 'list local')
                self.set_kind(x, 'list')
                self.known.add(x)
                return [['assign', x, ['listNil']]]
            if isinstance(v, ast.Dict) and v.keys:
                out = self.dict_display(x, v)
                self.set_kind(x, 'dict')
                self.known.add(x)
                self.dead.discard(x)
                return out
            e = self.expr(v)
            self.set_kind(x, 'any')
            self.known.add(x)
            return [['assign', x, e]]
        if isinstance(s, ast.AugAssign):
            if not isinstance(s.target, ast.Name) or not isinstance(s.op, ast.Add) or self.kind.get(s.target.id) != 'any' \
                    or not (isinstance(s.value, ast.Constant) and type(s.value.value) is int):
                miss(s, 'augmented assignment')
            return [['aug', s.target.id, 'add', self.expr(s.value)]]
        if isinstance(s, ast.If):
            c = self.test(s.test)
            d0 = set(self.dead)
            a = self.block(s.body)
            d1, self.dead = self.dead, set(d0)
            b = self.block(s.orelse)
            self.dead |= d1
            return [['ifElse', c, a, b]]
        if isinstance(s, ast.For):
            if s.orelse:
                miss(s, 'for-else')
            t = s.target
            if isinstance(t, ast.Name):
                if t.id in self.params or self.kind.get(t.id) not in (None, 'loop'):
                    miss(s, 'for target')
                e = self.expr(s.iter)
                self.kind[t.id] = 'loop'
                self.known.add(t.id)
                return [['forIn', t.id, e, self.loop_block(s.body)]]
            if isinstance(t, ast.Tuple) and len(t.elts) == 2 and all(isinstance(x, ast.Name) for x in t.elts):
                k, v = t.elts[0].id, t.elts[1].id
                it = s.iter
                if not (isinstance(it, ast.Call) and isinstance(it.func, ast.Attribute) and it.func.attr == 'items'
                        and not it.args and not it.keywords and isinstance(it.func.value, ast.Attribute)
                        and it.func.value.attr == '__dict__' and isinstance(it.func.value.value, ast.Name)):
                    miss(s, 'for over items')
                o = it.func.value.value
                for x in (k, v):
                    if x in self.params or self.kind.get(x) not in (None, 'loop') or x == o.id:
                        miss(s, 'for target')
                keys = self.expr(it.func.value)
                self.kind[k] = self.kind[v] = 'loop'
                self.known |= {k, v}
                return [['forIn', k, keys,
                         [['assign', v, ['prim', '__getattribute__', arg_list([self.expr(o), ['var', k]])]]]
                         + self.loop_block(s.body)]]
            miss(s, 'for')
        if isinstance(s, ast.Expr):
            v = s.value
            if isinstance(v, ast.Constant) and isinstance(v.value, str):
                return []
            if isinstance(v, ast.Call) and isinstance(v.func, ast.Attribute) and v.func.attr == 'append' \
                    and len(v.args) == 1 and not v.keywords and isinstance(v.func.value, ast.Name) \
                    and self.kind.get(v.func.value.id) == 'list':
                l, a = v.func.value.id, v.args[0]
                pre = []
                if isinstance(a, ast.Name) and self.kind.get(a.id) == 'dict':
                    self.use(a.id, s)
                    d = a.id
                    self.dead.add(d)
                elif isinstance(a, ast.Dict) and a.keys:
                    d = l + '_item'
                    if any(isinstance(m, (ast.Name, ast.arg)) and (getattr(m, 'id', None) == d or getattr(m, 'arg', None) == d)
                           for m in ast.walk(self.node)):
                        miss(s, 'the temporary name is taken')
                    pre = self.dict_display(d, a)
                else:
                    miss(s, 'append')
                cell = ['construct', FUNS.index('cell_init'), arg_list([['var', d]])]
                return pre + [['assign', l, ['bin', 'add', ['var', l], arg_list([cell])]]]
        miss(s, 'statement')

    loop_depth = 0

    def loop_block(self, body):
        # a dict local that is dead at the end of the body must be assigned before it is used in the next round:
        # run the body twice on the bookkeeping (the second pass starts from the end state of the first)
        self.loop_depth += 1
        kind0, known0 = dict(self.kind), set(self.known)
        self.block(body)
        out = self.block(body)
        self.loop_depth -= 1
        return out


def extract(src):
    tree = ast.parse(src)
    datetime_ok = any(isinstance(n, ast.ImportFrom) and n.module == 'datetime'
                      and any(a.name == 'datetime' and a.asname is None for a in n.names) for n in tree.body)
    for n in tree.body:
        if isinstance(n, (ast.FunctionDef, ast.Assign)):
            raise Miss('dhtmlx: module-level definition')
    cs = [n for n in tree.body if isinstance(n, ast.ClassDef) and n.name == 'DhtmlxGantt']
    if len(cs) != 1 or cs[0].bases or cs[0].keywords or cs[0].decorator_list:
        raise Miss('class DhtmlxGantt')
    node, seen = None, set()
    for b in cs[0].body:
        if isinstance(b, ast.Expr) and isinstance(b.value, ast.Constant):
            continue
        if not isinstance(b, ast.FunctionDef) or b.name in seen:
            raise Miss('DhtmlxGantt: class-level statement')
        seen.add(b.name)
        stores = [m for m in ast.walk(b) if isinstance(m, ast.Attribute) and isinstance(m.ctx, (ast.Store, ast.Del))]
        if b.name == '__init__':
            got = {}
            for st in b.body:
                tgt = st.targets[0] if isinstance(st, ast.Assign) and len(st.targets) == 1 else None
                if not (isinstance(tgt, ast.Attribute) and isinstance(tgt.value, ast.Name) and tgt.value.id == 'self') \
                        or tgt.attr in got:
                    raise Miss('DhtmlxGantt.__init__')
                got[tgt.attr] = ast.unparse(st.value)
            if got != INIT:
                raise Miss(f'DhtmlxGantt.__init__: {got}')
            continue
        if stores:
            raise Miss(f'DhtmlxGantt.{b.name} assigns an attribute')
        if b.name == '__data':
            a = b.args
            if b.decorator_list or a.vararg or a.kwonlyargs or a.posonlyargs or a.kwarg or a.defaults \
                    or [x.arg for x in a.args] != ['self', 'task_classes']:
                raise Miss('DhtmlxGantt.__data: signature')
            node = b
    if node is None or '__init__' not in seen:
        raise Miss('DhtmlxGantt: methods')
    tr = Tr(node, datetime_ok)
    return {'cell_init': CELL,
            'data': {'origin': 'DhtmlxGantt.__data', 'params': tr.params, 'body': tr.body},
            'funs': list(FUNS)}


# ---- Lean output

def lean_expr(e):
    k = e[0]
    if k in ('none', 'listNil', 'dictNil'):
        return f'.{k}'
    if k == 'num':
        return f'(.num {e[1]})' if e[1].isdigit() else f'(.num ({e[1]}))'
    if k == 'bool':
        return f'(.bool {"true" if e[1] else "false"})'
    if k == 'var':
        return f'(.var {lean_str(e[1])})'
    if k == 'construct':
        return f'(.construct fn_{FUNS[e[1]]} {lean_expr(e[2])})'
    if k == 'prim':
        return f'(.prim {lean_qstr(e[1])} {lean_expr(e[2])})'
    if k == 'cmp':
        return f'(.cmp .{e[1]} {lean_expr(e[2])} {lean_expr(e[3])})'
    if k == 'bin':
        return f'(.bin .{e[1]} {lean_expr(e[2])} {lean_expr(e[3])})'
    if k in ('isNone', 'isNotNone', 'not', 'and', 'or', 'isIn', 'listCons', 'ite', 'max', 'dictSet', 'dictHas', 'dictGet'):
        return f'(.{k} ' + ' '.join(lean_expr(x) for x in e[1:]) + ')'
    raise Miss(f'lean_expr {e!r}')


def lean_block(b, ind):
    if not b:
        return '[]'
    pad = ' ' * (ind + 1)
    return '[' + (',\n' + pad).join(lean_stmt(s, ind + 1) for s in b) + ']'


def lean_stmt(s, ind):
    k = s[0]
    pad = ' ' * (ind + 2)
    if k == 'assign':
        return f'.assign {lean_str(s[1])} {lean_expr(s[2])}'
    if k == 'aug':
        return f'.aug {lean_str(s[1])} .{s[2]} {lean_expr(s[3])}'
    if k == 'setAttr':
        return f'.setAttr {lean_expr(s[1])} {lean_str(s[2])} {lean_expr(s[3])}'
    if k == 'ifElse':
        return f'.ifElse {lean_expr(s[1])}\n{pad}{lean_block(s[2], ind + 2)}\n{pad}{lean_block(s[3], ind + 2)}'
    if k == 'forIn':
        return f'.forIn {lean_str(s[1])} {lean_expr(s[2])}\n{pad}{lean_block(s[3], ind + 2)}'
    if k == 'ret':
        return f'.ret {lean_expr(s[1])}'
    if k == 'pass':
        return '.pass'
    raise Miss(f'lean_stmt {s!r}')


def to_lean(d):
    out = ('/- GENERATED by tools/extract.py (extract_dhtmlx) from /repo/src/pjplan/viz/dhtmlx/gantt.py — '
           'do not edit.  Re-checked by `lake build`. -/\n'
           'import PjVerif.Model.PyLite\nnamespace Pj.Extracted.Dhtmlx\nopen Pj\n\n'
           '/-! the function table of the DHTMLX data section: `construct fn_cell_init` makes the object holding a dict -/\n')
    for i, key in enumerate(d['funs']):
        out += f'def fn_{key} : Nat := {i}\n'
    out += '\n'
    for key in d['funs']:
        m = d[key]
        params = ', '.join('"' + p + '"' for p in m['params'])
        out += (f'/-- `{m["origin"]}`, parameters ({", ".join(m["params"])}) -/\n'
                f'def src_{key} : List PyLite.Stmt :=\n  {lean_block(m["body"], 2)}\n\n'
                f'def src_{key}_params : List String := [{params}]\n\n')
    out += ('/-- the program: function number ↦ parameters and body -/\n'
            'def dhtmlxFuns : PyLite.FunTable := fun k =>\n')
    for i, key in enumerate(d['funs']):
        out += f'  {"if" if i == 0 else "else if"} k = fn_{key} then some (src_{key}_params, src_{key})\n'
    out += '  else none\n\n'
    return out + 'end Pj.Extracted.Dhtmlx\n'


# the translation of the source as of the last successful check (fallback when extract() raises Miss)
PINNED_JSON = r'''{"cell_init": {"origin": "synthetic: a dict as an item of a list", "params": ["self", "v"], "body": [["setAttr", ["var", "self"], "v", ["var", "v"]]]}, "data": {"origin": "DhtmlxGantt.__data", "params": ["self", "task_classes"], "body": [["assign", "data", ["listNil"]], ["assign", "links", ["listNil"]], ["assign", "link_id", ["num", "0"]], ["forIn", "_root", ["prim", "roots", ["listCons", ["prim", "self.wbs", ["listCons", ["var", "self"], ["listNil"]]], ["listNil"]]], [["forIn", "t", ["bin", "add", ["prim", "all_children", ["listCons", ["var", "_root"], ["listNil"]]], ["listCons", ["var", "_root"], ["listNil"]]], [["assign", "progress", ["num", "0"]], ["ifElse", ["cmp", "lt", ["prim", "end", ["listCons", ["var", "t"], ["listNil"]]], ["prim", "datetime.now", ["listNil"]]], [["assign", "progress", ["num", "1"]]], [["ifElse", ["and", ["cmp", "gt", ["prim", "estimate", ["listCons", ["var", "t"], ["listNil"]]], ["num", "0"]], ["isNotNone", ["prim", "spent", ["listCons", ["var", "t"], ["listNil"]]]]], [["assign", "progress", ["bin", "sub", ["num", "1"], ["bin", "div", ["max", ["bin", "sub", ["prim", "estimate", ["listCons", ["var", "t"], ["listNil"]]], ["prim", "spent", ["listCons", ["var", "t"], ["listNil"]]]], ["num", "0"]], ["prim", "estimate", ["listCons", ["var", "t"], ["listNil"]]]]]]], []]]], ["assign", "data_val", ["dictNil"]], ["assign", "data_val", ["dictSet", ["var", "data_val"], ["prim", "lit:id", ["listNil"]], ["prim", "id", ["listCons", ["var", "t"], ["listNil"]]]]], ["assign", "data_val", ["dictSet", ["var", "data_val"], ["prim", "lit:text", ["listNil"]], ["prim", "name", ["listCons", ["var", "t"], ["listNil"]]]]], ["assign", "data_val", ["dictSet", ["var", "data_val"], ["prim", "lit:type", ["listNil"]], ["ite", ["prim", "milestone", ["listCons", ["var", "t"], ["listNil"]]], ["prim", "lit:milestone", ["listNil"]], ["prim", "lit:task", ["listNil"]]]]], ["assign", "data_val", ["dictSet", ["var", "data_val"], ["prim", "lit:start_date", ["listNil"]], ["prim", "strftime:%d-%m-%Y %H:%M", ["listCons", ["prim", "start", ["listCons", ["var", "t"], ["listNil"]]], ["listNil"]]]]], ["assign", "data_val", ["dictSet", ["var", "data_val"], ["prim", "lit:end_date", ["listNil"]], ["prim", "strftime:%d-%m-%Y %H:%M", ["listCons", ["prim", "end", ["listCons", ["var", "t"], ["listNil"]]], ["listNil"]]]]], ["assign", "data_val", ["dictSet", ["var", "data_val"], ["prim", "lit:resource", ["listNil"]], ["prim", "resource", ["listCons", ["var", "t"], ["listNil"]]]]], ["assign", "data_val", ["dictSet", ["var", "data_val"], ["prim", "lit:estimate", ["listNil"]], ["prim", "estimate", ["listCons", ["var", "t"], ["listNil"]]]]], ["assign", "data_val", ["dictSet", ["var", "data_val"], ["prim", "lit:spent", ["listNil"]], ["prim", "spent", ["listCons", ["var", "t"], ["listNil"]]]]], ["assign", "data_val", ["dictSet", ["var", "data_val"], ["prim", "lit:open", ["listNil"]], ["ite", ["isIn", ["prim", "lit:gantt_open", ["listNil"]], ["prim", "__dict__", ["listCons", ["var", "t"], ["listNil"]]]], ["prim", "__getattribute__", ["listCons", ["var", "t"], ["listCons", ["prim", "lit:gantt_open", ["listNil"]], ["listNil"]]]], ["prim", "lit:true", ["listNil"]]]]], ["assign", "data_val", ["dictSet", ["var", "data_val"], ["prim", "lit:parent", ["listNil"]], ["ite", ["and", ["prim", "parent", ["listCons", ["var", "t"], ["listNil"]]], ["isIn", ["prim", "parent", ["listCons", ["var", "t"], ["listNil"]]], ["prim", "tasks", ["listCons", ["prim", "self.wbs", ["listCons", ["var", "self"], ["listNil"]]], ["listNil"]]]]], ["prim", "id", ["listCons", ["prim", "parent", ["listCons", ["var", "t"], ["listNil"]]], ["listNil"]]], ["num", "0"]]]], ["assign", "data_val", ["dictSet", ["var", "data_val"], ["prim", "lit:progress", ["listNil"]], ["var", "progress"]]], ["assign", "data_val", ["dictSet", ["var", "data_val"], ["prim", "lit:css_class", ["listNil"]], ["dictGet", ["var", "task_classes"], ["prim", "id", ["listCons", ["var", "t"], ["listNil"]]]]]], ["forIn", "k", ["prim", "__dict__", ["listCons", ["var", "t"], ["listNil"]]], [["assign", "v", ["prim", "__getattribute__", ["listCons", ["var", "t"], ["listCons", ["var", "k"], ["listNil"]]]]], ["ifElse", ["and", ["not", ["dictHas", ["var", "k"], ["var", "data_val"]]], ["not", ["prim", "startswith:_Task", ["listCons", ["var", "k"], ["listNil"]]]]], [["assign", "data_val", ["dictSet", ["var", "data_val"], ["var", "k"], ["prim", "str", ["listCons", ["var", "v"], ["listNil"]]]]]], []]]], ["assign", "data", ["bin", "add", ["var", "data"], ["listCons", ["construct", 0, ["listCons", ["var", "data_val"], ["listNil"]]], ["listNil"]]]], ["forIn", "p", ["prim", "predecessors", ["listCons", ["var", "t"], ["listNil"]]], [["aug", "link_id", "add", ["num", "1"]], ["assign", "links_item", ["dictNil"]], ["assign", "links_item", ["dictSet", ["var", "links_item"], ["prim", "lit:id", ["listNil"]], ["var", "link_id"]]], ["assign", "links_item", ["dictSet", ["var", "links_item"], ["prim", "lit:source", ["listNil"]], ["prim", "id", ["listCons", ["var", "p"], ["listNil"]]]]], ["assign", "links_item", ["dictSet", ["var", "links_item"], ["prim", "lit:target", ["listNil"]], ["prim", "id", ["listCons", ["var", "t"], ["listNil"]]]]], ["assign", "links_item", ["dictSet", ["var", "links_item"], ["prim", "lit:type", ["listNil"]], ["prim", "lit:0", ["listNil"]]]], ["assign", "links", ["bin", "add", ["var", "links"], ["listCons", ["construct", 0, ["listCons", ["var", "links_item"], ["listNil"]]], ["listNil"]]]]]]]]]], ["assign", "json_arg", ["dictNil"]], ["assign", "json_arg", ["dictSet", ["var", "json_arg"], ["prim", "lit:data", ["listNil"]], ["construct", 0, ["listCons", ["var", "data"], ["listNil"]]]]], ["assign", "json_arg", ["dictSet", ["var", "json_arg"], ["prim", "lit:links", ["listNil"]], ["construct", 0, ["listCons", ["var", "links"], ["listNil"]]]]], ["ret", ["var", "json_arg"]]]}, "funs": ["cell_init", "data"]}'''


def pinned():
    import json
    return json.loads(PINNED_JSON)


if __name__ == '__main__':
    # python3 extract_dhtmlx.py <gantt.py> [<out.lean> | --pinned]
    import sys
    d = extract(open(sys.argv[1]).read())
    if len(sys.argv) > 2 and sys.argv[2] == '--pinned':
        import json
        sys.stdout.write(json.dumps(d))
        sys.exit(0)
    text = to_lean(d)
    if len(sys.argv) > 2:
        with open(sys.argv[2], 'w') as f:
            f.write(text)
    else:
        sys.stdout.write(text)
