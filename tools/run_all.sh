#!/bin/sh
# run_all.sh [tier] [seed] [parallel] : every registered check once (from MANIFEST.json), in parallel; prints one line per check
TIER=${1:-quick}; SEED=${2:-0}; PAR=${3:-6}
cd "$(dirname "$0")/.."
mkdir -p out/logs
python3 -c "import json;print('\n'.join(c['property_id'] for c in json.load(open('MANIFEST.json'))['checks']))" | \
  xargs -P "$PAR" -I{} sh -c "VERIF_SEED=$SEED ./check {} --tier $TIER > out/logs/{}.$TIER.$SEED.log 2>&1; echo {} exit \$? \$(grep -c '^VIOLATION' out/logs/{}.$TIER.$SEED.log) violations \$(grep -c '^KNOWN-FINDING' out/logs/{}.$TIER.$SEED.log) known \$(tail -1 out/logs/{}.$TIER.$SEED.log | sed 's/.*monitor failures, //')"
