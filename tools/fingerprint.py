#!/usr/bin/env python3
"""fingerprint.py [--pin] : structural fingerprints of the modelled source files of /repo.

The hand-written Lean model is tied to the code by the correspondence stream, whose size is fixed.  When a modelled
source file no longer has the structure (AST without docstrings, comments and formatting) it had when the model was last
validated against it, the quick tier widens its stream (see harness/main.py: `drift`) - a changed file is where a
disagreement is most likely, and a wider search costs nothing on the unchanged tree.  A drifted fingerprint is never
reported as a violation by itself: a harmless rewrite changes it too.

  fingerprint.py          prints {"drift": [files whose fingerprint differs from tools/pinned_fingerprints.json], ...}
  fingerprint.py --pin    rewrites tools/pinned_fingerprints.json from the current /repo (run after a `fix:` commit,
                          once the checks have passed on it; use the interpreter the checks run under: /venv/bin/python)
"""
import ast, hashlib, json, os, sys

V = os.path.dirname(os.path.dirname(os.path.abspath(__file__)))
REPO = os.environ.get('PJPLAN_REPO', '/repo')
SRC = os.path.join(REPO, 'src', 'pjplan')
PIN = os.path.join(V, 'tools', 'pinned_fingerprints.json')
PYV = '%d.%d' % sys.version_info[:2]

# which source files each family's model mirrors
FILES = {
    'fam_cal': ['calendar.py', 'resource.py'],
    'fam_graph': ['task.py', 'wbs.py'],
    'fam_clone': ['wbs.py', 'task.py'],
    'fam_query': ['task.py', 'wbs.py'],
    'fam_sched': ['schedule.py', 'resource.py', 'calendar.py', 'wbs.py'],
    'fam_cp': ['alg/critical_path.py'],
    'fam_csv': ['io/csv_io.py', 'io/raw.py'],
    'fam_print': ['task.py', 'utils.py', 'schedule.py'],
    'fam_render': ['viz/mermaid/gantt.py', 'viz/mermaid/network.py', 'viz/dhtmlx/gantt.py'],
}


def strip_docstrings(tree):
    for node in ast.walk(tree):
        if isinstance(node, (ast.FunctionDef, ast.ClassDef, ast.AsyncFunctionDef, ast.Module)):
            b = node.body
            if b and isinstance(b[0], ast.Expr) and isinstance(getattr(b[0], 'value', None), ast.Constant) \
                    and isinstance(b[0].value.value, str):
                node.body = b[1:] or [ast.Pass()]
    return tree


def fingerprint(rel):
    path = os.path.join(SRC, rel)
    if not os.path.exists(path):
        return None
    try:
        tree = strip_docstrings(ast.parse(open(path, encoding='utf-8').read()))
    except SyntaxError:
        return 'syntax-error'
    return hashlib.sha256(ast.dump(tree, include_attributes=False).encode()).hexdigest()[:24]


def all_files():
    res = set()
    for fs in FILES.values():
        res.update(fs)
    # renderers may live under other names: fingerprint whatever exists below viz/
    for root, _, names in os.walk(os.path.join(SRC, 'viz')):
        for n in names:
            if n.endswith('.py'):
                res.add(os.path.relpath(os.path.join(root, n), SRC))
    return sorted(res)


def current():
    return {f: fingerprint(f) for f in all_files()}


def drift(family=None):
    try:
        pinned = json.load(open(PIN))
    except Exception:
        return {'drift': [], 'pinned': False}
    if pinned.get('_python') != PYV:
        # ast.dump differs between Python versions: fingerprints are only comparable under the interpreter that pinned them
        return {'drift': [], 'pinned': False, 'note': f'pinned under Python {pinned.get("_python")}, running {PYV}'}
    cur = current()
    files = all_files() if family is None else sorted(set(FILES.get(family, [])) | ({f for f in cur if f.startswith('viz/')} if family == 'fam_render' else set()))
    return {'drift': [f for f in files if cur.get(f) != pinned.get(f)], 'pinned': True}


if __name__ == '__main__':
    if '--pin' in sys.argv:
        json.dump(dict(current(), _python=PYV), open(PIN, 'w'), indent=1, sort_keys=True)
        print('pinned', len(current()), 'files')
    else:
        print(json.dumps(drift(sys.argv[1] if len(sys.argv) > 1 else None)))
