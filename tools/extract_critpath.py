"""extract_critpath: translate alg/critical_path.py - the classes `_PNode`, `_PLink`, `CriticalPathCalculator` - and the
method `WBS.critical_path` of wbs.py into a PROGRAM of PyLite (lean/PjVerif/Model/PyLite.lean, pass layer, "critical-path
constructs"; `progH`).  The path translated is the one `WBS.critical_path()` takes: `end_date = None`.

  critical_path.py  _PNode.__init__(self)                          key PNode_init
                    _PLink.__init__(self, units, start, end)       key PLink_init
                    CriticalPathCalculator.__init__(self, tasks, end_date)   key CPC_init
                      .__insert_task(self, task)                   key CPC_insert_task
                      .__new_node(self)                            key CPC_new_node
                      .__connect(start, end, units)  (static)      key CPC_connect
                      .__add_work(self, id, units, predecessors)   key CPC_add_work
                      .__forward(self, node) / .__backward(self, node)       keys CPC_forward / CPC_backward
                      .calc(self)                                  key CPC_calc
  wbs.py            WBS.critical_path(self)                        key WBS_critical_path  (parameter `tasks` = the value
                                                                   of `self.tasks`; checked: the body is
                                                                   `return CriticalPathCalculator(self.tasks, None).calc()`)

Terms are s-expressions (lists); anything outside the subset raises Miss.

Objects.  Instances of the three classes are objects of the store.  `C(args...)` is ["construct", k, args] (k = the
number of `C.__init__`; checked: the classes have no base class, no `__new__`, no class attributes, `__init__` returns
nothing).  `x.f` is
  * ["attr", x, f] when `f` is an attribute the `__init__` of one of the three classes assigns (`self.f = …`; private names
    are kept as written: `__nodes`), ["setAttr", x, f, e] for `x.f = e`;
  * ["prim", f, [x]] when `f` is one of the attributes of `Task` the module reads (TASK_ATTRS: `id`, `children`,
    `all_parents`, `all_children`, `predecessors`, `estimate`, `spent`) - read-only library calls whose meaning is given on
    the Lean side (Lemmas/CritPathSrc.lean); checked: the two sets of names are disjoint, so the class of `x` need not be
    known; anything else is a Miss.
Lists.  An attribute initialised with `[]` holds its own list object: `x.f.append(e)` is ["attrAppend", x, f, e]; a `for`
/ comprehension over `x.f` is accepted only when its body and everything it calls changes no attribute named `f`
(checked by an effect analysis over the call graph).  A local assigned `[]` (once) that is only appended to, tested with
`in` / `not in`, iterated (by a loop that does not append to it), passed to a function or wrapped by
`_ImmutableTaskList(…)` in a `return` is a list VALUE: `x.append(e)` is `x = x + [e]`.  Parameters are never appended to,
and no list-valued name is stored in an attribute, so values are never aliased.  `_ImmutableTaskList(l)` is `l`.
Dicts.  An attribute initialised with `{}` holds its own dict: `x.f[k] = v` is ["setAttr", x, f, ["dictSet", ["attr", x, f],
k, v]], `k in x.f` is ["dictHas", k, ["attr", x, f]], `x.f[k]` is ["dictIndex", …]; `for k, v in x.f.items(): body` is
["forIn", k, ["attr", x, f], [["assign", v, ["dictIndex", ["attr", x, f], ["var", k]]]] + body] (checked: the body and its
callees do not change `f`).  `set(l)` is ["setOf", l] (only `in` is applied to it).
Numbers.  A float literal is the decimal the programmer wrote (`1e-9` = 1/1000000000, `1.0` = 1): PyLite numbers are
rationals.  `max(a, b)`, `min(a, b)`, `abs(a)`, `len`, `id`, `list`.
Out of scope (`end_date is not None`).  Two statements are replaced by ["expr", ["prim", "out_of_scope", []]] - a primitive
WITHOUT meaning, so a run that reaches them is stuck and the theorems show that none does: the statement under
`if end_date is not None:` in `__init__` and the `else` branch of `if self.__end_date is None:` in `calc` (their texts are
pinned: OUT_INIT, OUT_CALC); `_find_clusters` is not translated."""
import ast
from fractions import Fraction

from extract_calendar import Miss, miss, is_none, is_boolish, lean_str, CMP, BIN

FUNS = ['PNode_init', 'PLink_init', 'CPC_init', 'CPC_insert_task', 'CPC_new_node', 'CPC_connect', 'CPC_add_work',
        'CPC_forward', 'CPC_backward', 'CPC_calc', 'WBS_critical_path']
CLASSES = {'_PNode': 'PNode_init', '_PLink': 'PLink_init', 'CriticalPathCalculator': 'CPC_init'}
CPC = 'CriticalPathCalculator'
CPC_METHODS = {'__insert_task': 'CPC_insert_task', '__new_node': 'CPC_new_node', '__connect': 'CPC_connect',
               '__add_work': 'CPC_add_work', '__forward': 'CPC_forward', '__backward': 'CPC_backward', 'calc': 'CPC_calc'}
STATIC = {'__connect'}
TASK_ATTRS = {'id', 'children', 'all_parents', 'all_children', 'predecessors', 'estimate', 'spent'}
IMMUTABLE = '_ImmutableTaskList'
OUT_INIT = 'if t.end == end_date:\n    self.__insert_task(t)'
OUT_CALC = ('critical_tasks_clusters = _find_clusters(res)\nres = []\nfor cluster in critical_tasks_clusters:\n'
            '    for t in cluster:\n        if t.end == self.__end_date:\n            res += cluster\n            break\n'
            'res = sorted(res, key=lambda x: x.start)\nreturn _ImmutableTaskList(res)')
OUT = ['expr', ['prim', 'out_of_scope', ['listNil']]]
WBS_CP = 'return CriticalPathCalculator(self.tasks, None).calc()'
FORBIDDEN = {'__new__', '__eq__', '__ne__', '__hash__', '__bool__', '__len__', '__getattr__', '__getattribute__',
             '__setattr__', '__delattr__', '__iter__', '__contains__', '__del__'}


def strip_doc(body):
    if body and isinstance(body[0], ast.Expr) and isinstance(body[0].value, ast.Constant) \
            and isinstance(body[0].value.value, str):
        return body[1:]
    return body


def text_of(stmts):
    return '\n'.join(ast.unparse(s) for s in stmts)


def arg_list(items):
    e = ['listNil']
    for a in reversed(items):
        e = ['listCons', a, e]
    return e


class Fn:
    def __init__(self, key, node, origin, params):
        self.key, self.node, self.origin, self.params = key, node, origin, params
        self.body = None
        self.writes = set()      # attribute names written (setAttr / attrAppend)
        self.calls = set()       # keys of the functions called
        self.constraints = []    # (attribute name, writes of the body, calls of the body)


class Tr:
    def __init__(self, mod, fn, in_cpc, live):
        self.mod, self.fn, self.in_cpc, self.live = mod, fn, in_cpc, live
        self.fresh = set()       # locals that hold a list value built by appending
        self.known = set(fn.params)
        self.scopes = [[set(), set()]]   # effect collectors: [writes, calls]
        self.classify()

    # ---- effects
    def note_write(self, f):
        self.fn.writes.add(f)
        for s in self.scopes:
            s[0].add(f)

    def note_call(self, k):
        self.fn.calls.add(k)
        for s in self.scopes:
            s[1].add(k)

    # ---- locals
    def classify(self):
        assigns = {}
        for n in (m for s in self.live for m in ast.walk(s)):
            if isinstance(n, (ast.Lambda, ast.Global, ast.Nonlocal, ast.With, ast.While, ast.Delete, ast.NamedExpr,
                              ast.Await, ast.AsyncFor, ast.AsyncWith, ast.Starred, ast.Yield, ast.YieldFrom, ast.Try,
                              ast.ClassDef, ast.FunctionDef, ast.AugAssign)):
                raise Miss(f'{self.fn.origin}: {type(n).__name__}')
            if isinstance(n, ast.Assign):
                for t in n.targets:
                    if isinstance(t, ast.Name):
                        assigns.setdefault(t.id, []).append(n.value)
        for x, vals in assigns.items():
            if x in self.fn.params:
                continue
            if any(isinstance(v, ast.List) and not v.elts for v in vals):
                self.fresh.add(x)

    def check_fresh_uses(self, live):
        """every use of a fresh list in the translated (live) statements is one of the accepted ones"""
        fn = self.fn
        for x in self.fresh:
            n_assign = 0
            ok_ids = set()
            for s in live:
                for n in ast.walk(s):
                    if isinstance(n, ast.Assign) and any(isinstance(t, ast.Name) and t.id == x for t in n.targets):
                        if not (len(n.targets) == 1 and isinstance(n.value, ast.List) and not n.value.elts):
                            raise Miss(f'{fn.origin}: assignment to the list {x}')
                        n_assign += 1
                    if isinstance(n, ast.Expr) and isinstance(n.value, ast.Call) \
                            and isinstance(n.value.func, ast.Attribute) and n.value.func.attr == 'append' \
                            and isinstance(n.value.func.value, ast.Name) and n.value.func.value.id == x:
                        ok_ids.add(id(n.value.func.value))
                    if isinstance(n, ast.Compare) and len(n.ops) == 1 and isinstance(n.ops[0], (ast.In, ast.NotIn)) \
                            and isinstance(n.comparators[0], ast.Name) and n.comparators[0].id == x:
                        ok_ids.add(id(n.comparators[0]))
                    if isinstance(n, ast.For) and isinstance(n.iter, ast.Name) and n.iter.id == x:
                        for m in ast.walk(n):
                            if isinstance(m, ast.Attribute) and m.attr == 'append' and isinstance(m.value, ast.Name) \
                                    and m.value.id == x:
                                raise Miss(f'{fn.origin}: {x} changes while it is iterated')
                        ok_ids.add(id(n.iter))
                    if isinstance(n, ast.Call) and not isinstance(n.func, ast.Attribute) or \
                            (isinstance(n, ast.Call) and isinstance(n.func, ast.Attribute)
                             and isinstance(n.func.value, ast.Name) and n.func.value.id == 'self'):
                        for a in n.args:
                            if isinstance(a, ast.Name) and a.id == x:
                                ok_ids.add(id(a))
            if n_assign != 1:
                raise Miss(f'{fn.origin}: the list {x} is assigned {n_assign} times')
            for s in live:
                for n in ast.walk(s):
                    if isinstance(n, ast.Name) and n.id == x and isinstance(n.ctx, ast.Load) and id(n) not in ok_ids:
                        raise Miss(f'{fn.origin}: use of the list {x}')

    # ---- expressions
    def cond(self, n):
        if not is_boolish(n):
            miss(n, 'non-boolean expression in boolean position')
        return self.expr(n)

    def self_field(self, n):
        """`self.__f` / `self.f` inside a class of the module: the attribute name, else None"""
        if isinstance(n, ast.Attribute) and isinstance(n.value, ast.Name) and n.value.id == 'self' \
                and 'self' in self.fn.params and n.attr in self.mod.fields:
            return n.attr
        return None

    def attribute(self, n):
        f = n.attr
        if f in self.mod.fields:
            if f.startswith('__') and self.self_field(n) is None:
                miss(n, 'private attribute of another object')
            return ['attr', self.expr(n.value), f]
        if f in TASK_ATTRS:
            return ['prim', f, arg_list([self.expr(n.value)])]
        miss(n, 'attribute')

    def expr(self, n):
        if isinstance(n, ast.Constant):
            v = n.value
            if v is None:
                return ['none']
            if isinstance(v, bool):
                return ['bool', v]
            if isinstance(v, int):
                return ['num', str(v)]
            if isinstance(v, float) and v == v and v not in (float('inf'), float('-inf')):
                f = Fraction(repr(v))
                return ['num', str(f.numerator) if f.denominator == 1 else f'{f.numerator}/{f.denominator}']
            miss(n, 'constant')
        if isinstance(n, ast.Name) and isinstance(n.ctx, ast.Load):
            if n.id not in self.known:
                miss(n, 'unknown name')
            return ['var', n.id]
        if isinstance(n, ast.Attribute) and isinstance(n.ctx, ast.Load):
            return self.attribute(n)
        if isinstance(n, ast.Compare):
            if len(n.ops) != 1:
                miss(n, 'comparison chain')
            l, op, r = n.left, n.ops[0], n.comparators[0]
            if isinstance(op, ast.Is) and is_none(r):
                return ['isNone', self.expr(l)]
            if isinstance(op, ast.IsNot) and is_none(r):
                return ['isNotNone', self.expr(l)]
            if isinstance(op, (ast.In, ast.NotIn)):
                f = self.self_field(r)
                if f is not None and f in self.mod.dict_fields:
                    e = ['dictHas', self.expr(l), self.expr(r)]
                elif (f is not None and f in self.mod.set_fields) or (isinstance(r, ast.Name) and r.id in self.fresh):
                    e = ['isIn', self.expr(l), self.expr(r)]
                else:
                    miss(n, 'membership')
                return e if isinstance(op, ast.In) else ['not', e]
            if type(op) in CMP:
                return ['cmp', CMP[type(op)], self.expr(l), self.expr(r)]
            miss(n, 'comparison')
        if isinstance(n, ast.BoolOp):
            k = 'and' if isinstance(n.op, ast.And) else 'or'
            vals = [self.cond(v) for v in n.values]
            e = vals[-1]
            for v in reversed(vals[:-1]):
                e = [k, v, e]
            return e
        if isinstance(n, ast.UnaryOp) and isinstance(n.op, ast.Not):
            return ['not', self.cond(n.operand)]
        if isinstance(n, ast.BinOp) and type(n.op) in BIN:
            return ['bin', BIN[type(n.op)], self.expr(n.left), self.expr(n.right)]
        if isinstance(n, ast.IfExp):
            return ['ite', self.cond(n.test), self.expr(n.body), self.expr(n.orelse)]
        if isinstance(n, ast.List):
            return arg_list([self.expr(x) for x in n.elts])
        if isinstance(n, ast.Dict) and not n.keys:
            return ['dictNil']
        if isinstance(n, ast.ListComp):
            return self.list_comp(n)
        if isinstance(n, ast.Subscript) and isinstance(n.ctx, ast.Load):
            f = self.self_field(n.value)
            if f is None or f not in self.mod.dict_fields:
                miss(n, 'subscript')
            return ['dictIndex', self.expr(n.value), self.expr(n.slice)]
        if isinstance(n, ast.Call):
            return self.call(n)
        miss(n, 'expression')

    def list_comp(self, n):
        if len(n.generators) != 1:
            miss(n, 'comprehension')
        g = n.generators[0]
        if g.is_async or not isinstance(g.target, ast.Name):
            miss(n, 'comprehension')
        x = g.target.id
        if x in self.known:
            miss(n, 'comprehension variable shadows a name')
        self.scopes.append([set(), set()])
        it = self.expr(g.iter)
        self.known.add(x)
        conds = [self.cond(c) for c in g.ifs]
        elt = self.expr(n.elt)
        self.known.discard(x)
        w, c = self.scopes.pop()
        self.iter_constraint(g.iter, w, c)
        cond = ['bool', True]
        if conds:
            cond = conds[-1]
            for v in reversed(conds[:-1]):
                cond = ['and', v, cond]
        return ['listComp', elt, x, it, cond]

    def iter_constraint(self, it, writes, calls):
        """a loop over the list / dict held by an attribute: its body must not change an attribute of that name"""
        for m in ast.walk(it):
            if isinstance(m, ast.Attribute) and m.attr in self.mod.fields:
                self.fn.constraints.append((m.attr, set(writes), set(calls)))

    def call(self, n):
        if n.keywords:
            miss(n, 'keyword arguments')
        f = n.func
        if isinstance(f, ast.Name):
            args = n.args
            if f.id in ('len', 'id', 'list', 'set', 'abs') and len(args) == 1:
                k = {'len': 'len', 'id': 'idOf', 'list': 'listOf', 'set': 'setOf', 'abs': 'abs'}[f.id]
                return [k, self.expr(args[0])]
            if f.id in ('max', 'min') and len(args) == 2:
                return [f.id, self.expr(args[0]), self.expr(args[1])]
            if f.id in CLASSES:
                key = CLASSES[f.id]
                if len(args) != len(self.mod.fns[key].params) - 1:
                    miss(n, 'number of arguments')
                self.note_call(key)
                return ['construct', FUNS.index(key), arg_list([self.expr(a) for a in args])]
            if f.id == IMMUTABLE and len(args) == 1 and isinstance(args[0], ast.Name) and args[0].id in self.fresh:
                return self.expr(args[0])
            miss(n, 'call')
        if isinstance(f, ast.Attribute) and isinstance(f.value, ast.Name) and f.value.id == 'self' and self.in_cpc \
                and 'self' in self.fn.params and f.attr in CPC_METHODS:
            key = CPC_METHODS[f.attr]
            args = [self.expr(a) for a in n.args]
            if f.attr not in STATIC:
                args = [['var', 'self']] + args
            if len(args) != len(self.mod.fns[key].params):
                miss(n, 'number of arguments')
            self.note_call(key)
            return ['callFn', FUNS.index(key), arg_list(args)]
        miss(n, 'call')

    # ---- statements
    def block(self, stmts):
        out = []
        for s in stmts:
            out += self.stmt(s)
        return out

    def stmt(self, s):
        if isinstance(s, ast.Pass):
            return [['pass']]
        if isinstance(s, ast.Return):
            return [['ret', ['none'] if s.value is None else self.expr(s.value)]]
        if isinstance(s, ast.AnnAssign):
            if s.value is None or not s.simple == 0 and not isinstance(s.target, ast.Name):
                miss(s, 'annotated assignment')
            return self.assign(s.target, s.value, s)
        if isinstance(s, ast.Assign):
            if len(s.targets) != 1:
                miss(s, 'assignment')
            return self.assign(s.targets[0], s.value, s)
        if isinstance(s, ast.If):
            c = self.cond(s.test)
            return [['ifElse', c, self.block(s.body), self.block(s.orelse)]]
        if isinstance(s, ast.For):
            if s.orelse:
                miss(s, 'for-else')
            for m in ast.walk(s):
                if isinstance(m, (ast.Break, ast.Continue)):
                    miss(s, 'break / continue')
            return self.for_stmt(s)
        if isinstance(s, ast.Expr):
            return self.expr_stmt(s.value, s)
        miss(s, 'statement')

    def storable(self, v):
        """a value that may be stored in an attribute: not a list-valued name"""
        if isinstance(v, ast.Name):
            if v.id in self.fresh:
                return False
            if v.id in self.fn.params:
                a = next(x for x in self.fn.node.args.args if x.arg == v.id).annotation
                if a is None:
                    return False
                t = ast.unparse(a)
                return t in ('float', '_PNode', "'_PNode'", 'Optional[datetime]', 'Any', 'Task')
        return True

    def assign(self, t, v, s):
        if isinstance(t, ast.Name):
            if t.id in self.fn.params and t.id != 'tasks':
                miss(s, 'assignment to a parameter')
            if t.id in self.fresh:
                if not (isinstance(v, ast.List) and not v.elts):
                    miss(s, 'assignment to a list')
            e = self.expr(v)
            self.known.add(t.id)
            return [['assign', t.id, e]]
        if isinstance(t, ast.Attribute) and t.attr in self.mod.fields:
            if not self.storable(v):
                miss(s, 'a list-valued name stored in an attribute')
            if t.attr.startswith('__') and not (isinstance(t.value, ast.Name) and t.value.id == 'self'):
                miss(s, 'private attribute of another object')
            e = self.expr(v)
            o = self.expr(t.value)
            self.note_write(t.attr)
            return [['setAttr', o, t.attr, e]]
        if isinstance(t, ast.Subscript):
            f = self.self_field(t.value)
            if f is None or f not in self.mod.dict_fields:
                miss(s, 'subscript assignment')
            if not self.storable(v):
                miss(s, 'a list-valued name stored in a dict')
            self.note_write(f)
            d = self.expr(t.value)
            return [['setAttr', ['var', 'self'], f, ['dictSet', d, self.expr(t.slice), self.expr(v)]]]
        miss(s, 'assignment target')

    def for_stmt(self, s):
        it = s.iter
        # `for k, v in self.__f.items():`
        if isinstance(s.target, ast.Tuple):
            if not (len(s.target.elts) == 2 and all(isinstance(x, ast.Name) for x in s.target.elts)
                    and isinstance(it, ast.Call) and isinstance(it.func, ast.Attribute) and it.func.attr == 'items'
                    and not it.args and not it.keywords and self.self_field(it.func.value) in self.mod.dict_fields):
                miss(s, 'for target')
            k, v = s.target.elts[0].id, s.target.elts[1].id
            if k in self.fn.params or v in self.fn.params or k == v:
                miss(s, 'loop variable')
            d = self.expr(it.func.value)
            self.known |= {k, v}
            self.scopes.append([set(), set()])
            body = self.block(s.body)
            w, c = self.scopes.pop()
            self.iter_constraint(it.func.value, w, c)
            return [['forIn', k, d, [['assign', v, ['dictIndex', d, ['var', k]]]] + body]]
        if not isinstance(s.target, ast.Name) or s.target.id in self.fn.params:
            miss(s, 'for target')
        e = self.expr(it)
        self.known.add(s.target.id)
        self.scopes.append([set(), set()])
        body = self.block(s.body)
        w, c = self.scopes.pop()
        self.iter_constraint(it, w, c)
        return [['forIn', s.target.id, e, body]]

    def expr_stmt(self, v, s):
        if isinstance(v, ast.Call) and isinstance(v.func, ast.Attribute) and v.func.attr == 'append' \
                and len(v.args) == 1 and not v.keywords:
            recv = v.func.value
            if isinstance(recv, ast.Name):
                if recv.id not in self.fresh or recv.id not in self.known:
                    miss(s, 'append to a name that is not a fresh list')
                if not self.storable(v.args[0]):
                    miss(s, 'a list appended to a list')
                return [['assign', recv.id, ['bin', 'add', ['var', recv.id], arg_list([self.expr(v.args[0])])]]]
            if isinstance(recv, ast.Attribute) and recv.attr in self.mod.list_fields:
                if recv.attr.startswith('__') and self.self_field(recv) is None:
                    miss(s, 'private attribute of another object')
                if not self.storable(v.args[0]):
                    miss(s, 'a list appended to a list')
                o = self.expr(recv.value)
                self.note_write(recv.attr)
                return [['attrAppend', o, recv.attr, self.expr(v.args[0])]]
            miss(s, 'append')
        if isinstance(v, ast.Call):
            return [['expr', self.call(v)]]
        if isinstance(v, ast.Constant) and isinstance(v.value, str):
            return []
        miss(s, 'expression statement')


class Mod:
    pass


def class_of(tree, name):
    for n in tree.body:
        if isinstance(n, ast.ClassDef) and n.name == name:
            return n
    raise Miss(f'class {name} not found')


def method(cls, name):
    fs = [f for f in cls.body if isinstance(f, ast.FunctionDef) and f.name == name]
    if len(fs) != 1:
        raise Miss(f'{cls.name}.{name} not found')
    return fs[0]


def plain_params(f, origin):
    a = f.args
    if a.vararg or a.kwonlyargs or a.posonlyargs or a.kwarg or a.defaults:
        raise Miss(f'{origin}: signature')
    return [x.arg for x in a.args]


def init_fields(cls):
    """attribute name -> the value `__init__` assigns first (`self.f = v` / `self.f: T = v`)"""
    out = {}
    for n in ast.walk(method(cls, '__init__')):
        t, v = None, None
        if isinstance(n, ast.Assign) and len(n.targets) == 1:
            t, v = n.targets[0], n.value
        elif isinstance(n, ast.AnnAssign):
            t, v = n.target, n.value
        if isinstance(t, ast.Attribute) and isinstance(t.value, ast.Name) and t.value.id == 'self':
            out.setdefault(t.attr, v)
    return out


def extract(cp_src, wbs_src):
    tree = ast.parse(cp_src)
    mod = Mod()
    mod.fns = {}
    mod.fields, mod.list_fields, mod.dict_fields, mod.set_fields = set(), set(), set(), set()
    # the module: only imports, `_find_clusters` (not translated) and the three classes
    for n in tree.body:
        if isinstance(n, (ast.Import, ast.ImportFrom)):
            continue
        if isinstance(n, ast.FunctionDef) and n.name == '_find_clusters':
            continue
        if isinstance(n, ast.ClassDef) and n.name in CLASSES:
            continue
        raise Miss(f'module-level statement {ast.dump(n)[:80]}')
    per_class = {}
    for cname in CLASSES:
        cls = class_of(tree, cname)
        if cls.bases or cls.keywords or cls.decorator_list:
            raise Miss(f'{cname}: bases / decorators')
        for b in strip_doc(cls.body):
            if not isinstance(b, ast.FunctionDef):
                raise Miss(f'{cname}: class-level statement')
            if b.name in FORBIDDEN:
                raise Miss(f'{cname}.{b.name} is defined')
            decos = [ast.unparse(d) for d in b.decorator_list]
            if decos != (['staticmethod'] if (cname == CPC and b.name in STATIC) else []):
                raise Miss(f'{cname}.{b.name}: decorators')
        fl = init_fields(cls)
        per_class[cname] = fl
        for f, v in fl.items():
            mod.fields.add(f)
            if isinstance(v, ast.List) and not v.elts:
                mod.list_fields.add(f)
            elif isinstance(v, ast.Dict) and not v.keys:
                mod.dict_fields.add(f)
            elif isinstance(v, ast.Call) and isinstance(v.func, ast.Name) and v.func.id == 'set':
                mod.set_fields.add(f)
    names = [f for fl in per_class.values() for f in fl]
    if len(set(names)) != len(names):
        raise Miss('two classes share an attribute name')
    if mod.fields & TASK_ATTRS:
        raise Miss(f'attribute names shared with Task: {sorted(mod.fields & TASK_ATTRS)}')
    # the classes assign attributes in `__init__` only (so `fields` is complete), except the ones it initialises
    cpc = class_of(tree, CPC)
    nodes = {}
    for cname, key in CLASSES.items():
        f = method(class_of(tree, cname), '__init__')
        nodes[key] = (f, f'{cname}.__init__', cname == CPC)
        for m in ast.walk(f):
            if isinstance(m, ast.Return) and m.value is not None:
                raise Miss(f'{cname}.__init__ returns a value')
    for mname, key in CPC_METHODS.items():
        nodes[key] = (method(cpc, mname), f'{CPC}.{mname}', True)
    extra = {b.name for b in cpc.body if isinstance(b, ast.FunctionDef)} - set(CPC_METHODS) - {'__init__'}
    if extra:
        raise Miss(f'{CPC}: further methods {sorted(extra)}')
    for key, (f, origin, in_cpc) in nodes.items():
        mod.fns[key] = Fn(key, f, origin, plain_params(f, origin))
    for f in mod.fns.values():
        if (f.params[:1] == ['self']) != (f.key != 'CPC_connect'):
            raise Miss(f'{f.origin}: self')
    d = {}
    for key, (f, origin, in_cpc) in nodes.items():
        fn = mod.fns[key]
        body = strip_doc(f.body)
        live = list(body)
        if key == 'CPC_init':
            body, live = replace_out(body, origin, 'init')
        elif key == 'CPC_calc':
            body, live = replace_out(body, origin, 'calc')
        tr = Tr(mod, fn, in_cpc, live)
        tr.check_fresh_uses(live)
        fn.body = tr.block(body)
        d[key] = {'origin': origin, 'params': fn.params, 'body': fn.body}
    # effect analysis: a loop over an attribute `f` must not change an attribute named `f`
    total = {k: set(f.writes) for k, f in mod.fns.items()}
    changed = True
    while changed:
        changed = False
        for k, f in mod.fns.items():
            for c in f.calls:
                if not total[c] <= total[k]:
                    total[k] |= total[c]
                    changed = True
    for k, f in mod.fns.items():
        for field, writes, calls in f.constraints:
            w = set(writes)
            for c in calls:
                w |= total[c]
            if field in w:
                raise Miss(f'{f.origin}: a loop over the attribute {field}, which its body may change')
    # wbs.py: WBS.critical_path
    wtree = ast.parse(wbs_src)
    cp = method(class_of(wtree, 'WBS'), 'critical_path')
    if plain_params(cp, 'WBS.critical_path') != ['self'] or text_of(strip_doc(cp.body)) != WBS_CP:
        raise Miss('WBS.critical_path: body')
    if not any(isinstance(n, ast.ImportFrom) and n.module == 'pjplan.alg.critical_path'
               and any(a.name == CPC and a.asname is None for a in n.names) for n in wtree.body):
        raise Miss('wbs.py: import of CriticalPathCalculator')
    d['WBS_critical_path'] = {
        'origin': 'WBS.critical_path', 'params': ['tasks'],
        'body': [['ret', ['callFn', FUNS.index('CPC_calc'),
                          arg_list([['construct', FUNS.index('CPC_init'), arg_list([['var', 'tasks'], ['none']])]])]]]}
    d['funs'] = list(FUNS)
    return d


class _Marker(ast.stmt):
    _fields = ()


def replace_out(body, origin, which):
    """replace the pinned out-of-scope statements by markers; returns (body with markers, the live statements)"""
    body = [ast.parse(ast.unparse(s)).body[0] for s in body]      # a private copy
    found = []
    for top in body:
        for n in ast.walk(top):
            if not isinstance(n, ast.If):
                continue
            t = ast.unparse(n.test)
            if which == 'init' and t == 'end_date is not None':
                if text_of(n.body) != OUT_INIT:
                    raise Miss(f'{origin}: the branch `end_date is not None` changed')
                n.body = [ast.Expr(ast.Call(ast.Name('__out_of_scope__', ast.Load()), [], []))]
                found.append(n)
            if which == 'calc' and t == 'self.__end_date is None':
                if text_of(n.orelse) != OUT_CALC:
                    raise Miss(f'{origin}: the branch `self.__end_date is not None` changed')
                n.orelse = [ast.Expr(ast.Call(ast.Name('__out_of_scope__', ast.Load()), [], []))]
                found.append(n)
    if len(found) != 1:
        raise Miss(f'{origin}: the out-of-scope branch was not found')
    return body, body


_orig_expr_stmt = Tr.expr_stmt


def _expr_stmt(self, v, s):
    if isinstance(v, ast.Call) and isinstance(v.func, ast.Name) and v.func.id == '__out_of_scope__':
        return [OUT]
    return _orig_expr_stmt(self, v, s)


Tr.expr_stmt = _expr_stmt


# ---- Lean output

def lean_expr(e):
    k = e[0]
    if k in ('none', 'listNil', 'dictNil'):
        return f'.{k}'
    if k == 'num':
        return f'(.num {e[1]})' if e[1].isdigit() else f'(.num ({e[1]}))'
    if k == 'bool':
        return f'(.bool {"true" if e[1] else "false"})'
    if k == 'var':
        return f'(.var {lean_str(e[1])})'
    if k in ('callFn', 'construct'):
        return f'(.{k} fn_{FUNS[e[1]]} {lean_expr(e[2])})'
    if k == 'attr':
        return f'(.attr {lean_expr(e[1])} {lean_str(e[2])})'
    if k == 'prim':
        return f'(.prim {lean_str(e[1])} {lean_expr(e[2])})'
    if k in ('cmp', 'bin'):
        return f'(.{k} .{e[1]} {lean_expr(e[2])} {lean_expr(e[3])})'
    if k == 'listComp':
        return f'(.listComp {lean_expr(e[1])} {lean_str(e[2])} {lean_expr(e[3])} {lean_expr(e[4])})'
    if k in ('isNone', 'isNotNone', 'not', 'and', 'or', 'isIn', 'listCons', 'len', 'idOf', 'listOf', 'setOf', 'ite',
             'max', 'min', 'abs', 'dictSet', 'dictHas', 'dictIndex'):
        return f'(.{k} ' + ' '.join(lean_expr(x) for x in e[1:]) + ')'
    raise Miss(f'lean_expr {e!r}')


def lean_block(b, ind):
    if not b:
        return '[]'
    pad = ' ' * (ind + 1)
    return '[' + (',\n' + pad).join(lean_stmt(s, ind + 1) for s in b) + ']'


def lean_stmt(s, ind):
    k = s[0]
    pad = ' ' * (ind + 2)
    if k == 'assign':
        return f'.assign {lean_str(s[1])} {lean_expr(s[2])}'
    if k == 'ifElse':
        return f'.ifElse {lean_expr(s[1])}\n{pad}{lean_block(s[2], ind + 2)}\n{pad}{lean_block(s[3], ind + 2)}'
    if k == 'forIn':
        return f'.forIn {lean_str(s[1])} {lean_expr(s[2])}\n{pad}{lean_block(s[3], ind + 2)}'
    if k in ('ret', 'expr'):
        return f'.{k} {lean_expr(s[1])}'
    if k == 'setAttr':
        return f'.setAttr {lean_expr(s[1])} {lean_str(s[2])} {lean_expr(s[3])}'
    if k == 'attrAppend':
        return f'.attrAppend {lean_expr(s[1])} {lean_str(s[2])} {lean_expr(s[3])}'
    if k == 'pass':
        return '.pass'
    raise Miss(f'lean_stmt {s!r}')


def to_lean(d):
    out = ('/- GENERATED by tools/extract.py (extract_critpath) from /repo/src/pjplan/alg/critical_path.py and wbs.py — '
           'do not edit.  Re-checked by `lake build`. -/\n'
           'import PjVerif.Model.PyLite\nnamespace Pj.Extracted.CritPath\nopen Pj\n\n'
           '/-! the function table of alg/critical_path.py: `callFn k` / `construct k` call the k-th function below -/\n')
    for i, key in enumerate(d['funs']):
        out += f'def fn_{key} : Nat := {i}\n'
    out += '\n'
    for key in d['funs']:
        m = d[key]
        params = ', '.join('"' + p + '"' for p in m['params'])
        out += (f'/-- `{m["origin"]}`, parameters ({", ".join(m["params"])}) -/\n'
                f'def src_{key} : List PyLite.Stmt :=\n  {lean_block(m["body"], 2)}\n\n'
                f'def src_{key}_params : List String := [{params}]\n\n')
    out += ('/-- the program: function number ↦ parameters and body -/\n'
            'def cpFuns : PyLite.FunTable := fun k =>\n')
    for i, key in enumerate(d['funs']):
        out += f'  {"if" if i == 0 else "else if"} k = fn_{key} then some (src_{key}_params, src_{key})\n'
    out += '  else none\n\n'
    return out + 'end Pj.Extracted.CritPath\n'


# the translation of the source as of the last successful check (fallback when extract() raises Miss)
PINNED = {'CPC_add_work': {'body': [['assign', 'start', ['callFn', 4, ['listCons', ['var', 'self'], ['listNil']]]],
                           ['assign', 'end', ['callFn', 4, ['listCons', ['var', 'self'], ['listNil']]]],
                           ['assign', 'link',
                            ['callFn', 5,
                             ['listCons', ['var', 'start'],
                              ['listCons', ['var', 'end'], ['listCons', ['var', 'units'], ['listNil']]]]]],
                           ['setAttr', ['var', 'self'], '__links',
                            ['dictSet', ['attr', ['var', 'self'], '__links'], ['var', 'id'], ['var', 'link']]],
                           ['forIn', 'p', ['var', 'predecessors'],
                            [['assign', 'link', ['dictIndex', ['attr', ['var', 'self'], '__links'], ['var', 'p']]],
                             ['expr',
                              ['callFn', 5,
                               ['listCons', ['attr', ['var', 'link'], 'end'],
                                ['listCons', ['var', 'start'], ['listCons', ['num', '0'], ['listNil']]]]]]]]],
                  'origin': 'CriticalPathCalculator.__add_work',
                  'params': ['self', 'id', 'units', 'predecessors']},
 'CPC_backward': {'body': [['ifElse', ['isNone', ['attr', ['var', 'node'], 'end_units']],
                            [['assign', 'min_end', ['none']],
                             ['forIn', 'link', ['attr', ['var', 'node'], 'forward_links'],
                              [['ifElse', ['isNone', ['attr', ['attr', ['var', 'link'], 'end'], 'end_units']],
                                [['expr',
                                  ['callFn', 8,
                                   ['listCons', ['var', 'self'],
                                    ['listCons', ['attr', ['var', 'link'], 'end'], ['listNil']]]]]],
                                []],
                               ['ifElse', ['isNone', ['var', 'min_end']],
                                [['assign', 'min_end',
                                  ['bin', 'sub', ['attr', ['attr', ['var', 'link'], 'end'], 'end_units'],
                                   ['attr', ['var', 'link'], 'units']]]],
                                [['assign', 'min_end',
                                  ['min', ['var', 'min_end'],
                                   ['bin', 'sub', ['attr', ['attr', ['var', 'link'], 'end'], 'end_units'],
                                    ['attr', ['var', 'link'], 'units']]]]]]]],
                             ['ifElse', ['isNone', ['var', 'min_end']],
                              [['assign', 'min_end', ['attr', ['var', 'node'], 'start_units']]], []],
                             ['setAttr', ['var', 'node'], 'end_units', ['var', 'min_end']]],
                            []]],
                  'origin': 'CriticalPathCalculator.__backward',
                  'params': ['self', 'node']},
 'CPC_calc': {'body': [['assign', 'start_nodes',
                        ['listComp', ['var', 'n'], 'n', ['attr', ['var', 'self'], '__nodes'],
                         ['cmp', 'eq', ['len', ['attr', ['var', 'n'], 'backward_links']], ['num', '0']]]],
                       ['assign', 'end_nodes',
                        ['listComp', ['var', 'n'], 'n', ['attr', ['var', 'self'], '__nodes'],
                         ['cmp', 'eq', ['len', ['attr', ['var', 'n'], 'forward_links']], ['num', '0']]]],
                       ['assign', 'begin', ['construct', 0, ['listNil']]],
                       ['setAttr', ['var', 'begin'], 'start_units', ['num', '0']],
                       ['forIn', 'n', ['var', 'start_nodes'],
                        [['expr',
                          ['callFn', 5,
                           ['listCons', ['var', 'begin'],
                            ['listCons', ['var', 'n'], ['listCons', ['num', '0'], ['listNil']]]]]]]],
                       ['assign', 'end', ['construct', 0, ['listNil']]],
                       ['forIn', 'n', ['var', 'end_nodes'],
                        [['expr',
                          ['callFn', 5,
                           ['listCons', ['var', 'n'],
                            ['listCons', ['var', 'end'], ['listCons', ['num', '0'], ['listNil']]]]]]]],
                       ['forIn', 'n',
                        ['bin', 'add', ['attr', ['var', 'self'], '__nodes'],
                         ['listCons', ['var', 'end'], ['listNil']]],
                        [['expr',
                          ['callFn', 7, ['listCons', ['var', 'self'], ['listCons', ['var', 'n'], ['listNil']]]]]]],
                       ['forIn', 'n', ['attr', ['var', 'self'], '__nodes'],
                        [['expr',
                          ['callFn', 8, ['listCons', ['var', 'self'], ['listCons', ['var', 'n'], ['listNil']]]]]]],
                       ['assign', 'res', ['listNil']],
                       ['forIn', 'k', ['attr', ['var', 'self'], '__links'],
                        [['assign', 'v', ['dictIndex', ['attr', ['var', 'self'], '__links'], ['var', 'k']]],
                         ['assign', 'r',
                          ['bin', 'sub',
                           ['bin', 'sub', ['attr', ['attr', ['var', 'v'], 'end'], 'end_units'],
                            ['attr', ['attr', ['var', 'v'], 'start'], 'start_units']],
                           ['attr', ['var', 'v'], 'units']]],
                         ['ifElse',
                          ['cmp', 'le', ['abs', ['var', 'r']],
                           ['bin', 'mul', ['num', '1/1000000000'],
                            ['max', ['num', '1'], ['attr', ['var', 'end'], 'start_units']]]],
                          [['assign', 'res',
                            ['bin', 'add', ['var', 'res'],
                             ['listCons', ['dictIndex', ['attr', ['var', 'self'], '__tasks'], ['var', 'k']],
                              ['listNil']]]]],
                          []]]],
                       ['ifElse', ['isNone', ['attr', ['var', 'self'], '__end_date']], [['ret', ['var', 'res']]],
                        [['expr', ['prim', 'out_of_scope', ['listNil']]]]]],
              'origin': 'CriticalPathCalculator.calc',
              'params': ['self']},
 'CPC_connect': {'body': [['assign', 'link',
                           ['construct', 1,
                            ['listCons', ['var', 'units'],
                             ['listCons', ['var', 'start'], ['listCons', ['var', 'end'], ['listNil']]]]]],
                          ['attrAppend', ['var', 'start'], 'forward_links', ['var', 'link']],
                          ['attrAppend', ['var', 'end'], 'backward_links', ['var', 'link']],
                          ['ret', ['var', 'link']]],
                 'origin': 'CriticalPathCalculator.__connect',
                 'params': ['start', 'end', 'units']},
 'CPC_forward': {'body': [['ifElse', ['isNone', ['attr', ['var', 'node'], 'start_units']],
                           [['assign', 'max_start', ['num', '0']],
                            ['forIn', 'link', ['attr', ['var', 'node'], 'backward_links'],
                             [['ifElse', ['isNone', ['attr', ['attr', ['var', 'link'], 'start'], 'start_units']],
                               [['expr',
                                 ['callFn', 7,
                                  ['listCons', ['var', 'self'],
                                   ['listCons', ['attr', ['var', 'link'], 'start'], ['listNil']]]]]],
                               []],
                              ['assign', 'max_start',
                               ['max', ['var', 'max_start'],
                                ['bin', 'add', ['attr', ['attr', ['var', 'link'], 'start'], 'start_units'],
                                 ['attr', ['var', 'link'], 'units']]]]]],
                            ['setAttr', ['var', 'node'], 'start_units', ['var', 'max_start']]],
                           []]],
                 'origin': 'CriticalPathCalculator.__forward',
                 'params': ['self', 'node']},
 'CPC_init': {'body': [['setAttr', ['var', 'self'], '__nodes', ['listNil']],
                       ['setAttr', ['var', 'self'], '__links', ['dictNil']],
                       ['setAttr', ['var', 'self'], '__tasks', ['dictNil']],
                       ['setAttr', ['var', 'self'], '__end_date', ['var', 'end_date']],
                       ['assign', 'tasks', ['listOf', ['var', 'tasks']]],
                       ['setAttr', ['var', 'self'], '__members',
                        ['setOf', ['listComp', ['idOf', ['var', 't']], 't', ['var', 'tasks'], ['bool', True]]]],
                       ['forIn', 't', ['var', 'tasks'],
                        [['ifElse', ['isNotNone', ['var', 'end_date']],
                          [['expr', ['prim', 'out_of_scope', ['listNil']]]],
                          [['expr',
                            ['callFn', 3,
                             ['listCons', ['var', 'self'], ['listCons', ['var', 't'], ['listNil']]]]]]]]]],
              'origin': 'CriticalPathCalculator.__init__',
              'params': ['self', 'tasks', 'end_date']},
 'CPC_insert_task': {'body': [['ifElse',
                               ['cmp', 'gt',
                                ['len', ['prim', 'children', ['listCons', ['var', 'task'], ['listNil']]]],
                                ['num', '0']],
                               [['ret', ['none']]], []],
                              ['ifElse',
                               ['dictHas', ['prim', 'id', ['listCons', ['var', 'task'], ['listNil']]],
                                ['attr', ['var', 'self'], '__tasks']],
                               [['ret', ['none']]], []],
                              ['setAttr', ['var', 'self'], '__tasks',
                               ['dictSet', ['attr', ['var', 'self'], '__tasks'],
                                ['prim', 'id', ['listCons', ['var', 'task'], ['listNil']]], ['var', 'task']]],
                              ['assign', 'p_ids', ['listNil']],
                              ['forIn', 'owner',
                               ['bin', 'add', ['listCons', ['var', 'task'], ['listNil']],
                                ['listOf', ['prim', 'all_parents', ['listCons', ['var', 'task'], ['listNil']]]]],
                               [['forIn', 'pred',
                                 ['prim', 'predecessors', ['listCons', ['var', 'owner'], ['listNil']]],
                                 [['forIn', 'p',
                                   ['bin', 'add', ['listCons', ['var', 'pred'], ['listNil']],
                                    ['listOf', ['prim', 'all_children', ['listCons', ['var', 'pred'], ['listNil']]]]],
                                   [['ifElse',
                                     ['and',
                                      ['cmp', 'eq',
                                       ['len', ['prim', 'children', ['listCons', ['var', 'p'], ['listNil']]]],
                                       ['num', '0']],
                                      ['and',
                                       ['isIn', ['idOf', ['var', 'p']], ['attr', ['var', 'self'], '__members']],
                                       ['not',
                                        ['isIn', ['prim', 'id', ['listCons', ['var', 'p'], ['listNil']]],
                                         ['var', 'p_ids']]]]],
                                     [['assign', 'p_ids',
                                       ['bin', 'add', ['var', 'p_ids'],
                                        ['listCons', ['prim', 'id', ['listCons', ['var', 'p'], ['listNil']]],
                                         ['listNil']]]],
                                      ['expr',
                                       ['callFn', 3,
                                        ['listCons', ['var', 'self'], ['listCons', ['var', 'p'], ['listNil']]]]]],
                                     []]]]]]]],
                              ['assign', 'estimate',
                               ['ite',
                                ['isNotNone', ['prim', 'estimate', ['listCons', ['var', 'task'], ['listNil']]]],
                                ['prim', 'estimate', ['listCons', ['var', 'task'], ['listNil']]], ['num', '0']]],
                              ['assign', 'spent',
                               ['ite', ['isNotNone', ['prim', 'spent', ['listCons', ['var', 'task'], ['listNil']]]],
                                ['prim', 'spent', ['listCons', ['var', 'task'], ['listNil']]], ['num', '0']]],
                              ['expr',
                               ['callFn', 6,
                                ['listCons', ['var', 'self'],
                                 ['listCons', ['prim', 'id', ['listCons', ['var', 'task'], ['listNil']]],
                                  ['listCons',
                                   ['max', ['bin', 'sub', ['var', 'estimate'], ['var', 'spent']], ['num', '0']],
                                   ['listCons', ['var', 'p_ids'], ['listNil']]]]]]]],
                     'origin': 'CriticalPathCalculator.__insert_task',
                     'params': ['self', 'task']},
 'CPC_new_node': {'body': [['assign', 'res', ['construct', 0, ['listNil']]],
                           ['attrAppend', ['var', 'self'], '__nodes', ['var', 'res']], ['ret', ['var', 'res']]],
                  'origin': 'CriticalPathCalculator.__new_node',
                  'params': ['self']},
 'PLink_init': {'body': [['setAttr', ['var', 'self'], 'start', ['var', 'start']],
                         ['setAttr', ['var', 'self'], 'end', ['var', 'end']],
                         ['setAttr', ['var', 'self'], 'units', ['var', 'units']]],
                'origin': '_PLink.__init__',
                'params': ['self', 'units', 'start', 'end']},
 'PNode_init': {'body': [['setAttr', ['var', 'self'], 'forward_links', ['listNil']],
                         ['setAttr', ['var', 'self'], 'backward_links', ['listNil']],
                         ['setAttr', ['var', 'self'], 'start_units', ['none']],
                         ['setAttr', ['var', 'self'], 'end_units', ['none']]],
                'origin': '_PNode.__init__',
                'params': ['self']},
 'WBS_critical_path': {'body': [['ret',
                                 ['callFn', 9,
                                  ['listCons',
                                   ['construct', 2,
                                    ['listCons', ['var', 'tasks'], ['listCons', ['none'], ['listNil']]]],
                                   ['listNil']]]]],
                       'origin': 'WBS.critical_path',
                       'params': ['tasks']},
 'funs': ['PNode_init', 'PLink_init', 'CPC_init', 'CPC_insert_task', 'CPC_new_node', 'CPC_connect', 'CPC_add_work',
          'CPC_forward', 'CPC_backward', 'CPC_calc', 'WBS_critical_path']}


if __name__ == '__main__':
    # python3 extract_critpath.py <critical_path.py> <wbs.py> [<out.lean> | --pinned]: translate (no pinned fallback)
    import sys
    d = extract(open(sys.argv[1]).read(), open(sys.argv[2]).read())
    if len(sys.argv) > 3 and sys.argv[3] == '--pinned':
        import pprint
        pprint.pprint(d, width=118, compact=True)
        sys.exit(0)
    text = to_lean(d)
    if len(sys.argv) > 3:
        with open(sys.argv[3], 'w') as f:
            f.write(text)
    else:
        sys.stdout.write(text)
