"""extract_csv: translate io/csv_io.py (`__parse_*`, `__format_custom`, `read_csv`, `write_csv`) and io/raw.py
(`TaskRaw.__init__`, `tasks_to_raws`, `raws_to_wbs`) into a PROGRAM of PyLite run over the I/O library of
lean/PjVerif/Model/PyLiteIO.lean (`progIO`).  Terms are s-expressions; anything outside the subset raises Miss.

Strings.  A literal 'abc' is ["prim", "lit:abc", []] (the atom of that text); the module constants `__DATE_FORMAT`,
`__DEFAULT_FIELDS` are inlined (checked: assigned once, a str literal / a list of str literals).
Library calls with a meaning on the Lean side (PyLiteIO.lean): `len(s)` of a `str`-annotated parameter (strlen), `int`,
`float`, `str`, f"{k}" (= str(k)), `s.replace`, `s.split`, `sep.join`, `s.startswith`, `d.strftime`, `datetime.strptime`,
`isinstance(v, datetime)`, `type(v).__name__`, `o.__dict__` (keys / items / get / `in`), `o.__getattribute__(k)`, `dir(o)`,
`wbs.tasks`, `wbs[id]`; a value in boolean position that is not syntactically a test is ["prim", "bool", [e]].
State-changing library calls are ["callFn", k, args], k >= 100: 100 `o.__setattr__(k, v)`, 101 `Task(id=, name=, resource=,
start=, end=, estimate=, spent=, milestone=, min_start=)` (exactly these keywords), 102 `WBS()`, 103 `csv.reader(f,
delimiter=d)`, 104 `x.children.append(t)`, 105 `x.parent = p`, 106 `x.roots.append(t)`, 107 `x.predecessors.append(p)`.
Files.  `with open(path, mode='r', ..., newline='\\n') as f` : f = ["prim", "open", [path]] (the parameter `path` of
`read_csv` holds the TEXT of the file); mode='w': f = ["newBox", []], the lines written; `csv.writer(f, delimiter=d)` is
the pair [f, d]; `w.writerow(r)` appends ["prim", "csv.writerow", [d] + r] to f.  The reader is the list of its rows, each a
list object (box): `next(r)` is the first row (StopIteration when none) and the one `for row in r` that follows runs
over ["prim", "rest", r] (checked: `r` is used exactly in one `next(r)` and, after it, one `for`); `row[i]` / `len(row)` go
through ["items", row] (`row`: the parameter of `__parse_header`, the loop variable over the reader).
Locals.  `x = []` / `x = {}` are VALUES: `x.append(e)` is `x = x + [e]`, `x[k] = v` is `x = dictSet x k v` (such a local
is never stored in an attribute; a `for` over it does not change it - checked).  `for k, v in d.items()` is
`for k in d: v = d[k]; …`.  `TaskRaw(kw…, **kwargs)` is ["construct", TaskRaw_init, positional arguments in the order of
the signature, defaults filled in, the `**` dict last]."""
import ast
from fractions import Fraction

from extract_calendar import Miss, miss, CMP, BIN

FUNS = ['parse_header', 'parse_str', 'parse_date', 'parse_predecessors', 'parse_float', 'parse_int', 'parse_bool',
        'format_custom', 'read_csv', 'write_csv', 'TaskRaw_init', 'tasks_to_raws', 'raws_to_wbs']
CSV_FUNS = {'__parse_header': 'parse_header', '__parse_str': 'parse_str', '__parse_date': 'parse_date',
            '__parse_predecessors': 'parse_predecessors', '__parse_float': 'parse_float', '__parse_int': 'parse_int',
            '__parse_bool': 'parse_bool', '__format_custom': 'format_custom', 'read_csv': 'read_csv',
            'write_csv': 'write_csv'}
RAW_FUNS = {'tasks_to_raws': 'tasks_to_raws', 'raws_to_wbs': 'raws_to_wbs'}
TASK_KW = ['id', 'name', 'resource', 'start', 'end', 'estimate', 'spent', 'milestone', 'min_start']
LIB = {'setattr': 100, 'Task': 101, 'WBS': 102, 'reader': 103, 'children': 104, 'parent': 105, 'roots': 106,
       'predecessors': 107}


def lit(s):
    return ['prim', 'lit:' + s, ['listNil']]


def arg_list(items, tail=None):
    e = tail if tail is not None else ['listNil']
    for a in reversed(items):
        e = ['listCons', a, e]
    return e


def prim(name, *args):
    return ['prim', name, arg_list(list(args))]


def strip_doc(body):
    if body and isinstance(body[0], ast.Expr) and isinstance(body[0].value, ast.Constant) \
            and isinstance(body[0].value.value, str):
        return body[1:]
    return body


def is_dunder_dict(n):
    return isinstance(n, ast.Attribute) and n.attr == '__dict__' and isinstance(n.value, ast.Name)


class Tr:
    def __init__(self, consts, funs, raw_sig, origin, params, str_params, rows, dicts):
        self.consts, self.funs, self.raw_sig, self.origin = consts, funs, raw_sig, origin
        self.str_names = set(str_params)
        self.rows = set(rows)
        self.dicts = set(dicts)
        self.lists = set()
        self.known = set(params)
        self.readers = {}       # name -> state 0 (fresh) / 1 (after next) / 2 (consumed)
        self.writers = set()
        self.wbs = set()

    def m(self, n, why=''):
        miss(n, f'{self.origin}: {why}')

    # ---- expressions
    def name(self, n):
        if n.id in self.consts:
            c = self.consts[n.id]
            return lit(c) if isinstance(c, str) else arg_list([lit(x) for x in c])
        if n.id in self.readers or n.id in self.writers:
            self.m(n, 'reader / writer used as a value')
        if n.id not in self.known:
            self.m(n, 'unknown name')
        return ['var', n.id]

    def cond(self, n):
        if isinstance(n, ast.BoolOp):         # in test position only: the operands as tests (same truth value)
            k = 'and' if isinstance(n.op, ast.And) else 'or'
            vals = [self.cond(v) for v in n.values]
            e = vals[-1]
            for v in reversed(vals[:-1]):
                e = [k, v, e]
            return e
        if isinstance(n, ast.UnaryOp) and isinstance(n.op, ast.Not):
            return ['not', self.cond(n.operand)]
        if isinstance(n, ast.Compare):
            return self.expr(n)
        if isinstance(n, ast.Call) and ((isinstance(n.func, ast.Name) and n.func.id == 'isinstance') or
                                        (isinstance(n.func, ast.Attribute) and n.func.attr == 'startswith')):
            return self.expr(n)
        if isinstance(n, ast.Constant) and isinstance(n.value, bool):
            return self.expr(n)
        return prim('bool', self.expr(n))

    def container(self, n):
        """the right operand of `in`"""
        if is_dunder_dict(n):
            return prim('__dict__', self.name(n.value)), 'list'
        if isinstance(n, ast.Call) and isinstance(n.func, ast.Name) and n.func.id == 'dir' and len(n.args) == 1 \
                and not n.keywords:
            return prim('dir', self.expr(n.args[0])), 'list'
        if isinstance(n, ast.Name) and n.id in self.dicts:
            return self.name(n), 'dict'
        if isinstance(n, ast.Name) and (n.id in self.lists or isinstance(self.consts.get(n.id), list)):
            return self.name(n), 'list'
        self.m(n, 'container of `in`')

    def expr(self, n):
        if isinstance(n, ast.Constant):
            v = n.value
            if v is None:
                return ['none']
            if isinstance(v, bool):
                return ['bool', v]
            if isinstance(v, int):
                return ['num', str(v)]
            if isinstance(v, str):
                return lit(v)
            self.m(n, 'constant')
        if isinstance(n, ast.Name):
            return self.name(n)
        if isinstance(n, ast.Attribute):
            if isinstance(n.value, ast.Call) and isinstance(n.value.func, ast.Name) and n.value.func.id == 'type' \
                    and n.attr == '__name__' and len(n.value.args) == 1:
                return prim('type_name', self.expr(n.value.args[0]))
            if n.attr == 'tasks':
                return prim('tasks', self.expr(n.value))
            if n.attr.startswith('__') or n.attr in ('children', 'roots', 'items', 'keys'):
                self.m(n, 'attribute')
            return ['attr', self.expr(n.value), n.attr]
        if isinstance(n, ast.Subscript):
            if isinstance(n.value, ast.Name) and n.value.id in self.rows:
                return ['listIndex', ['items', self.name(n.value)], self.expr(n.slice)]
            if isinstance(n.value, ast.Name) and n.value.id in self.dicts:
                return ['dictIndex', self.name(n.value), self.expr(n.slice)]
            if isinstance(n.value, ast.Name) and n.value.id in self.wbs:
                return prim('wbs_getitem', self.name(n.value), self.expr(n.slice))
            self.m(n, 'subscript')
        if isinstance(n, ast.Compare):
            if len(n.ops) != 1:
                self.m(n, 'chained comparison')
            op, a, b = n.ops[0], n.left, n.comparators[0]
            if isinstance(op, (ast.Is, ast.IsNot)):
                if not (isinstance(b, ast.Constant) and b.value is None):
                    self.m(n, 'is')
                return ['isNone' if isinstance(op, ast.Is) else 'isNotNone', self.expr(a)]
            if isinstance(op, (ast.In, ast.NotIn)):
                c, kind = self.container(b)
                e = ['dictHas' if kind == 'dict' else 'isIn', self.expr(a), c]
                return e if isinstance(op, ast.In) else ['not', e]
            if type(op) in (ast.Eq, ast.NotEq):
                return ['cmp', CMP[type(op)], self.expr(a), self.expr(b)]
            self.m(n, 'comparison')
        if isinstance(n, ast.BoolOp) or (isinstance(n, ast.UnaryOp) and isinstance(n.op, ast.Not)):
            self.m(n, '`and` / `or` / `not` as a value')
        if isinstance(n, ast.IfExp):
            return ['ite', self.cond(n.test), self.expr(n.body), self.expr(n.orelse)]
        if isinstance(n, ast.List):
            return arg_list([self.expr(x) for x in n.elts])
        if isinstance(n, ast.Dict) and not n.keys:
            return ['dictNil']
        if isinstance(n, ast.BinOp) and isinstance(n.op, ast.Add):
            return ['bin', 'add', self.expr(n.left), self.expr(n.right)]
        if isinstance(n, ast.JoinedStr):
            if len(n.values) == 1 and isinstance(n.values[0], ast.FormattedValue) and n.values[0].conversion == -1 \
                    and n.values[0].format_spec is None:
                return prim('str', self.expr(n.values[0].value))
            self.m(n, 'f-string')
        if isinstance(n, ast.ListComp):
            if len(n.generators) != 1 or n.generators[0].is_async or not isinstance(n.generators[0].target, ast.Name):
                self.m(n, 'comprehension')
            g = n.generators[0]
            it = self.iterable(g.iter)
            x = g.target.id
            new = x not in self.known
            self.known.add(x)
            c = ['bool', True]
            for t in reversed(g.ifs):
                c = self.cond(t) if c == ['bool', True] else ['and', self.cond(t), c]
            e = ['listComp', self.expr(n.elt), x, it, c]
            if new:
                self.known.discard(x)
            return e
        if isinstance(n, ast.Call):
            return self.call(n)
        self.m(n, 'expression')

    def iterable(self, n):
        if isinstance(n, ast.Call) and isinstance(n.func, ast.Attribute) and n.func.attr == 'keys' and not n.args \
                and not n.keywords:
            if is_dunder_dict(n.func.value):
                return prim('__dict__', self.name(n.func.value.value))
            if isinstance(n.func.value, ast.Name) and n.func.value.id in self.dicts:
                return self.name(n.func.value)
            self.m(n, 'keys')
        if isinstance(n, ast.Call) and isinstance(n.func, ast.Name) and n.func.id == 'range' and len(n.args) == 2 \
                and not n.keywords:
            return ['range3', self.expr(n.args[0]), self.expr(n.args[1]), ['num', '1']]
        if isinstance(n, ast.Name) and n.id in self.dicts:
            self.m(n, 'iteration over a dict')
        return self.expr(n)

    def call(self, n):
        f = n.func
        pos = len(n.args)
        if isinstance(f, ast.Name):
            if f.id in ('int', 'float', 'str') and pos == 1 and not n.keywords:
                return prim(f.id, self.expr(n.args[0]))
            if f.id == 'len' and pos == 1 and not n.keywords:
                a = n.args[0]
                if isinstance(a, ast.Name) and a.id in self.str_names:
                    return prim('strlen', self.name(a))
                if isinstance(a, ast.Name) and a.id in self.rows:
                    return ['len', ['items', self.name(a)]]
                self.m(n, 'len')
            if f.id == 'isinstance' and pos == 2 and isinstance(n.args[1], ast.Name) and n.args[1].id == 'datetime':
                return prim('isinstance_datetime', self.expr(n.args[0]))
            if f.id == 'next' and pos == 1 and isinstance(n.args[0], ast.Name) and self.readers.get(n.args[0].id) == 0:
                self.readers[n.args[0].id] = 1
                return ['nextComp', ['var', '_r'], '_r', ['var', n.args[0].id], ['bool', True]]
            if f.id in self.funs and not n.keywords:
                return ['callFn', FUNS.index(self.funs[f.id]), arg_list([self.expr(a) for a in n.args])]
            if f.id == 'WBS' and pos == 0 and not n.keywords:
                return ['callFn', LIB['WBS'], ['listNil']]
            if f.id == 'Task' and pos == 0 and [k.arg for k in n.keywords] and \
                    sorted(k.arg for k in n.keywords) == sorted(TASK_KW):
                kw = {k.arg: k.value for k in n.keywords}
                # Python evaluates the keyword arguments in the order written; they are pure reads here
                return ['callFn', LIB['Task'], arg_list([self.expr(kw[k]) for k in TASK_KW])]
            if f.id == 'TaskRaw' and pos == 0:
                sig, defaults = self.raw_sig
                kw = {}
                star = ['dictNil']
                for k in n.keywords:
                    if k.arg is None:
                        if not (isinstance(k.value, ast.Name) and k.value.id in self.dicts):
                            self.m(n, '** argument')
                        star = self.name(k.value)
                    else:
                        kw[k.arg] = self.expr(k.value)
                args = []
                for p in sig:
                    if p in kw:
                        args.append(kw.pop(p))
                    elif p in defaults:
                        args.append(defaults[p])
                    else:
                        self.m(n, f'missing argument {p}')
                if kw:
                    self.m(n, 'extra keyword')
                return ['construct', FUNS.index('TaskRaw_init'), arg_list(args + [star])]
            self.m(n, 'call')
        if isinstance(f, ast.Attribute):
            a = f.attr
            if a == 'strftime' and pos == 1 and not n.keywords:
                return prim('strftime', self.expr(f.value), self.expr(n.args[0]))
            if a == 'strptime' and isinstance(f.value, ast.Name) and f.value.id == 'datetime' and pos == 2:
                return prim('strptime', self.expr(n.args[0]), self.expr(n.args[1]))
            if a == 'replace' and pos == 2 and not n.keywords:
                return prim('replace', self.expr(f.value), self.expr(n.args[0]), self.expr(n.args[1]))
            if a == 'split' and pos == 1 and not n.keywords:
                return prim('split', self.expr(f.value), self.expr(n.args[0]))
            if a == 'startswith' and pos == 1 and not n.keywords:
                return prim('startswith', self.expr(f.value), self.expr(n.args[0]))
            if a == 'join' and pos == 1 and not n.keywords:
                return ['prim', 'join', ['listCons', self.expr(f.value), self.expr(n.args[0])]]
            if a == '__getattribute__' and pos == 1 and not n.keywords:
                return prim('__getattribute__', self.expr(f.value), self.expr(n.args[0]))
            if a == 'get' and pos == 1 and not n.keywords:
                if is_dunder_dict(f.value):
                    o, k = self.name(f.value.value), self.expr(n.args[0])
                    return ['ite', ['isIn', k, prim('__dict__', o)], prim('__getattribute__', o, k), ['none']]
                if isinstance(f.value, ast.Name) and f.value.id in self.dicts:
                    return ['dictGet', self.name(f.value), self.expr(n.args[0])]
            if a == 'reader' and isinstance(f.value, ast.Name) and f.value.id == 'csv':
                self.m(n, 'csv.reader outside an assignment')
        self.m(n, 'call')

    # ---- statements
    def block(self, stmts):
        out = []
        for s in stmts:
            out += self.stmt(s)
        return out

    def assigned_names(self, stmts):
        res = set()
        for s in stmts:
            for n in ast.walk(s):
                if isinstance(n, ast.Name) and isinstance(n.ctx, ast.Store):
                    res.add(n.id)
                if isinstance(n, ast.Call) and isinstance(n.func, ast.Attribute) and n.func.attr == 'append' \
                        and isinstance(n.func.value, ast.Name):
                    res.add(n.func.value.id)
                if isinstance(n, ast.Subscript) and isinstance(n.ctx, ast.Store) and isinstance(n.value, ast.Name):
                    res.add(n.value.id)
        return res

    def stmt(self, s):
        if isinstance(s, ast.AnnAssign) and s.value is not None and isinstance(s.target, ast.Name):
            return self.assign(s.target, s.value, s)
        if isinstance(s, ast.Assign) and len(s.targets) == 1:
            return self.assign(s.targets[0], s.value, s)
        if isinstance(s, ast.Return):
            return [['ret', self.expr(s.value) if s.value is not None else ['none']]]
        if isinstance(s, ast.If):
            return [['ifElse', self.cond(s.test), self.block(s.body), self.block(s.orelse)]]
        if isinstance(s, ast.For) and not s.orelse:
            return self.for_stmt(s)
        if isinstance(s, ast.With) and len(s.items) == 1:
            return self.with_stmt(s)
        if isinstance(s, ast.Expr) and isinstance(s.value, ast.Call):
            return self.expr_stmt(s.value)
        if isinstance(s, ast.Pass):
            return [['pass']]
        self.m(s, 'statement')

    def assign(self, t, v, s):
        if isinstance(t, ast.Name):
            x = t.id
            if x in self.consts or x in self.readers or x in self.writers:
                self.m(s, 'assignment')
            if isinstance(v, ast.Call) and isinstance(v.func, ast.Attribute) and isinstance(v.func.value, ast.Name) \
                    and v.func.value.id == 'csv' and v.func.attr in ('reader', 'writer') and len(v.args) == 1 \
                    and [k.arg for k in v.keywords] == ['delimiter'] and x not in self.known:
                args = [self.expr(v.args[0]), self.expr(v.keywords[0].value)]
                if v.func.attr == 'reader':
                    self.readers[x] = 0
                    return [['assign', x, ['callFn', LIB['reader'], arg_list(args)]]]
                self.writers.add(x)
                return [['assign', x, arg_list(args)]]
            for kind in (self.lists, self.dicts, self.wbs, self.rows):
                if x in kind:
                    self.m(s, 're-assignment of a typed local')
            if isinstance(v, ast.List) and not v.elts and x not in self.known:
                self.lists.add(x)
            elif isinstance(v, ast.Dict) and not v.keys and x not in self.known:
                self.dicts.add(x)
            elif isinstance(v, ast.Call) and isinstance(v.func, ast.Name) and v.func.id == '__parse_header' \
                    and x not in self.known:
                e = self.expr(v)
                self.dicts.add(x)
                self.known.add(x)
                return [['assign', x, e]]
            elif isinstance(v, ast.Call) and isinstance(v.func, ast.Name) and v.func.id == 'WBS' and x not in self.known:
                self.wbs.add(x)
            elif isinstance(v, ast.Call) and isinstance(v.func, ast.Name) and v.func.id == 'tasks_to_raws':
                self.lists.add(x)
            e = self.expr(v)
            self.known.add(x)
            return [['assign', x, e]]
        if isinstance(t, ast.Subscript) and isinstance(t.value, ast.Name) and t.value.id in self.dicts:
            d = t.value.id
            return [['assign', d, ['dictSet', ['var', d], self.expr(t.slice), self.expr(v)]]]
        if isinstance(t, ast.Attribute):
            if t.attr == 'parent':
                return [['expr', ['callFn', LIB['parent'], arg_list([self.expr(t.value), self.expr(v)])]]]
            if t.attr.startswith('__') or t.attr in ('children', 'roots', 'predecessors', 'successors', 'tasks'):
                self.m(s, 'attribute assignment')
            if isinstance(v, ast.Name) and (v.id in self.lists or v.id in self.dicts):
                self.m(s, 'a list / dict local stored in an attribute')
            return [['setAttr', self.expr(t.value), t.attr, self.expr(v)]]
        self.m(s, 'assignment')

    def for_stmt(self, s):
        it, t = s.iter, s.target
        changed = self.assigned_names(s.body)
        pre = []
        if isinstance(t, ast.Tuple) and len(t.elts) == 2 and all(isinstance(e, ast.Name) for e in t.elts) \
                and isinstance(it, ast.Call) and isinstance(it.func, ast.Attribute) and it.func.attr == 'items' \
                and not it.args and not it.keywords:
            k, v = t.elts[0].id, t.elts[1].id
            src = it.func.value
            if is_dunder_dict(src):
                o = self.name(src.value)
                e = prim('__dict__', o)
                pre = [['assign', v, prim('__getattribute__', o, ['var', k])]]
            elif isinstance(src, ast.Name) and src.id in self.dicts:
                if src.id in changed:
                    self.m(s, 'the dict changes in the loop')
                e = self.name(src)
                pre = [['assign', v, ['dictIndex', self.name(src), ['var', k]]]]
            else:
                self.m(s, 'items')
            if k in changed or v in changed:
                self.m(s, 'loop variable assigned')
            self.known |= {k, v}
            return [['forIn', k, e, pre + self.block(s.body)]]
        if not isinstance(t, ast.Name):
            self.m(s, 'for target')
        x = t.id
        if x in changed:
            self.m(s, 'loop variable assigned')
        if isinstance(it, ast.Name) and it.id in self.readers:
            if self.readers[it.id] != 1:
                self.m(s, 'reader iterated without / after next')
            self.readers[it.id] = 2
            e = ['prim', 'rest', ['var', it.id]]
            self.rows.add(x)
        else:
            if isinstance(it, ast.Name) and it.id in changed:
                self.m(s, 'the list changes in the loop')
            e = self.iterable(it)
        self.known.add(x)
        return [['forIn', x, e, self.block(s.body)]]

    def with_stmt(self, s):
        item = s.items[0]
        c = item.context_expr
        if not (isinstance(c, ast.Call) and isinstance(c.func, ast.Name) and c.func.id == 'open' and len(c.args) == 1
                and isinstance(item.optional_vars, ast.Name)):
            self.m(s, 'with')
        kw = {k.arg: k.value for k in c.keywords}
        if sorted(kw) != ['encoding', 'mode', 'newline'] or not isinstance(kw['mode'], ast.Constant) \
                or not isinstance(kw['newline'], ast.Constant) or kw['newline'].value != '\n' \
                or not (isinstance(kw['encoding'], ast.Name) and kw['encoding'].id == 'encoding'):
            self.m(s, 'open')
        f = item.optional_vars.id
        if f in self.known:
            self.m(s, 'with target')
        self.known.add(f)
        if kw['mode'].value == 'r':
            first = ['assign', f, prim('open', self.expr(c.args[0]))]
        elif kw['mode'].value == 'w':
            self.expr(c.args[0])
            first = ['assign', f, ['newBox', ['listNil']]]
        else:
            self.m(s, 'mode')
        return [first] + self.block(s.body)

    def expr_stmt(self, c):
        f = c.func
        if isinstance(f, ast.Attribute) and len(c.args) >= 1 and not c.keywords:
            if f.attr == 'append' and len(c.args) == 1:
                if isinstance(f.value, ast.Name) and f.value.id in self.lists:
                    x = f.value.id
                    return [['assign', x, ['bin', 'add', ['var', x], arg_list([self.expr(c.args[0])])]]]
                if isinstance(f.value, ast.Attribute) and f.value.attr in ('children', 'roots', 'predecessors'):
                    return [['expr', ['callFn', LIB[f.value.attr],
                                      arg_list([self.expr(f.value.value), self.expr(c.args[0])])]]]
            if f.attr == '__setattr__' and len(c.args) == 2:
                return [['expr', ['callFn', LIB['setattr'],
                                  arg_list([self.expr(f.value), self.expr(c.args[0]), self.expr(c.args[1])])]]]
            if f.attr == 'writerow' and len(c.args) == 1 and isinstance(f.value, ast.Name) and f.value.id in self.writers:
                w = ['var', f.value.id]
                return [['boxAppend', ['listIndex', w, ['num', '0']],
                         ['prim', 'csv.writerow', ['listCons', ['listIndex', w, ['num', '1']], self.expr(c.args[0])]]]]
        self.m(c, 'expression statement')


def fun_def(tree, name):
    r = [n for n in tree.body if isinstance(n, ast.FunctionDef) and n.name == name]
    if len(r) != 1:
        raise Miss(f'function {name}')
    return r[0]


def plain_params(f, origin, allow_kwargs=False):
    a = f.args
    if a.vararg or a.kwonlyargs or a.posonlyargs or (a.kwarg and not allow_kwargs) or f.decorator_list:
        raise Miss(f'{origin}: parameters')
    return [x.arg for x in a.args] + ([a.kwarg.arg] if a.kwarg else [])


def const_expr(n, origin):
    if isinstance(n, ast.Constant) and (n.value is None or isinstance(n.value, (bool, str))):
        return ['none'] if n.value is None else ['bool', n.value] if isinstance(n.value, bool) else lit(n.value)
    raise Miss(f'{origin}: default value')


def extract(csv_src, raw_src):
    ct, rt = ast.parse(csv_src), ast.parse(raw_src)
    # module constants of csv_io.py
    consts = {}
    for n in ct.body:
        if isinstance(n, ast.Assign):
            if len(n.targets) != 1 or not isinstance(n.targets[0], ast.Name) or n.targets[0].id in consts:
                raise Miss('module-level assignment')
            v = n.value
            if isinstance(v, ast.Constant) and isinstance(v.value, str):
                consts[n.targets[0].id] = v.value
            elif isinstance(v, ast.List) and all(isinstance(e, ast.Constant) and isinstance(e.value, str) for e in v.elts):
                consts[n.targets[0].id] = [e.value for e in v.elts]
            else:
                raise Miss('module-level constant')
        elif not isinstance(n, (ast.Import, ast.ImportFrom, ast.FunctionDef)):
            raise Miss(f'module-level statement {type(n).__name__}')
    for n in rt.body:
        if not isinstance(n, (ast.Import, ast.ImportFrom, ast.FunctionDef, ast.ClassDef)):
            raise Miss(f'raw.py: module-level statement {type(n).__name__}')
    # TaskRaw
    cls = [n for n in rt.body if isinstance(n, ast.ClassDef) and n.name == 'TaskRaw']
    if len(cls) != 1 or cls[0].bases or cls[0].keywords or cls[0].decorator_list:
        raise Miss('class TaskRaw')
    for n in cls[0].body:
        if not (isinstance(n, ast.FunctionDef) and n.name in ('__init__', 'to_dict')):
            raise Miss('TaskRaw: member')
    init = [n for n in cls[0].body if n.name == '__init__'][0]
    iparams = plain_params(init, 'TaskRaw.__init__', allow_kwargs=True)
    if init.args.kwarg is None or iparams[0] != 'self':
        raise Miss('TaskRaw.__init__: **kwargs')
    sig = iparams[1:-1]
    dflt = {}
    ds = init.args.defaults
    for p, d in zip(sig[len(sig) - len(ds):], ds):
        dflt[p] = const_expr(d, 'TaskRaw.__init__')
    raw_sig = (sig, dflt)
    funs = dict(CSV_FUNS)
    funs.update(RAW_FUNS)
    out = {'funs': FUNS}

    def one(key, node, origin, params, allow_kwargs=False):
        str_params = [a.arg for a in node.args.args if isinstance(a.annotation, ast.Name) and a.annotation.id == 'str'
                      and a.arg.startswith('_')]
        rows = ['row'] if key == 'parse_header' else []
        dicts = [node.args.kwarg.arg] if node.args.kwarg else []
        tr = Tr(consts, funs, raw_sig, origin, params, str_params, rows, dicts)
        body = tr.block(strip_doc(node.body))
        for r, stt in tr.readers.items():
            if stt != 2:
                raise Miss(f'{origin}: reader {r} not consumed by next + for')
        out[key] = {'origin': origin, 'params': params, 'body': body}

    for name, key in CSV_FUNS.items():
        f = fun_def(ct, name)
        ps = plain_params(f, name)
        if key in ('read_csv', 'write_csv'):
            d = f.args.defaults
            if [ast.unparse(x) for x in d] != ["'utf-8'", "';'"] or ps[-2:] != ['encoding', 'delimiter']:
                raise Miss(f'{name}: defaults')
        elif f.args.defaults:
            raise Miss(f'{name}: defaults')
        one(key, f, name, ps)
    one('TaskRaw_init', init, 'TaskRaw.__init__', iparams, True)
    for name, key in RAW_FUNS.items():
        f = fun_def(rt, name)
        if f.args.defaults:
            raise Miss(f'{name}: defaults')
        one(key, f, name, plain_params(f, name))
    return out


# ---- Lean output

def lean_s(s):
    r = ''
    for c in s:
        if c == '"' or c == '\\':
            r += '\\' + c
        elif c == '\n':
            r += '\\n'
        elif 32 <= ord(c) < 127:
            r += c
        else:
            r += '\\u%04X' % ord(c)
    return '"' + r + '"'


def lean_expr(e):
    k = e[0]
    if k in ('none', 'listNil', 'dictNil'):
        return f'.{k}'
    if k == 'num':
        return f'(.num {e[1]})'
    if k == 'bool':
        return f'(.bool {"true" if e[1] else "false"})'
    if k == 'var':
        return f'(.var {lean_s(e[1])})'
    if k in ('callFn', 'construct'):
        fn = f'fn_{FUNS[e[1]]}' if e[1] < len(FUNS) else str(e[1])
        return f'(.{k} {fn} {lean_expr(e[2])})'
    if k == 'attr':
        return f'(.attr {lean_expr(e[1])} {lean_s(e[2])})'
    if k == 'prim':
        return f'(.prim {lean_s(e[1])} {lean_expr(e[2])})'
    if k in ('cmp', 'bin'):
        return f'(.{k} .{e[1]} {lean_expr(e[2])} {lean_expr(e[3])})'
    if k in ('listComp', 'nextComp'):
        return f'(.{k} {lean_expr(e[1])} {lean_s(e[2])} {lean_expr(e[3])} {lean_expr(e[4])})'
    if k in ('isNone', 'isNotNone', 'not', 'and', 'or', 'isIn', 'listCons', 'len', 'ite', 'dictSet', 'dictHas',
             'dictIndex', 'dictGet', 'listIndex', 'items', 'newBox', 'range3'):
        return f'(.{k} ' + ' '.join(lean_expr(x) for x in e[1:]) + ')'
    raise Miss(f'lean_expr {e!r}')


def lean_block(b, ind):
    if not b:
        return '[]'
    pad = ' ' * (ind + 1)
    return '[' + (',\n' + pad).join(lean_stmt(s, ind + 1) for s in b) + ']'


def lean_stmt(s, ind):
    k = s[0]
    pad = ' ' * (ind + 2)
    if k == 'assign':
        return f'.assign {lean_s(s[1])} {lean_expr(s[2])}'
    if k == 'ifElse':
        return f'.ifElse {lean_expr(s[1])}\n{pad}{lean_block(s[2], ind + 2)}\n{pad}{lean_block(s[3], ind + 2)}'
    if k == 'forIn':
        return f'.forIn {lean_s(s[1])} {lean_expr(s[2])}\n{pad}{lean_block(s[3], ind + 2)}'
    if k in ('ret', 'expr'):
        return f'.{k} {lean_expr(s[1])}'
    if k == 'setAttr':
        return f'.setAttr {lean_expr(s[1])} {lean_s(s[2])} {lean_expr(s[3])}'
    if k == 'boxAppend':
        return f'.boxAppend {lean_expr(s[1])} {lean_expr(s[2])}'
    if k == 'pass':
        return '.pass'
    raise Miss(f'lean_stmt {s!r}')


def to_lean(d):
    out = ('/- GENERATED by tools/extract.py (extract_csv) from /repo/src/pjplan/io/csv_io.py and raw.py — '
           'do not edit.  Re-checked by `lake build`. -/\n'
           'import PjVerif.Model.PyLite\nnamespace Pj.Extracted.Csv\nopen Pj\n\n'
           '/-! the function table of io/csv_io.py + io/raw.py: `callFn k` / `construct k` call the k-th function below;\n'
           '    `callFn k` with k ≥ 100 is a library function (Model/PyLiteIO.lean) -/\n')
    for i, key in enumerate(d['funs']):
        out += f'def fn_{key} : Nat := {i}\n'
    out += '\n'
    for key in d['funs']:
        m = d[key]
        params = ', '.join('"' + p + '"' for p in m['params'])
        out += (f'/-- `{m["origin"]}`, parameters ({", ".join(m["params"])}) -/\n'
                f'def src_{key} : List PyLite.Stmt :=\n  {lean_block(m["body"], 2)}\n\n'
                f'def src_{key}_params : List String := [{params}]\n\n')
    out += ('/-- the program: function number ↦ parameters and body -/\n'
            'def csvFuns : PyLite.FunTable := fun k =>\n')
    for i, key in enumerate(d['funs']):
        out += f'  {"if" if i == 0 else "else if"} k = fn_{key} then some (src_{key}_params, src_{key})\n'
    out += '  else none\n\n'
    return out + 'end Pj.Extracted.Csv\n'


# the translation of the source as of the last successful check (fallback when extract() raises Miss)
PINNED = {'TaskRaw_init': {'body': [['setAttr', ['var', 'self'], 'id', ['var', 'id']],
                           ['setAttr', ['var', 'self'], 'name', ['var', 'name']],
                           ['setAttr', ['var', 'self'], 'resource', ['var', 'resource']],
                           ['setAttr', ['var', 'self'], 'start', ['var', 'start']],
                           ['setAttr', ['var', 'self'], 'end', ['var', 'end']],
                           ['setAttr', ['var', 'self'], 'milestone', ['var', 'milestone']],
                           ['setAttr', ['var', 'self'], 'estimate', ['var', 'estimate']],
                           ['setAttr', ['var', 'self'], 'spent', ['var', 'spent']],
                           ['setAttr', ['var', 'self'], 'parent_id', ['var', 'parent_id']],
                           ['setAttr', ['var', 'self'], 'predecessor_ids', ['var', 'predecessor_ids']],
                           ['forIn', 'k', ['var', 'kwargs'],
                            [['assign', 'v', ['dictIndex', ['var', 'kwargs'], ['var', 'k']]],
                             ['expr',
                              ['callFn', 100,
                               ['listCons', ['var', 'self'],
                                ['listCons', ['var', 'k'], ['listCons', ['var', 'v'], ['listNil']]]]]]]]],
                  'origin': 'TaskRaw.__init__',
                  'params': ['self', 'id', 'name', 'resource', 'start', 'end', 'milestone', 'estimate', 'spent',
                             'parent_id', 'predecessor_ids', 'kwargs']},
 'format_custom': {'body': [['ifElse', ['prim', 'isinstance_datetime', ['listCons', ['var', '_val'], ['listNil']]],
                             [['ret',
                               ['prim', 'strftime',
                                ['listCons', ['var', '_val'],
                                 ['listCons', ['prim', 'lit:%d.%m.%y', ['listNil']], ['listNil']]]]]],
                             []],
                            ['ret', ['var', '_val']]],
                   'origin': '__format_custom',
                   'params': ['_val']},
 'funs': ['parse_header', 'parse_str', 'parse_date', 'parse_predecessors', 'parse_float', 'parse_int', 'parse_bool',
          'format_custom', 'read_csv', 'write_csv', 'TaskRaw_init', 'tasks_to_raws', 'raws_to_wbs'],
 'parse_bool': {'body': [['ifElse',
                          ['cmp', 'eq', ['prim', 'strlen', ['listCons', ['var', '_val'], ['listNil']]], ['num', '0']],
                          [['ret', ['bool', False]]], []],
                         ['ret', ['cmp', 'eq', ['var', '_val'], ['prim', 'lit:True', ['listNil']]]]],
                'origin': '__parse_bool',
                'params': ['_val']},
 'parse_date': {'body': [['ifElse',
                          ['cmp', 'eq', ['prim', 'strlen', ['listCons', ['var', '_date'], ['listNil']]],
                           ['num', '0']],
                          [['ret', ['none']]], []],
                         ['ret',
                          ['prim', 'strptime',
                           ['listCons', ['var', '_date'],
                            ['listCons', ['prim', 'lit:%d.%m.%y', ['listNil']], ['listNil']]]]]],
                'origin': '__parse_date',
                'params': ['_date']},
 'parse_float': {'body': [['ifElse',
                           ['cmp', 'eq', ['prim', 'strlen', ['listCons', ['var', '_val'], ['listNil']]],
                            ['num', '0']],
                           [['ret', ['none']]], []],
                          ['ret', ['prim', 'float', ['listCons', ['var', '_val'], ['listNil']]]]],
                 'origin': '__parse_float',
                 'params': ['_val']},
 'parse_header': {'body': [['assign', 'res', ['dictNil']],
                           ['forIn', 'i', ['range3', ['num', '0'], ['len', ['items', ['var', 'row']]], ['num', '1']],
                            [['assign', 'name',
                              ['prim', 'replace',
                               ['listCons', ['listIndex', ['items', ['var', 'row']], ['var', 'i']],
                                ['listCons', ['prim', 'lit:\ufeff', ['listNil']],
                                 ['listCons', ['prim', 'lit:', ['listNil']], ['listNil']]]]]],
                             ['assign', 'res', ['dictSet', ['var', 'res'], ['var', 'name'], ['var', 'i']]]]],
                           ['ret', ['var', 'res']]],
                  'origin': '__parse_header',
                  'params': ['row']},
 'parse_int': {'body': [['ifElse',
                         ['cmp', 'eq', ['prim', 'strlen', ['listCons', ['var', '_val'], ['listNil']]], ['num', '0']],
                         [['ret', ['none']]], []],
                        ['ret', ['prim', 'int', ['listCons', ['var', '_val'], ['listNil']]]]],
               'origin': '__parse_int',
               'params': ['_val']},
 'parse_predecessors': {'body': [['ifElse',
                                  ['cmp', 'eq', ['prim', 'strlen', ['listCons', ['var', '_val'], ['listNil']]],
                                   ['num', '0']],
                                  [['ret', ['listNil']]], []],
                                 ['ret',
                                  ['listComp', ['prim', 'int', ['listCons', ['var', 'v'], ['listNil']]], 'v',
                                   ['prim', 'split',
                                    ['listCons', ['var', '_val'],
                                     ['listCons', ['prim', 'lit:;', ['listNil']], ['listNil']]]],
                                   ['bool', True]]]],
                        'origin': '__parse_predecessors',
                        'params': ['_val']},
 'parse_str': {'body': [['ifElse', ['cmp', 'eq', ['var', '_val'], ['prim', 'lit:', ['listNil']]], [['ret', ['none']]],
                         []],
                        ['ret', ['var', '_val']]],
               'origin': '__parse_str',
               'params': ['_val']},
 'raws_to_wbs': {'body': [['assign', 'tasks_by_id', ['dictNil']],
                          ['forIn', 'raw', ['var', 'raws'],
                           [['assign', 't',
                             ['callFn', 101,
                              ['listCons', ['attr', ['var', 'raw'], 'id'],
                               ['listCons', ['attr', ['var', 'raw'], 'name'],
                                ['listCons', ['attr', ['var', 'raw'], 'resource'],
                                 ['listCons', ['attr', ['var', 'raw'], 'start'],
                                  ['listCons', ['attr', ['var', 'raw'], 'end'],
                                   ['listCons', ['attr', ['var', 'raw'], 'estimate'],
                                    ['listCons', ['attr', ['var', 'raw'], 'spent'],
                                     ['listCons', ['attr', ['var', 'raw'], 'milestone'],
                                      ['listCons',
                                       ['ite',
                                        ['isIn', ['prim', 'lit:min_start', ['listNil']],
                                         ['prim', '__dict__', ['listCons', ['var', 'raw'], ['listNil']]]],
                                        ['prim', '__getattribute__',
                                         ['listCons', ['var', 'raw'],
                                          ['listCons', ['prim', 'lit:min_start', ['listNil']], ['listNil']]]],
                                        ['none']],
                                       ['listNil']]]]]]]]]]]],
                            ['forIn', 'k', ['prim', '__dict__', ['listCons', ['var', 'raw'], ['listNil']]],
                             [['ifElse',
                               ['not',
                                ['isIn', ['var', 'k'], ['prim', 'dir', ['listCons', ['var', 't'], ['listNil']]]]],
                               [['expr',
                                 ['callFn', 100,
                                  ['listCons', ['var', 't'],
                                   ['listCons', ['var', 'k'],
                                    ['listCons',
                                     ['prim', '__getattribute__',
                                      ['listCons', ['var', 'raw'], ['listCons', ['var', 'k'], ['listNil']]]],
                                     ['listNil']]]]]]],
                               []]]],
                            ['assign', 'tasks_by_id',
                             ['dictSet', ['var', 'tasks_by_id'], ['attr', ['var', 't'], 'id'], ['var', 't']]]]],
                          ['assign', 'roots', ['listNil']],
                          ['forIn', 'raw', ['var', 'raws'],
                           [['assign', 'task', ['dictIndex', ['var', 'tasks_by_id'], ['attr', ['var', 'raw'], 'id']]],
                            ['ifElse', ['isNotNone', ['attr', ['var', 'raw'], 'parent_id']],
                             [['assign', 'parent_task',
                               ['dictGet', ['var', 'tasks_by_id'], ['attr', ['var', 'raw'], 'parent_id']]],
                              ['ifElse', ['isNotNone', ['var', 'parent_task']],
                               [['expr',
                                 ['callFn', 104,
                                  ['listCons', ['var', 'parent_task'], ['listCons', ['var', 'task'], ['listNil']]]]],
                                ['expr',
                                 ['callFn', 105,
                                  ['listCons', ['var', 'task'], ['listCons', ['var', 'parent_task'], ['listNil']]]]]],
                               [['assign', 'roots',
                                 ['bin', 'add', ['var', 'roots'], ['listCons', ['var', 'task'], ['listNil']]]]]]],
                             [['assign', 'roots',
                               ['bin', 'add', ['var', 'roots'], ['listCons', ['var', 'task'], ['listNil']]]]]]]],
                          ['assign', 'wbs', ['callFn', 102, ['listNil']]],
                          ['forIn', 'r', ['var', 'roots'],
                           [['expr',
                             ['callFn', 106,
                              ['listCons', ['var', 'wbs'], ['listCons', ['var', 'r'], ['listNil']]]]]]],
                          ['forIn', 'raw', ['var', 'raws'],
                           [['assign', 'task',
                             ['prim', 'wbs_getitem',
                              ['listCons', ['var', 'wbs'],
                               ['listCons', ['attr', ['var', 'raw'], 'id'], ['listNil']]]]],
                            ['forIn', 'predecessor_id', ['attr', ['var', 'raw'], 'predecessor_ids'],
                             [['assign', 'predecessor_task',
                               ['prim', 'wbs_getitem',
                                ['listCons', ['var', 'wbs'], ['listCons', ['var', 'predecessor_id'], ['listNil']]]]],
                              ['ifElse', ['isNotNone', ['var', 'predecessor_task']],
                               [['expr',
                                 ['callFn', 107,
                                  ['listCons', ['var', 'task'],
                                   ['listCons', ['var', 'predecessor_task'], ['listNil']]]]]],
                               []]]]]],
                          ['ret', ['var', 'wbs']]],
                 'origin': 'raws_to_wbs',
                 'params': ['raws']},
 'read_csv': {'body': [['assign', 'raws', ['listNil']],
                       ['assign', 'input_file', ['prim', 'open', ['listCons', ['var', 'path'], ['listNil']]]],
                       ['assign', 'csvfile',
                        ['callFn', 103,
                         ['listCons', ['var', 'input_file'], ['listCons', ['var', 'delimiter'], ['listNil']]]]],
                       ['assign', 'header',
                        ['callFn', 0,
                         ['listCons', ['nextComp', ['var', '_r'], '_r', ['var', 'csvfile'], ['bool', True]],
                          ['listNil']]]],
                       ['forIn', 'row', ['prim', 'rest', ['var', 'csvfile']],
                        [['assign', 'kwargs', ['dictNil']],
                         ['forIn', 'k', ['var', 'header'],
                          [['assign', 'v', ['dictIndex', ['var', 'header'], ['var', 'k']]],
                           ['ifElse', ['cmp', 'eq', ['var', 'k'], ['prim', 'lit:min_start', ['listNil']]],
                            [['assign', 'kwargs',
                              ['dictSet', ['var', 'kwargs'], ['var', 'k'],
                               ['callFn', 2,
                                ['listCons', ['listIndex', ['items', ['var', 'row']], ['var', 'v']], ['listNil']]]]]],
                            [['ifElse',
                              ['not',
                               ['isIn', ['var', 'k'],
                                ['listCons', ['prim', 'lit:id', ['listNil']],
                                 ['listCons', ['prim', 'lit:name', ['listNil']],
                                  ['listCons', ['prim', 'lit:resource', ['listNil']],
                                   ['listCons', ['prim', 'lit:start', ['listNil']],
                                    ['listCons', ['prim', 'lit:end', ['listNil']],
                                     ['listCons', ['prim', 'lit:estimate', ['listNil']],
                                      ['listCons', ['prim', 'lit:spent', ['listNil']],
                                       ['listCons', ['prim', 'lit:milestone', ['listNil']],
                                        ['listCons', ['prim', 'lit:parent_id', ['listNil']],
                                         ['listCons', ['prim', 'lit:predecessor_ids', ['listNil']],
                                          ['listNil']]]]]]]]]]]]],
                              [['assign', 'kwargs',
                                ['dictSet', ['var', 'kwargs'], ['var', 'k'],
                                 ['listIndex', ['items', ['var', 'row']], ['var', 'v']]]]],
                              []]]]]],
                         ['assign', 'raws',
                          ['bin', 'add', ['var', 'raws'],
                           ['listCons',
                            ['construct', 10,
                             ['listCons',
                              ['prim', 'int',
                               ['listCons',
                                ['listIndex', ['items', ['var', 'row']],
                                 ['dictIndex', ['var', 'header'], ['prim', 'lit:id', ['listNil']]]],
                                ['listNil']]],
                              ['listCons',
                               ['callFn', 1,
                                ['listCons',
                                 ['listIndex', ['items', ['var', 'row']],
                                  ['dictIndex', ['var', 'header'], ['prim', 'lit:name', ['listNil']]]],
                                 ['listNil']]],
                               ['listCons',
                                ['callFn', 1,
                                 ['listCons',
                                  ['listIndex', ['items', ['var', 'row']],
                                   ['dictIndex', ['var', 'header'], ['prim', 'lit:resource', ['listNil']]]],
                                  ['listNil']]],
                                ['listCons',
                                 ['callFn', 2,
                                  ['listCons',
                                   ['listIndex', ['items', ['var', 'row']],
                                    ['dictIndex', ['var', 'header'], ['prim', 'lit:start', ['listNil']]]],
                                   ['listNil']]],
                                 ['listCons',
                                  ['callFn', 2,
                                   ['listCons',
                                    ['listIndex', ['items', ['var', 'row']],
                                     ['dictIndex', ['var', 'header'], ['prim', 'lit:end', ['listNil']]]],
                                    ['listNil']]],
                                  ['listCons',
                                   ['callFn', 6,
                                    ['listCons',
                                     ['listIndex', ['items', ['var', 'row']],
                                      ['dictIndex', ['var', 'header'], ['prim', 'lit:milestone', ['listNil']]]],
                                     ['listNil']]],
                                   ['listCons',
                                    ['callFn', 4,
                                     ['listCons',
                                      ['listIndex', ['items', ['var', 'row']],
                                       ['dictIndex', ['var', 'header'], ['prim', 'lit:estimate', ['listNil']]]],
                                      ['listNil']]],
                                    ['listCons',
                                     ['callFn', 4,
                                      ['listCons',
                                       ['listIndex', ['items', ['var', 'row']],
                                        ['dictIndex', ['var', 'header'], ['prim', 'lit:spent', ['listNil']]]],
                                       ['listNil']]],
                                     ['listCons',
                                      ['callFn', 5,
                                       ['listCons',
                                        ['listIndex', ['items', ['var', 'row']],
                                         ['dictIndex', ['var', 'header'], ['prim', 'lit:parent_id', ['listNil']]]],
                                        ['listNil']]],
                                      ['listCons',
                                       ['callFn', 3,
                                        ['listCons',
                                         ['listIndex', ['items', ['var', 'row']],
                                          ['dictIndex', ['var', 'header'],
                                           ['prim', 'lit:predecessor_ids', ['listNil']]]],
                                         ['listNil']]],
                                       ['listCons', ['var', 'kwargs'], ['listNil']]]]]]]]]]]]],
                            ['listNil']]]]]],
                       ['ret', ['callFn', 12, ['listCons', ['var', 'raws'], ['listNil']]]]],
              'origin': 'read_csv',
              'params': ['path', 'encoding', 'delimiter']},
 'tasks_to_raws': {'body': [['assign', 'raws', ['listNil']],
                            ['forIn', 't', ['var', 'tasks'],
                             [['assign', 'raw',
                               ['construct', 10,
                                ['listCons', ['attr', ['var', 't'], 'id'],
                                 ['listCons', ['attr', ['var', 't'], 'name'],
                                  ['listCons', ['attr', ['var', 't'], 'resource'],
                                   ['listCons', ['attr', ['var', 't'], 'start'],
                                    ['listCons', ['attr', ['var', 't'], 'end'],
                                     ['listCons', ['attr', ['var', 't'], 'milestone'],
                                      ['listCons', ['attr', ['var', 't'], 'estimate'],
                                       ['listCons', ['attr', ['var', 't'], 'spent'],
                                        ['listCons',
                                         ['ite',
                                          ['prim', 'bool',
                                           ['listCons', ['attr', ['var', 't'], 'parent'], ['listNil']]],
                                          ['attr', ['attr', ['var', 't'], 'parent'], 'id'], ['none']],
                                         ['listCons',
                                          ['listComp', ['attr', ['var', 'p'], 'id'], 'p',
                                           ['attr', ['var', 't'], 'predecessors'], ['bool', True]],
                                          ['listCons', ['dictNil'], ['listNil']]]]]]]]]]]]]],
                              ['forIn', 'k', ['prim', '__dict__', ['listCons', ['var', 't'], ['listNil']]],
                               [['ifElse',
                                 ['and',
                                  ['not',
                                   ['prim', 'startswith',
                                    ['listCons', ['var', 'k'],
                                     ['listCons', ['prim', 'lit:_', ['listNil']], ['listNil']]]]],
                                  ['not',
                                   ['isIn', ['var', 'k'],
                                    ['prim', '__dict__', ['listCons', ['var', 'raw'], ['listNil']]]]]],
                                 [['expr',
                                   ['callFn', 100,
                                    ['listCons', ['var', 'raw'],
                                     ['listCons', ['var', 'k'],
                                      ['listCons',
                                       ['prim', '__getattribute__',
                                        ['listCons', ['var', 't'], ['listCons', ['var', 'k'], ['listNil']]]],
                                       ['listNil']]]]]]],
                                 []]]],
                              ['assign', 'raws',
                               ['bin', 'add', ['var', 'raws'], ['listCons', ['var', 'raw'], ['listNil']]]]]],
                            ['ret', ['var', 'raws']]],
                   'origin': 'tasks_to_raws',
                   'params': ['tasks']},
 'write_csv': {'body': [['assign', 'raws',
                         ['callFn', 11,
                          ['listCons', ['prim', 'tasks', ['listCons', ['var', 'wbs'], ['listNil']]], ['listNil']]]],
                        ['assign', 'output_file', ['newBox', ['listNil']]],
                        ['assign', 'csvwriter',
                         ['listCons', ['var', 'output_file'], ['listCons', ['var', 'delimiter'], ['listNil']]]],
                        ['assign', 'fields', ['dictNil']],
                        ['forIn', 't', ['var', 'raws'],
                         [['forIn', 'k', ['prim', '__dict__', ['listCons', ['var', 't'], ['listNil']]],
                           [['assign', 'v',
                             ['prim', '__getattribute__',
                              ['listCons', ['var', 't'], ['listCons', ['var', 'k'], ['listNil']]]]],
                            ['ifElse',
                             ['not',
                              ['isIn', ['var', 'k'],
                               ['listCons', ['prim', 'lit:id', ['listNil']],
                                ['listCons', ['prim', 'lit:name', ['listNil']],
                                 ['listCons', ['prim', 'lit:resource', ['listNil']],
                                  ['listCons', ['prim', 'lit:start', ['listNil']],
                                   ['listCons', ['prim', 'lit:end', ['listNil']],
                                    ['listCons', ['prim', 'lit:estimate', ['listNil']],
                                     ['listCons', ['prim', 'lit:spent', ['listNil']],
                                      ['listCons', ['prim', 'lit:milestone', ['listNil']],
                                       ['listCons', ['prim', 'lit:parent_id', ['listNil']],
                                        ['listCons', ['prim', 'lit:predecessor_ids', ['listNil']],
                                         ['listNil']]]]]]]]]]]]],
                             [['assign', 'fields',
                               ['dictSet', ['var', 'fields'], ['var', 'k'],
                                ['prim', 'type_name', ['listCons', ['var', 'v'], ['listNil']]]]]],
                             []]]]]],
                        ['assign', 'field_list',
                         ['listComp', ['prim', 'str', ['listCons', ['var', 'k'], ['listNil']]], 'k',
                          ['var', 'fields'], ['bool', True]]],
                        ['boxAppend', ['listIndex', ['var', 'csvwriter'], ['num', '0']],
                         ['prim', 'csv.writerow',
                          ['listCons', ['listIndex', ['var', 'csvwriter'], ['num', '1']],
                           ['bin', 'add',
                            ['listCons', ['prim', 'lit:id', ['listNil']],
                             ['listCons', ['prim', 'lit:name', ['listNil']],
                              ['listCons', ['prim', 'lit:resource', ['listNil']],
                               ['listCons', ['prim', 'lit:start', ['listNil']],
                                ['listCons', ['prim', 'lit:end', ['listNil']],
                                 ['listCons', ['prim', 'lit:estimate', ['listNil']],
                                  ['listCons', ['prim', 'lit:spent', ['listNil']],
                                   ['listCons', ['prim', 'lit:milestone', ['listNil']],
                                    ['listCons', ['prim', 'lit:parent_id', ['listNil']],
                                     ['listCons', ['prim', 'lit:predecessor_ids', ['listNil']], ['listNil']]]]]]]]]]],
                            ['var', 'field_list']]]]],
                        ['forIn', 'task', ['var', 'raws'],
                         [['boxAppend', ['listIndex', ['var', 'csvwriter'], ['num', '0']],
                           ['prim', 'csv.writerow',
                            ['listCons', ['listIndex', ['var', 'csvwriter'], ['num', '1']],
                             ['bin', 'add',
                              ['listCons', ['attr', ['var', 'task'], 'id'],
                               ['listCons',
                                ['ite',
                                 ['prim', 'bool', ['listCons', ['attr', ['var', 'task'], 'name'], ['listNil']]],
                                 ['attr', ['var', 'task'], 'name'], ['prim', 'lit:', ['listNil']]],
                                ['listCons',
                                 ['ite',
                                  ['prim', 'bool', ['listCons', ['attr', ['var', 'task'], 'resource'], ['listNil']]],
                                  ['attr', ['var', 'task'], 'resource'], ['prim', 'lit:', ['listNil']]],
                                 ['listCons',
                                  ['ite', ['isNotNone', ['attr', ['var', 'task'], 'start']],
                                   ['prim', 'strftime',
                                    ['listCons', ['attr', ['var', 'task'], 'start'],
                                     ['listCons', ['prim', 'lit:%d.%m.%y', ['listNil']], ['listNil']]]],
                                   ['none']],
                                  ['listCons',
                                   ['ite', ['isNotNone', ['attr', ['var', 'task'], 'end']],
                                    ['prim', 'strftime',
                                     ['listCons', ['attr', ['var', 'task'], 'end'],
                                      ['listCons', ['prim', 'lit:%d.%m.%y', ['listNil']], ['listNil']]]],
                                    ['none']],
                                   ['listCons', ['attr', ['var', 'task'], 'estimate'],
                                    ['listCons', ['attr', ['var', 'task'], 'spent'],
                                     ['listCons', ['attr', ['var', 'task'], 'milestone'],
                                      ['listCons', ['attr', ['var', 'task'], 'parent_id'],
                                       ['listCons',
                                        ['prim', 'join',
                                         ['listCons', ['prim', 'lit:;', ['listNil']],
                                          ['listComp', ['prim', 'str', ['listCons', ['var', 'pid'], ['listNil']]],
                                           'pid', ['attr', ['var', 'task'], 'predecessor_ids'], ['bool', True]]]],
                                        ['listNil']]]]]]]]]]],
                              ['listComp',
                               ['ite',
                                ['and',
                                 ['isIn', ['var', 'k'],
                                  ['prim', '__dict__', ['listCons', ['var', 'task'], ['listNil']]]],
                                 ['not',
                                  ['prim', 'startswith',
                                   ['listCons', ['var', 'k'],
                                    ['listCons', ['prim', 'lit:_', ['listNil']], ['listNil']]]]]],
                                ['callFn', 7,
                                 ['listCons',
                                  ['prim', '__getattribute__',
                                   ['listCons', ['var', 'task'], ['listCons', ['var', 'k'], ['listNil']]]],
                                  ['listNil']]],
                                ['prim', 'lit:', ['listNil']]],
                               'k', ['var', 'field_list'], ['bool', True]]]]]]]]],
               'origin': 'write_csv',
               'params': ['wbs', 'path', 'encoding', 'delimiter']}}


if __name__ == '__main__':
    # python3 extract_csv.py <csv_io.py> <raw.py> [<out.lean> | --pinned]
    import sys
    d = extract(open(sys.argv[1]).read(), open(sys.argv[2]).read())
    if len(sys.argv) > 3 and sys.argv[3] == '--pinned':
        import pprint
        pprint.pprint(d, width=118, compact=True)
        sys.exit(0)
    text = to_lean(d)
    if len(sys.argv) > 3:
        with open(sys.argv[3], 'w') as f:
            f.write(text)
    else:
        sys.stdout.write(text)
