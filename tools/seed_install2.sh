#!/bin/sh
# seed_install2.sh <key> <Cxx> <seed-id> "<needs>" : like seed_install.sh for candidates whose scratch worktree is /tmp/wt/<key> (key != property id)
K=$1; P=$2; ID=$3; NEEDS=$4
D=/verif/seeded/$ID
mkdir -p $D
cp /tmp/wt/$K/patch_$K.diff $D/patch.diff
cp /tmp/wt/$K/demo_$K.py $D/demo.py
python3 - "$P" "$ID" "$NEEDS" <<'PY'
import json, sys
p, sid, needs = sys.argv[1:4]
json.dump({'id': sid, 'property': p, 'needs': needs,
           'validated': 'tools/seed_validate.sh: unedited suite 84 passed / 4 clock-bound failures with the patch as without; demo.py exits 0 on the unchanged tree and 1 with the patch',
           'origin': 'independent sub-agent given only the property text and a scratch worktree',
           'checks': [p]}, open(f'/verif/seeded/{sid}/meta.json', 'w'), indent=1)
PY
echo installed $D
