#!/usr/bin/env python3
"""seed_history.py <seed-id> "<text>" : record in seeded/<id>/meta.json what the check did when the change first arrived"""
import json, sys
p = f'/verif/seeded/{sys.argv[1]}/meta.json'
m = json.load(open(p)); m['history'] = sys.argv[2]; json.dump(m, open(p, 'w'), indent=1)
