#!/venv/bin/python
"""coverage_audit.py [n_cases] : which executable lines of /repo/src/pjplan does the implementation side of the quick streams
never reach?  A generator audit (not a check): every family's stream is run on the implementation only, under a line tracer
(sys.monitoring), and the lines of the modelled modules that no stream executed are printed with their source text.  A line
that stays dark is a behaviour no correspondence case can ever disagree about."""
import ast, importlib, os, sys

V = os.path.dirname(os.path.dirname(os.path.abspath(__file__)))
REPO = os.environ.get('PJPLAN_REPO', '/repo')
sys.path[:0] = [os.path.join(REPO, 'src'), os.path.join(V, 'harness')]
SRC = os.path.join(REPO, 'src', 'pjplan')

import common  # noqa: E402
import main    # noqa: E402

hit = {}


def on_line(code, line):
    f = code.co_filename
    if f.startswith(SRC):
        hit.setdefault(f, set()).add(line)
    else:
        return sys.monitoring.DISABLE


def executable_lines(path):
    tree = ast.parse(open(path).read())
    lines = set()
    for node in ast.walk(tree):
        if isinstance(node, ast.stmt) and not isinstance(node, (ast.FunctionDef, ast.ClassDef, ast.AsyncFunctionDef, ast.Import, ast.ImportFrom)):
            if isinstance(node, ast.Expr) and isinstance(node.value, ast.Constant) and isinstance(node.value.value, str):
                continue        # docstring
            if isinstance(node, ast.Pass):
                continue
            lines.add(node.lineno)
    return lines


def run(n):
    mon = sys.monitoring
    tool = mon.COVERAGE_ID
    mon.use_tool_id(tool, 'verif-audit')
    mon.register_callback(tool, mon.events.LINE, on_line)
    mon.set_events(tool, mon.events.LINE)
    per_prop = {}
    try:
        for prop, famname in sorted(main.FAMILY_OF.items()):
            fam = importlib.import_module(famname)
            cnt = min(n, fam.count(prop, 'quick'))
            before = {f: set(s) for f, s in hit.items()}
            for i in range(cnt):
                case = fam.random_case(prop, common.case_rng(0, i, prop), 'quick')
                try:
                    fam.execute(prop, case)
                except Exception as e:  # noqa
                    print('execute failed', prop, type(e).__name__, e)
                    break
            per_prop[prop] = sum(len(s - before.get(f, set())) for f, s in hit.items())
    finally:
        mon.set_events(tool, 0)
        mon.free_tool_id(tool)
    return per_prop


if __name__ == '__main__':
    n = int(sys.argv[1]) if len(sys.argv) > 1 else 400
    per = run(n)
    total_exec = total_hit = 0
    for root, _, names in os.walk(SRC):
        for name in sorted(names):
            if not name.endswith('.py') or name == '__init__.py':
                continue
            p = os.path.join(root, name)
            ex = executable_lines(p)
            got = hit.get(p, set()) & ex
            total_exec += len(ex)
            total_hit += len(got)
            dark = sorted(ex - got)
            print(f'== {os.path.relpath(p, SRC)}: {len(got)}/{len(ex)} executable lines reached')
            src = open(p).read().splitlines()
            for ln in dark:
                print(f'   {ln:4d}  {src[ln - 1].strip()[:110]}')
    print(f'TOTAL {total_hit}/{total_exec}')
